#!/usr/bin/env python3
"""Development aid: (re)builds the `fixed` entries of known_findings.json from a run of the checker
on the pinned commit, mapping each obligation that fires there (and no longer fires on the current
tree) to the fix commit that repaired it. `known` entries are kept as they are. Never run by a check."""
import json, subprocess, re, sys
PINNED='/tmp/seed/pinned'
RULES=[ # (property, key regex, commit subject prefix, what)
 ('C11', r'no-operand-write:sbom\.\(\*NodeList\)\.Equal#', 'fix: NodeList.Equal sorted', 'NodeList.Equal sorted both operands\' RootElements in place'),
 ('C11', r'no-operand-write:sbom\.(\(\*Edge\)\.(Equal|flatString)|\(\*Node\)\.Diff|diffList)#', 'fix: Edge.flatString sorted', 'Edge.flatString sorted the edge\'s To list in place (reached from Edge.Equal, NodeList.Equal and, through the Flattenable interface, the diff helpers)'),
 ('C11', r'no-operand-(write|append):sbom\.(\(\*Person\)\.Copy|\(\*Node\)\.Copy|copyNodeSlice|\(\*NodeList\)\.Copy)#', 'fix: Person.Copy dropped', 'Person.Copy appended copies to each contact\'s own Contacts (reached from Node.Copy, NodeList.Copy, Union, Intersect)'),
 ('C11', r'no-operand-(write|append):sbom\.\(\*NodeList\)\.Union#', 'fix: Union result shared', 'Union appended to the receiver\'s RootElements backing array and, through shallow edge copies and shared node pointers, wrote operand edges and nodes'),
 ('C11', r'no-operand-(write|append):sbom\.\(\*NodeList\)\.Intersect#', 'fix: Edge.Copy shared', 'Intersect appended to operand edges\' To lists through shallow Edge copies'),
 ('C12', r'copy-field-exhaustive:sbom\.\(\*Person\)\.Copy#Contacts', 'fix: Person.Copy dropped', 'Person.Copy never filled the copy\'s Contacts'),
 ('C12', r'copy-preserves-nil:sbom\.\(\*Person\)\.Copy#Contacts', 'fix: Person.Copy dropped', 'Person.Copy turned nil Contacts into a non-nil empty list, which Person equality distinguishes'),
 ('C12', r'no-operand-alias-in-result:sbom\.\(\*Node\)\.Copy#PrimaryPurpose', 'fix: Node.Copy shared', 'Node.Copy shared the PrimaryPurpose slice'),
 ('C12', r'no-operand-alias-in-result:sbom\.(\(\*Edge\)\.Copy#To|copyEdgeList#original)', 'fix: Edge.Copy shared', 'Edge.Copy shared the To slice'),
 ('C12', r'no-operand-alias-in-result:sbom\.(\(\*Node\)\.Copy#nested|\(\*NodeList\)\.Copy#nested|copyNodeSlice#original)', 'fix: Node.Copy shared', 'copies of nodes shared PrimaryPurpose with their sources (seen through NodeList.Copy / copyNodeSlice)'),
 ('C12', r'no-operand-alias-in-result:sbom\.\(\*NodeList\)\.Union#', 'fix: Union result shared', 'Union result shared RootElements, argument node pointers and the argument\'s attribute lists with its operands'),
 ('C12', r'no-operand-alias-in-result:sbom\.\(\*NodeList\)\.Intersect#', 'fix: Intersect result shared', 'Intersect result shared attribute lists with its second operand (and edge targets through shallow Edge copies)'),
 ('C13', r'encode-exhaustive:sbom\.\(\*ExternalReference\)\.flatString#Hashes', 'fix: ExternalReference equality', 'ExternalReference.flatString ignored Hashes: references differing only in hashes compared equal'),
 ('C14', r'encode-exhaustive:sbom\.\(\*ExternalReference\)\.flatString#Hashes', 'fix: ExternalReference equality', 'a difference only in an external reference\'s hashes was not reported by Diff'),
 ('C04', r'absent-part-guard:unserializers\.\(\*CDX\)\.licenseChoicesToLicense(List|String)#lc\.License', 'fix: CycloneDX reader panicked', 'a licence choice without a licence object ({} or {"expression":""}) dereferenced the nil License pointer'),
 ('C04', r'absent-part-guard:unserializers\.\(\*SPDX23\)\.(Unserialize#[fp]|packageToNode#r)$', 'fix: SPDX reader panicked on null entries', 'null entries in files / packages / externalRefs reached fileToNode / packageToNode / extRefToProtobomEnum as nil pointers'),
 ('C07', r'absent-part-guard:(serializers\.\(\*CDX\)\.|serializers\.sbomTypeToPhase)', 'fix: CycloneDX serializer panicked', 'CycloneDX Serialize dereferenced absent metadata / node list / document-type name / nil list entries'),
 ('C07', r'absent-part-guard:sbom\.\(\*NodeList\)\.GetNodeByID', 'fix: GetNodeByID panicked', 'GetNodeByID dereferenced a nil node entry'),
 ('C07', r'absent-part-guard:(serializers\.\(\*SPDX23\)\.|serializers\.build)', 'fix: SPDX 2.3 serializer panicked', 'SPDX 2.3 Serialize/Render dereferenced an absent node list, nil list entries, nil render options, and asserted the native document type without comma-ok'),
 ('C07', r'absent-part-guard:beta\.', 'fix: SPDX 3 serializer panicked', 'SPDX 3 Serialize/Render dereferenced a nil document, an absent node list, nil list entries and nil render options'),
 ('C07', r'absent-part-guard:writer\.', 'fix: WriteStreamWithOptions panicked', 'WriteStreamWithOptions dereferenced nil options and invoked a nil serializer returned by GetFormatSerializer'),
 ('C16', r'loop-totality:sbom\.\(\*NodeList\)\.GetRootNodes/Nodes#exit:break', 'fix: GetRootNodes stopped scanning', 'GetRootNodes left its loop once it had as many nodes as root identifiers: with two nodes sharing a root identifier (Nodes [a,a,b], roots [a,b]) root b was dropped, depending on list order'),
 ('C16', r'loop-totality:sbom\.\(\*NodeList\)\.GetMatchingNode/\[\]\*sbom\.Node#skip:dedupe', 'fix: GetMatchingNode merged distinct nodes', 'hash matches were keyed by node identifier: two distinct nodes sharing an identifier and both matching the probe were folded into one and the first in list order was returned instead of ErrorMoreThanOneMatch'),
 ('C04', r'panicking-decoder-contained:unserializers\.\(\*SPDX23\)\.Unserialize#github\.com/spdx/tools-golang/json\.Read', 'fix: SPDX reader panicked on a null entry', 'an SPDX JSON document with "packages":[null] makes tools-golang dereference a nil pointer while decoding; the panic left Unserialize / ParseStream instead of an error (reported by a round-11 mutation agent as already present, reproduced with reader.New().ParseStream)'),
 ('C07', r'nesting-is-acyclic:serializers\.\(\*CDX\)\.dependencies#attach', 'fix: CycloneDX serializer overflowed the stack', 'a contains edge from a node to itself appended a by-value copy of the component to its own child list (shared pointer, cyclic structure): with the node also nested under another top-level component (edges [a contains a], [b contains a]) clearAutoRefs recursed until the stack overflowed — a fatal error, not an error return'),
 ('C19', r'absent-part-guard:storage\.\(\*FileSystem\)\.Store#bom', 'fix: FileSystem.Store panicked on a nil document', 'FileSystem.Store(nil, …) dereferenced bom.Metadata: nil pointer panic instead of the "no document id set" error'),
 ('C07', r'map-order-independence:serializers\.\(\*CDX\)\.nodeToComponent/Identifiers#c\.CPE', 'fix: CycloneDX serializer picks the component CPE', 'with an empty CPE 2.3 identifier next to a non-empty CPE 2.2 one, the emitted component cpe depended on map iteration order (Identifiers{CPE23:"",CPE22:"cpe:/a:v:p:1"}: 266 of 300 runs emitted the cpe, 34 omitted it)'),
 ('C01', r'loop-totality:serializers\.\(\*SPDX23\)\.buildPackages/Nodes#exit:break', 'fix: SPDX 2.3 serializer dropped', 'a package with two primary purposes truncated the SPDX package list (break out of the node loop)'),
 ('C03', r'loop-totality:serializers\.\(\*SPDX23\)\.buildPackages/Nodes#exit:break', 'fix: SPDX 2.3 serializer dropped', 'a package with two primary purposes truncated the SPDX package list (break out of the node loop)'),
 ('C09', r'merge-callee:sbom\.\(\*NodeList\)\.Add', 'fix: NodeList.Add augmented', 'Add called Augment on a node with itself: in-place add never filled empty attributes'),
 ('C17', r'package-state:reader\.unserializers@reader\.GetFormatUnserializer', 'fix: GetFormatUnserializer read', 'GetFormatUnserializer read the registry map without regMtx while Register/Unregister write it under the lock'),
 ('C17', r'(package-state|no-hidden-state):formats\.state', 'fix: the line-based format sniffer', 'the line-based sniffer reset and updated a package-level scratch map on every SniffReader call: concurrent tag-value sniffing races (concurrent map writes)'),
 ('C17', r'published-default:', 'fix: every Reader and Writer shared', 'New published the package-level defaultOptions pointer into every instance'),
 ('C18', r'published-default:', 'fix: every Reader and Writer shared', 'New published the package-level defaultOptions pointer into every instance: an option given to one instance changed all others'),
 ('C18', r'per-call-reads-argument:(writer\.\(\*Writer\)\.Store|reader\.\(\*Reader\)\.Retrieve)', 'fix: every Reader and Writer shared', 'Store/Retrieve passed the package default options instead of the instance\'s'),
 ('C18', r'per-call-reads-argument:reader\.\(\*Reader\)\.ParseStreamWithOptions', 'fix: ParseStreamWithOptions ignored', 'ParseStreamWithOptions read format options from the reader instead of the per-call options'),
 ('C19', r'no-process-exit:', 'fix: Retrieve terminated', 'Retrieve called logrus.Fatal on a missing or corrupt entry'),
 ('C19', r'directory-mode:', 'fix: Store created the data directory', 'MkdirAll with mode 0644 created an unusable directory'),
 ('C19', r'retrieve-validates:', 'fix: Retrieve returned an empty document', 'Retrieve returned an empty document for an empty or foreign entry (no identity check); decode failures exited the process'),
 ('C20', r'(no-inplace-write|replace-protocol):', 'fix: Store overwrote entries in place', 'os.WriteFile on the final path: a crash between truncation and write left an empty or partial entry'),
 ('C15', r'absent-part-guard:sbom\.\(\*NodeList\)\.connectedIndexRecursion#siblings', 'fix: NodeSiblings returned nil', 'NodeGraph("") on a list holding a node with an empty id dereferenced the nil list NodeSiblings("") returned'),
 ('C03', r'placed-implies-attached:', 'fix: CycloneDX serializer dropped components', 'the dependsOn branch marked dependency targets as placed without attaching them: the component vanished while the dependency list still referred to it'),
 ('C01', r'date-format-agreement:', 'fix: SPDX 2.3 serializer wrote package dates', 'package dates were written with Timestamp.String() (protobuf text format), which the reader cannot parse'),
 ('C01', r'round-trip-path:spdx-package#Originators', 'fix: SPDX 2.3 serializer wrote the originator', 'the first originator was written into PackageSupplier (overwriting the supplier); PackageOriginator was never set'),
 ('C08', r'removal-updates-roots:', 'fix: RemoveNodes left', 'RemoveNodes left removed identifiers in RootElements'),
 ('C09', r'self-merge:', 'fix: NodeList.Add augmented', 'Add called Augment on a node with itself: in-place add never filled empty attributes'),
 ('C15', r'absent-part-guard:sbom\.\(\*NodeList\)\.connectedIndexRecursion#siblings', 'fix: NodeSiblings returned nil', 'NodeGraph("") on a list holding a node with an empty id dereferenced the nil list NodeSiblings("") returned'),
 ('C03', r'placed-implies-attached:', 'fix: CycloneDX serializer dropped components', 'the dependsOn branch marked dependency targets as placed without attaching them: the component vanished while the dependency list still referred to it'),
 ('C01', r'date-format-agreement:', 'fix: SPDX 2.3 serializer wrote package dates', 'package dates were written with Timestamp.String() (protobuf text format), which the reader cannot parse'),
 ('C01', r'round-trip-path:spdx-package#Originators', 'fix: SPDX 2.3 serializer wrote the originator', 'the first originator was written into PackageSupplier (overwriting the supplier); PackageOriginator was never set'),
 ('C08', r'removal-updates-roots:', 'fix: RemoveNodes left', 'RemoveNodes left removed identifiers in RootElements'),
]
EXTRA=[]
log=subprocess.run(['git','-C','/repo','log','--format=%h %s'],capture_output=True,text=True).stdout.splitlines()
def commit(prefix):
    for l in log:
        h,sub=l.split(' ',1)
        if sub.startswith(prefix): return h
    raise SystemExit('no commit for '+prefix)
cur=json.load(open('/verif/known_findings.json'))
out=[f for f in cur if f.get('status')=='known']
props=sorted(set(r[0] for r in RULES))
import os
for p in props:
    r=subprocess.run(['/verif/bin/protolint','-repo',PINNED,'-property',p,'-no-evidence'],capture_output=True,text=True)
    if r.returncode>=2:
        print('skip',p,r.stderr[-200:]); continue
    for line in r.stdout.splitlines():
        m=re.match(r'FIRED (\S+) (\S+) ',line)
        if not m: continue
        key=m.group(2)
        for (pp,rx,pref,what) in RULES:
            if pp==p and re.match(rx,key):
                out.append({'property':p,'key':key,'status':'fixed','commit':commit(pref),'what':what}); break
seen=set(); res=[]
for f in out:
    k=(f['property'],f['key'],f['status'])
    if k in seen: continue
    seen.add(k); res.append(f)
json.dump(res,open('/verif/known_findings.json','w'),indent=1)
print(len(res),'entries')
