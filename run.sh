#!/bin/sh
# usage: ./run.sh <property> [quick|thorough]
# Static check of one property against /repo's current working tree (loaded and type-checked on
# every run). Exit 0: every obligation discharged or a listed known finding; exit 1 + VIOLATION
# lines: an unlisted violated or undecided obligation; exit 2: environment/checker fault.
#
# thorough = quick + (a) the overlay self-test of the checker (mutant/benign corpus) and (b) a
# replay of the stored seeded changes of this property and of the stored behaviour-preserving
# refactorings, each applied to a scratch copy of the current tree outside /repo and /verif (removed
# afterwards). (b) measures the check's detection power and silence on today's tree; it prints
# REPLAY lines and SELFTEST-WARNING lines and never changes the exit status.
cd "$(dirname "$0")" || exit 2
export GOFLAGS=-mod=mod GOPROXY=off GOSUMDB=off GOTOOLCHAIN=local
unset GOWORK
REPO="${VERIF_REPO:-/repo}"
if [ ! -x bin/protolint ] || [ -n "$(find checker -newer bin/protolint -name '*.go' 2>/dev/null | head -1)" ]; then
  (cd checker && go build -o ../bin/protolint .) || exit 2
fi
P="$1"; TIER="${2:-${VERIF_TIER:-quick}}"
bin/protolint -repo "$REPO" -verif "$(pwd)" -property "$P" -tier "$TIER"
rc=$?
[ "$TIER" = thorough ] || exit $rc
[ "${VERIF_NO_REPLAY:-}" = 1 ] && exit $rc
V=$(pwd)
S=$(mktemp -d /tmp/verif-replay.XXXXXX) || exit $rc
trap 'rm -rf "$S"' EXIT INT TERM
W="${VERIF_REPLAY_WORKERS:-8}"
# W scratch copies of the working tree (no .git needed: git apply works on plain directories); the
# stored diffs are dealt out to the copies, each copy replays its share one after the other
i=0
while [ $i -lt $W ]; do
  mkdir -p "$S/w$i" && (cd "$REPO" && tar --exclude=.git -cf - .) | (cd "$S/w$i" && tar -xf -) || { echo "SELFTEST-WARNING: cannot copy $REPO"; exit $rc; }
  i=$((i+1))
done
base="$S/.base"; "$V/bin/protolint" -repo "$REPO" -verif "$V" -property "$P" -no-evidence 2>/dev/null | grep '^FIRED' | awk '{print $3}' | sort > "$base"
# job list: kind<TAB>id<TAB>diff
: > "$S/jobs"
for sd in "$V"/seeded/"$P"-*/; do
  [ -f "$sd/patch.diff" ] && printf 'seed\t%s\t%s\n' "$(basename "$sd")" "$sd/patch.diff" >> "$S/jobs"
done
for bd in "$V"/benign/*.diff; do
  [ -f "$bd" ] && printf 'benign\t%s\t%s\n' "$(basename "$bd")" "$bd" >> "$S/jobs"
done
worker() {
  w=$1; n=0
  while IFS="$(printf '\t')" read -r kind id diff; do
    n=$((n+1))
    [ $(( (n-1) % W )) -eq "$w" ] || continue
    D="$S/w$w"
    if ! (cd "$D" && git apply --check "$diff" 2>/dev/null); then echo "$kind na $id"; continue; fi
    (cd "$D" && git apply "$diff")
    new=$("$V/bin/protolint" -repo "$D" -verif "$V" -property "$P" -no-evidence 2>/dev/null | grep '^FIRED' | awk '{print $3}' | sort | comm -13 "$base" - | head -1)
    (cd "$D" && git apply -R "$diff")
    if [ -n "$new" ]; then echo "$kind fired $id $new"; else echo "$kind quiet $id"; fi
  done < "$S/jobs" > "$S/out$w"
}
i=0
while [ $i -lt $W ]; do worker $i & i=$((i+1)); done
wait
cat "$S"/out* > "$S/results" 2>/dev/null
caught=$(grep -c '^seed fired' "$S/results"); missed=$(grep -c '^seed quiet' "$S/results"); na=$(grep -c '^seed na' "$S/results")
silent=$(grep -c '^benign quiet' "$S/results"); noisy=$(grep -c '^benign fired' "$S/results"); bna=$(grep -c '^benign na' "$S/results")
grep '^seed quiet' "$S/results" | while read -r _ _ id; do echo "SELFTEST-WARNING: seeded change $id is not reported by $P"; done
grep '^benign fired' "$S/results" | while read -r _ _ id new; do echo "SELFTEST-WARNING: behaviour-preserving refactoring $id makes $P report $new"; done
echo "REPLAY $P: seeded changes $caught caught, $missed missed, $na not applicable; refactorings $silent silent, $noisy noisy, $bna not applicable"
# record what the replay covered in the evidence file the checker just wrote
if command -v jq >/dev/null 2>&1 && [ -f "$V/evidence/$P.json" ]; then
  jq --argjson c "$caught" --argjson m "$missed" --argjson n "$na" --argjson s "$silent" --argjson y "$noisy" --argjson b "$bna" \
    '.coverage.replay = {seeded_changes_caught: $c, seeded_changes_missed: $m, seeded_changes_not_applicable: $n, refactorings_silent: $s, refactorings_noisy: $y, refactorings_not_applicable: $b}' \
    "$V/evidence/$P.json" > "$S/.ev" && cp "$S/.ev" "$V/evidence/$P.json"
fi
exit $rc
