#!/bin/sh
# usage: ./run.sh <property> [quick|thorough]
# Static check of one property against /repo's current working tree (loaded and type-checked on
# every run). Exit 0: every obligation discharged or a listed known finding; exit 1 + VIOLATION
# lines: an unlisted violated or undecided obligation; exit 2: environment/checker fault.
cd "$(dirname "$0")" || exit 2
export GOFLAGS=-mod=mod GOPROXY=off GOSUMDB=off GOTOOLCHAIN=local
unset GOWORK
REPO="${VERIF_REPO:-/repo}"
if [ ! -x bin/protolint ] || [ -n "$(find checker -newer bin/protolint -name '*.go' 2>/dev/null | head -1)" ]; then
  (cd checker && go build -o ../bin/protolint .) || exit 2
fi
exec bin/protolint -repo "$REPO" -verif "$(pwd)" -property "$1" -tier "${2:-${VERIF_TIER:-quick}}"
