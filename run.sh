#!/bin/sh
# usage: ./run.sh <property> [quick|thorough]
# Static check of one property against /repo's current working tree (loaded and type-checked on
# every run). Exit 0: every obligation discharged or a listed known finding; exit 1 + VIOLATION
# lines: an unlisted violated or undecided obligation; exit 2: environment/checker fault.
#
# thorough = quick + (a) the overlay self-test of the checker (mutant/benign corpus) and (b) a
# replay of the stored seeded changes of this property and of the stored behaviour-preserving
# refactorings, each applied to a scratch copy of the current tree outside /repo and /verif (removed
# afterwards). (b) measures the check's detection power and silence on today's tree; it prints
# REPLAY lines and SELFTEST-WARNING lines and never changes the exit status.
cd "$(dirname "$0")" || exit 2
export GOFLAGS=-mod=mod GOPROXY=off GOSUMDB=off GOTOOLCHAIN=local
unset GOWORK
REPO="${VERIF_REPO:-/repo}"
if [ ! -x bin/protolint ] || [ -n "$(find checker -newer bin/protolint -name '*.go' 2>/dev/null | head -1)" ]; then
  (cd checker && go build -o ../bin/protolint .) || exit 2
fi
P="$1"; TIER="${2:-${VERIF_TIER:-quick}}"
bin/protolint -repo "$REPO" -verif "$(pwd)" -property "$P" -tier "$TIER"
rc=$?
[ "$TIER" = thorough ] || exit $rc
[ "${VERIF_NO_REPLAY:-}" = 1 ] && exit $rc
V=$(pwd)
S=$(mktemp -d /tmp/verif-replay.XXXXXX) || exit $rc
trap 'rm -rf "$S"' EXIT INT TERM
# scratch copy of the working tree (no .git needed: git apply works on plain directories)
(cd "$REPO" && tar --exclude=.git -cf - .) | (cd "$S" && tar -xf -) || { echo "SELFTEST-WARNING: cannot copy $REPO"; exit $rc; }
base="$S/.base"; "$V/bin/protolint" -repo "$REPO" -verif "$V" -property "$P" -no-evidence 2>/dev/null | grep '^FIRED' | awk '{print $3}' | sort > "$base"
caught=0; missed=0; na=0
for sd in "$V"/seeded/"$P"-*/; do
  [ -f "$sd/patch.diff" ] || continue
  id=$(basename "$sd")
  if ! (cd "$S" && git apply --check "$sd/patch.diff" 2>/dev/null); then na=$((na+1)); continue; fi
  (cd "$S" && git apply "$sd/patch.diff")
  new=$("$V/bin/protolint" -repo "$S" -verif "$V" -property "$P" -no-evidence 2>/dev/null | grep '^FIRED' | awk '{print $3}' | sort | comm -13 "$base" - | head -1)
  (cd "$S" && git apply -R "$sd/patch.diff")
  if [ -n "$new" ]; then caught=$((caught+1)); else missed=$((missed+1)); echo "SELFTEST-WARNING: seeded change $id is not reported by $P"; fi
done
silent=0; noisy=0; bna=0
for bd in "$V"/benign/*.diff; do
  [ -f "$bd" ] || continue
  if ! (cd "$S" && git apply --check "$bd" 2>/dev/null); then bna=$((bna+1)); continue; fi
  (cd "$S" && git apply "$bd")
  new=$("$V/bin/protolint" -repo "$S" -verif "$V" -property "$P" -no-evidence 2>/dev/null | grep '^FIRED' | awk '{print $3}' | sort | comm -13 "$base" - | head -1)
  (cd "$S" && git apply -R "$bd")
  if [ -z "$new" ]; then silent=$((silent+1)); else noisy=$((noisy+1)); echo "SELFTEST-WARNING: behaviour-preserving refactoring $(basename "$bd") makes $P report $new"; fi
done
echo "REPLAY $P: seeded changes $caught caught, $missed missed, $na not applicable; refactorings $silent silent, $noisy noisy, $bna not applicable"
# record what the replay covered in the evidence file the checker just wrote
if command -v jq >/dev/null 2>&1 && [ -f "$V/evidence/$P.json" ]; then
  jq --argjson c "$caught" --argjson m "$missed" --argjson n "$na" --argjson s "$silent" --argjson y "$noisy" --argjson b "$bna" \
    '.coverage.replay = {seeded_changes_caught: $c, seeded_changes_missed: $m, seeded_changes_not_applicable: $n, refactorings_silent: $s, refactorings_noisy: $y, refactorings_not_applicable: $b}' \
    "$V/evidence/$P.json" > "$S/.ev" && cp "$S/.ev" "$V/evidence/$P.json"
fi
exit $rc
