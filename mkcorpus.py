#!/usr/bin/env python3
"""Builds /verif/selftest_corpus.json (development aid). Each entry is one textual edit of a
file of /repo; `find` must occur exactly once in the current tree (otherwise the thorough tier
reports the entry as not applicable)."""
import json
S23='pkg/native/serializers/serializer_spdx23.go'
U23='pkg/native/unserializers/unserializer_spdx23.go'
SCDX='pkg/native/serializers/serializer_cdx.go'
UCDX='pkg/native/unserializers/unserializer_cdx.go'
NL='pkg/sbom/nodelist.go'; NODE='pkg/sbom/node.go'; EDGE='pkg/sbom/edge.go'; PERS='pkg/sbom/person.go'; EXT='pkg/sbom/externalreference.go'
DIFF='pkg/sbom/diff.go'; FUNCS='pkg/sbom/functions.go'; HASH='pkg/sbom/hashalgorithm.go'; IDENT='pkg/sbom/identifier.go'
RD='pkg/reader/reader.go'; WR='pkg/writer/writer.go'; SNIFF='pkg/formats/sniffer.go'; FMTS='pkg/formats/formats.go'; FS='pkg/storage/filesystem.go'
WOPT='pkg/writer/options.go'; ROPT='pkg/reader/options.go'
def m(name,file,find,replace,expect='',why=''): return dict(name=name,file=file,find=find,replace=replace,expect=expect,why=why)
C={}
C['C01']=dict(mutants=[
 m('date-rounded',S23,'p.ReleaseDate = node.ReleaseDate.AsTime().UTC().Format(time.RFC3339)','p.ReleaseDate = node.ReleaseDate.AsTime().UTC().Round(time.Second).Format(time.RFC3339)','date-format-agreement'),
 m('last-supplier-wins',S23,'\t\tif len(node.Suppliers) > 0 && node.Suppliers[0] != nil {\n\t\t\t// TODO(degradation): URL, Phone are lost if set\n\t\t\t// TODO(degradation): If is more than one supplier, it will be lost\n\t\t\tp.PackageSupplier = &spdx.Supplier{\n\t\t\t\tSupplier:     node.Suppliers[0].ToSPDX2ClientString(),\n\t\t\t\tSupplierType: node.Suppliers[0].ToSPDX2ClientOrg(),\n\t\t\t}\n\t\t}\n','\t\tvar supplier *sbom.Person\n\t\tfor _, sp := range node.Suppliers {\n\t\t\tif sp == nil {\n\t\t\t\tcontinue\n\t\t\t}\n\t\t\tsupplier = sp\n\t\t}\n\t\tif supplier != nil {\n\t\t\tp.PackageSupplier = &spdx.Supplier{\n\t\t\t\tSupplier:     supplier.ToSPDX2ClientString(),\n\t\t\t\tSupplierType: supplier.ToSPDX2ClientOrg(),\n\t\t\t}\n\t\t}\n','first-actor-written'),
 m('edge-label-typo',EDGE,'\t\treturn "AMENDS"\n','\t\treturn "AMEND"\n','table-inverse'),
 m('hash-reader-swapped',HASH,'\tcase common.SHA1:\n\t\treturn HashAlgorithm_SHA1','\tcase common.SHA1:\n\t\treturn HashAlgorithm_SHA256','table-inverse'),
 m('endpoint-lowercased',S23,'RefA:         common.MakeDocElementID("", e.From),','RefA:         common.MakeDocElementID("", strings.ToLower(e.From)),','verbatim-identifiers'),
 m('date-layout',S23,'p.ReleaseDate = node.ReleaseDate.AsTime().UTC().Format(time.RFC3339)','p.ReleaseDate = node.ReleaseDate.AsTime().UTC().Format(time.RFC1123)','date-format-agreement'),
 m('package-loop-cap',S23,'\t\tpackages = append(packages, &p)\n','\t\tpackages = append(packages, &p)\n\t\tif len(packages) > 4096 {\n\t\t\tbreak\n\t\t}\n','loop-totality'),
 m('document-literal-case',U23,'r.RefA.ElementRefID == "DOCUMENT"','r.RefA.ElementRefID == "Document"','constant-agreement'),
 m('purpose-reader-wrong',U23,'\tcase "FRAMEWORK":\n\t\tn.PrimaryPurpose = []sbom.Purpose{sbom.Purpose_FRAMEWORK}','\tcase "FRAMEWORK":\n\t\tn.PrimaryPurpose = []sbom.Purpose{sbom.Purpose_LIBRARY}','table-section'),
 m('originator-read-into-suppliers',U23,'\t\tn.Originators = []*sbom.Person{{Name: p.PackageOriginator.Originator}}','\t\tn.Suppliers = []*sbom.Person{{Name: p.PackageOriginator.Originator}}','round-trip-path'),
 m('files-skip-inverted',S23,'if node == nil || node.Type == sbom.Node_PACKAGE {','if node == nil || node.Type != sbom.Node_PACKAGE {','loop-totality'),
 m('reader-uses-old-edge-table',U23,'Type: sbom.EdgeTypeFromSPDX2(r.Relationship),','Type: sbom.EdgeTypeFromSPDX(r.Relationship),','table-inverse'),
],benign=[
 m('first-supplier-loop',S23,'\t\tif len(node.Suppliers) > 0 && node.Suppliers[0] != nil {\n\t\t\t// TODO(degradation): URL, Phone are lost if set\n\t\t\t// TODO(degradation): If is more than one supplier, it will be lost\n\t\t\tp.PackageSupplier = &spdx.Supplier{\n\t\t\t\tSupplier:     node.Suppliers[0].ToSPDX2ClientString(),\n\t\t\t\tSupplierType: node.Suppliers[0].ToSPDX2ClientOrg(),\n\t\t\t}\n\t\t}\n','\t\tvar supplier *sbom.Person\n\t\tfor _, sp := range node.Suppliers {\n\t\t\tif sp == nil {\n\t\t\t\tcontinue\n\t\t\t}\n\t\t\tsupplier = sp\n\t\t\tbreak\n\t\t}\n\t\tif supplier != nil {\n\t\t\tp.PackageSupplier = &spdx.Supplier{\n\t\t\t\tSupplier:     supplier.ToSPDX2ClientString(),\n\t\t\t\tSupplierType: supplier.ToSPDX2ClientOrg(),\n\t\t\t}\n\t\t}\n'),

 m('rename-loop-var',S23,'\t\tfor _, dest := range e.To {\n\t\t\trel := spdx.Relationship{\n\t\t\t\tRefA:         common.MakeDocElementID("", e.From),\n\t\t\t\tRefB:         common.MakeDocElementID("", dest),','\t\tfor _, target := range e.To {\n\t\t\trel := spdx.Relationship{\n\t\t\t\tRefA:         common.MakeDocElementID("", e.From),\n\t\t\t\tRefB:         common.MakeDocElementID("", target),'),
 m('getter-for-id',S23,'PackageSPDXIdentifier: common.ElementID(node.Id),','PackageSPDXIdentifier: common.ElementID(node.GetId()),'),
 m('reorder-cases',EDGE,'\tcase Edge_amends:\n\t\treturn "AMENDS"\n\tcase Edge_ancestor:\n\t\treturn "ANCESTOR_OF"\n','\tcase Edge_ancestor:\n\t\treturn "ANCESTOR_OF"\n\tcase Edge_amends:\n\t\treturn "AMENDS"\n'),
])
C['C02']=dict(mutants=[
 m('file-kind-by-shape',UCDX,'\tif u.componentTypeToPurpose(c.Type) == sbom.Purpose_FILE {','\tif u.componentTypeToPurpose(c.Type) == sbom.Purpose_FILE && (c.Components == nil || len(*c.Components) == 0) {','reader-attribute-independence'),
 m('unknown-phase-typed',UCDX,'\t\treturn sbom.DocumentType_ANALYZED.Enum()\n\tdefault:\n\t\treturn nil','\t\treturn sbom.DocumentType_ANALYZED.Enum()\n\tdefault:\n\t\treturn sbom.DocumentType_OTHER.Enum()','table-inverse'),
 m('extref-writer-wrong',SCDX,'\tcase sbom.ExternalReference_VCS:\n\t\treturn cdx.ERTypeVCS','\tcase sbom.ExternalReference_VCS:\n\t\treturn cdx.ERTypeWebsite','table-inverse'),
 m('hash-sibling-diverges',FUNCS,'\tcase cdx.HashAlgoSHA1:\n\t\treturn HashAlgorithm_SHA1','\tcase cdx.HashAlgoSHA1:\n\t\treturn HashAlgorithm_SHA256',''),
 m('auto-flag-literal',SCDX,'strings.Contains(flags[0], "-auto")','strings.Contains(flags[0], "-automatic")','constant-agreement'),
 m('purl-not-read',UCDX,'\tif c.PackageURL != "" {\n\t\tnode.Identifiers[int32(sbom.SoftwareIdentifierType_PURL)] = c.PackageURL\n\t}','\tif c.PackageURL != "" {\n\t\tnode.Comment = c.PackageURL\n\t}','round-trip-path'),
 m('extref-hash-loop-breaks',UCDX,'\t\t\t\tnref.Hashes[algo] = h.Value\n','\t\t\t\tnref.Hashes[algo] = h.Value\n\t\t\t\tbreak\n','loop-totality'),
],benign=[
 m('getter-for-name',SCDX,'\t\tName:               n.Name,','\t\tName:               n.GetName(),'),
])
C['C03']=dict(mutants=[
 m('prerequisite-label-duplicated',EDGE,'\t\treturn "HAS_PREREQUISITE"\n','\t\treturn "PREREQUISITE_FOR"\n','relationship-labels-distinct'),
 m('mark-without-attach',SCDX,'\t\t\t\tdepListCheck[targetID] = struct{}{}\n','\t\t\t\tdepListCheck[targetID] = struct{}{}\n\t\t\t\tstate.addedDict[targetID] = struct{}{}\n','placed-implies-attached'),
 m('registry-wrong-version',WR,'serializers.Store(formats.CDX14JSON, drivers.NewCDX("1.4", formats.JSON))','serializers.Store(formats.CDX14JSON, drivers.NewCDX("1.5", formats.JSON))','registry-agreement'),
 m('relationship-dedupe',S23,'\t\tfor _, dest := range e.To {\n','\t\tseen := map[string]bool{}\n\t\tfor _, dest := range e.To {\n\t\t\tif seen[e.From+dest] {\n\t\t\t\tcontinue\n\t\t\t}\n\t\t\tseen[e.From+dest] = true\n',''),
 m('auto-flag-whole-id',SCDX,'\t\t\tflags := strings.Split((*comps)[i].BOMRef, "--")\n\t\t\tif strings.Contains(flags[0], "-auto") {','\t\t\tif strings.Contains((*comps)[i].BOMRef, "-auto") {',''),
],benign=[
 m('components-prealloc',SCDX,'\tcomponents := []cdx.Component{}\n','\tcomponents := make([]cdx.Component, 0, len(s.componentsDict))\n'),
])
C['C04']=dict(mutants=[
 m('lookup-registers-under-read-lock',RD,'\tif u, ok := unserializers[format]; ok {\n\t\treturn u, nil\n\t}\n\treturn nil, fmt.Errorf("no serializer registered for %s", format)','\tif u, ok := unserializers[format]; ok {\n\t\treturn u, nil\n\t}\n\tif u, ok := unserializers[formats.SPDX23JSON]; ok && format == formats.SPDX22JSON {\n\t\tRegisterUnserializer(format, u)\n\t\treturn u, nil\n\t}\n\treturn nil, fmt.Errorf("no serializer registered for %s", format)','no-lock-reentry'),
 m('sniffer-slices-unchecked',SNIFF,'\tstringValue := string(data)\n\n\tif strings.Contains(stringValue, "SPDXVersion:") {','\tstringValue := string(data)\n\tif stringValue[:4] == "SPDX" {\n\t\tstate.Encoding = "text"\n\t}\n\n\tif strings.Contains(stringValue, "SPDXVersion:") {','absent-part-guard'),
 m('sniffer-nil-map',SNIFF,'\tstates := make(sniffStates, len(sniffFormats))\n','\tvar states sniffStates\n','map-write-initialised'),
 m('drop-license-nil-guard',UCDX,'\t\tlicenseID := ""\n\t\tif lc.License != nil {\n\t\t\tlicenseID = lc.License.ID\n\t\t}\n\t\tif lc.Expression == "" && licenseID == "" {\n\t\t\tcontinue\n\t\t}\n\n\t\tif lc.Expression != "" {','\t\tlicenseID := lc.License.ID\n\t\tif lc.Expression == "" && licenseID == "" {\n\t\t\tcontinue\n\t\t}\n\n\t\tif lc.Expression != "" {','absent-part-guard'),
 m('drop-file-nil-guard',U23,'\t\tif f == nil {\n\t\t\tcontinue\n\t\t}\n',' ','absent-part-guard'),
 m('creationinfo-unguarded',U23,'\tif spdxDoc.CreationInfo != nil {\n','\tif spdxDoc != nil {\n','absent-part-guard'),
 m('stale-error',UCDX,'\tmd := &sbom.Metadata{\n','\tif bom.Version < 0 {\n\t\treturn nil, err\n\t}\n\tmd := &sbom.Metadata{\n','result-discipline'),
 m('fatal-on-bad-date',U23,'\t\tlogrus.Warnf("invalid time format in %s", date)\n','\t\tlogrus.Fatalf("invalid time format in %s", date)\n','no-process-exit'),
],benign=[
 m('sniffer-slices-checked',SNIFF,'\tstringValue := string(data)\n\n\tif strings.Contains(stringValue, "SPDXVersion:") {','\tstringValue := string(data)\n\tif len(stringValue) >= 4 && stringValue[:4] == "SPDX" {\n\t\tstate.Encoding = "text"\n\t}\n\n\tif strings.Contains(stringValue, "SPDXVersion:") {'),

 m('states-literal',SNIFF,'\tstates := make(sniffStates, len(sniffFormats))\n','\tstates := sniffStates{}\n'),

 m('guard-as-early-continue',UCDX,'\tif bom.Components != nil {\n','\tif bom.Components != nil && len(*bom.Components) >= 0 {\n'),
])
C['C05']=dict(mutants=[
 m('detected-format-remembered',RD,'\t\treturn "", fmt.Errorf("detecting format: %w", err)\n\t}\n\treturn format, nil','\t\treturn "", fmt.Errorf("detecting format: %w", err)\n\t}\n\tr.Options.Format = format\n\treturn format, nil','detection-leaves-reader-unchanged'),
 m('seedless-generator',UCDX,'node.Id = sbom.NewNodeIdentifier("auto", fmt.Sprintf("%09d", *cc))','node.Id = sbom.NewNodeIdentifier("auto")','counter-seed'),
 m('conditional-increment',UCDX,'\t(*cc)++\n\tnode := &sbom.Node{','\tif c.BOMRef == "" {\n\t\t(*cc)++\n\t}\n\tnode := &sbom.Node{','counter-seed'),
 m('root-from-bomref',UCDX,'\t\tRootElements: []string{node.Id},','\t\tRootElements: []string{component.BOMRef},','verbatim-identifiers'),
 m('time-in-parser',UCDX,'\t\tDate:    &timestamppb.Timestamp{},','\t\tDate:    timestamppb.Now(),',''),
 m('escape-class-widened',FUNCS,'regexp.MustCompile(`[^a-zA-Z0-9-.]+`)','regexp.MustCompile(`[^a-zA-Z0-9-._]+`)','identifier-alphabet'),
],benign=[
 m('sprintf-width',UCDX,'fmt.Sprintf("%09d", *cc)','fmt.Sprintf("%012d", *cc)'),
])
C['C06']=dict(mutants=[
 m('sniffer-nil-map',SNIFF,'\tstates := make(sniffStates, len(sniffFormats))\n','\tvar states sniffStates\n','map-write-initialised'),
 m('drop-defer',SNIFF,'\tdefer func() {\n\t\t_, err := f.Seek(0, 0)\n\t\tif err != nil {\n\t\t\tfmt.Printf("WARNING: could not seek to beginning of file: %v", err)\n\t\t}\n\t}()\n','\t_, _ = f.Seek(0, 0)\n','deferred-rewind'),
 m('wrong-constant',SNIFF,'\t\t\tcase "1.4":\n\t\t\t\treturn CDX14JSON, nil','\t\t\tcase "1.4":\n\t\t\t\treturn CDX15JSON, nil','declaration-agreement'),
 m('case-sensitive-bomformat',SNIFF,'if strings.EqualFold(specversionjson.BomFormat, CDXFORMAT) {','if specversionjson.BomFormat == CDXFORMAT {',''),
 m('accessor-wrong-part',FMTS,'\tif len(parts) > 1 {\n\t\treturn parts[1]\n\t}','\tif len(parts) > 1 {\n\t\treturn parts[0]\n\t}','accessor-agreement'),
 m('seek-whence',SNIFF,'\t\t_, err := f.Seek(0, 0)\n\t\tif err != nil {\n\t\t\tfmt.Printf','\t\t_, err := f.Seek(0, 1)\n\t\tif err != nil {\n\t\t\tfmt.Printf','deferred-rewind'),
],benign=[
 m('rename-struct-var',SNIFF,'\tvar specversionjson SpecVersionStruct\n\terr := decoder.Decode(&specversionjson)','\tvar specversionjson SpecVersionStruct\n\terr := decoder.Decode((&specversionjson))'),
])
C['C07']=dict(mutants=[
 m('root-component-may-be-nil',SCDX,'\tif n.Type == sbom.Node_FILE {\n\t\tc.Type = cdx.ComponentTypeFile\n\t} else if len(n.PrimaryPurpose) > 0 {','\tif n.Type != sbom.Node_FILE && n.Type != sbom.Node_PACKAGE {\n\t\treturn nil\n\t}\n\tif n.Type == sbom.Node_FILE {\n\t\tc.Type = cdx.ComponentTypeFile\n\t} else if len(n.PrimaryPurpose) > 0 {','absent-part-guard'),
 m('cpe-cases-merged',SCDX,'\t\t\tcase int32(sbom.SoftwareIdentifierType_CPE23):\n\t\t\t\t// CPE 2.3 takes precedence, but an empty value must not erase a\n\t\t\t\t// CPE 2.2 seen earlier: map iteration order is random.\n\t\t\t\tif cpe := n.Identifiers[idType]; cpe != "" {\n\t\t\t\t\tc.CPE = cpe\n\t\t\t\t}\n\t\t\tcase int32(sbom.SoftwareIdentifierType_CPE22):\n','\t\t\tcase int32(sbom.SoftwareIdentifierType_CPE23), int32(sbom.SoftwareIdentifierType_CPE22):\n','map-order-independence'),
 m('cpe23-unconditional',SCDX,'\t\t\t\tif cpe := n.Identifiers[idType]; cpe != "" {\n\t\t\t\t\tc.CPE = cpe\n\t\t\t\t}\n','\t\t\t\tc.CPE = n.Identifiers[idType]\n','map-order-independence'),
 m('serializer-state-nil-map',SCDX,'\t\taddedDict:      map[string]struct{}{},\n','','map-write-initialised'),
 m('metadata-direct',SCDX,'doc.SerialNumber = bom.GetMetadata().GetId()','doc.SerialNumber = bom.Metadata.Id','absent-part-guard'),
 m('render-options-direct',S23,'\tindent := 0\n\tif o != nil {\n\t\tindent = o.Indent\n\t}\n\tencoder := json.NewEncoder(wr)','\tindent := o.Indent\n\tencoder := json.NewEncoder(wr)','absent-part-guard'),
 m('state-on-driver',SCDX,'\tstate := newSerializerCDXState()\n\tctx := context.WithValue','\tstate := newSerializerCDXState()\n\ts.version = s.version + ""\n\tctx := context.WithValue','driver-keeps-no-state'),
 m('uuid-in-serializer',S23,'DocumentNamespace: "https://spdx.org/spdxdocs/",','DocumentNamespace: "https://spdx.org/spdxdocs/" + fmt.Sprint(time.Now().UnixNano()),',''),
],benign=[
 m('purl-via-local',SCDX,'\t\t\t\tc.PackageURL = n.Identifiers[idType]\n','\t\t\t\tpurl := n.Identifiers[idType]\n\t\t\t\tc.PackageURL = purl\n'),

 m('explicit-nil-check',SCDX,'\tfor _, n := range bom.GetNodeList().GetNodes() {\n\t\tcomp := s.nodeToComponent(n)','\tfor _, n := range bom.GetNodeList().GetNodes() {\n\t\tif n == nil {\n\t\t\tcontinue\n\t\t}\n\t\tcomp := s.nodeToComponent(n)'),
])
C['C08']=dict(mutants=[
 m('root-before-validation',NL,'\t\tRootElements: []string{},\n\t}\n\n\t// Get the list of connected nodes','\t\tRootElements: []string{id},\n\t}\n\n\t// Get the list of connected nodes','extraction-root-is-present'),
 m('addnode-filters',NL,'func (nl *NodeList) AddNode(n *Node) {\n\tnl.Nodes = append(nl.Nodes, n)','func (nl *NodeList) AddNode(n *Node) {\n\tif n == nil || n.Id == "" {\n\t\treturn\n\t}\n\tnl.Nodes = append(nl.Nodes, n)','loop-totality'),
 m('union-skips-clean',NL,'\tret.cleanEdges()\n\n\t// Copy all root nodes from nl2','\t// Copy all root nodes from nl2','passes-normaliser'),
 m('clean-target-unfiltered',NL,'\t\t\tif _, ok := nodeIndex[s]; !ok {\n\t\t\t\tcontinue\n\t\t\t}\n','','normaliser-filters'),
 m('remove-keeps-roots',NL,'\tnl.RootElements = newRootElements\n','','removal-updates-roots'),
 m('remove-roots-inverted',NL,'\t\tif _, ok := idDict[id]; !ok {\n\t\t\tnewRootElements = append(newRootElements, id)','\t\tif _, ok := idDict[id]; ok {\n\t\t\tnewRootElements = append(newRootElements, id)',''),
],benign=[
 m('rename-index',NL,'\t// Build a catalog of the elements ids\n\tnodeIndex := nl.indexNodes()','\t// Build a catalog of the elements ids (unchanged)\n\tnodeIndex := nl.indexNodes()'),
])
C['C09']=dict(mutants=[
 m('union-shares-roots',NL,'\t\tEdges:        copyEdgeList(nl.Edges),\n\t\tRootElements: slices.Clone(nl.RootElements),\n\t}\n\n\t// Copy all nodes','\t\tEdges:        copyEdgeList(nl.Edges),\n\t\tRootElements: nl.RootElements,\n\t}\n\n\t// Copy all nodes','union-operands-unchanged'),
 m('add-roots-vs-node-index',NL,'\trootElements := nl.indexRootElements()\n\tfor _, id := range nl2.RootElements {','\trootElements := nl.indexNodes()\n\tfor _, id := range nl2.RootElements {','loop-totality'),
 m('update-wrong-field',NODE,'\tif n2.UrlHome != "" {\n\t\tn.UrlHome = n2.UrlHome\n\t}','\tif n2.UrlHome != "" {\n\t\tn.UrlHome = n2.UrlDownload\n\t}','merge-precedence'),
 m('update-inverted-test',NODE,'\tif n2.Version != "" {\n\t\tn.Version = n2.Version\n\t}\n\tif n2.FileName != "" {','\tif n2.Version == "" {\n\t\tn.Version = n2.Version\n\t}\n\tif n2.FileName != "" {','merge-precedence'),
 m('augment-drops-receiver-test',NODE,'\tif n.Comment == "" && n2.Comment != "" {','\tif n2.Comment != "" {','merge-precedence'),
 m('add-uses-update',NL,'\t\t\tn.Augment(nl2.Nodes[i])','\t\t\tn.Update(nl2.Nodes[i])','merge-callee'),
 m('union-self-merge',NL,'\t\t\tnodeindex[n.Id].Update(n.Copy())','\t\t\tnodeindex[n.Id].Update(nodeindex[n.Id])',''),
 m('update-nil-test-on-slice',NODE,'\tif len(n2.Licenses) > 0 {\n\t\tn.Licenses = n2.Licenses\n\t}','\tif n2.Licenses != nil {\n\t\tn.Licenses = n2.Licenses\n\t}','merge-precedence'),
],benign=[
 m('len-neq-zero',NODE,'\tif len(n2.Attribution) > 0 {\n\t\tn.Attribution = n2.Attribution\n\t}','\tif len(n2.Attribution) != 0 {\n\t\tn.Attribution = n2.Attribution\n\t}'),
])
C['C10']=dict(mutants=[
 m('get-edge-returns-copy',NL,'\t\tif e.From == fromElement && e.Type == t {\n\t\t\treturn e\n','\t\tif e.From == fromElement && e.Type == t {\n\t\t\treturn e.Copy()\n','lookup-returns-element'),
 m('update-only-when-different',NL,'\t\tnewnode.Update(ni2[id].Copy())\n','\t\tif !node.Equal(ni2[id]) {\n\t\t\tnewnode.Update(ni2[id].Copy())\n\t\t}\n','intersection-attributes'),
 m('membership-inverted',NL,'\t\tif _, ok := ni2[id]; !ok {\n\t\t\tcontinue\n\t\t}\n\t\t// Clone the node','\t\tif _, ok := ni2[id]; ok {\n\t\t\tcontinue\n\t\t}\n\t\t// Clone the node','intersection-membership'),
 m('update-from-first',NL,'\t\tnewnode.Update(ni2[id].Copy())','\t\tnewnode.Update(ni1[id].Copy())','intersection-attributes'),
 m('drop-second-edges',NL,'\tfor _, e := range nl2.Edges {\n\t\texistingEdge := ret.GetEdgeByType(e.From, e.Type)\n\t\tif existingEdge == nil {\n\t\t\tret.Edges = append(ret.Edges, e.Copy())\n\t\t} else {\n\t\t\t// Apppend','\tfor _, e := range nl.Edges {\n\t\texistingEdge := ret.GetEdgeByType(e.From, e.Type)\n\t\tif existingEdge == nil {\n\t\t\tret.Edges = append(ret.Edges, e.Copy())\n\t\t} else {\n\t\t\t// Apppend','intersection-edges'),
],benign=[])
C['C11']=dict(mutants=[
 m('equal-sorts-operand',NL,'\tr1 := slices.Clone(nl.RootElements)','\tr1 := nl.RootElements','no-operand-write'),
 m('flatstring-sorts-operand',EDGE,'\ttos := slices.Clone(e.To)','\ttos := e.To','no-operand-write'),
 m('getnodes-appends-operand',NL,'\tret := []*Node{}\n\tfor i := range nl.Nodes {\n\t\tif nl.Nodes[i].Name == name {','\tret := nl.Nodes[:0]\n\tfor i := range nl.Nodes {\n\t\tif nl.Nodes[i].Name == name {','no-operand'),
 m('purl-caches-on-node',NODE,'\tif n.Type == Node_FILE {\n\t\treturn ""\n\t}\n','\tif n.Type == Node_FILE {\n\t\tn.Comment = ""\n\t\treturn ""\n\t}\n','no-operand-write'),
],benign=[
 m('clone-via-append',EDGE,'\ttos := slices.Clone(e.To)','\ttos := append([]string{}, e.To...)'),
])
C['C12']=dict(mutants=[
 m('contacts-made-with-length',PERS,'\t\tnp.Contacts = []*Person{}\n','\t\tnp.Contacts = make([]*Person, len(p.Contacts))\n','made-with-length-then-appended'),
 m('contacts-len-guard',PERS,'\tif p.Contacts != nil {\n\t\tnp.Contacts = []*Person{}\n\t}','\tif len(p.Contacts) > 0 {\n\t\tnp.Contacts = []*Person{}\n\t}','copy-field-exhaustive'),
 m('node-copy-alias',NODE,'\t\tAttribution:        slices.Clone(n.Attribution),','\t\tAttribution:        n.Attribution,','no-operand-alias-in-result'),
 m('edge-copy-alias',EDGE,'\t\tTo:   slices.Clone(e.To),','\t\tTo:   e.To,','no-operand-alias-in-result'),
 m('union-appends-operand-node',NL,'\t\t\tret.Nodes = append(ret.Nodes, n.Copy())\n\t\t}\n\t}\n\n\t// Add or append all edges','\t\t\tret.Nodes = append(ret.Nodes, n)\n\t\t}\n\t}\n\n\t// Add or append all edges','no-operand-alias-in-result'),
 m('copy-swaps-fields',NODE,'\t\tUrlHome:            n.UrlHome,','\t\tUrlHome:            n.UrlDownload,','copy-field-exhaustive'),
 m('person-copy-forces-empty',PERS,'\tif p.Contacts != nil {\n\t\tnp.Contacts = []*Person{}\n\t}','\tnp.Contacts = []*Person{}','copy-preserves-nil'),
 m('extref-copy-drops-hashes',EXT,'\t\tHashes:    maps.Clone(e.Hashes),\n','\t\tHashes:    maps.Clone(map[int32]string{}),\n','copy-field-exhaustive'),
],benign=[
 m('clone-via-append',NODE,'\t\tFileTypes:          slices.Clone(n.FileTypes),','\t\tFileTypes:          append([]string(nil), n.FileTypes...),'),
])
C['C13']=dict(mutants=[
 m('hash-values-lowercased',NODE,'\t\tvalues[mk.String()] = v.String()\n','\t\tvalues[mk.String()] = strings.ToLower(v.String())\n','encoding-values-verbatim'),
 m('tag-used-twice',EXT,'\t\tret += fmt.Sprintf("(a)%s", e.Authority)','\t\tret += fmt.Sprintf("(c)%s", e.Authority)','distinct-field-tags'),
 m('comparator-not-an-order',NODE,'\tsort.Strings(keys)\n\tret := \"\"\n\tfor _, algo := range keys {','\tsort.Slice(keys, func(i, j int) bool {\n\t\treturn len(keys[i]) < len(keys[j]) || keys[i] < keys[j]\n\t})\n\tret := \"\"\n\tfor _, algo := range keys {','comparator-is-an-order'),
 m('extref-hash-by-position',EXT,'\t\tfor _, algo := range algos {\n\t\t\thashes = append(hashes, fmt.Sprintf("%d:%s", algo, e.Hashes[int32(algo)]))','\t\tfor i, algo := range algos {\n\t\t\thashes = append(hashes, fmt.Sprintf("%d:%s", algo, e.Hashes[int32(i)]))','schema-map-key'),
 m('drop-sort',NODE,'\tsort.Strings(pairs)\n\treturn strings.Join(pairs, ":")','\treturn strings.Join(pairs, ":")','sorted-before-ordered-sink'),
 m('licenses-fall-to-default',NODE,'\tcase "protobom.protobom.Node.licenses",\n','\tcase "protobom.protobom.Node.licences",\n','encode-exhaustive'),
 m('extref-ignores-authority',EXT,'\tif e.Authority != "" {\n\t\tret += fmt.Sprintf("(a)%s", e.Authority)\n\t}\n','','encode-exhaustive'),
 m('equal-asymmetric',EDGE,'\treturn e.flatString() == e2.flatString()','\treturn e.flatString() == e2.From','equality-kernel'),
 m('dates-to-nanosecond',NODE,'n.ReleaseDate.AsTime().Unix()))','n.ReleaseDate.AsTime().UnixNano()))','date-granularity'),
 m('range-stops-early',NODE,'\t\treturn true\n\t})\n\n\tsort.Strings(pairs)','\t\treturn len(pairs) < 64\n\t})\n\n\tsort.Strings(pairs)','encode-exhaustive'),
],benign=[
 m('lexicographic-comparator',NODE,'\tsort.Strings(keys)\n\tret := \"\"\n\tfor _, algo := range keys {','\tsort.Slice(keys, func(i, j int) bool {\n\t\treturn len(keys[i]) < len(keys[j]) || (len(keys[i]) == len(keys[j]) && keys[i] < keys[j])\n\t})\n\tret := \"\"\n\tfor _, algo := range keys {'),

 m('slices-sort',NODE,'\tsort.Strings(pairs)\n\treturn strings.Join(pairs, ":")','\tslices.Sort(pairs)\n\treturn strings.Join(pairs, ":")'),
])
C['C14']=dict(mutants=[
 m('epoch-date-unset',DIFF,'\tif dt1 != nil {\n','\tif dt1 != nil && (dt1.GetSeconds() != 0 || dt1.GetNanos() != 0) {\n','timestamp-presence-by-nil'),
 m('diff-trusts-equal',DIFF,'func (n *Node) Diff(n2 *Node) *NodeDiff {\n\tnd := NodeDiff{','func (n *Node) Diff(n2 *Node) *NodeDiff {\n\tif n.Equal(n2) {\n\t\treturn nil\n\t}\n\tnd := NodeDiff{','diff-result'),
 m('removed-filtered-in-place',DIFF,'func diffSlice[T comparable](arr1, arr2 []T) (added, removed []T, count int) {\n\tadded = []T{}\n\tremoved = []T{}\n','func diffSlice[T comparable](arr1, arr2 []T) (added, removed []T, count int) {\n\tadded = []T{}\n\tremoved = arr1[:0]\n','diff-operands-unchanged'),
 m('extref-hash-by-position',EXT,'\t\tfor _, algo := range algos {\n\t\t\thashes = append(hashes, fmt.Sprintf("%d:%s", algo, e.Hashes[int32(algo)]))','\t\tfor i, algo := range algos {\n\t\t\thashes = append(hashes, fmt.Sprintf("%d:%s", algo, e.Hashes[int32(i)]))','schema-map-key'),
 m('stanza-wrong-dest',DIFF,'\tnd.Added.UrlHome = a\n','\tnd.Added.UrlDownload = a\n','diff-stanza'),
 m('stanza-swapped-results',DIFF,'\tnd.Added.Version = a\n\tnd.Removed.Version = r\n','\tnd.Added.Version = r\n\tnd.Removed.Version = a\n','diff-stanza'),
 m('count-dropped',DIFF,'\tnd.Removed.Comment = r\n\tnd.DiffCount += c\n','\tnd.Removed.Comment = r\n','diff-stanza'),
 m('operands-swapped',DIFF,'diff(n.Summary, n2.Summary)','diff(n2.Summary, n.Summary)','diff-stanza'),
 m('threshold',DIFF,'\tif nd.DiffCount > 0 {\n\t\treturn &nd','\tif nd.DiffCount > 1 {\n\t\treturn &nd','diff-result'),
 m('stanza-under-node-type',DIFF,'\tadded, removed, count = diffSlice(n.FileTypes, n2.FileTypes)\n\tnd.Added.FileTypes = added\n\tnd.Removed.FileTypes = removed\n\tnd.DiffCount += count\n','\tif n.Type == Node_FILE || n2.Type == Node_FILE {\n\t\tadded, removed, count = diffSlice(n.FileTypes, n2.FileTypes)\n\t\tnd.Added.FileTypes = added\n\t\tnd.Removed.FileTypes = removed\n\t\tnd.DiffCount += count\n\t}\n','diff-stanza'),
 m('map-ignores-value-change',DIFF,'\t\t\tif v1 != v2 {\n\t\t\t\tadded[k] = v2\n\t\t\t}\n','\t\t\t_ = v1\n','diff-helper-semantics'),
],benign=[])
C['C15']=dict(mutants=[
 m('edge-key-no-separator',NL,'edgeKey := edge.From + "+++" + edge.Type.String()','edgeKey := edge.From + edge.Type.String()','composite-key-separated'),
 m('start-node-outside-seen-set',NL,'\tni := nodeIndex{node.Id: node}\n','\tnodelist.Nodes = append(nodelist.Nodes, node)\n\tni := nodeIndex{}\n','extraction-nodes-once'),
 m('queue-storage-reused',NL,'\t\tnewLoopNodes = []*Node{}\n','\t\tnewLoopNodes = newLoopNodes[:0]\n','work-list-not-aliased'),
 m('siblings-unguarded-lookup',NL,'\t\t\t\tn := nl.GetNodeByID(to)\n\t\t\t\tif n == nil {\n\t\t\t\t\tcontinue\n\t\t\t\t}\n\t\t\t\tni[to] = n\n','\t\t\t\tni[to] = nl.GetNodeByID(to)\n','absent-part-guard'),
 m('visited-after-recursion',NL,'\t\t(*connectedNodes)[s.Id] = s\n\n\t\t// Traverse the node path:\n\t\tnl.connectedIndexRecursion(s.Id, boundaries, connectedNodes)','\t\t// Traverse the node path:\n\t\tnl.connectedIndexRecursion(s.Id, boundaries, connectedNodes)\n\t\t(*connectedNodes)[s.Id] = s',''),
 m('boundary-dropped',NL,'\t\t// If the node is in the boundaries list, skip\n\t\tif _, ok := (*boundaries)[s.Id]; ok {\n\t\t\tcontinue\n\t\t}\n','','traversal-guard'),
 m('depth-loop-unbounded',NL,'\tfor i := 0; i < maxDepth; i++ {\n\t\tif i == 0 {','\tfor i := 0; i < maxDepth; i++ {\n\t\tif len(newLoopNodes) > 0 {\n\t\t\tmaxDepth++\n\t\t}\n\t\tif i == 0 {','loop-shape'),
 m('siblings-nil',NL,'\tif id == "" {\n\t\treturn nodelist\n\t}','\tif id == "" {\n\t\treturn nil\n\t}','absent-part-guard'),
 m('extra-root',NL,'\tnodelist.RootElements = append(nodelist.RootElements, id)\n\tnodelist.cleanEdges()','\tnodelist.RootElements = append(nodelist.RootElements, nl.RootElements...)\n\tnodelist.cleanEdges()','traversal-guard'),
],benign=[])
C['C16']=dict(mutants=[
 m('tie-break-on-absent-purl',NL,'\t\tif testPurl == "" {\n\t\t\treturn nil, ErrorMoreThanOneMatch\n\t\t}\n\n\t\tfoundByPurl := []*Node{}\n\t\tfor n := range foundNodes {\n\t\t\tif tp := n.Purl(); tp != "" && tp == testPurl {','\t\tfoundByPurl := []*Node{}\n\t\tfor n := range foundNodes {\n\t\t\tif n.Purl() == testPurl {','purl-criterion-nonempty'),
 m('index-key-lowercased',NL,'\t\t\ts := fmt.Sprintf("%d:%s", algo, hashVal)\n\t\t\tret[s] = append(ret[s], n)','\t\t\ts := fmt.Sprintf("%d:%s", algo, strings.ToLower(hashVal))\n\t\t\tret[s] = append(ret[s], n)','constant-agreement'),
 m('rootnodes-early-break',NL,'\t\t\tret = append(ret, nl.Nodes[i])\n\t\t}\n\t}\n\t// TODO(ehandling)','\t\t\tret = append(ret, nl.Nodes[i])\n\t\t\tif len(ret) == len(index) {\n\t\t\t\tbreak\n\t\t\t}\n\t\t}\n\t}\n\t// TODO(ehandling)','loop-totality'),
 m('purl-tiebreak-first-wins',NL,'\t\t\tif tp := n.Purl(); tp != "" && tp == testPurl {\n\t\t\t\tfoundByPurl = append(foundByPurl, n)\n\t\t\t}','\t\t\tif tp := n.Purl(); tp != "" && tp == testPurl && len(foundByPurl) == 0 {\n\t\t\t\tfoundByPurl = append(foundByPurl, n)\n\t\t\t}',''),
 m('byname-compares-id',NL,'\t\tif nl.Nodes[i].Name == name {','\t\tif nl.Nodes[i].Id == name {','lookup-criterion'),
 m('edgebytype-or',NL,'\t\tif e.From == fromElement && e.Type == t {','\t\tif e.From == fromElement || e.Type == t {','lookup-criterion'),
 m('alias-wrong',IDENT,'\tcase "cpe22", "cpe2.2":\n\t\treturn SoftwareIdentifierType_CPE22','\tcase "cpe22", "cpe2.2":\n\t\treturn SoftwareIdentifierType_CPE23','table-inverse'),
 m('probe-key-format',NL,'\t\t\tif _, ok := hashIndex[fmt.Sprintf("%d:%s", algo, hashVal)]; !ok {','\t\t\tif _, ok := hashIndex[fmt.Sprintf("%s:%d", hashVal, algo)]; !ok {','constant-agreement'),
 m('ambiguity-swallowed',NL,'\t\tif len(pindex[testPurl]) == 1 {\n\t\t\treturn pindex[testPurl][0], nil\n\t\t}\n\t\treturn nil, ErrorMoreThanOneMatch','\t\treturn pindex[testPurl][0], nil','no-map-order-selection'),
],benign=[])
C['C17']=dict(mutants=[
 m('register-skips-lazy-init',WR,'\tensureSerializersInitialized()\n\tserializers.Store(format, s)','\tserializers.Store(format, s)','lazy-state-initialised-before-access'),
 m('registry-check-then-store',WR,'func RegisterSerializer(format formats.Format, s native.Serializer) {\n\tensureSerializersInitialized()\n\tserializers.Store(format, s)','func RegisterSerializer(format formats.Format, s native.Serializer) {\n\tensureSerializersInitialized()\n\tif _, ok := serializers.Load(format); ok && s == nil {\n\t\treturn\n\t}\n\tserializers.Store(format, s)','atomic-update-not-lost'),
 m('lookup-unlocked',RD,'\tregMtx.RLock()\n\tdefer regMtx.RUnlock()\n','','package-state'),
 m('register-read-lock',RD,'\tregMtx.Lock()\n\tunserializers[format] = u\n\tregMtx.Unlock()','\tregMtx.RLock()\n\tunserializers[format] = u\n\tregMtx.RUnlock()','package-state'),
 m('unlock-missing-on-path',RD,'\tregMtx.Lock()\n\tdelete(unserializers, format)\n\tregMtx.Unlock()','\tregMtx.Lock()\n\tif format == "" {\n\t\treturn\n\t}\n\tdelete(unserializers, format)\n\tregMtx.Unlock()','lock-pairing'),
 m('shared-default-published',WR,'\t\tOptions: newDefaultOptions(),','\t\tOptions: defaultOptions,','published-default'),
],benign=[])
C['C18']=dict(mutants=[
 m('fallbacks-merged',WR,'\tso := o.SerializeOptions\n\tif so == nil {\n\t\tso = defaultOptions.SerializeOptions\n\t}','\tso := o.SerializeOptions\n\tif so == nil || o.RenderOptions == nil {\n\t\tso = defaultOptions.SerializeOptions\n\t}','per-call-reads-argument'),
 m('format-options-merged-into-callers-map',WOPT,'\to.formatOptions[keyVal] = opts\n','\tif add, ok := opts.(map[string]interface{}); ok {\n\t\tif cur, ok := o.formatOptions[keyVal].(map[string]interface{}); ok && cur != nil {\n\t\t\tfor k, v := range add {\n\t\t\t\tcur[k] = v\n\t\t\t}\n\t\t\treturn\n\t\t}\n\t}\n\to.formatOptions[keyVal] = opts\n','option-writes-own-storage'),
 m('per-call-arg-written',WR,'\tformat := o.Format\n\tif o.Format == "" {\n\t\tformat = w.Options.Format\n\t}','\tif o.Format == "" {\n\t\to.Format = w.Options.Format\n\t}\n\tformat := o.Format','per-call-no-argument-write'),
 m('option-writes-global',WOPT,'\t\tw.Options.Format = f\n','\t\tw.Options.Format = f\n\t\tdefaultOptions.Format = f\n','option-writes-instance-only'),
 m('per-call-retained',WR,'\tformat := o.Format\n\tif o.Format == "" {\n\t\tformat = w.Options.Format\n\t}','\tformat := o.Format\n\tif o.Format == "" {\n\t\tformat = w.Options.Format\n\t} else {\n\t\tw.Options = o\n\t}','per-call-no-receiver-write'),
 m('store-default-options',WR,'\treturn w.StoreWithOptions(bom, w.Options)','\treturn w.StoreWithOptions(bom, defaultOptions)','per-call-reads-argument'),
 m('receiver-format-options',RD,'o.GetFormatOptions(unserializer),','r.Options.GetFormatOptions(unserializer),','per-call-reads-argument'),
],benign=[])
C['C19']=dict(mutants=[
 m('decode-discards-unknown',FS,'\tif err := proto.Unmarshal(data, bom); err != nil {','\tif err := (proto.UnmarshalOptions{DiscardUnknown: true}).Unmarshal(data, bom); err != nil {','retrieve-reads-whole-entry'),
 m('refused-rename-removes-entry',FS,'\tif err := os.Rename(tmpPath, finalPath); err != nil {\n\t\tos.Remove(tmpPath) //nolint:errcheck,gosec // best effort cleanup','\tif err := os.Rename(tmpPath, finalPath); err != nil {\n\t\tos.Remove(finalPath) //nolint:errcheck,gosec // best effort cleanup','entry-never-removed'),
 m('decode-error-shadowed',FS,'\tif err := proto.Unmarshal(data, bom); err != nil {\n\t\treturn nil, fmt.Errorf("unmarshaling protobom data: %w", err)\n\t}','\tif err := proto.Unmarshal(data, bom); err != nil {\n\t\terr = fmt.Errorf("unmarshaling protobom data: %w", err)\n\t}','retrieve-validates'),
 m('wrapper-swallows-error',WR,'\tif err := w.Storage.Store(bom, o.StoreOptions); err != nil {\n\t\treturn fmt.Errorf("calling backend store: %w", err)\n\t}','\tif err := w.Storage.Store(bom, o.StoreOptions); err != nil {\n\t\treturn nil\n\t}','wrapper-propagates-error'),
 m('store-shortcut',FS,'\t// Write the data to a temporary file in the same directory and rename it\n','\tif st, err := os.Stat(finalPath); err == nil && st.Size() == int64(len(out)) {\n\t\treturn nil\n\t}\n\t// Write the data to a temporary file in the same directory and rename it\n','store-success-publishes'),
 m('decoder-sees-prefix',FS,'\tif err := proto.Unmarshal(data, bom); err != nil {','\tif err := proto.Unmarshal(data[:min(len(data), 4<<20)], bom); err != nil {','retrieve-reads-whole-entry'),
 m('fatal-on-read',FS,'\t\treturn nil, fmt.Errorf("reading protobom data from disk: %w", err)','\t\tpanic(fmt.Errorf("reading protobom data from disk: %w", err))','no-process-exit'),
 m('dir-mode',FS,'os.FileMode(0o755)','os.FileMode(0o600)','directory-mode'),
 m('name-from-id',FS,'return fmt.Sprintf("%x.protobom", sha256.Sum256([]byte(documentId))), nil','return fmt.Sprintf("%s-%x.protobom", documentId, sha256.Sum256([]byte(documentId))), nil','path-confinement'),
 m('clobber-check-inverted',FS,'\tif opts.NoClobber && util.Exists(finalPath) {','\tif opts.NoClobber && !util.Exists(finalPath) {','store-guarded'),
 m('identity-check-dropped',FS,'\tif bom.GetMetadata().GetId() != id {\n\t\treturn nil, fmt.Errorf("stored entry does not contain document %q", id)\n\t}\n','','retrieve-validates'),
],benign=[])
C['C20']=dict(mutants=[
 m('entry-linked-before-write',FS,'\ttmpPath := tmp.Name()\n','\ttmpPath := tmp.Name()\n\tos.Link(tmpPath, finalPath) //nolint:errcheck,gosec\n','replace-protocol'),
 m('write-error-ignored',FS,'\tif _, err := tmp.Write(out); err != nil {\n\t\ttmp.Close()        //nolint:errcheck,gosec // already failing\n\t\tos.Remove(tmpPath) //nolint:errcheck,gosec // best effort cleanup\n\t\treturn fmt.Errorf("writing data to disk: %w", err)\n\t}\n','\ttmp.Write(out) //nolint:errcheck\n','replace-protocol'),
 m('write-in-place',FS,'\tif err := os.Rename(tmpPath, finalPath); err != nil {','\tif err := os.WriteFile(finalPath, out, 0o644); err != nil {','no-inplace-write'),
 m('rename-before-close',FS,'\tif err := tmp.Close(); err != nil {\n\t\tos.Remove(tmpPath) //nolint:errcheck,gosec // best effort cleanup\n\t\treturn fmt.Errorf("writing data to disk: %w", err)\n\t}\n','\tdefer tmp.Close()\n','replace-protocol'),
 m('temp-elsewhere',FS,'os.CreateTemp(fs.Options.Path, filename+".*.tmp")','os.CreateTemp("", filename+".*.tmp")','replace-protocol'),
],benign=[])
json.dump(C,open('/verif/selftest_corpus.json','w'),indent=1,ensure_ascii=False)
# validation
import os
bad=0
for p,c in C.items():
    for kind in ('mutants','benign'):
        for e in c[kind]:
            s=open('/repo/'+e['file']).read()
            n=s.count(e['find'])
            if n!=1:
                bad+=1; print('ANCHOR',p,kind,e['name'],'occurs',n)
print(sum(len(c['mutants']) for c in C.values()),'mutants',sum(len(c['benign']) for c in C.values()),'benign; bad anchors:',bad)
