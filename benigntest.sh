#!/bin/bash
# usage: benigntest.sh <diff>  — applies a behaviour-preserving diff in a scratch worktree and lists any
# obligation that fires there but not on the clean tree (development aid).
set -u
export GOFLAGS=-mod=mod GOPROXY=off GOSUMDB=off GOTOOLCHAIN=local; unset GOWORK
DIFF=$1
WT=/tmp/seed/benign-wt-$$
git -C /repo worktree add -q --detach $WT HEAD || exit 2
trap "git -C /repo worktree remove --force $WT" EXIT
( cd $WT && git apply $DIFF ) || { echo "APPLY FAILED"; exit 3; }
any=0
for p in C01 C02 C03 C04 C05 C06 C07 C08 C09 C10 C11 C12 C13 C14 C15 C16 C17 C18 C19 C20; do
  /verif/bin/protolint -repo /repo -property $p -no-evidence 2>/dev/null | grep '^FIRED' | awk '{print $3}' | sort > /tmp/seed/bb.$$
  /verif/bin/protolint -repo $WT -property $p -no-evidence > /tmp/seed/bm.$$ 2>&1; rc=$?
  grep '^FIRED' /tmp/seed/bm.$$ | awk '{print $2, $3}' | sort -k2 > /tmp/seed/bk.$$
  new=$(awk '{print $2}' /tmp/seed/bk.$$ | comm -13 /tmp/seed/bb.$$ -)
  if [ -n "$new" ]; then any=1; echo "  $p FALSE-ALARM:"; grep -F -f <(echo "$new") /tmp/seed/bk.$$ | sed 's/^/     /' | cut -c1-250; fi
  [ $rc -ge 2 ] && { any=1; echo "  $p rc=$rc"; tail -2 /tmp/seed/bm.$$; }
done
rm -f /tmp/seed/bb.$$ /tmp/seed/bm.$$ /tmp/seed/bk.$$
[ $any = 0 ] && echo "  silent"
