#!/bin/bash
# usage: verify_seed.sh <prop> <n> [srcdir]   (development aid; never run by a registered check)
# Confirms a seeded mutation against the *current* /repo HEAD in a scratch worktree:
#  applies, builds, existing suite passes, demo fails with it and passes without; then runs every
#  check against the patched worktree and lists the ones that fire. Writes /verif/seeded/<prop>-<n>/.
set -u
export GOFLAGS=-mod=mod GOPROXY=off GOSUMDB=off GOTOOLCHAIN=local; unset GOWORK
P=$1; N=$2; SRC=${3:-/tmp/seed/out-$P}
DIFF=$SRC/mut$N.diff; DEMO=$SRC/mut${N}_demo_test.go
[ -f "$DIFF" ] || { echo "no $DIFF"; exit 2; }
WT=/tmp/seed/verify-$P-$N
git -C /repo worktree remove --force $WT 2>/dev/null
git -C /repo worktree add -q --detach $WT HEAD || exit 2
trap "git -C /repo worktree remove --force $WT" EXIT
cd $WT
if ! git apply --check $DIFF 2>/dev/null; then echo "RESULT $P-$N: DOES-NOT-APPLY"; exit 3; fi
DIR=$(head -3 $DEMO | grep -o 'copy to: *[^ ]*' | sed 's/copy to: *//' | head -1)
[ -n "$DIR" ] || { echo "RESULT $P-$N: no copy-to line"; exit 4; }
cp $DEMO $DIR/zz_seed_demo_test.go
TESTS=$(grep -o '^func Test[A-Za-z0-9_]*' $DEMO | sed 's/func //' | paste -sd'|')
# clean: demo passes
if ! go test -count=1 -run "^($TESTS)\$" ./$DIR/ >/tmp/seed/v.$$ 2>&1; then echo "RESULT $P-$N: DEMO-FAILS-ON-CLEAN"; tail -5 /tmp/seed/v.$$; exit 5; fi
git apply $DIFF
if ! go build ./... 2>/tmp/seed/v.$$; then echo "RESULT $P-$N: DOES-NOT-BUILD"; exit 6; fi
if go test -count=1 -run "^($TESTS)\$" ./$DIR/ >/tmp/seed/v.$$ 2>&1; then echo "RESULT $P-$N: DEMO-PASSES-WITH-MUTATION"; exit 7; fi
rm $DIR/zz_seed_demo_test.go
if ! go test -vet=off -count=1 ./... >/tmp/seed/v.$$ 2>&1; then echo "RESULT $P-$N: SUITE-FAILS-WITH-MUTATION"; grep -v "^ok\|no test files" /tmp/seed/v.$$ | tail -5; exit 8; fi
# checks
CAUGHT=""
for p in C01 C02 C03 C04 C05 C06 C07 C08 C09 C10 C11 C12 C13 C14 C15 C16 C17 C18 C19 C20; do
  /verif/bin/protolint -repo /repo -property $p -no-evidence 2>/dev/null | grep '^FIRED' | awk '{print $3}' | sort > /tmp/seed/b.$$
  /verif/bin/protolint -repo $WT -property $p -no-evidence 2>/dev/null | grep '^FIRED' | awk '{print $3}' | sort > /tmp/seed/m.$$
  new=$(comm -13 /tmp/seed/b.$$ /tmp/seed/m.$$ | head -3 | paste -sd';')
  [ -n "$new" ] && CAUGHT="$CAUGHT $p[$new]"
done
rm -f /tmp/seed/b.$$ /tmp/seed/m.$$ /tmp/seed/v.$$
OUT=/verif/seeded/$P-$N
mkdir -p $OUT; cp $DIFF $OUT/patch.diff; cp $DEMO $OUT/demo_test.go; [ -f $SRC/mut$N.txt ] && cp $SRC/mut$N.txt $OUT/description.txt
HEADSHA=$(git -C /repo rev-parse --short HEAD)
python3 - "$P" "$N" "$DIR" "$TESTS" "$CAUGHT" "$HEADSHA" "$OUT" <<'PY'
import json,sys
P,N,DIR,TESTS,CAUGHT,HEAD,OUT=sys.argv[1:]
desc=open(OUT+'/description.txt').read() if __import__('os').path.exists(OUT+'/description.txt') else ''
json.dump({"property":P,"mutation":int(N),"applies_to_repo_head":HEAD,"demo_package_dir":DIR,"demo_tests":TESTS.split('|'),
 "verified":{"applies":True,"builds":True,"existing_suite_passes_with_mutation":True,"demo_fails_with_mutation":True,"demo_passes_without_mutation":True},
 "what_ran":["git apply patch.diff (scratch worktree of /repo HEAD)","go build ./...","go test -vet=off -count=1 ./...","go test -run '<demo tests>' ./"+DIR+" with and without the patch","bin/protolint -repo <worktree> -property Cxx for all 20 properties"],
 "caught_by":[c for c in CAUGHT.split() if c],"needs_to_manifest":desc},open(OUT+'/meta.json','w'),indent=1)
PY
echo "RESULT $P-$N: OK caught_by:$CAUGHT"
