#!/usr/bin/env python3
"""Regenerates MANIFEST.json from manifest_src.json (claimed checks + not_applicable reasons)."""
import json, sys
src = json.load(open('/verif/manifest_src.json'))
props = [json.loads(l) for l in open('/verif/properties.jsonl')]
ids = [p['id'] for p in props]
checks = []
na = []
for pid in ids:
    e = src['properties'].get(pid)
    if e and e.get('claimed'):
        checks.append({
            "property_id": pid,
            "quick_cmd": f"./run.sh {pid} quick",
            "thorough_cmd": f"./run.sh {pid} thorough",
            "evidence_file": f"/verif/evidence/{pid}.json",
            "replay_cmd_template": "cat {path}",
            "engine": "protolint",
            "level_claimed": {"category": "other", "text": e['level_text'], "design_ref": e.get('design_ref', f"DESIGN.md §5 {pid}")},
            "level_note": e['level_note'],
            "technique": e['technique'],
        })
    else:
        na.append({"property_id": pid, "reason": (e or {}).get('na_reason', 'static rules for this property are not implemented yet; nothing is claimed')})
m = {
    "version": 1,
    "setup_cmd": "cd /verif/checker && GOFLAGS=-mod=mod GOPROXY=off GOSUMDB=off GOTOOLCHAIN=local GOWORK=off go build -o ../bin/protolint .",
    "hooks": {
        "guard": "verif",
        "enable": "none needed: static analysis reads /repo's source as it is; no instrumentation is compiled in",
        "baseline_off_cmd": "cd /repo && go test -vet=off -count=1 -timeout 25m ./...",
        "source_commits": [],
        "add_only": True,
    },
    "engines": [{"name": "protolint", "path": "/verif/checker", "serves_properties": [c['property_id'] for c in checks],
                 "kind_free_text": "repository-specific static analyser (go/packages + go/types + go/ssa + go/cfg, x/tools v0.29.0): constant-table folding, schema-exhaustiveness, origin/alias dataflow, guard dominance, lockset, call-graph reachability, CFG path rules"}],
    "checks": checks,
    "not_applicable": na,
    "notes": src.get('notes', ''),
}
json.dump(m, open('/verif/MANIFEST.json', 'w'), indent=1)
print(f"{len(checks)} claimed, {len(na)} not applicable")
