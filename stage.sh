#!/bin/bash
# usage: stage.sh <round> <prop>   (development aid) — renumbers a round's agent output mut1/2 to the next free
# seed numbers of that property and verifies each (verify_seed.sh).
R=$1; P=$2
S=/tmp/seed/r${R}src-$P; mkdir -p $S
max=0; for d in /verif/seeded/$P-*; do [ -d "$d" ] || continue; n=${d##*-}; [ "$n" -gt "$max" ] && max=$n; done
for n in 1 2; do
  [ -f /tmp/seed/out$R-$P/mut$n.diff ] || continue
  m=$((max+n))
  cp /tmp/seed/out$R-$P/mut$n.diff $S/mut$m.diff
  cp /tmp/seed/out$R-$P/mut${n}_demo_test.go $S/mut${m}_demo_test.go 2>/dev/null
  cp /tmp/seed/out$R-$P/mut$n.txt $S/mut$m.txt 2>/dev/null
  /verif/verify_seed.sh $P $m $S 2>&1 | tail -2
done
