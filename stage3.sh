#!/bin/bash
# usage: stage3.sh <prop>   (development aid) — renumbers round-3 agent output mut1/2 -> mut3/4 and verifies
P=$1
S=/tmp/seed/r3src-$P; mkdir -p $S
for n in 1 2; do m=$((n+2));
  [ -f /tmp/seed/out3-$P/mut$n.diff ] || continue
  cp /tmp/seed/out3-$P/mut$n.diff $S/mut$m.diff
  cp /tmp/seed/out3-$P/mut${n}_demo_test.go $S/mut${m}_demo_test.go 2>/dev/null
  cp /tmp/seed/out3-$P/mut$n.txt $S/mut$m.txt 2>/dev/null
  /verif/verify_seed.sh $P $m $S 2>&1 | tail -3
done
