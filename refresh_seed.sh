#!/bin/bash
# usage: refresh_seed.sh <Cxx-n>  — re-verifies a stored seed from its own directory and rewrites its meta.json (development aid)
id=$1; P=${id%-*}; N=${id#*-}
S=/tmp/seed/refresh-$id; rm -rf $S; mkdir -p $S
cp /verif/seeded/$id/patch.diff $S/mut$N.diff; cp /verif/seeded/$id/demo_test.go $S/mut${N}_demo_test.go; cp /verif/seeded/$id/description.txt $S/mut$N.txt 2>/dev/null
/verif/verify_seed.sh $P $N $S | tail -1 | cut -c1-250
rm -rf $S
