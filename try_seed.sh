#!/bin/bash
# usage: try.sh <diff> <props...> : apply diff in scratch worktree, list newly fired keys
export GOFLAGS=-mod=mod GOPROXY=off GOSUMDB=off GOTOOLCHAIN=local; unset GOWORK
D=$1; shift
WT=/tmp/seed/try-$$
git -C /repo worktree add -q --detach $WT HEAD || exit 2
trap "git -C /repo worktree remove --force $WT" EXIT
git -C $WT apply $D || exit 3
for p in "$@"; do
  /verif/bin/protolint -repo /repo -property $p -no-evidence 2>/dev/null | grep '^FIRED' | sort > /tmp/seed/tb.$$
  /verif/bin/protolint -repo $WT -property $p -no-evidence 2>/dev/null | grep '^FIRED' | sort > /tmp/seed/tm.$$
  echo "== $p"; comm -13 /tmp/seed/tb.$$ /tmp/seed/tm.$$
done
rm -f /tmp/seed/tb.$$ /tmp/seed/tm.$$
