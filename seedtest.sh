#!/bin/bash
# usage: seedtest.sh <diff> [props...]  — applies diff in a scratch worktree and lists obligations
# that fire there but not on the clean tree. Development aid only (not a registered check).
set -u
export GOFLAGS=-mod=mod GOPROXY=off GOSUMDB=off GOTOOLCHAIN=local; unset GOWORK
DIFF=$1; shift
PROPS=${@:-$(/verif/bin/protolint -property none 2>&1 | sed 's/.*have \[\(.*\)\]/\1/')}
WT=/tmp/seed/check-wt-$$
BASEWT=/repo
git -C /repo worktree add -q --detach $WT ${SEED_BASE:-HEAD} || exit 2
if [ -n "${SEED_BASE:-}" ]; then BASEWT=/tmp/seed/check-base-$$; git -C /repo worktree add -q --detach $BASEWT $SEED_BASE || exit 2; fi
trap "git -C /repo worktree remove --force $WT; [ $BASEWT != /repo ] && git -C /repo worktree remove --force $BASEWT" EXIT
( cd $WT && git apply $DIFF ) || { echo "APPLY FAILED $DIFF"; exit 3; }
for p in $PROPS; do
  /verif/bin/protolint -repo $BASEWT -property $p -no-evidence 2>&1 | grep '^FIRED' | awk '{print $3}' | sort > /tmp/seed/base.$$ 
  /verif/bin/protolint -repo $WT -property $p -no-evidence > /tmp/seed/mut.$$ 2>&1
  rc=$?
  grep '^FIRED' /tmp/seed/mut.$$ | awk '{print $3}' | sort > /tmp/seed/mutk.$$
  new=$(comm -13 /tmp/seed/base.$$ /tmp/seed/mutk.$$)
  if [ -n "$new" ]; then echo "$p CAUGHT:"; grep '^FIRED' /tmp/seed/mut.$$ | grep -F -f <(echo "$new") | sed 's/^/   /'; fi
  if [ $rc -ge 2 ]; then echo "$p rc=$rc"; tail -3 /tmp/seed/mut.$$; fi
done
rm -f /tmp/seed/base.$$ /tmp/seed/mut.$$ /tmp/seed/mutk.$$
