#!/bin/bash
# Development aid: full regression in parallel — every benign diff silent, every seed caught, thorough self-tests clean.
cd /verif
export GOFLAGS=-mod=mod GOPROXY=off GOSUMDB=off GOTOOLCHAIN=local; unset GOWORK
J=${J:-8}
ls /verif/benign/*.diff | xargs -P $J -I{} sh -c 'r=$(/verif/benigntest.sh {} 2>&1 | tr "\n" " " | cut -c1-300); case "$r" in *silent*) ;; *) echo "$(basename {}): $r";; esac'
echo benign-done
ls -d /verif/seeded/*/ | xargs -P $J -I{} sh -c 'id=$(basename {}); p=${id%-*}; /verif/try_seed.sh {}patch.diff $p 2>/dev/null | grep -q FIRED || echo "$id: NOT CAUGHT BY OWN PROPERTY"'
echo seeds-done
for p in C01 C02 C03 C04 C05 C06 C07 C08 C09 C10 C11 C12 C13 C14 C15 C16 C17 C18 C19 C20; do echo $p; done | xargs -P 4 -I{} sh -c 'VERIF_NO_REPLAY=1 ./run.sh {} thorough 2>&1 | grep -i "SELFTEST-W\|VIOLATION"'
echo thorough-done
