#!/usr/bin/env python3
"""Development aid: regenerates the seed table of DESIGN.md §11.4 from seeded/*/meta.json and
description.txt (rows between the table header and the first following blank line)."""
import json,os,re
rows=[]
def key(d):
    p,n=d.split('-'); return (p,int(n))
for d in sorted(os.listdir('/verif/seeded'),key=key):
    mp='/verif/seeded/%s/meta.json'%d
    if not os.path.exists(mp): continue
    m=json.load(open(mp))
    desc=m.get('needs_to_manifest','')
    dp='/verif/seeded/%s/description.txt'%d
    if os.path.exists(dp): desc=open(dp).read()
    first=desc.strip().split('\n')[0][:150].replace('|','/')
    cb=set()
    for e in m.get('caught_by',[]):
        p=e.split('[')[0]
        for r in e[e.index('[')+1:-1].split(';'):
            cb.add('%s:%s'%(p,r.split(':')[0]))
    rows.append('| %s | %s | %s |'%(d,first,', '.join(sorted(cb))))
s=open('/verif/DESIGN.md').read()
h='| Seed | Change (first line of the author\'s description) | Caught by |\n|---|---|---|\n'
i=s.index(h)+len(h)
j=s.index('\n\n',i)
s=s[:i]+'\n'.join(rows)+s[j:]
open('/verif/DESIGN.md','w').write(s)
print(len(rows),'rows')
