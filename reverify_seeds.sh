#!/bin/bash
# Re-runs every check against every stored seed (patch applied in a scratch worktree of /repo HEAD)
# and reports seeds that no check catches. Development aid.
export GOFLAGS=-mod=mod GOPROXY=off GOSUMDB=off GOTOOLCHAIN=local; unset GOWORK
ALL="C01 C02 C03 C04 C05 C06 C07 C08 C09 C10 C11 C12 C13 C14 C15 C16 C17 C18 C19 C20"
for p in $ALL; do /verif/bin/protolint -repo /repo -property $p -no-evidence 2>/dev/null | grep '^FIRED' | awk '{print $3}' | sort > /tmp/seed/rv-base-$p; done
miss=0
for sd in /verif/seeded/*/; do
  id=$(basename $sd); prop=${id%-*}
  WT=/tmp/seed/rv-$id
  git -C /repo worktree add -q --detach $WT HEAD || continue
  if ! (cd $WT && git apply $sd/patch.diff 2>/dev/null); then echo "$id: DOES-NOT-APPLY"; git -C /repo worktree remove --force $WT; continue; fi
  caught=""; own=no
  for p in $ALL; do
    new=$(/verif/bin/protolint -repo $WT -property $p -no-evidence 2>/dev/null | grep '^FIRED' | awk '{print $3}' | sort | comm -13 /tmp/seed/rv-base-$p - | head -1)
    if [ -n "$new" ]; then caught="$caught $p"; [ $p = $prop ] && own=yes; fi
  done
  git -C /repo worktree remove --force $WT
  if [ -z "$caught" ]; then echo "$id: MISSED"; miss=$((miss+1)); else echo "$id: caught by$caught (own property: $own)"; fi
done
rm -f /tmp/seed/rv-base-*
echo "missed: $miss"
