package main

import (
	"fmt"
	"go/ast"
	"go/token"
	"go/types"
	"os"
	"strings"

	"golang.org/x/tools/go/ssa"
	"golang.org/x/tools/go/types/typeutil"
)

// lookupCriteria is the frozen table function ↦ (criterion field(s) of the element, parameter).
var lookupCriteria = map[string][]struct {
	field string
	param int // position of the parameter the field is compared with
}{
	"sbom.(*NodeList).GetNodeByID":    {{"Id", 0}},
	"sbom.(*NodeList).GetNodesByName": {{"Name", 0}},
	"sbom.(*NodeList).GetEdgeByType":  {{"From", 0}, {"Type", 1}},
}

func runC16(c *Ctx) {
	c.notDecided("the full decision table of GetMatchingNode (which candidate wins for each combination of shared/conflicting hashes and purls)")
	const R = "lookup-criterion"
	c.rule(R, "a lookup returns/appends an element only on the positive side of `element.<criterion field> == <parameter>` for every criterion of the frozen table; GetNodesByIdentifier compares the Identifiers entry of the resolved type with the value; GetRootNodes tests membership of the element's Id in an index built from the receiver's RootElements; GetNodesByPurlType tests the Purl() prefix built from the parameter")
	for fname := range lookupCriteria {
		lookupCriterionRule(c, fname)
	}
	c.floor(R, 4, "Id, Name, From, Type")
	identifierLookup(c)
	rootLookup(c)
	purlTypeLookup(c)
	runC16rest(c)
	purlFallbackOnlyWithoutHashMatches(c)
	purlCriterionNeedsPurl(c)
	// a lookup that filters the list's own slice in place (nl.Nodes[:0]) returns the right nodes
	// once and leaves a list in which later lookups miss nodes that were there
	operandsUntouched(c, "lookups-leave-the-list-unchanged", "the lookup functions neither write nor append onto memory reachable from their receiver or arguments (origin sets over SSA, callee summaries substituted): the next lookup sees the same list",
		"sbom.(*NodeList).GetNodeByID", "sbom.(*NodeList).GetNodesByName", "sbom.(*NodeList).GetNodesByIdentifier", "sbom.(*NodeList).GetNodesByPurlType", "sbom.(*NodeList).GetRootNodes", "sbom.(*NodeList).GetMatchingNode")
	compositeKeysSeparated(c, "composite-key-separated", pkgFilter(c.reachDecls("composite-key-separated", "sbom.(*NodeList).GetMatchingNode"), "sbom."))
	// "precisely the nodes satisfying the criterion" and "does not depend on the order of nodes":
	// the loops of the lookup and matching functions skip an element only for the criterion itself
	const RL = "loop-totality"
	c.rule(RL, loopRuleText)
	lds := pkgFilter(c.reachDecls(RL, "sbom.(*NodeList).GetMatchingNode", "sbom.(*NodeList).GetNodesByName", "sbom.(*NodeList).GetNodesByIdentifier",
		"sbom.(*NodeList).GetNodesByPurlType", "sbom.(*NodeList).GetRootNodes", "sbom.(*Node).HashesMatch"), "sbom.(*NodeList).", "sbom.(*Node).HashesMatch")
	c.loopTotality(RL, lds, loopPolicies, commonSkips)
}

// lookupCriterionRule checks one entry of the lookup-criterion table.
func lookupCriterionRule(c *Ctx, fname string) {
	const R = "lookup-criterion"
	crits := lookupCriteria[fname]
	for range []int{0} {
		d := c.decl(R, fname)
		if d == nil {
			continue
		}
		var params []types.Object
		for _, f := range d.fd.Type.Params.List {
			for _, n := range f.Names {
				params = append(params, d.pkg.TypesInfo.Defs[n])
			}
		}
		// the functional form: i := slices.IndexFunc(coll, func(e) bool { return <criterion> });
		// return coll[i] — the criterion is the literal's result expression
		var funcCrit []ast.Expr
		for _, lit := range filterPredicates(c, d) {
			ast.Inspect(lit.Body, func(m ast.Node) bool {
				if rs, isRet := m.(*ast.ReturnStmt); isRet && len(rs.Results) == 1 {
					funcCrit = append(funcCrit, rs.Results[0])
				}
				return true
			})
		}
		// the statement that yields the element: return of a non-nil value or append to the result
		var yields []ast.Node
		ast.Inspect(d.fd.Body, func(n ast.Node) bool {
			switch s := n.(type) {
			case *ast.ReturnStmt:
				if len(s.Results) == 1 && !isNilIdent(d.pkg, s.Results[0]) {
					if _, isID := s.Results[0].(*ast.Ident); !isID || len(enclosing(d.fd.Body, s)) > 3 {
						yields = append(yields, s)
					}
				}
			case *ast.AssignStmt:
				if len(s.Rhs) == 1 {
					if ce, ok := s.Rhs[0].(*ast.CallExpr); ok {
						if id, ok := ce.Fun.(*ast.Ident); ok && id.Name == "append" {
							yields = append(yields, s)
						}
					}
				}
			}
			return true
		})
		// keep only yields inside a loop
		var inLoop []ast.Node
		for _, y := range yields {
			for _, x := range enclosing(d.fd.Body, y) {
				if _, ok := x.(*ast.RangeStmt); ok {
					inLoop = append(inLoop, y)
					break
				}
				if _, ok := x.(*ast.ForStmt); ok {
					inLoop = append(inLoop, y)
					break
				}
			}
		}
		if len(inLoop) == 0 && len(funcCrit) == 0 {
			c.undecided(R, fname+"#yield", c.P.Pos(d.fd.Pos()), "no yielding statement found inside a loop")
			continue
		}
		for _, crit := range crits {
			construct := fmt.Sprintf("%s#%s", fname, crit.field)
			if crit.param >= len(params) || params[crit.param] == nil {
				c.undecided(R, construct, c.P.Pos(d.fd.Pos()), fmt.Sprintf("parameter %d not found", crit.param))
				continue
			}
			po := params[crit.param]
			okAll := true
			for _, fc := range funcCrit {
				found := false
				for _, cj := range conjuncts(fc) {
					b, isB := cj.(*ast.BinaryExpr)
					if !isB || b.Op != token.EQL {
						continue
					}
					for _, pr := range [][2]ast.Expr{{b.X, b.Y}, {b.Y, b.X}} {
						if objOf(d.pkg, pr[1]) == po {
							t := normText(types.ExprString(pr[0]))
							if strings.HasSuffix(t, "."+crit.field) {
								found = true
							}
						}
					}
				}
				okAll = okAll && found
			}
			for _, y := range inLoop {
				found := false
				chain := enclosing(d.fd.Body, y)
				for i, x := range chain {
					ifs, isIf := x.(*ast.IfStmt)
					if !isIf || i+1 >= len(chain) || chain[i+1] != ast.Node(ifs.Body) {
						continue
					}
					var walk func(e ast.Expr)
					walk = func(e ast.Expr) {
						switch b := e.(type) {
						case *ast.ParenExpr:
							walk(b.X)
						case *ast.BinaryExpr:
							if b.Op == token.LAND {
								walk(b.X)
								walk(b.Y)
								return
							}
							if b.Op == token.EQL {
								for _, pr := range [][2]ast.Expr{{b.X, b.Y}, {b.Y, b.X}} {
									if objOf(d.pkg, pr[1]) == po {
										s := types.ExprString(pr[0])
										if strings.HasSuffix(s, "."+crit.field) || strings.HasSuffix(s, ".Get"+crit.field+"()") {
											found = true
										}
									}
								}
							}
						}
					}
					walk(ifs.Cond)
				}
				okAll = okAll && found
			}
			ypos := d.fd.Pos()
			if len(inLoop) > 0 {
				ypos = inLoop[0].Pos()
			} else if len(funcCrit) > 0 {
				ypos = funcCrit[0].Pos()
			}
			c.check(okAll, R, construct, c.P.Pos(ypos), "element yielded only when its "+crit.field+" equals "+po.Name(),
				fmt.Sprintf("%s yields an element that is not on the positive side of `element.%s == %s`: the lookup returns nodes that do not satisfy its criterion", fname, crit.field, po.Name()))
		}
	}
}

func runC16rest(c *Ctx) {
	// D2 identifier-type table
	const RT = "table-inverse"
	c.rule(RT, "SoftwareIdentifierTypeFromString inverts SoftwareIdentifierType.ToSPDX2Type on the four identifier types and maps the documented lower-case aliases")
	idT := c.P.namedType(modPath+"/pkg/sbom", "SoftwareIdentifierType")
	fromS, _ := c.P.FuncDecl("sbom.SoftwareIdentifierTypeFromString")
	toS, _ := c.P.FuncDecl("sbom.SoftwareIdentifierType.ToSPDX2Type")
	if idT == nil || fromS == nil || toS == nil {
		c.undecided(RT, "anchor:identifier-tables", "-", "identifier tables not found")
	} else {
		pk := c.P.pkg("pkg/sbom")
		fromF, _ := pk.TypesInfo.Defs[fromS.Name].(*types.Func)
		toF, _ := pk.TypesInfo.Defs[toS.Name].(*types.Func)
		n := c.inverse(inverseSpec{rule: RT, to: toF, from: fromF, dom: enumConsts(idT),
			required: func(e *types.Const, w value) bool { return w.isStr() && w.str() != "" }})
		c.check(n >= 4, RT, "domain:SoftwareIdentifierType/string", c.fpos(toF), fmt.Sprintf("%d identifier types", n), fmt.Sprintf("only %d identifier types have a label", n))
		for alias, want := range map[string]string{"cpe22": "SoftwareIdentifierType_CPE22", "cpe2.2": "SoftwareIdentifierType_CPE22", "cpe23": "SoftwareIdentifierType_CPE23", "cpe2.3": "SoftwareIdentifierType_CPE23", " CPE23 ": "SoftwareIdentifierType_CPE23"} {
			r := c.apply(fromF, cstr(alias))
			var wc *types.Const
			for _, k := range enumConsts(idT) {
				if k.Name() == want {
					wc = k
				}
			}
			construct := "sbom.SoftwareIdentifierTypeFromString#alias:" + strings.TrimSpace(alias)
			if len(r) == 0 || r[0].k != vConst || wc == nil {
				c.undecided(RT, construct, c.fpos(fromF), "alias table not foldable")
				continue
			}
			c.check(sameValue(r[0], constVal(wc)), RT, construct, c.fpos(fromF), alias+" → "+want, fmt.Sprintf("alias %q resolves to %s, not %s", alias, r[0], want))
		}
	}

	mapOrderSelection(c)
	matchMember(c)
	matchReturns(c)
	hashKeyAgreement(c)
	purlAccessor(c)
}

func identifierLookup(c *Ctx) {
	const R = "lookup-criterion"
	fname := "sbom.(*NodeList).GetNodesByIdentifier"
	d := c.decl(R, fname)
	if d == nil {
		return
	}
	// the two string parameters: identifier type and value (by position, not by name)
	var pType, pVal types.Object
	k := 0
	for _, fl := range d.fd.Type.Params.List {
		for _, nm := range fl.Names {
			switch k {
			case 0:
				pType = d.pkg.TypesInfo.Defs[nm]
			case 1:
				pVal = d.pkg.TypesInfo.Defs[nm]
			}
			k++
		}
	}
	// the local holding the resolved identifier type: x := SoftwareIdentifierTypeFromString(<type parameter>)
	var idObj types.Object
	fromParam := false
	ast.Inspect(d.fd.Body, func(n ast.Node) bool {
		as, ok := n.(*ast.AssignStmt)
		if !ok || len(as.Lhs) != 1 || len(as.Rhs) != 1 {
			return true
		}
		rhs := as.Rhs[0]
		// the resolved type may be converted on the spot: int32(SoftwareIdentifierTypeFromString(t))
		for {
			cv, isCall := rhs.(*ast.CallExpr)
			if !isCall || len(cv.Args) != 1 {
				break
			}
			if tv, ok := d.pkg.TypesInfo.Types[cv.Fun]; ok && tv.IsType() {
				rhs = cv.Args[0]
				continue
			}
			break
		}
		if ce, isCall := rhs.(*ast.CallExpr); isCall && calleeBase(d, ce, "") == "SoftwareIdentifierTypeFromString" && len(ce.Args) == 1 && objOf(d.pkg, ce.Args[0]) == pType && pType != nil {
			idObj = objOf(d.pkg, as.Lhs[0])
			fromParam = true
		}
		return true
	})
	mentions := func(e ast.Expr, o types.Object) bool {
		f := false
		ast.Inspect(e, func(m ast.Node) bool {
			if id, ok := m.(*ast.Ident); ok && objOf(d.pkg, id) == o && o != nil {
				f = true
			}
			return !f
		})
		return f
	}
	// append only under `…Identifiers[<resolved type>] == <value parameter>`, and only for an entry
	// that is present: a missing key reads as "" and would match an empty value
	okCmp, okType, okPresent := false, false, false
	ast.Inspect(d.fd.Body, func(n ast.Node) bool {
		as, ok := n.(*ast.AssignStmt)
		if !ok || len(as.Rhs) != 1 {
			return true
		}
		ce, ok := as.Rhs[0].(*ast.CallExpr)
		if !ok {
			return true
		}
		if id, ok := ce.Fun.(*ast.Ident); !ok || id.Name != "append" {
			return true
		}
		chain := enclosing(d.fd.Body, as)
		for i, x := range chain {
			ifs, isIf := x.(*ast.IfStmt)
			if !isIf || i+1 >= len(chain) || chain[i+1] != ast.Node(ifs.Body) {
				continue
			}
			// the value compared may be the map entry itself or a local bound to it by a comma-ok lookup
			var okVar, valVar types.Object
			var lookup *ast.IndexExpr
			if ini, isAs := ifs.Init.(*ast.AssignStmt); isAs && len(ini.Lhs) == 2 && len(ini.Rhs) == 1 {
				if ix, isIx := ini.Rhs[0].(*ast.IndexExpr); isIx {
					lookup, valVar, okVar = ix, objOf(d.pkg, ini.Lhs[0]), objOf(d.pkg, ini.Lhs[1])
				}
			}
			evalIdentifierConds(c, d, conjuncts(ifs.Cond), lookup, valVar, okVar, idObj, pVal, mentions, &okCmp, &okType, &okPresent)
		}
		return true
	})
	// the functional form: the criterion is the result of the predicate handed to a filter helper
	for _, lit := range filterPredicates(c, d) {
		var lookup *ast.IndexExpr
		var valVar, okVar types.Object
		ast.Inspect(lit.Body, func(n ast.Node) bool {
			if as, ok := n.(*ast.AssignStmt); ok && len(as.Lhs) == 2 && len(as.Rhs) == 1 {
				if ix, isIx := as.Rhs[0].(*ast.IndexExpr); isIx {
					lookup, valVar, okVar = ix, objOf(d.pkg, as.Lhs[0]), objOf(d.pkg, as.Lhs[1])
				}
			}
			return true
		})
		ast.Inspect(lit.Body, func(n ast.Node) bool {
			rs, ok := n.(*ast.ReturnStmt)
			if !ok || len(rs.Results) != 1 {
				return true
			}
			if _, isC := constOf(d.pkg, rs.Results[0]); isC {
				return true
			}
			evalIdentifierConds(c, d, conjuncts(rs.Results[0]), lookup, valVar, okVar, idObj, pVal, mentions, &okCmp, &okType, &okPresent)
			return true
		})
	}
	c.check(okCmp && okType && fromParam, R, fname+"#Identifiers", c.P.Pos(d.fd.Pos()), "element yielded only when Identifiers[type(t)] == v",
		fmt.Sprintf("GetNodesByIdentifier does not yield exactly under `Identifiers[<resolved type>] == <value>` with the type resolved from the type parameter (comparison %v, keyed by the resolved type %v, resolved from the parameter %v)", okCmp, okType, fromParam))
	c.check(okPresent, R, fname+"#present", c.P.Pos(d.fd.Pos()), "only an entry that is present can match",
		"the identifier comparison is not conjoined with a presence test (comma-ok) of the entry: a node without an identifier of the requested type reads as \"\" and matches a lookup for the empty value")
}

func rootLookup(c *Ctx) {
	const R = "lookup-criterion"
	fname := "sbom.(*NodeList).GetRootNodes"
	d := c.decl(R, fname)
	if d == nil {
		return
	}
	recv, _ := recvAndParam(d)
	ok := false
	ast.Inspect(d.fd.Body, func(n ast.Node) bool {
		as, isAs := n.(*ast.AssignStmt)
		if !isAs || len(as.Rhs) != 1 {
			return true
		}
		ce, isCall := as.Rhs[0].(*ast.CallExpr)
		if !isCall {
			return true
		}
		if id, isID := ce.Fun.(*ast.Ident); !isID || id.Name != "append" {
			return true
		}
		for _, f := range membersAt(d, as) {
			if !f.present || !strings.HasSuffix(strings.ReplaceAll(f.key, ".GetId()", ".Id"), ".Id") {
				continue
			}
			o := originOfIndex(d, f.m)
			if (o.kind == "roots" && o.operand == recv) || (o.kind == "set-of" && strings.HasSuffix(o.of, ".RootElements") && o.operand == recv) {
				ok = true
			}
			// membership tested directly on the receiver's root list: slices.Contains(nl.RootElements, id)
			if f.m == recv && strings.HasSuffix(normText(f.mexpr), ".RootElements") {
				ok = true
			}
		}
		return true
	})
	c.check(ok, R, fname+"#RootElements", c.P.Pos(d.fd.Pos()), "a node is yielded only when its Id is in the index of the receiver's RootElements",
		"GetRootNodes does not yield exactly the nodes whose Id is a key of an index built from the receiver's RootElements")
}

func purlTypeLookup(c *Ctx) {
	const R = "lookup-criterion"
	fname := "sbom.(*NodeList).GetNodesByPurlType"
	d := c.decl(R, fname)
	if d == nil {
		return
	}
	ok := false
	ast.Inspect(d.fd.Body, func(n ast.Node) bool {
		ifs, isIf := n.(*ast.IfStmt)
		if !isIf {
			return true
		}
		all, any := true, false
		var walk func(e ast.Expr)
		walk = func(e ast.Expr) {
			switch b := e.(type) {
			case *ast.ParenExpr:
				walk(b.X)
				return
			case *ast.BinaryExpr:
				if b.Op == token.LOR {
					walk(b.X)
					walk(b.Y)
					return
				}
			case *ast.CallExpr:
				if f, _ := typeutil.Callee(d.pkg.TypesInfo, b).(*types.Func); f != nil && f.FullName() == "strings.HasPrefix" && len(b.Args) == 2 {
					s0, s1 := types.ExprString(b.Args[0]), types.ExprString(b.Args[1])
					if strings.Contains(s0, ".Purl()") && strings.Contains(s1, "purlType") && strings.Contains(s1, "pkg:") {
						any = true
						return
					}
				}
			}
			all = false
		}
		walk(ifs.Cond)
		if all && any {
			for _, st := range ifs.Body.List {
				if as, isAs := st.(*ast.AssignStmt); isAs && strings.Contains(types.ExprString(as.Rhs[0]), "append") {
					ok = true
				}
			}
		}
		return true
	})
	c.check(ok, R, fname+"#Purl", c.P.Pos(d.fd.Pos()), "a node is yielded only when its Purl() starts with pkg:<type>/",
		"GetNodesByPurlType does not yield exactly under HasPrefix(node.Purl(), \"pkg:<purlType>/\") tests")
}

// mapOrderSelection: C16-D3.
func mapOrderSelection(c *Ctx) {
	const R = "no-map-order-selection"
	c.rule(R, "in the matching code, a return inside a range over a map, or of element [0] of a slice filled during one, is dominated by a test that the collection has exactly one element")
	for _, fname := range []string{"sbom.(*NodeList).GetMatchingNode", "sbom.(*NodeList).indexNodesByHash", "sbom.(*NodeList).indexNodesByPurl", "sbom.(*Node).HashesMatch"} {
		d := c.decl(R, fname)
		if d == nil {
			continue
		}
		n := 0
		ast.Inspect(d.fd.Body, func(x ast.Node) bool {
			rs, ok := x.(*ast.ReturnStmt)
			if !ok {
				return true
			}
			chain := enclosing(d.fd.Body, rs)
			var overMap *ast.RangeStmt
			for _, y := range chain {
				if r, isR := y.(*ast.RangeStmt); isR {
					if t := d.pkg.TypesInfo.TypeOf(r.X); t != nil {
						if _, isMap := t.Underlying().(*types.Map); isMap {
							overMap = r
						}
					}
				}
			}
			if overMap == nil {
				return true
			}
			// returning a constant boolean out of an all/exists loop is order-independent
			allConst := true
			for _, r := range rs.Results {
				if _, isC := constOf(d.pkg, r); !isC && !isNilIdent(d.pkg, r) {
					allConst = false
				}
			}
			if allConst {
				return true
			}
			n++
			construct := fmt.Sprintf("%s#return-in-map-range@%d", fname, n)
			m := types.ExprString(overMap.X)
			single := underLenOne(d, chain, m)
			c.check(single, R, construct, c.P.Pos(rs.Pos()), "returned out of a map iteration only when the map has exactly one entry",
				fmt.Sprintf("a value is returned from inside a range over the map %s without a dominating len(%s) == 1 test: which element is returned depends on Go's randomised map iteration order (and an ambiguity goes unreported)", m, m))
			return true
		})
		// x[0] of slices
		ast.Inspect(d.fd.Body, func(x ast.Node) bool {
			rs, ok := x.(*ast.ReturnStmt)
			if !ok || len(rs.Results) == 0 {
				return true
			}
			ix, ok := rs.Results[0].(*ast.IndexExpr)
			if !ok {
				return true
			}
			v, isC := constOf(d.pkg, ix.Index)
			if !isC || !v.isInt() {
				return true
			}
			n++
			construct := fmt.Sprintf("%s#return-first@%d", fname, n)
			want := "len(" + types.ExprString(ix.X) + ") == 1"
			single := underLenOne(d, enclosing(d.fd.Body, rs), types.ExprString(ix.X))
			c.check(single, R, construct, c.P.Pos(rs.Pos()), "first element returned only under "+want,
				fmt.Sprintf("%s is returned without a dominating `%s`: with several candidates the choice depends on iteration order", types.ExprString(ix), want))
			return true
		})
	}
	c.floor(R, 2, "the single-hash-match return and the two x[0] returns")
}

// matchMember: C16-D4 via origins.
func matchMember(c *Ctx) {
	const R = "match-is-member"
	c.rule(R, "every node GetMatchingNode can return originates in the receiver (origin P0), never in the probe node (origin P1)")
	o := newOrigins(c.P)
	if dbg := os.Getenv("PROTOLINT_DEBUG_FN"); dbg != "" {
		o.dump(dbg)
	}
	fn := c.P.Func("sbom.(*NodeList).GetMatchingNode")
	if fn == nil {
		c.undecided(R, "anchor:GetMatchingNode", "-", "function not found")
		return
	}
	s := o.sums[fn]
	bad := ""
	hasRecv := false
	for r := range s.ret[0] {
		if r.isParam() && r.j == 1 {
			bad = r.String()
		}
		if r.isParam() && r.j == 0 {
			hasRecv = true
		}
		if r.k == rSite || r.k == rExt {
			bad = r.String() + " (not a member of the list)"
		}
	}
	c.check(bad == "" && hasRecv, R, fnName(fn), c.P.Pos(fn.Pos()), "returned nodes originate in the receiver's memory "+s.ret[0].String(),
		fmt.Sprintf("GetMatchingNode may return a node with origin %s: a node outside the list", bad))
	_ = ssa.Value(nil)
}

// matchReturns: C16-D5.
func matchReturns(c *Ctx) {
	const R = "match-result-discipline"
	c.rule(R, "every return of GetMatchingNode is (node, nil), (nil, nil) or (nil, ErrorMoreThanOneMatch)")
	fname := "sbom.(*NodeList).GetMatchingNode"
	d := c.decl(R, fname)
	if d == nil {
		return
	}
	n := 0
	ast.Inspect(d.fd.Body, func(x ast.Node) bool {
		rs, ok := x.(*ast.ReturnStmt)
		if !ok || len(rs.Results) != 2 {
			return true
		}
		n++
		r0nil := isNilIdent(d.pkg, rs.Results[0])
		r1nil := isNilIdent(d.pkg, rs.Results[1])
		isErrConst := false
		if id, ok := rs.Results[1].(*ast.Ident); ok {
			if o, ok := d.pkg.TypesInfo.Uses[id].(*types.Var); ok && o.Parent() == o.Pkg().Scope() && o.Name() == "ErrorMoreThanOneMatch" {
				isErrConst = true
			}
		}
		okR := (r1nil) || (r0nil && isErrConst)
		c.check(okR, R, fmt.Sprintf("%s#return@%d", fname, n), c.P.Pos(rs.Pos()), "well-formed result",
			fmt.Sprintf("return (%s, %s) is not one of (node, nil), (nil, nil), (nil, ErrorMoreThanOneMatch)", types.ExprString(rs.Results[0]), types.ExprString(rs.Results[1])))
		return true
	})
	// the ambiguous branches: a `default` (more than one hash match) branch must end in the error
	c.floor(R, 6, "nine returns today")
}

// hashKeyAgreement: C16-D6.
func hashKeyAgreement(c *Ctx) {
	const R = "constant-agreement"
	c.rule(R, "the hash-index key built by indexNodesByHash and the probe key built by GetMatchingNode use the same constant format with the same operand order (algorithm, value)")
	formats := map[string][]string{}
	var keyDecls []*declInfo
	for _, fname := range []string{"sbom.(*NodeList).indexNodesByHash", "sbom.(*NodeList).GetMatchingNode"} {
		d := c.decl(R, fname)
		if d == nil {
			return
		}
		keyDecls = append(keyDecls, d)
	}
	// pieces split off the matcher probe the index on its behalf
	for _, d := range c.reachDecls(R, "sbom.(*NodeList).GetMatchingNode") {
		if d.name != "sbom.(*NodeList).GetMatchingNode" && ownerName(d) == "sbom.(*NodeList).GetMatchingNode" {
			keyDecls = append(keyDecls, d)
		}
	}
	for _, d := range keyDecls {
		fname := d.name
		if ownerName(d) == "sbom.(*NodeList).GetMatchingNode" {
			fname = "sbom.(*NodeList).GetMatchingNode"
		}
		defs := singleDefs(d.pkg, d.fd.Body)
		// every expression that keys a map[string][]*Node (the hash index), however it is spelled:
		// Sprintf, concatenation, strconv — reduced to its shape, e.g. <int>:<str>
		ast.Inspect(d.fd.Body, func(n ast.Node) bool {
			ix, ok := n.(*ast.IndexExpr)
			if !ok {
				return true
			}
			mt := d.pkg.TypesInfo.TypeOf(ix.X)
			if mt == nil {
				return true
			}
			m, isMap := mt.Underlying().(*types.Map)
			if !isMap {
				return true
			}
			sl, isSl := m.Elem().Underlying().(*types.Slice)
			if !isSl || !isNodePtr(sl.Elem()) {
				return true
			}
			if b, isB := m.Key().Underlying().(*types.Basic); !isB || b.Kind() != types.String {
				return true
			}
			// in the matcher only the map produced by the hash indexer counts (the purl index has
			// the same type)
			if !strings.HasSuffix(fname, ".indexNodesByHash") {
				def, hasDef := defs[baseObj(d, ix.X)]
				ce, isCall := def.(*ast.CallExpr)
				if !hasDef || !isCall || calleeBase(d, ce, "") != "indexNodesByHash" {
					return true
				}
			}
			c.CallSites++
			formats[fname] = append(formats[fname], keyShape(d, defs, ix.Index, 0))
			return true
		})
	}
	a, b := formats["sbom.(*NodeList).indexNodesByHash"], formats["sbom.(*NodeList).GetMatchingNode"]
	if len(a) == 0 || len(b) == 0 {
		c.undecided(R, "hash-index-key", "-", "key construction not recognised")
		return
	}
	same := true
	for _, x := range b {
		same = same && x == a[0]
	}
	c.check(same, R, "hash-index-key", "-", "index and probe use "+a[0], fmt.Sprintf("the index is keyed with %v but probed with %v: hash matches are never (or wrongly) found", a, b))
}

// purlAccessor: the package URL of a node is obtained through Node.Purl only.
func purlAccessor(c *Ctx) {
	const R = "purl-via-accessor"
	c.rule(R, "outside (*Node).Purl no function of pkg/sbom reads Identifiers[SoftwareIdentifierType_PURL] directly: the accessor encodes the 'files have no package URL' rule")
	pk := c.P.pkg("pkg/sbom")
	n := 0
	for _, f := range pk.Syntax {
		if strings.HasSuffix(c.P.Fset.Position(f.Pos()).Filename, ".pb.go") {
			continue
		}
		for _, dd := range f.Decls {
			fd, ok := dd.(*ast.FuncDecl)
			if !ok || fd.Body == nil {
				continue
			}
			obj, _ := pk.TypesInfo.Defs[fd.Name].(*types.Func)
			name := objName(obj)
			if name == "sbom.(*Node).Purl" {
				continue
			}
			ast.Inspect(fd.Body, func(x ast.Node) bool {
				ix, ok := x.(*ast.IndexExpr)
				if !ok {
					return true
				}
				sel, ok := ix.X.(*ast.SelectorExpr)
				if !ok || sel.Sel.Name != "Identifiers" {
					return true
				}
				idx := ix.Index
				if ce, ok := idx.(*ast.CallExpr); ok && len(ce.Args) == 1 {
					idx = ce.Args[0]
				}
				if v, ok := constOf(pk, idx); ok && v.isInt() {
					if k, ok := pk.Types.Scope().Lookup("SoftwareIdentifierType_PURL").(*types.Const); ok && sameValue(v, constVal(k)) {
						n++
						c.bad(R, name, c.P.Pos(ix.Pos()), name+" reads Identifiers[PURL] directly instead of calling Purl(): file nodes carrying a purl identifier are then treated as packages by matching")
					}
				}
				return true
			})
		}
	}
	if n == 0 {
		c.ok(R, "pkg/sbom", "-", "only Node.Purl reads the purl identifier")
	}
	// and the purl index uses the accessor
	d := c.decl(R, "sbom.(*NodeList).indexNodesByPurl")
	if d != nil {
		uses := false
		for _, cs := range callsIn(d.pkg, d.fd.Body) {
			if objName(cs.callee) == "sbom.(*Node).Purl" {
				uses = true
			}
		}
		c.check(uses, R, "sbom.(*NodeList).indexNodesByPurl#Purl", c.P.Pos(d.fd.Pos()), "the purl index is built from Purl()", "the purl index is not built from Node.Purl()")
	}
}

// underLenOne: the innermost statement of chain executes only when len(coll) == 1 — it sits in
// the body of `if … len(coll) == 1 …` (a conjunct), in `case 1:` of `switch len(coll)`, or in a
// `case len(coll) == 1:` of a tagless switch.
func underLenOne(d *declInfo, chain []ast.Node, coll string) bool {
	return underLenK(d, chain, coll, 1)
}

// underLenK: as underLenOne for an arbitrary constant length k.
func underLenK(d *declInfo, chain []ast.Node, coll string, k int64) bool {
	want := normText("len(" + coll + ")")
	isLenOne := func(e ast.Expr) bool {
		for _, cj := range conjuncts(e) {
			if be, ok := cj.(*ast.BinaryExpr); ok && be.Op == token.EQL {
				x, y := be.X, be.Y
				if v, isC := constOf(d.pkg, x); isC && v.isInt() && v.int() == k {
					x, y = y, x
				}
				if v, isC := constOf(d.pkg, y); isC && v.isInt() && v.int() == k && normText(types.ExprString(x)) == want {
					return true
				}
			}
		}
		return false
	}
	// guard clauses ahead of the statement: `if len(m) == 0 { return … }` and `if len(m) > 1 { return … }`
	// (for k == 1) leave exactly len(m) == k
	if k == 1 {
		below, above := false, false
		for i, y := range chain {
			blk, isBlk := y.(*ast.BlockStmt)
			if !isBlk || i+1 >= len(chain) {
				continue
			}
			for _, st := range blk.List {
				if st == chain[i+1] {
					break
				}
				ifs, isIf := st.(*ast.IfStmt)
				if !isIf || !terminates(ifs.Body) {
					continue
				}
				be, isB := ifs.Cond.(*ast.BinaryExpr)
				if !isB || normText(types.ExprString(be.X)) != want {
					continue
				}
				v, isC := constOf(d.pkg, be.Y)
				if !isC || !v.isInt() {
					continue
				}
				switch {
				case (be.Op == token.EQL && v.int() == 0) || (be.Op == token.LSS && v.int() == 1) || (be.Op == token.LEQ && v.int() == 0):
					below = true
				case (be.Op == token.GTR && v.int() == 1) || (be.Op == token.GEQ && v.int() == 2) || (be.Op == token.NEQ && v.int() == 1 && below):
					above = true
				}
			}
		}
		if below && above {
			return true
		}
	}
	for i, y := range chain {
		switch s := y.(type) {
		case *ast.IfStmt:
			if i+1 < len(chain) && chain[i+1] == ast.Node(s.Body) && isLenOne(s.Cond) {
				return true
			}
		case *ast.CaseClause:
			if len(s.List) != 1 {
				continue
			}
			for j := i - 1; j >= 0; j-- {
				sw, isSw := chain[j].(*ast.SwitchStmt)
				if !isSw {
					continue
				}
				if sw.Tag == nil {
					if isLenOne(s.List[0]) {
						return true
					}
				} else if normText(types.ExprString(sw.Tag)) == want {
					if v, isC := constOf(d.pkg, s.List[0]); isC && v.isInt() && v.int() == k {
						return true
					}
				}
				break
			}
		}
	}
	return false
}

// keyShape reduces a string-building expression to literals and operand classes:
// fmt.Sprintf("%d:%s", a, b), strconv.Itoa(a)+":"+b and strconv.FormatInt(int64(a),10)+":"+b all
// become `<int>:<str>`.
func keyShape(d *declInfo, defs map[types.Object]ast.Expr, e ast.Expr, depth int) string {
	if depth > 6 {
		return "<?>"
	}
	e = chase(d.pkg, defs, e)
	if v, ok := constOf(d.pkg, e); ok && v.isStr() {
		return v.str()
	}
	classOf := func(x ast.Expr) string {
		t := d.pkg.TypesInfo.TypeOf(x)
		if t == nil {
			return "<?>"
		}
		if b, ok := t.Underlying().(*types.Basic); ok {
			switch {
			case b.Info()&types.IsInteger != 0:
				return "<int>"
			case b.Info()&types.IsString != 0:
				// a transformed operand is a different key component: <str:strings.ToLower>
				y := chase(d.pkg, defs, x)
				for {
					p, isP := y.(*ast.ParenExpr)
					if !isP {
						break
					}
					y = p.X
				}
				if ce, isCall := y.(*ast.CallExpr); isCall {
					if tv, ok := d.pkg.TypesInfo.Types[ce.Fun]; !ok || !tv.IsType() {
						if f, _ := typeutil.Callee(d.pkg.TypesInfo, ce).(*types.Func); f != nil {
							return "<str:" + f.FullName() + ">"
						}
						return "<str:?>"
					}
				}
				return "<str>"
			}
		}
		return "<?>"
	}
	switch x := e.(type) {
	case *ast.ParenExpr:
		return keyShape(d, defs, x.X, depth+1)
	case *ast.BinaryExpr:
		if x.Op == token.ADD {
			return keyShape(d, defs, x.X, depth+1) + keyShape(d, defs, x.Y, depth+1)
		}
	case *ast.CallExpr:
		if tv, ok := d.pkg.TypesInfo.Types[x.Fun]; ok && tv.IsType() && len(x.Args) == 1 {
			// string(x) of a string, or a numeric conversion
			return classOf(x)
		}
		f, _ := typeutil.Callee(d.pkg.TypesInfo, x).(*types.Func)
		if f == nil {
			return "<?>"
		}
		switch f.FullName() {
		case "strconv.Itoa", "strconv.FormatInt", "strconv.FormatUint":
			return "<int>"
		case "fmt.Sprint":
			out := ""
			for _, a := range x.Args {
				out += classOf(a)
			}
			return out
		case "fmt.Sprintf":
			if len(x.Args) == 0 {
				return "<?>"
			}
			fv, ok := constOf(d.pkg, x.Args[0])
			if !ok || !fv.isStr() {
				return "<?>"
			}
			out, arg := "", 1
			f := fv.str()
			for i := 0; i < len(f); i++ {
				if f[i] != '%' || i+1 >= len(f) {
					out += string(f[i])
					continue
				}
				i++
				switch f[i] {
				case '%':
					out += "%"
				case 'd', 's', 'v':
					if arg < len(x.Args) {
						cl := classOf(x.Args[arg])
						if (f[i] == 'd' && cl != "<int>") || (f[i] == 's' && !strings.HasPrefix(cl, "<str")) {
							cl = "<?>"
						}
						out += cl
					} else {
						out += "<?>"
					}
					arg++
				default:
					out += "<?>"
				}
			}
			return out
		}
		return "<?>"
	}
	return classOf(e)
}

// purlFallbackOnlyWithoutHashMatches: C16 matching rule — "the package URL breaking ties among
// several hash matches": a node taken from the list-wide purl index may be returned only when no
// node matched by hash; with hash matches the candidates come from those matches.
func purlFallbackOnlyWithoutHashMatches(c *Ctx) {
	const R = "match-candidates"
	fname := "sbom.(*NodeList).GetMatchingNode"
	c.rule(R, "in GetMatchingNode a returned node that derives from the list-wide purl index (indexNodesByPurl) is returned only under len(<hash matches>) == 0; every other returned node derives from the hash matches")
	d := c.decl(R, fname)
	if d == nil {
		return
	}
	// the hash-match collection: the map whose store is guarded by HashesMatch
	var found types.Object
	ast.Inspect(d.fd.Body, func(n ast.Node) bool {
		ifs, ok := n.(*ast.IfStmt)
		if !ok {
			return true
		}
		guarded := false
		for _, cs := range callsIn(d.pkg, ifs.Cond) {
			if strings.HasSuffix(objName(cs.callee), ".HashesMatch") {
				guarded = true
			}
		}
		if !guarded {
			return true
		}
		for _, st := range ifs.Body.List {
			if as, isAs := st.(*ast.AssignStmt); isAs && len(as.Lhs) == 1 {
				if ix, isIx := as.Lhs[0].(*ast.IndexExpr); isIx {
					found = baseObj(d, ix.X)
				}
			}
		}
		return true
	})
	if found == nil {
		// the collecting half may have been split off: a local bound to the result of an owned
		// helper whose body holds the HashesMatch-guarded store
		ast.Inspect(d.fd.Body, func(n ast.Node) bool {
			as, ok := n.(*ast.AssignStmt)
			if !ok || len(as.Lhs) != 1 || len(as.Rhs) != 1 {
				return true
			}
			ce, isCall := as.Rhs[0].(*ast.CallExpr)
			if !isCall {
				return true
			}
			g, _ := typeutil.Callee(d.pkg.TypesInfo, ce).(*types.Func)
			if g == nil {
				return true
			}
			gfd, gpk := c.P.FuncDecl(objName(g))
			if gfd == nil || gfd.Body == nil {
				return true
			}
			gd := &declInfo{fd: gfd, pkg: gpk, obj: g, name: objName(g)}
			if ownerName(gd) != fname {
				return true
			}
			for _, cs := range callsIn(gpk, gfd.Body) {
				if strings.HasSuffix(objName(cs.callee), ".HashesMatch") {
					found = objOf(d.pkg, as.Lhs[0])
				}
			}
			return true
		})
	}
	if found == nil {
		c.undecided(R, fname+"#hash-matches", c.P.Pos(d.fd.Pos()), "the collection of hash matches (a map filled under HashesMatch) was not found")
		return
	}
	// provenance of a returned expression: "hash" / "purl" / "" by local data flow
	var prov func(e ast.Expr, depth int) string
	prov = func(e ast.Expr, depth int) string {
		if depth > 6 {
			return ""
		}
		switch x := e.(type) {
		case *ast.ParenExpr:
			return prov(x.X, depth+1)
		case *ast.IndexExpr:
			return prov(x.X, depth+1)
		case *ast.CallExpr:
			if calleeBase(d, x, "") == "indexNodesByPurl" {
				return "purl"
			}
			return ""
		case *ast.Ident:
			o := objOf(d.pkg, x)
			if o == nil {
				return ""
			}
			if o == found {
				return "hash"
			}
			res := ""
			merge := func(p string) {
				if p == "" {
					return
				}
				if res == "" || res == p {
					res = p
				} else {
					res = "mixed"
				}
			}
			ast.Inspect(d.fd.Body, func(n ast.Node) bool {
				switch s := n.(type) {
				case *ast.RangeStmt:
					if (s.Key != nil && objOf(d.pkg, s.Key) == o) || (s.Value != nil && objOf(d.pkg, s.Value) == o) {
						merge(prov(s.X, depth+1))
					}
				case *ast.AssignStmt:
					for i, l := range s.Lhs {
						if objOf(d.pkg, l) != o {
							continue
						}
						var r ast.Expr
						if len(s.Rhs) == len(s.Lhs) {
							r = s.Rhs[i]
						} else if len(s.Rhs) == 1 {
							r = s.Rhs[0]
						}
						if ce, isCall := r.(*ast.CallExpr); isCall {
							if id, isId := ce.Fun.(*ast.Ident); isId && id.Name == "append" {
								for _, a := range ce.Args[1:] {
									merge(prov(a, depth+1))
								}
								continue
							}
						}
						if r != nil {
							merge(prov(r, depth+1))
						}
					}
				}
				return true
			})
			return res
		}
		return ""
	}
	n := 0
	ast.Inspect(d.fd.Body, func(m ast.Node) bool {
		rs, ok := m.(*ast.ReturnStmt)
		if !ok || len(rs.Results) != 2 || isNilIdent(d.pkg, rs.Results[0]) {
			return true
		}
		n++
		construct := fmt.Sprintf("%s#return@%d", fname, n)
		p := prov(rs.Results[0], 0)
		chain := enclosing(d.fd.Body, rs)
		switch p {
		case "hash":
			c.ok(R, construct, c.P.Pos(rs.Pos()), "the returned node is one of the hash matches")
		case "purl":
			c.check(underLenK(d, chain, found.Name(), 0), R, construct, c.P.Pos(rs.Pos()), "the purl index decides only when nothing matched by hash",
				"a node from the list-wide purl index is returned although hash matches exist: the tie-break must choose among the hash matches, not among all nodes with that purl")
		default:
			c.bad(R, construct, c.P.Pos(rs.Pos()), fmt.Sprintf("the returned node %s derives from neither the hash matches nor (under len == 0) the purl index", types.ExprString(rs.Results[0])))
		}
		return true
	})
	c.floor(R, 3, "single hash match, purl fallback, purl tie-break")
}

// evalIdentifierConds reads the conjuncts of a yield condition of GetNodesByIdentifier.
func evalIdentifierConds(c *Ctx, d *declInfo, conds []ast.Expr, lookup *ast.IndexExpr, valVar, okVar, idObj, pVal types.Object,
	mentions func(ast.Expr, types.Object) bool, okCmp, okType, okPresent *bool) {
	isEntry := func(e ast.Expr) (bool, bool) {
		if ix, isIx := e.(*ast.IndexExpr); isIx && strings.HasSuffix(normText(types.ExprString(ix.X)), ".Identifiers") {
			return true, mentions(ix.Index, idObj)
		}
		if id, isId := e.(*ast.Ident); isId && valVar != nil && objOf(d.pkg, id) == valVar && lookup != nil && strings.HasSuffix(normText(types.ExprString(lookup.X)), ".Identifiers") {
			return true, mentions(lookup.Index, idObj)
		}
		return false, false
	}
	for _, cj := range conds {
		if id, isId := cj.(*ast.Ident); isId && okVar != nil && objOf(d.pkg, id) == okVar {
			*okPresent = true
		}
		be, isBe := cj.(*ast.BinaryExpr)
		if !isBe {
			continue
		}
		if be.Op == token.EQL {
			for _, pair := range [][2]ast.Expr{{be.X, be.Y}, {be.Y, be.X}} {
				if ent, keyed := isEntry(pair[0]); ent && objOf(d.pkg, pair[1]) == pVal && pVal != nil {
					*okCmp = true
					*okType = *okType || keyed
				}
			}
		}
		if subj, empty, okE := emptinessTest(c, be); okE && !empty && pVal != nil && subj == pVal.Name() {
			*okPresent = true
		}
	}
}

// filterPredicates: the function literals d hands to slices.IndexFunc or to a filter-shaped generic
// helper of the module (a loop over its slice parameter that appends the element under keep(v)).
func filterPredicates(c *Ctx, d *declInfo) []*ast.FuncLit {
	var out []*ast.FuncLit
	for _, cs := range callsIn(d.pkg, d.fd.Body) {
		okHelper := cs.callee.FullName() == "slices.IndexFunc"
		if !okHelper && cs.callee.Pkg() != nil && strings.HasPrefix(cs.callee.Pkg().Path(), modPath+"/") {
			f := cs.callee
			if o := f.Origin(); o != nil {
				f = o
			}
			if hfd, hpk := c.P.FuncDecl(objName(f)); hfd != nil && hfd.Body != nil {
				ast.Inspect(hfd.Body, func(n ast.Node) bool {
					rs, ok := n.(*ast.RangeStmt)
					if !ok || rs.Value == nil {
						return true
					}
					for _, st := range rs.Body.List {
						ifs, isIf := st.(*ast.IfStmt)
						if !isIf {
							continue
						}
						ce, isCall := ifs.Cond.(*ast.CallExpr)
						if !isCall || len(ce.Args) != 1 || objOfInfo(hpk, ce.Args[0]) != objOfInfo(hpk, rs.Value) {
							continue
						}
						if id, isId := ce.Fun.(*ast.Ident); isId {
							if pv, isVar := hpk.TypesInfo.Uses[id].(*types.Var); isVar {
								if _, isFn := pv.Type().Underlying().(*types.Signature); isFn {
									okHelper = true
								}
							}
						}
					}
					return true
				})
			}
		}
		if !okHelper {
			continue
		}
		for _, a := range cs.call.Args {
			if lit, isLit := a.(*ast.FuncLit); isLit {
				out = append(out, lit)
			}
		}
	}
	return out
}

// purlCriterionNeedsPurl: "nodes without package URL never match by package URL". In the matcher
// (and the helpers that belong to it) two package URLs are compared for equality only where one of
// them is known to be non-empty: otherwise an absent package URL on both sides reads as agreement,
// and a node is selected because it has no package URL.
func purlCriterionNeedsPurl(c *Ctx) {
	const R = "purl-criterion-nonempty"
	c.rule(R, "in GetMatchingNode and its owned helpers every `p == q` between two values of Node.Purl() is reached only where p or q is known to be non-empty (a `!= \"\"` conjunct, an enclosing condition, or an earlier exit on `== \"\"`)")
	n := 0
	for _, d := range c.reachDecls(R, "sbom.(*NodeList).GetMatchingNode") {
		if d.name != "sbom.(*NodeList).GetMatchingNode" && ownerName(d) != "sbom.(*NodeList).GetMatchingNode" {
			continue
		}
		if d.fd.Body == nil {
			continue
		}
		purlVals := map[types.Object]bool{}
		isPurlCall := func(e ast.Expr) bool {
			ce, ok := ast.Unparen(e).(*ast.CallExpr)
			if !ok {
				return false
			}
			f, _ := typeutil.Callee(d.pkg.TypesInfo, ce).(*types.Func)
			return f != nil && objName(f) == "sbom.(*Node).Purl"
		}
		ast.Inspect(d.fd.Body, func(x ast.Node) bool {
			if as, ok := x.(*ast.AssignStmt); ok && len(as.Lhs) == len(as.Rhs) {
				for i, r := range as.Rhs {
					if isPurlCall(r) {
						if o := objOf(d.pkg, as.Lhs[i]); o != nil {
							purlVals[o] = true
						}
					}
				}
			}
			return true
		})
		isPurl := func(e ast.Expr) bool {
			if isPurlCall(e) {
				return true
			}
			o := objOf(d.pkg, ast.Unparen(e))
			return o != nil && purlVals[o]
		}
		text := func(e ast.Expr) string { return normText(exprText(c.P.Fset, ast.Unparen(e))) }
		k := 0
		ast.Inspect(d.fd.Body, func(x ast.Node) bool {
			be, ok := x.(*ast.BinaryExpr)
			if !ok || be.Op != token.EQL || !isPurl(be.X) || !isPurl(be.Y) {
				return true
			}
			k++
			n++
			subjects := map[string]bool{text(be.X): true, text(be.Y): true}
			known := false
			nonEmptyFact := func(cond ast.Expr, negated bool) {
				// cond holds (negated=false) or fails (negated=true) where the comparison runs
				if !negated {
					for _, cj := range conjuncts(cond) {
						if cj == ast.Expr(be) {
							continue
						}
						if s, empty, okE := emptinessTest(c, cj); okE && !empty && subjects[s] {
							known = true
						}
					}
					return
				}
				djs := disjuncts(cond)
				if len(djs) == 0 {
					djs = []ast.Expr{cond}
				}
				for _, dj := range djs {
					if s, empty, okE := emptinessTest(c, dj); okE && empty && subjects[s] {
						known = true
					}
				}
			}
			chain := enclosing(d.fd.Body, be)
			for i, y := range chain {
				switch s := y.(type) {
				case *ast.BinaryExpr:
					if s.Op == token.LAND && i+1 < len(chain) && !containsNode(s.X, be) {
						// the right operand of && runs only where the left holds
						nonEmptyFact(s.X, false)
					} else if s.Op == token.LAND {
						// conjuncts to the right do not protect the evaluation, but the positive
						// side of the whole conjunction is what selects: they count for a condition
						nonEmptyFact(s.Y, false)
					}
				case *ast.IfStmt:
					if i+1 < len(chain) && chain[i+1] == ast.Node(s.Body) {
						nonEmptyFact(s.Cond, false)
					}
					if i+1 < len(chain) && s.Else != nil && chain[i+1] == ast.Node(s.Else) {
						nonEmptyFact(s.Cond, true)
					}
				case *ast.BlockStmt, *ast.CaseClause:
					var list []ast.Stmt
					if b, isB := s.(*ast.BlockStmt); isB {
						list = b.List
					} else {
						list = s.(*ast.CaseClause).Body
					}
					for _, st := range list {
						if i+1 < len(chain) && (st == chain[i+1] || st.Pos() > be.Pos()) {
							break
						}
						if ifs, isIf := st.(*ast.IfStmt); isIf && ifs.Else == nil && terminates(ifs.Body) {
							nonEmptyFact(ifs.Cond, true)
						}
					}
				}
			}
			c.check(known, R, fmt.Sprintf("%s#compare@%d", d.name, k), c.P.Pos(be.Pos()), "package URLs are compared only where one is known to be non-empty",
				fmt.Sprintf("%s compares `%s` where neither side is known to be non-empty: a probe without package URL then agrees with every candidate that has none (files never have one), and a node is selected by the absence of a package URL instead of the ambiguity being reported", d.name, exprText(c.P.Fset, be)))
			return true
		})
	}
	c.floor(R, 1, "the tie-break comparison in GetMatchingNode")
}

func containsNode(root ast.Node, target ast.Node) bool {
	found := false
	ast.Inspect(root, func(x ast.Node) bool {
		if x == target {
			found = true
		}
		return !found
	})
	return found
}
