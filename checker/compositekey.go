package main

// composite-key-separated: a string used as a map key that is put together from two or more
// variable parts identifies the tuple of its parts only if the parts cannot run into each other:
// constant text between any two variable parts (a + "+++" + b, Sprintf("%d:%s", a, b)). Parts
// written back to back (fmt.Sprint(a, n), a + b, "%s%d") make ("pkg-1", 12) and ("pkg-11", 2) the
// same key, and whatever the map de-duplicates or merges is then merged across different tuples.
// (A necessary condition: a part that contains the separator itself is not excluded by it.)

import (
	"fmt"
	"go/ast"
	"go/token"
	"go/types"
	"strings"

	"golang.org/x/tools/go/types/typeutil"
)

func compositeKeysSeparated(c *Ctx, rule string, ds []*declInfo) {
	c.rule(rule, "every string map key built from two or more non-constant parts (concatenation, fmt.Sprintf with a constant format, fmt.Sprint) has constant text between any two of them")
	n := 0
	for _, d := range ds {
		if d.fd.Body == nil {
			continue
		}
		defs := singleDefs(d.pkg, d.fd.Body)
		seen := map[ast.Expr]bool{}
		k := 0
		ast.Inspect(d.fd.Body, func(x ast.Node) bool {
			ix, ok := x.(*ast.IndexExpr)
			if !ok {
				return true
			}
			mt, isMap := typeOf(d, ix.X).(*types.Map)
			if !isMap {
				return true
			}
			if b, isB := mt.Key().Underlying().(*types.Basic); !isB || b.Kind() != types.String {
				return true
			}
			key := ast.Unparen(ix.Index)
			if id, isId := key.(*ast.Ident); isId {
				if def, has := defs[objOf(d.pkg, id)]; has {
					key = ast.Unparen(def)
				}
			}
			if seen[key] {
				return true
			}
			seen[key] = true
			parts, verdict := keyParts(d, key)
			if parts < 2 {
				return true
			}
			k++
			n++
			construct := fmt.Sprintf("%s#key@%d", ownerName(d), k)
			c.check(verdict == "", rule, construct, c.P.Pos(key.Pos()), fmt.Sprintf("%d variable parts, separated by constant text", parts),
				fmt.Sprintf("the map key `%s` in %s is built from %d variable parts, %s: different tuples give the same key (\"pkg-1\",12 and \"pkg-11\",2), so entries that belong to different sources are merged or dropped as duplicates", exprText(c.P.Fset, key), d.name, parts, verdict))
			return true
		})
	}
	if n == 0 {
		c.okTrivial(rule, "none", "-", "no composite string keys in scope")
	}
}

func typeOf(d *declInfo, e ast.Expr) types.Type {
	t := d.pkg.TypesInfo.TypeOf(e)
	if t == nil {
		return nil
	}
	return t.Underlying()
}

// keyParts counts the variable parts of a key expression and says what is wrong with their
// separation ("" when separated).
func keyParts(d *declInfo, key ast.Expr) (int, string) {
	isConst := func(e ast.Expr) (string, bool) {
		if v, ok := constOf(d.pkg, e); ok && v.isStr() {
			return v.str(), true
		}
		return "", false
	}
	switch k := key.(type) {
	case *ast.BinaryExpr:
		if k.Op != token.ADD {
			return 0, ""
		}
		var ops []ast.Expr
		var flat func(e ast.Expr)
		flat = func(e ast.Expr) {
			if b, ok := ast.Unparen(e).(*ast.BinaryExpr); ok && b.Op == token.ADD {
				flat(b.X)
				flat(b.Y)
				return
			}
			ops = append(ops, ast.Unparen(e))
		}
		flat(k)
		vars, verdict := 0, ""
		prevVar := false
		for _, o := range ops {
			if s, isC := isConst(o); isC {
				if s != "" {
					prevVar = false
				}
				continue
			}
			vars++
			if prevVar {
				verdict = "two of them concatenated back to back"
			}
			prevVar = true
		}
		return vars, verdict
	case *ast.CallExpr:
		f, _ := typeutil.Callee(d.pkg.TypesInfo, k).(*types.Func)
		if f == nil {
			return 0, ""
		}
		switch f.FullName() {
		case "fmt.Sprint":
			vars := 0
			for _, a := range k.Args {
				if _, isC := isConst(a); !isC {
					vars++
				}
			}
			if vars >= 2 {
				// Sprint puts a space between operands only when neither is a string
				adjacent := false
				for i := 0; i+1 < len(k.Args); i++ {
					_, c1 := isConst(k.Args[i])
					_, c2 := isConst(k.Args[i+1])
					if c1 || c2 {
						continue
					}
					s1 := isStringTyped(d, k.Args[i])
					s2 := isStringTyped(d, k.Args[i+1])
					if s1 || s2 {
						adjacent = true
					}
				}
				if adjacent {
					return vars, "written back to back by fmt.Sprint (it separates operands only when neither is a string)"
				}
			}
			return vars, ""
		case "fmt.Sprintf":
			if len(k.Args) < 1 {
				return 0, ""
			}
			format, isC := isConst(k.Args[0])
			if !isC {
				return 0, ""
			}
			vars := 0
			for _, a := range k.Args[1:] {
				if _, c := isConst(a); !c {
					vars++
				}
			}
			// two verbs with nothing between them
			verdict := ""
			prevVerbEnd := -2
			for i := 0; i < len(format); i++ {
				if format[i] != '%' {
					continue
				}
				if i+1 < len(format) && format[i+1] == '%' {
					i++
					continue
				}
				j := i + 1
				for j < len(format) && strings.ContainsRune("+-# 0123456789.[]*", rune(format[j])) {
					j++
				}
				if i == prevVerbEnd+1 {
					verdict = "two verbs of the format follow each other without text between them"
				}
				prevVerbEnd = j
				i = j
			}
			return vars, verdict
		}
	}
	return 0, ""
}

func isStringTyped(d *declInfo, e ast.Expr) bool {
	t := d.pkg.TypesInfo.TypeOf(e)
	if t == nil {
		return false
	}
	b, ok := t.Underlying().(*types.Basic)
	return ok && b.Info()&types.IsString != 0
}
