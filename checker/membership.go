package main

// Membership facts along the syntax path to a statement (E9 must-dominate with polarity).

import (
	"go/ast"
	"go/token"
	"go/types"
	"regexp"
	"strings"

	"golang.org/x/tools/go/types/typeutil"
)

// memberFact: on the path to the statement, key K is known to be (or not to be) a key of map M.
type memberFact struct {
	m       types.Object
	mexpr   string
	key     string
	present bool
	via     string     // if | early-exit | range-key | range-value-id
	mt      types.Type // type of the map expression (the map may be a field of a struct parameter)
}

// terminates: the block always leaves the enclosing iteration/function.
func terminates(b *ast.BlockStmt) bool {
	if len(b.List) == 0 {
		return false
	}
	switch s := b.List[len(b.List)-1].(type) {
	case *ast.ReturnStmt:
		return true
	case *ast.BranchStmt:
		return s.Tok == token.CONTINUE || s.Tok == token.BREAK || s.Tok == token.GOTO
	}
	return false
}

// commaOkLookup recognises `_, ok := M[K]` and returns (ok object, M, K).
func commaOkLookup(d *declInfo, s ast.Stmt) (types.Object, *ast.IndexExpr) {
	as, ok := s.(*ast.AssignStmt)
	if !ok || len(as.Lhs) != 2 || len(as.Rhs) != 1 {
		return nil, nil
	}
	ix, ok := as.Rhs[0].(*ast.IndexExpr)
	if !ok {
		return nil, nil
	}
	if t := d.pkg.TypesInfo.TypeOf(ix.X); t == nil {
		return nil, nil
	} else if _, isMap := t.Underlying().(*types.Map); !isMap {
		return nil, nil
	}
	return objOf(d.pkg, as.Lhs[1]), ix
}

// condMembers extracts membership atoms from a condition under the given polarity. lookups maps
// boolean variables to the comma-ok lookup that defined them.
func condMembers(d *declInfo, cond ast.Expr, positive bool, lookups map[types.Object]*ast.IndexExpr, via string) []memberFact {
	switch e := cond.(type) {
	case *ast.ParenExpr:
		return condMembers(d, e.X, positive, lookups, via)
	case *ast.UnaryExpr:
		if e.Op == token.NOT {
			return condMembers(d, e.X, !positive, lookups, via)
		}
	case *ast.BinaryExpr:
		switch e.Op {
		case token.LAND:
			if positive {
				return append(condMembers(d, e.X, true, lookups, via), condMembers(d, e.Y, true, lookups, via)...)
			}
			return nil
		case token.LOR:
			if !positive {
				return append(condMembers(d, e.X, false, lookups, via), condMembers(d, e.Y, false, lookups, via)...)
			}
			return nil
		}
	case *ast.CallExpr:
		// a slice used as a set: `if slices.Contains(seen, k)`
		if ix := sliceSetLookup(d, e); ix != nil {
			return []memberFact{{m: baseObj(d, ix.X), mexpr: types.ExprString(ix.X), key: types.ExprString(ix.Index), present: positive, via: via, mt: d.pkg.TypesInfo.TypeOf(ix.X)}}
		}
	case *ast.IndexExpr:
		// a map[K]bool used as a set: `if seen[k]`
		if ix := boolSetLookup(d, e); ix != nil {
			return []memberFact{{m: baseObj(d, ix.X), mexpr: types.ExprString(ix.X), key: types.ExprString(ix.Index), present: positive, via: via, mt: d.pkg.TypesInfo.TypeOf(ix.X)}}
		}
	case *ast.Ident:
		if ix, ok := lookups[objOf(d.pkg, e)]; ok {
			return []memberFact{{m: baseObj(d, ix.X), mexpr: types.ExprString(ix.X), key: types.ExprString(ix.Index), present: positive, via: via, mt: d.pkg.TypesInfo.TypeOf(ix.X)}}
		}
	}
	return nil
}

// membersAt collects membership facts that hold when control reaches stmt.
func membersAt(d *declInfo, stmt ast.Node) []memberFact {
	// all comma-ok lookups of the function, by their boolean variable
	lookups := map[types.Object]*ast.IndexExpr{}
	ast.Inspect(d.fd.Body, func(n ast.Node) bool {
		if s, ok := n.(ast.Stmt); ok {
			if o, ix := commaOkLookup(d, s); o != nil {
				lookups[o] = ix
			}
		}
		return true
	})
	var out []memberFact
	chain := enclosing(d.fd.Body, stmt)
	for i, n := range chain {
		if i+1 >= len(chain) {
			break
		}
		next := chain[i+1]
		switch s := n.(type) {
		case *ast.IfStmt:
			switch next {
			case ast.Node(s.Body):
				out = append(out, condMembers(d, s.Cond, true, lookups, "if")...)
			case s.Else:
				out = append(out, condMembers(d, s.Cond, false, lookups, "else")...)
			}
		case *ast.BlockStmt:
			for _, st := range s.List {
				if st == next {
					break
				}
				if ifs, ok := st.(*ast.IfStmt); ok && ifs.Else == nil && terminates(ifs.Body) {
					out = append(out, condMembers(d, ifs.Cond, false, lookups, "early-exit")...)
				}
			}
		case *ast.RangeStmt:
			if next != ast.Node(s.Body) {
				continue
			}
			if t := d.pkg.TypesInfo.TypeOf(s.X); t != nil {
				if _, isMap := t.Underlying().(*types.Map); isMap {
					if k, ok := s.Key.(*ast.Ident); ok && k.Name != "_" {
						out = append(out, memberFact{m: baseObj(d, s.X), mexpr: types.ExprString(s.X), key: k.Name, present: true, via: "range-key"})
					}
					// value.Id of a node index is its key
					if v, ok := s.Value.(*ast.Ident); ok && v.Name != "_" {
						out = append(out, memberFact{m: baseObj(d, s.X), mexpr: types.ExprString(s.X), key: v.Name + ".Id", present: true, via: "range-value-id"})
					}
				}
			}
		}
	}
	return out
}

// indexOrigin describes how a map variable was built: ("nodes"|"roots"|"edges"|"set-of", operand)
type indexOrigin struct {
	kind    string
	operand types.Object // receiver/parameter the index was built from (nil if local data)
	of      string       // expression text for sets built by hand
}

// originOfIndex looks at the definition of a map variable.
func originOfIndex(d *declInfo, m types.Object) indexOrigin {
	if m == nil {
		return indexOrigin{}
	}
	var out indexOrigin
	ast.Inspect(d.fd.Body, func(n ast.Node) bool {
		as, ok := n.(*ast.AssignStmt)
		if !ok || len(as.Lhs) != len(as.Rhs) {
			return true
		}
		for i, l := range as.Lhs {
			if objOf(d.pkg, l) != m {
				continue
			}
			if ce, ok := as.Rhs[i].(*ast.CallExpr); ok {
				f, _ := typeutil.Callee(d.pkg.TypesInfo, ce).(*types.Func)
				if f == nil {
					continue
				}
				// the list the index is built from: the receiver, or the first argument of a plain function
				var operand types.Object
				if sel, ok := ce.Fun.(*ast.SelectorExpr); ok && f.Type().(*types.Signature).Recv() != nil {
					operand = baseObj(d, sel.X)
				} else if len(ce.Args) > 0 {
					operand = baseObj(d, ce.Args[0])
				}
				fname := objName(f)
				if k, ok := indexerKinds[fname[strings.LastIndex(fname, ".")+1:]]; ok {
					out = indexOrigin{kind: k, operand: operand}
				} else if len(ce.Args) == 1 && f.Pkg() != nil && strings.HasPrefix(f.Pkg().Path(), modPath+"/") {
					// a general set builder of the module applied to an operand's root list:
					// indexIDs(nl.RootElements) is the root index of nl
					if sig, _ := f.Type().(*types.Signature); sig != nil && sig.Results().Len() == 1 && mapShape(sig.Results().At(0).Type()) == "set" {
						if sel, isSel := ce.Args[0].(*ast.SelectorExpr); isSel && canonField(sel.Sel.Name) == "RootElements" {
							out = indexOrigin{kind: "roots", operand: baseObj(d, sel.X)}
						} else if gs, isCall := ce.Args[0].(*ast.CallExpr); isCall {
							if gsel, isSel := gs.Fun.(*ast.SelectorExpr); isSel && gsel.Sel.Name == "GetRootElements" {
								out = indexOrigin{kind: "roots", operand: baseObj(d, gsel.X)}
							}
						}
					}
				}
			}
		}
		return true
	})
	// an index that is one of several results of a module helper: idx, edges, e, err := nl.lookup(…)
	if out.kind == "" && theProgram != nil {
		ast.Inspect(d.fd.Body, func(n ast.Node) bool {
			as, ok := n.(*ast.AssignStmt)
			if !ok || len(as.Rhs) != 1 || len(as.Lhs) < 2 {
				return true
			}
			ce, isCall := as.Rhs[0].(*ast.CallExpr)
			if !isCall {
				return true
			}
			pos := -1
			for i, l := range as.Lhs {
				if objOf(d.pkg, l) == m {
					pos = i
				}
			}
			if pos < 0 {
				return true
			}
			g, _ := typeutil.Callee(d.pkg.TypesInfo, ce).(*types.Func)
			if g == nil || g.Pkg() == nil || !strings.HasPrefix(g.Pkg().Path(), modPath+"/") {
				return true
			}
			gfd, gpk := theProgram.FuncDecl(objName(g))
			if gfd == nil || gfd.Body == nil {
				return true
			}
			// the expression the helper returns at that position
			var resObj types.Object
			if gfd.Type.Results != nil {
				k := 0
				for _, fl := range gfd.Type.Results.List {
					for _, nm := range fl.Names {
						if k == pos {
							resObj = gpk.TypesInfo.Defs[nm]
						}
						k++
					}
				}
			}
			kindOf := func(e ast.Expr) string {
				if c2, ok := e.(*ast.CallExpr); ok {
					if f2, _ := typeutil.Callee(gpk.TypesInfo, c2).(*types.Func); f2 != nil {
						fn := objName(f2)
						return indexerKinds[fn[strings.LastIndex(fn, ".")+1:]]
					}
				}
				return ""
			}
			kind := ""
			ast.Inspect(gfd.Body, func(x ast.Node) bool {
				switch s2 := x.(type) {
				case *ast.AssignStmt:
					for i, l := range s2.Lhs {
						if resObj != nil && objOfInfo(gpk, l) == resObj && i < len(s2.Rhs) && len(s2.Lhs) == len(s2.Rhs) {
							if k := kindOf(s2.Rhs[i]); k != "" {
								kind = k
							}
						}
					}
				case *ast.ReturnStmt:
					if pos < len(s2.Results) {
						if k := kindOf(s2.Results[pos]); k != "" {
							kind = k
						}
					}
				}
				return true
			})
			if kind != "" {
				var operand types.Object
				if sel, ok := ce.Fun.(*ast.SelectorExpr); ok {
					operand = baseObj(d, sel.X)
				}
				out = indexOrigin{kind: kind, operand: operand}
			}
			return true
		})
	}
	if out.kind != "" {
		return out
	}
	// an index handed in as a parameter: recognised by the result type of the indexer that builds it
	if v, ok := m.(*types.Var); ok && theProgram != nil {
		isParam := false
		if d.fd.Type.Params != nil {
			for _, fl := range d.fd.Type.Params.List {
				for _, n := range fl.Names {
					if d.pkg.TypesInfo.Defs[n] == m {
						isParam = true
					}
				}
			}
		}
		if isParam {
			for _, fn := range theProgram.Funcs {
				if fn.Parent() != nil || fn.Signature.Results().Len() != 1 {
					continue
				}
				name := fnName(fn)
				if k, ok := indexerKinds[name[strings.LastIndex(name, ".")+1:]]; ok && types.Identical(fn.Signature.Results().At(0).Type(), v.Type()) {
					return indexOrigin{kind: k}
				}
			}
		}
	}
	// a set filled by hand: for _, x := range SRC { m[x] = ... }
	ast.Inspect(d.fd.Body, func(n ast.Node) bool {
		rs, ok := n.(*ast.RangeStmt)
		if !ok {
			return true
		}
		ast.Inspect(rs.Body, func(k ast.Node) bool {
			as, ok := k.(*ast.AssignStmt)
			if !ok {
				return true
			}
			for _, l := range as.Lhs {
				if ix, ok := l.(*ast.IndexExpr); ok && baseObj(d, ix.X) == m {
					out = indexOrigin{kind: "set-of", operand: baseObj(d, rs.X), of: types.ExprString(rs.X)}
				}
			}
			return true
		})
		return true
	})
	return out
}

// hasMember: is there a fact that key (by text) is present/absent in an index of the given kind
// built from the given operand?
func hasMember(d *declInfo, facts []memberFact, key string, present bool, kind string, operand types.Object) bool {
	for _, f := range facts {
		if f.present != present || !sameKey(f.key, key) {
			continue
		}
		o := originOfIndex(d, f.m)
		if o.kind == kind && (operand == nil || o.operand == operand) {
			return true
		}
	}
	return false
}

var getterRe = regexp.MustCompile(`\.Get([A-Z][A-Za-z0-9_]*)\(\)`)

// normText rewrites generated getter calls to the field they read: x.GetId() ≡ x.Id.
func normText(s string) string {
	s = strings.TrimSpace(getterRe.ReplaceAllString(s, ".$1"))
	if len(fieldAlias) > 0 {
		s = fieldSelRe.ReplaceAllStringFunc(s, func(m string) string { return "." + canonField(m[1:]) })
	}
	return s
}

var fieldSelRe = regexp.MustCompile(`\.[a-z][A-Za-z0-9_]*`)

func sameKey(a, b string) bool { return normText(a) == normText(b) }

// indexerKinds: the (canonical) index-building helpers of pkg/sbom and what they index.
var indexerKinds = map[string]string{
	"indexNodes":          "nodes",
	"indexRootElements":   "roots",
	"indexEdges":          "edges",
	"indexConnectedNodes": "connected",
}
