package main

import (
	"fmt"
	"go/ast"
	"go/token"
	"go/types"
	"strings"

	"golang.org/x/tools/go/types/typeutil"
)

func init() {
	register("C08", "Graph edits preserve well-formedness — structural conditions: (D1) every list-returning or in-place editing operation passes its result through the edge normaliser after the last edit of the result's nodes/edges, and returns nothing but nil, an untouched empty list, or that normalised result; (D2) the normaliser keeps an edge only under a positive lookup of its source, a target only under a positive lookup of the target, and leaves early only when there are no edges; (D3) node removal rewrites nodes, root elements (same identifier set) and edges; (D4) root identifiers stored into an intersection name nodes present in both operands. Sequences of operations follow inductively only if each operation is closed.", runC08)
	register("C10", "Intersection — structural conditions: (D1) a node is kept only under positive membership in the node indexes of both operands; (D2) a root is kept only inside the surviving-node branch and only under root-index lookups of the operands; (D3) both operands' edges are carried into the result, which then passes the normaliser; (D4) the surviving node is a copy of the first operand's node updated from the second operand's. The algebraic laws themselves are not decided.", runC10)
}

// callsOn lists method calls `recvObj.name(...)` in node.
func callsOn(d *declInfo, node ast.Node, obj types.Object, name string) []*ast.CallExpr {
	var out []*ast.CallExpr
	ast.Inspect(node, func(n ast.Node) bool {
		ce, ok := n.(*ast.CallExpr)
		if !ok {
			return true
		}
		sel, ok := ce.Fun.(*ast.SelectorExpr)
		if ok && calleeBase(d, ce, sel.Sel.Name) == name && objOf(d.pkg, sel.X) == obj && obj != nil {
			out = append(out, ce)
		}
		return true
	})
	return out
}

// editsOf lists positions where obj's Nodes or Edges are modified (field stores, AddNode/AddEdge).
func editsOf(d *declInfo, obj types.Object) []token.Pos {
	var out []token.Pos
	ast.Inspect(d.fd.Body, func(n ast.Node) bool {
		switch s := n.(type) {
		case *ast.AssignStmt:
			for _, l := range s.Lhs {
				if f, ok := fieldOf(d.pkg, l, obj); ok && (f == "Nodes" || f == "Edges") {
					if _, isCall := l.(*ast.CallExpr); !isCall {
						out = append(out, s.Pos())
					}
				}
			}
		case *ast.CallExpr:
			if sel, ok := s.Fun.(*ast.SelectorExpr); ok && objOf(d.pkg, sel.X) == obj && (sel.Sel.Name == "AddNode" || sel.Sel.Name == "AddEdge" || sel.Sel.Name == "AddRootNode") {
				out = append(out, s.Pos())
			}
		case *ast.CompositeLit:
			// fields given in the literal that creates obj do not count: they precede everything
		}
		return true
	})
	return out
}

// normaliserRule: C08-D1 for one function. inPlace: the edited list is the receiver.
func normaliserRule(c *Ctx, fname string, inPlace bool) {
	const R = "passes-normaliser"
	d := c.decl(R, fname)
	if d == nil {
		return
	}
	recv, _ := recvAndParam(d)
	norm := "cleanEdges"
	// the result variable
	var res types.Object
	if inPlace {
		res = recv
	} else {
		res, _ = resultInfo(d)
	}
	if res == nil {
		c.undecided(R, fname+"#result", c.P.Pos(d.fd.Pos()), "result variable not recognised")
		return
	}
	edits := editsOf(d, res)
	cleans := callsOn(d, d.fd.Body, res, norm)
	// every clean call must be at the top level of the function body (unconditional)
	var cleanPos []token.Pos
	for _, ce := range cleans {
		chain := enclosing(d.fd.Body, ce)
		uncond := true
		for _, n := range chain[1:] {
			switch n.(type) {
			case *ast.IfStmt, *ast.ForStmt, *ast.RangeStmt, *ast.SwitchStmt, *ast.CaseClause, *ast.FuncLit:
				uncond = false
			}
		}
		if uncond {
			cleanPos = append(cleanPos, ce.Pos())
		}
	}
	lastEditBefore := func(p token.Pos) token.Pos {
		var last token.Pos
		for _, e := range edits {
			if e < p && e > last {
				last = e
			}
		}
		return last
	}
	cleanBetween := func(a, b token.Pos) bool {
		for _, cp := range cleanPos {
			if cp > a && cp < b {
				return true
			}
		}
		return false
	}
	checkExit := func(pos token.Pos, label string) {
		le := lastEditBefore(pos)
		construct := fname + "#" + label
		if inPlace {
			// the receiver may already hold un-normalised edges: every exit normalises
			c.check(cleanBetween(le, pos) || cleanBetween(d.fd.Body.Pos(), pos) && !le.IsValid(), R, construct, c.P.Pos(pos), "the receiver passes cleanEdges before this exit",
				fmt.Sprintf("%s can leave at %s without an unconditional call to %s after its last edit: the documented result of the operation is a normalised list (one edge per source and type, no repeated or dangling targets), also when nothing matched", fname, c.P.Pos(pos), norm))
			return
		}
		if !le.IsValid() {
			c.okTrivial(R, construct, c.P.Pos(pos), "nothing was added to the result before this exit")
			return
		}
		c.check(cleanBetween(le, pos), R, construct, c.P.Pos(pos), "the result passes cleanEdges after its last edit",
			fmt.Sprintf("%s leaves at %s after editing the result's nodes/edges (last edit at %s) without an unconditional call to %s in between: edges to removed or absent nodes, duplicate edges per source and type, and repeated targets survive", fname, c.P.Pos(pos), c.P.Pos(le), norm))
	}
	n := 0
	if !inPlace {
		// a result under construction is normalised when it is complete: cleanEdges drops every edge
		// whose endpoints are not (yet) nodes of the list, so a call that is followed by further
		// additions prunes edges the later nodes would have kept
		for i, cp := range cleanPos {
			var later token.Pos
			for _, e := range edits {
				if e > cp && (later == token.NoPos || e < later) {
					later = e
				}
			}
			if later.IsValid() {
				c.bad(R, fmt.Sprintf("%s#premature-normalisation@%d", fname, i+1), c.P.Pos(cp), fmt.Sprintf("%s normalises its result at %s and goes on adding to it (next edit at %s): edges of the first operand whose source or target only arrives with the later additions are dropped as dangling, although both ends are in the finished result", fname, c.P.Pos(cp), c.P.Pos(later)))
			}
		}
	}
	if inPlace {
		ast.Inspect(d.fd.Body, func(node ast.Node) bool {
			if _, ok := node.(*ast.FuncLit); ok {
				return false
			}
			if rs, ok := node.(*ast.ReturnStmt); ok {
				n++
				checkExit(rs.Pos(), fmt.Sprintf("return@%d", n))
			}
			return true
		})
		checkExit(d.fd.Body.Rbrace, "end")
		return
	}
	ast.Inspect(d.fd.Body, func(node ast.Node) bool {
		if _, ok := node.(*ast.FuncLit); ok {
			return false
		}
		rs, ok := node.(*ast.ReturnStmt)
		if !ok || len(rs.Results) != 1 {
			return true
		}
		n++
		label := fmt.Sprintf("return@%d", n)
		r := rs.Results[0]
		if u, ok := r.(*ast.UnaryExpr); ok && u.Op == token.AND {
			r = u.X
		}
		switch x := r.(type) {
		case *ast.Ident:
			if isNilIdent(d.pkg, x) {
				c.okTrivial(R, fname+"#"+label, c.P.Pos(rs.Pos()), "returns nil")
				return true
			}
			if objOf(d.pkg, x) == res {
				checkExit(rs.Pos(), label)
				return true
			}
			// another variable: must be an untouched fresh list
			if o := objOf(d.pkg, x); o != nil && len(editsOf(d, o)) == 0 {
				c.okTrivial(R, fname+"#"+label, c.P.Pos(rs.Pos()), "returns an untouched list")
				return true
			}
		case *ast.CompositeLit:
			if len(x.Elts) == 0 {
				c.okTrivial(R, fname+"#"+label, c.P.Pos(rs.Pos()), "returns an empty list")
				return true
			}
		}
		c.bad(R, fname+"#"+label, c.P.Pos(rs.Pos()), fmt.Sprintf("%s returns %s, which is neither nil, an empty list, nor the result that passed %s: this exit bypasses edge normalisation (and whatever else the main path does with the second operand)", fname, types.ExprString(rs.Results[0]), norm))
		return true
	})
}

// cleanEdgesRule: C08-D2.
func cleanEdgesRule(c *Ctx) {
	normaliserDedupesTargets(c)
	if cd := c.declQuiet("sbom.(*NodeList).cleanEdges"); cd != nil {
		compositeKeysSeparated(c, "composite-key-separated", []*declInfo{cd})
	}
	const R = "normaliser-filters"
	fname := "sbom.(*NodeList).cleanEdges"
	c.rule(R, "in the edge normaliser: every statement that records a target for the rebuilt edges is dominated by a positive lookup of that target in the node index of the receiver; every statement that records an edge is dominated by a positive lookup of its source; the receiver's Edges are replaced on every path except when there are no edges")
	d := c.decl(R, fname)
	if d == nil {
		return
	}
	recv, _ := recvAndParam(d)
	// range variables over the receiver's edges and over an edge's To
	type rv struct {
		obj  types.Object
		kind string // edge | target
	}
	var vars []rv
	ast.Inspect(d.fd.Body, func(n ast.Node) bool {
		rs, ok := n.(*ast.RangeStmt)
		if !ok {
			return true
		}
		if f, ok := fieldOf(d.pkg, rs.X, recv); ok && f == "Edges" {
			if o := objOf(d.pkg, rs.Value); o != nil {
				vars = append(vars, rv{o, "edge"})
			}
		}
		if sel, ok := rs.X.(*ast.SelectorExpr); ok && sel.Sel.Name == "To" {
			for _, v := range vars {
				if objOf(d.pkg, sel.X) == v.obj && v.kind == "edge" {
					if o := objOf(d.pkg, rs.Value); o != nil {
						vars = append(vars, rv{o, "target"})
					}
				}
			}
		}
		return true
	})
	nt, ne := 0, 0
	ast.Inspect(d.fd.Body, func(n ast.Node) bool {
		as, ok := n.(*ast.AssignStmt)
		if !ok {
			return true
		}
		// does the statement record a range-over-To variable somewhere (map store or append)?
		for _, v := range vars {
			uses := false
			for _, r := range as.Rhs {
				ast.Inspect(r, func(m ast.Node) bool {
					if id, ok := m.(*ast.Ident); ok && objOf(d.pkg, id) == v.obj {
						uses = true
					}
					return true
				})
			}
			if v.kind == "target" {
				for _, l := range as.Lhs {
					if ix, ok := l.(*ast.IndexExpr); ok && objOf(d.pkg, ix.Index) == v.obj {
						uses = true
					}
				}
			}
			if !uses {
				continue
			}
			// only stores into outer memory count
			stores := false
			for _, l := range as.Lhs {
				if o := baseObj(d, l); o != nil && o != v.obj {
					if _, isIx := l.(*ast.IndexExpr); isIx {
						stores = true
					}
					if sel, ok := l.(*ast.SelectorExpr); ok && sel.Sel.Name == "To" {
						stores = true
					}
				}
			}
			if !stores {
				continue
			}
			facts := membersAt(d, as)
			switch v.kind {
			case "target":
				nt++
				c.check(hasMember(d, facts, v.obj.Name(), true, "nodes", recv), R, fmt.Sprintf("%s#target@%d", fname, nt), c.P.Pos(as.Pos()),
					"target recorded only when it is a node of the list",
					fmt.Sprintf("the target %s is recorded for the rebuilt edge without a dominating positive lookup in the receiver's node index: edges to absent nodes survive normalisation", v.obj.Name()))
			case "edge":
				// statements that create the rebuilt edge (seen-cache store)
				isEdgeStore := false
				for _, l := range as.Lhs {
					if ix, ok := l.(*ast.IndexExpr); ok {
						if t := d.pkg.TypesInfo.TypeOf(ix); t != nil && strings.Contains(t.String(), "Edge") {
							isEdgeStore = true
						}
					}
				}
				if !isEdgeStore {
					continue
				}
				ne++
				c.check(hasMember(d, facts, v.obj.Name()+".From", true, "nodes", recv), R, fmt.Sprintf("%s#source@%d", fname, ne), c.P.Pos(as.Pos()),
					"edge recorded only when its source is a node of the list",
					"an edge is recorded without a dominating positive lookup of its source in the receiver's node index")
			}
		}
		return true
	})
	if nt == 0 || ne == 0 {
		c.undecided(R, fname+"#shape", c.P.Pos(d.fd.Pos()), fmt.Sprintf("normaliser shape not recognised (target stores %d, edge stores %d)", nt, ne))
	}
	// early returns
	var assignPos token.Pos
	ast.Inspect(d.fd.Body, func(n ast.Node) bool {
		if as, ok := n.(*ast.AssignStmt); ok {
			for _, l := range as.Lhs {
				if f, ok := fieldOf(d.pkg, l, recv); ok && f == "Edges" {
					assignPos = as.Pos()
				}
			}
		}
		return true
	})
	if !assignPos.IsValid() {
		c.bad(R, fname+"#replaces-edges", c.P.Pos(d.fd.Pos()), "the normaliser never replaces the receiver's Edges")
		return
	}
	c.ok(R, fname+"#replaces-edges", c.P.Pos(assignPos), "the receiver's Edges are replaced")
	k := 0
	ast.Inspect(d.fd.Body, func(n ast.Node) bool {
		rs, ok := n.(*ast.ReturnStmt)
		if !ok || rs.Pos() > assignPos {
			return true
		}
		k++
		// allowed only when every disjunct of the guarding condition is len(recv.Edges) == 0
		okGuard := false
		chain := enclosing(d.fd.Body, rs)
		for i, x := range chain {
			ifs, isIf := x.(*ast.IfStmt)
			if !isIf || i+1 >= len(chain) || chain[i+1] != ast.Node(ifs.Body) {
				continue
			}
			all := true
			var walk func(e ast.Expr)
			walk = func(e ast.Expr) {
				switch b := e.(type) {
				case *ast.ParenExpr:
					walk(b.X)
					return
				case *ast.BinaryExpr:
					if b.Op == token.LOR {
						walk(b.X)
						walk(b.Y)
						return
					}
				}
				fs := condFacts(d.pkg, e, true, recv)
				if len(fs) != 1 || fs[0].field != "Edges" || fs[0].nonEmpty {
					all = false
				}
			}
			walk(ifs.Cond)
			okGuard = all
		}
		c.check(okGuard, R, fmt.Sprintf("%s#early-return@%d", fname, k), c.P.Pos(rs.Pos()), "early return only when there are no edges",
			"the normaliser returns before replacing the receiver's Edges under a condition other than 'no edges': with no nodes left every edge is broken and must be dropped, so the list keeps dangling edges")
		return true
	})
}

// removalRule: C08-D3.
func removalRule(c *Ctx) {
	const R = "removal-updates-roots"
	fname := "sbom.(*NodeList).RemoveNodes"
	c.rule(R, "node removal replaces the receiver's Nodes and RootElements by lists filtered with the same identifier set, and normalises the edges")
	d := c.decl(R, fname)
	if d == nil {
		return
	}
	recv, _ := recvAndParam(d)
	assigned := map[string]ast.Expr{}
	ast.Inspect(d.fd.Body, func(n ast.Node) bool {
		if as, ok := n.(*ast.AssignStmt); ok && len(as.Lhs) == len(as.Rhs) {
			for i, l := range as.Lhs {
				if f, ok := fieldOf(d.pkg, l, recv); ok {
					assigned[f] = as.Rhs[i]
				}
			}
		}
		return true
	})
	filterIndex := func(field string) (types.Object, bool) {
		v, ok := assigned[field]
		if !ok {
			return nil, false
		}
		lst := objOf(d.pkg, v)
		if lst == nil {
			return nil, false
		}
		// the loop that fills lst: its skip guard's index
		var idx types.Object
		ast.Inspect(d.fd.Body, func(n ast.Node) bool {
			as, ok := n.(*ast.AssignStmt)
			if !ok || len(as.Lhs) != 1 || objOf(d.pkg, as.Lhs[0]) != lst {
				return true
			}
			if ce, ok := as.Rhs[0].(*ast.CallExpr); !ok {
				return true
			} else if id, ok := ce.Fun.(*ast.Ident); !ok || id.Name != "append" {
				return true
			}
			for _, f := range membersAt(d, as) {
				if !f.present {
					idx = f.m
				}
			}
			return true
		})
		return idx, idx != nil
	}
	ni, okN := filterIndex("Nodes")
	ri, okR := filterIndex("RootElements")
	pos := c.P.Pos(d.fd.Pos())
	c.check(okN, R, fname+"#Nodes", pos, "Nodes are replaced by the nodes whose id is not in the removal set", "RemoveNodes does not replace Nodes by a list filtered on the removal set")
	if !okR {
		c.bad(R, fname+"#RootElements", pos, "RemoveNodes does not rewrite RootElements: removing a root node leaves its identifier in the root list, a dangling root")
	} else {
		c.check(ni == ri, R, fname+"#RootElements", pos, "RootElements are filtered with the same identifier set as Nodes",
			"RootElements are filtered with a different set than Nodes")
	}
}

// intersectRules: C10-D1/D2/D4 and C08-D4.
func intersectRules(c *Ctx, prop string) {
	fname := "sbom.(*NodeList).Intersect"
	const R = "intersection-membership"
	c.rule(R, "in Intersect: the append to the result's Nodes is dominated by positive membership of the node's id in the node indexes of both operands; the append to the result's RootElements additionally sits under a condition made only of root-index lookups of that id in the operands")
	d := c.decl(R, fname)
	if d == nil {
		return
	}
	recv, par := recvAndParam(d)
	res, _ := resultInfo(d)
	if res == nil {
		c.undecided(R, fname+"#result", c.P.Pos(d.fd.Pos()), "result variable not recognised")
		return
	}
	nNodes, nRoots := 0, 0
	ast.Inspect(d.fd.Body, func(n ast.Node) bool {
		as, ok := n.(*ast.AssignStmt)
		if !ok || len(as.Lhs) != 1 || len(as.Rhs) != 1 {
			return true
		}
		f, ok := fieldOf(d.pkg, as.Lhs[0], res)
		if !ok {
			return true
		}
		ce, ok := as.Rhs[0].(*ast.CallExpr)
		if !ok || len(ce.Args) < 2 {
			return true
		}
		if id, ok := ce.Fun.(*ast.Ident); !ok || id.Name != "append" {
			return true
		}
		facts := membersAt(d, as)
		// the identifier under test: any key for which both memberships hold
		both := func() (string, bool) {
			for _, fa := range facts {
				if fa.present && hasMember(d, facts, fa.key, true, "nodes", recv) && hasMember(d, facts, fa.key, true, "nodes", par) {
					return fa.key, true
				}
			}
			return "", false
		}
		switch f {
		case "Nodes":
			nNodes++
			_, ok := both()
			c.check(ok, R, fmt.Sprintf("%s#nodes@%d", fname, nNodes), c.P.Pos(as.Pos()), "node kept only when its id is in both operands' node indexes",
				"a node is appended to the intersection without dominating positive lookups of its id in the node indexes of both operands: nodes of only one operand (or with the test inverted, the complement) end up in the result")
		case "RootElements":
			nRoots++
			key, ok := both()
			construct := fmt.Sprintf("%s#roots@%d", fname, nRoots)
			if !ok {
				c.bad(R, construct, c.P.Pos(as.Pos()), "a root element is appended to the intersection outside the branch that established that its node is present in both operands: the result can name a root that is not one of its nodes")
				return true
			}
			// the appended value is that key
			if !sameKey(types.ExprString(ce.Args[1]), key) {
				c.bad(R, construct, c.P.Pos(as.Pos()), fmt.Sprintf("the root appended (%s) is not the identifier (%s) whose presence in both operands was tested", types.ExprString(ce.Args[1]), key))
				return true
			}
			// innermost condition: only root-index lookups of the same key
			chain := enclosing(d.fd.Body, as)
			okCond := false
			why := "not under a root-index test"
			for i := len(chain) - 1; i >= 0; i-- {
				ifs, isIf := chain[i].(*ast.IfStmt)
				if !isIf {
					continue
				}
				lookups := map[types.Object]*ast.IndexExpr{}
				ast.Inspect(d.fd.Body, func(m ast.Node) bool {
					if s, ok := m.(ast.Stmt); ok {
						if o, ix := commaOkLookup(d, s); o != nil {
							lookups[o] = ix
						}
					}
					return true
				})
				all, any := true, false
				var walk func(e ast.Expr)
				walk = func(e ast.Expr) {
					switch b := e.(type) {
					case *ast.ParenExpr:
						walk(b.X)
						return
					case *ast.BinaryExpr:
						if b.Op == token.LOR || b.Op == token.LAND {
							walk(b.X)
							walk(b.Y)
							return
						}
					case *ast.Ident:
						if ix, ok := lookups[objOf(d.pkg, b)]; ok {
							o := originOfIndex(d, baseObj(d, ix.X))
							if o.kind == "roots" && (o.operand == recv || o.operand == par) && sameKey(types.ExprString(ix.Index), key) {
								any = true
								return
							}
						}
					case *ast.IndexExpr:
						// the lookup written in the condition itself (a set's has(k), a bool set)
						if ix := boolSetLookup(d, b); ix != nil {
							o := originOfIndex(d, baseObj(d, ix.X))
							if o.kind == "roots" && (o.operand == recv || o.operand == par) && sameKey(types.ExprString(ix.Index), key) {
								any = true
								return
							}
						}
					}
					all = false
				}
				walk(ifs.Cond)
				if all && any {
					okCond = true
				} else {
					why = "condition " + types.ExprString(ifs.Cond) + " is not made only of positive root-index lookups of " + key + " in the operands"
				}
				break
			}
			c.check(okCond, R, construct, c.P.Pos(as.Pos()), "root kept only for a surviving node that is a root of an operand", "root survival rule: "+why)
		}
		return true
	})
	if nNodes == 0 {
		c.undecided(R, fname+"#nodes", c.P.Pos(d.fd.Pos()), "no append to the result's Nodes found")
	}
	if nRoots == 0 {
		c.undecided(R, fname+"#roots", c.P.Pos(d.fd.Pos()), "no append to the result's RootElements found")
	}

	// D4 attribute rule
	const RA = "intersection-attributes"
	c.rule(RA, "the surviving node is Copy() of the first operand's node, then Update(...) with the second operand's node")
	okCopy, okUpdate := false, false
	var newnode types.Object
	var copyStmt ast.Stmt
	var updateCall *ast.CallExpr
	ast.Inspect(d.fd.Body, func(n ast.Node) bool {
		switch s := n.(type) {
		case *ast.AssignStmt:
			if len(s.Rhs) == 1 && len(s.Lhs) == 1 {
				if ce, ok := s.Rhs[0].(*ast.CallExpr); ok {
					if f, _ := typeutil.Callee(d.pkg.TypesInfo, ce).(*types.Func); f != nil && objName(f) == "sbom.(*Node).Copy" {
						// receiver of Copy: value of the range over the first operand's node index
						if sel, ok := ce.Fun.(*ast.SelectorExpr); ok {
							for _, fa := range membersAt(d, s) {
								if fa.via == "range-value-id" && strings.TrimSuffix(fa.key, ".Id") == types.ExprString(sel.X) {
									if o := originOfIndex(d, fa.m); o.kind == "nodes" && o.operand == recv {
										okCopy = true
										newnode = objOf(d.pkg, s.Lhs[0])
										copyStmt = s
									}
								}
							}
						}
					}
				}
			}
		case *ast.CallExpr:
			if f, _ := typeutil.Callee(d.pkg.TypesInfo, s).(*types.Func); f != nil && objName(f) == "sbom.(*Node).Update" && len(s.Args) == 1 {
				if sel, ok := s.Fun.(*ast.SelectorExpr); ok && objOf(d.pkg, sel.X) == newnode && newnode != nil {
					// argument derives from a lookup in the second operand's node index (possibly bound
					// to a local first: other := ni2[id])
					var argRoot ast.Node = s.Args[0]
					{
						defs := singleDefs(d.pkg, d.fd.Body)
						ast.Inspect(s.Args[0], func(m ast.Node) bool {
							if id, isId := m.(*ast.Ident); isId {
								if def, has := defs[objOf(d.pkg, id)]; has {
									if _, isIx := ast.Unparen(def).(*ast.IndexExpr); isIx {
										argRoot = def
									}
								}
							}
							return true
						})
					}
					ast.Inspect(argRoot, func(m ast.Node) bool {
						if ix, ok := m.(*ast.IndexExpr); ok {
							if o := originOfIndex(d, baseObj(d, ix.X)); o.kind == "nodes" && o.operand == par {
								okUpdate = true
								updateCall = s
							}
						}
						return true
					})
				}
			}
		}
		return true
	})
	c.check(okCopy, RA, fname+"#copy-of-first", c.P.Pos(d.fd.Pos()), "surviving node starts as a copy of the first operand's node", "the surviving node is not created as Copy() of the first operand's node")
	c.check(okUpdate, RA, fname+"#update-from-second", c.P.Pos(d.fd.Pos()), "then updated from the second operand's node", "the surviving node is not Update()d from the second operand's node: the second-operand-wins attribute rule does not hold")

	// … for every surviving node: the update runs wherever the copy was made, not under a further
	// condition (a notion of "unchanged" that is coarser than what Update transfers — Equal sorts
	// lists and cuts dates to the second — keeps the first operand's value)
	if copyStmt != nil && updateCall != nil {
		innermostBlock := func(n ast.Node) ast.Node {
			var blk ast.Node
			for _, x := range enclosing(d.fd.Body, n) {
				switch x.(type) {
				case *ast.BlockStmt, *ast.CaseClause:
					if x != n {
						blk = x
					}
				}
			}
			return blk
		}
		cond := ""
		cb := innermostBlock(copyStmt)
		seenCB := false
		for _, x := range enclosing(d.fd.Body, updateCall) {
			if x == cb {
				seenCB = true
				continue
			}
			if !seenCB {
				continue
			}
			if ifs, isIf := x.(*ast.IfStmt); isIf {
				cond = types.ExprString(ifs.Cond)
			}
		}
		c.check(seenCB && cond == "", RA, fname+"#update-unconditional", c.P.Pos(updateCall.Pos()), "the update runs for every surviving node",
			fmt.Sprintf("the surviving node is updated from the second operand only under `%s`: where that condition fails the first operand's attributes are kept, so the second operand does not win for every attribute", cond))
	}

	// D3 edges of both operands are carried
	const RE = "intersection-edges"
	c.rule(RE, "the result's Edges start from a copy of the first operand's edges and a loop over the second operand's edges appends or merges each of them")
	first, second := false, false
	ast.Inspect(d.fd.Body, func(n ast.Node) bool {
		switch s := n.(type) {
		case *ast.KeyValueExpr:
			if id, ok := s.Key.(*ast.Ident); ok && id.Name == "Edges" {
				if mentions(d.pkg, s.Value, recv)["Edges"] {
					first = true
				}
			}
		case *ast.AssignStmt:
			for i, l := range s.Lhs {
				if f, ok := fieldOf(d.pkg, l, res); ok && f == "Edges" && i < len(s.Rhs) && mentions(d.pkg, s.Rhs[i], recv)["Edges"] {
					first = true
				}
			}
		case *ast.RangeStmt:
			if f, ok := fieldOf(d.pkg, s.X, par); ok && f == "Edges" {
				second = true
			}
		}
		return true
	})
	c.check(first, RE, fname+"#first-operand-edges", c.P.Pos(d.fd.Pos()), "first operand's edges are copied into the result", "the first operand's edges are not carried into the result")
	c.check(second, RE, fname+"#second-operand-edges", c.P.Pos(d.fd.Pos()), "second operand's edges are ranged over", "the second operand's edges are not carried into the result")
}

// graftCopiesEdges: relate operations do not normalise, so whatever they take over from the
// argument list's edges must be a copy — a shared *Edge lets a later relate on one list change the
// other list's edge.
func graftCopiesEdges(c *Ctx) {
	const R = "graft-copies-edges"
	c.rule(R, "in RelateNodeListAtID every element appended to the receiver's Edges that derives from the argument list's Edges is the result of Edge.Copy()")
	fname := "sbom.(*NodeList).RelateNodeListAtID"
	d := c.decl(R, fname)
	if d == nil {
		return
	}
	recv, par := recvAndParam(d)
	rv := rangeSources(d, par)
	n := 0
	ast.Inspect(d.fd.Body, func(x ast.Node) bool {
		as, ok := x.(*ast.AssignStmt)
		if !ok || len(as.Lhs) != 1 || len(as.Rhs) != 1 {
			return true
		}
		if f, ok := fieldOf(d.pkg, as.Lhs[0], recv); !ok || f != "Edges" {
			return true
		}
		ce, ok := as.Rhs[0].(*ast.CallExpr)
		if !ok || len(ce.Args) < 2 {
			return true
		}
		if id, ok := ce.Fun.(*ast.Ident); !ok || id.Name != "append" {
			return true
		}
		for _, a := range ce.Args[1:] {
			fromArg := mentions(d.pkg, a, par)["Edges"]
			ast.Inspect(a, func(m ast.Node) bool {
				if id, ok := m.(*ast.Ident); ok {
					if f, ok := rv[objOf(d.pkg, id)]; ok && f == "Edges" {
						fromArg = true
					}
				}
				return true
			})
			if !fromArg {
				continue
			}
			n++
			isCopy := false
			if call, ok := a.(*ast.CallExpr); ok {
				if fn, _ := typeutil.Callee(d.pkg.TypesInfo, call).(*types.Func); fn != nil && objName(fn) == "sbom.(*Edge).Copy" {
					isCopy = true
				}
			}
			c.check(isCopy, R, fmt.Sprintf("%s#append@%d", fname, n), c.P.Pos(as.Pos()), "the argument list's edge is copied",
				"an edge of the argument list is appended to the receiver by pointer: both lists then share it, and a later relate on one list adds a target to the other list's edge without adding the node there (a dangling endpoint)")
		}
		return true
	})
	if n == 0 {
		c.undecided(R, fname, c.P.Pos(d.fd.Pos()), "no append of argument edges found")
	}
}

func runC08(c *Ctx) {
	c.rule("passes-normaliser", "every exit of the operation that follows an edit of the result's Nodes/Edges is preceded, after the last such edit, by an unconditional call of cleanEdges on the result; list-returning operations return only nil, an untouched empty list, or that result")
	c.notDecided("closure of RelateNodeAtID/RelateNodeListAtID for arbitrary arguments (a value precondition); arbitrary operation sequences (inductive consequence, argued in DESIGN.md, not checked)")
	for _, f := range []string{"Union", "Intersect", "NodeGraph", "NodeSiblings", "NodeDescendants", "GetNodesByPurlType"} {
		normaliserRule(c, "sbom.(*NodeList)."+f, false)
	}
	for _, f := range []string{"Add", "RemoveNodes"} {
		normaliserRule(c, "sbom.(*NodeList)."+f, true)
	}
	c.floor("passes-normaliser", 8, "eight merging/removal/extraction operations")
	cleanEdgesRule(c)
	removalRule(c)
	graftCopiesEdges(c)
	relateAddsTarget(c)
	// extraction results are well-formed: a node enters the result once (visited-set discipline)
	traversalGuards(c)
	extractionWellFormed(c)
	intersectRules(c, "C08")
	const R = "loop-totality"
	c.rule(R, loopRuleText)
	ds := pkgFilter(c.reachDecls(R, "sbom.(*NodeList).Add", "sbom.(*NodeList).Union", "sbom.(*NodeList).Intersect", "sbom.(*NodeList).RemoveNodes",
		"sbom.(*NodeList).RelateNodeAtID", "sbom.(*NodeList).RelateNodeListAtID"), "sbom.(*NodeList).", "sbom.(*Edge).AddDestinationById")
	c.loopTotality(R, ds, loopPolicies, commonSkips)
	// "any sequence of operations keeps the invariant": a result that shares a backing array with an
	// operand is rewritten by the operand's next union — its roots then name nodes it does not hold
	operandsUntouched(c, "results-own-their-storage", "Union and Intersect neither write nor append onto memory reachable from the receiver or the argument (origin sets over SSA, callee summaries substituted): a well-formed result stays well-formed whatever is done with its operands later", "sbom.(*NodeList).Union", "sbom.(*NodeList).Intersect")
}

func runC10(c *Ctx) {
	c.notDecided("idempotence, commutativity, absorption and emptiness as laws over values")
	intersectRules(c, "C10")
	normaliserRule(c, "sbom.(*NodeList).Intersect", false)
	cleanEdgesRule(c)
	// D4: the attribute rule is Update; the edge a second-operand edge is merged into is found
	// by source and type
	c.rule("merge-precedence", "Update copies each schema field of the argument under an adequate non-emptiness test of the argument's field (see C09)")
	c.mergeRule("sbom.(*Node).Update", false, nodeIdentity)
	lookupCriterionRule(c, "sbom.(*NodeList).GetEdgeByType")
	lookupReturnsElement(c, "sbom.(*NodeList).GetEdgeByType")
	madeWithLengthThenAppended(c, "made-with-length-then-appended", pkgFilter(c.reachDecls("made-with-length-then-appended", "sbom.(*NodeList).Intersect"), "sbom."))
	c.floor("intersection-membership", 2, "node append and root append")
	const RL = "loop-totality"
	c.rule(RL, loopRuleText)
	lds := pkgFilter(c.reachDecls(RL, "sbom.(*NodeList).Intersect"), "sbom.(*NodeList).", "sbom.(*Edge).AddDestinationById")
	c.loopTotality(RL, lds, loopPolicies, commonSkips)
	// "only edges found in at least one operand": Intersect builds its result from copies — merging the
	// second operand's targets into edges still shared with the first operand makes later
	// intersections see edges that exist in neither operand as given
	{
		const RW = "no-operand-write"
		c.rule(RW, "Intersect writes no memory reachable from either operand (origin dataflow with callee summaries)")
		o := newOrigins(c.P)
		if fn := c.P.Func("sbom.(*NodeList).Intersect"); fn != nil {
			for j, pn := range []string{"receiver", "argument"} {
				var w []mutation
				if ss := o.sums[fn]; ss != nil {
					for _, m := range ss.muts {
						if m.param == j {
							w = append(w, m)
						}
					}
				}
				key := "sbom.(*NodeList).Intersect#" + pn
				if len(w) > 0 {
					c.bad(RW, key, c.P.Pos(w[0].pos), describeMuts(c, "sbom.(*NodeList).Intersect", pn, w))
				} else {
					c.ok(RW, key, c.P.Pos(fn.Pos()), "the operand is only read")
				}
			}
		}
	}
	// the surviving node is Copy-of-first updated from Copy-of-second: a date must survive both
	timestampPresenceRule(c, "timestamp-presence-by-nil", pkgFilter(c.reachDecls("timestamp-presence-by-nil", "sbom.(*NodeList).Intersect"), "sbom."))
}

// calleeBase: the method/function name a call resolves to, under its recorded (canonical) name —
// a renamed unexported helper still answers to the name the tables use.
func calleeBase(d *declInfo, ce *ast.CallExpr, fallback string) string {
	if f, _ := typeutil.Callee(d.pkg.TypesInfo, ce).(*types.Func); f != nil {
		n := objName(f)
		return n[strings.LastIndex(n, ".")+1:]
	}
	return fallback
}
