package main

import (
	"fmt"
	"go/ast"
	"go/token"
	"go/types"
	"strings"

	"golang.org/x/tools/go/types/typeutil"
)

func init() {
	register("C15", "Sub-graph extraction — structural conditions: (D1) every loop reachable from NodeGraph/NodeSiblings/NodeDescendants is a range loop or a counter loop whose counter and bound are not assigned in the body; (D2) the only recursion is guarded by a growing visited set (negative lookup → insert → recurse, same key, same map passed on); (D3) the recursive step and the level expansion sit on the negative side of the boundary (other root) test and of the visited test, and a node enters the depth-bounded result only when it is taken from the current level's queue; (D4) results pass the normaliser and have the start node as root; (D5) no nil dereference on ill-formed input; (D6) lookups inside a loop over one index are keyed by that loop's key. Does not decide that the returned set equals the reachable set.", runC15)
	register("C16", "Lookups and node matching — structural conditions: (D1) each lookup returns/appends an element only on the positive side of a comparison between the field its name promises and its parameter; (D2) the identifier-type table inverts the SPDX labels; (D3) no element is returned out of a map iteration except under len == 1; (D4) a match is a member of the receiver, never the probe; (D5) every return of GetMatchingNode is (node, nil), (nil, nil) or (nil, ErrorMoreThanOneMatch); (D6) the hash-index key format agrees between index and probe; the package URL is obtained through Node.Purl only. Does not decide the full matching decision table.", runC16)
}

var extractionEntries = []string{"sbom.(*NodeList).NodeGraph", "sbom.(*NodeList).NodeSiblings", "sbom.(*NodeList).NodeDescendants"}

// wellFounded: loop shape + recursion guard over everything reachable from the entries.
func wellFounded(c *Ctx, entries []string) {
	const RL = "loop-shape"
	const RR = "recursion-guard"
	c.rule(RL, "every loop is a range loop, a three-clause counter loop (i := c; i < bound; i++) whose counter and bound are not assigned in the body, a loop on (*bufio.Scanner).Scan, or a work-list loop `for len(W) > 0` that removes one element of W unconditionally at the top of every iteration and grows W only under a visited-set guard (negative lookup of K in a map, followed by the insertion of K)")
	c.rule(RR, "every recursive call is either dominated by a negative lookup of key K in a map M followed by M[K] = … with M passed on unchanged (visited-set), or descends into an element of a slice-of-struct-values field of its own parameter (a finite tree)")
	ds := c.reachDecls(RL, entries...)
	byObj := map[*types.Func]*declInfo{}
	for _, d := range ds {
		byObj[d.obj] = d
	}
	nl := 0
	for _, d := range ds {
		if strings.HasSuffix(c.P.Fset.Position(d.fd.Pos()).Filename, ".pb.go") {
			continue
		}
		k := 0
		ast.Inspect(d.fd.Body, func(n ast.Node) bool {
			switch l := n.(type) {
			case *ast.RangeStmt:
				nl++
				k++
				c.okTrivial(RL, fmt.Sprintf("%s#loop@%d", d.name, k), c.P.Pos(l.Pos()), "range loop")
			case *ast.ForStmt:
				nl++
				k++
				construct := fmt.Sprintf("%s#loop@%d", d.name, k)
				ok, why := counterLoop(d, l)
				c.check(ok, RL, construct, c.P.Pos(l.Pos()), why, "loop is not provably bounded: "+why)
			}
			return true
		})
		// direct recursion (the module has no mutual recursion; indirect cycles are reported)
		for _, cs := range callsIn(d.pkg, d.fd.Body) {
			callee := cs.callee
			if o := callee.Origin(); o != nil {
				callee = o
			}
			if callee != d.obj {
				continue
			}
			construct := d.name + "#recursive-call"
			ok, why := recursionGuarded(d, cs.call)
			c.check(ok, RR, construct, c.P.Pos(cs.call.Pos()), why, "recursion is not provably well-founded: "+why)
		}
	}
	// indirect cycles
	for _, d := range ds {
		seen := map[*types.Func]bool{}
		var visit func(f *types.Func, depth int) bool
		visit = func(f *types.Func, depth int) bool {
			dd := byObj[f]
			if dd == nil || depth > 12 {
				return false
			}
			for _, cs := range callsIn(dd.pkg, dd.fd.Body) {
				t := cs.callee
				if o := t.Origin(); o != nil {
					t = o
				}
				if t == d.obj && dd != d {
					return true
				}
				if !seen[t] && byObj[t] != nil && t != d.obj {
					seen[t] = true
					if visit(t, depth+1) {
						return true
					}
				}
			}
			return false
		}
		if visit(d.obj, 0) {
			c.undecided(RR, d.name+"#indirect-cycle", c.P.Pos(d.fd.Pos()), "the function takes part in a call cycle through other functions; the recursion-guard idioms are only recognised for direct recursion")
		}
	}
	_ = nl
}

func counterLoop(d *declInfo, l *ast.ForStmt) (bool, string) {
	// scanner loops
	if l.Init == nil && l.Post == nil && l.Cond != nil {
		if ce, ok := l.Cond.(*ast.CallExpr); ok {
			if f, _ := typeutil.Callee(d.pkg.TypesInfo, ce).(*types.Func); f != nil && f.FullName() == "(*bufio.Scanner).Scan" {
				return true, "scanner loop: each iteration consumes input or stops"
			}
		}
	}
	if l.Init == nil && l.Post == nil && l.Cond != nil {
		if ok, why := worklistLoop(d, l); ok {
			return true, why
		}
	}
	if l.Init == nil || l.Cond == nil || l.Post == nil {
		return false, "not a three-clause counter loop"
	}
	as, ok := l.Init.(*ast.AssignStmt)
	if !ok || len(as.Lhs) != 1 {
		return false, "init is not a single assignment"
	}
	iv := objOf(d.pkg, as.Lhs[0])
	be, ok := l.Cond.(*ast.BinaryExpr)
	if !ok || (be.Op != token.LSS && be.Op != token.LEQ) || objOf(d.pkg, be.X) != iv || iv == nil {
		return false, "condition is not `counter < bound`"
	}
	inc, ok := l.Post.(*ast.IncDecStmt)
	if !ok || inc.Tok != token.INC || objOf(d.pkg, inc.X) != iv {
		return false, "post statement is not `counter++`"
	}
	// neither the counter nor the bound is assigned in the body
	var boundObjs []types.Object
	ast.Inspect(be.Y, func(n ast.Node) bool {
		if id, ok := n.(*ast.Ident); ok {
			if o := objOf(d.pkg, id); o != nil {
				if _, isVar := o.(*types.Var); isVar {
					boundObjs = append(boundObjs, o)
				}
			}
		}
		return true
	})
	bad := ""
	ast.Inspect(l.Body, func(n ast.Node) bool {
		var lhs []ast.Expr
		switch s := n.(type) {
		case *ast.AssignStmt:
			lhs = s.Lhs
		case *ast.IncDecStmt:
			lhs = []ast.Expr{s.X}
		}
		for _, e := range lhs {
			o := objOf(d.pkg, e)
			if o == iv && o != nil {
				bad = "the counter is assigned in the body"
			}
			for _, b := range boundObjs {
				if o == b {
					bad = "the bound " + b.Name() + " is assigned in the body"
				}
			}
		}
		return true
	})
	if bad != "" {
		return false, bad
	}
	return true, "counter loop with loop-invariant bound"
}

func recursionGuarded(d *declInfo, call *ast.CallExpr) (bool, string) {
	facts := membersAt(d, call)
	// visited-set idiom
	for _, f := range facts {
		if f.present || f.m == nil {
			continue
		}
		// M[K] = … between the test and the call, in the same block chain, with the same key
		inserted := false
		ast.Inspect(d.fd.Body, func(n ast.Node) bool {
			as, ok := n.(*ast.AssignStmt)
			if !ok || as.Pos() > call.Pos() {
				return true
			}
			for _, l := range as.Lhs {
				if ix, ok := l.(*ast.IndexExpr); ok && baseObj(d, ix.X) == f.m && sameKey(types.ExprString(ix.Index), f.key) {
					// same iteration: shares the innermost loop with the call
					inserted = true
				}
			}
			return true
		})
		if !inserted {
			continue
		}
		// the map is passed on unchanged
		passed := false
		for _, a := range call.Args {
			if objOf(d.pkg, a) == f.m {
				passed = true
			}
		}
		// … or lives in a field of the receiver the recursion is invoked on again (w.seen, w.from(…))
		if !passed {
			if recv, _ := recvAndParam(d); recv != nil && f.m == recv {
				if sel, ok := call.Fun.(*ast.SelectorExpr); ok && objOf(d.pkg, sel.X) == recv {
					passed = true
				}
			}
		}
		if _, isParam := f.m.(*types.Var); isParam && passed {
			// the recursive call works on the key that was just inserted
			return true, fmt.Sprintf("visited-set: %s is tested absent in %s, inserted, and %s is passed on", f.key, f.mexpr, f.m.Name())
		}
	}
	// structural descent over by-value component trees
	if len(d.fd.Type.Params.List) > 0 {
		defs := singleDefs(d.pkg, d.fd.Body)
		for _, a := range call.Args {
			// look through single-definition locals: comp := &(*comps)[i]; f(comp.Components)
			a = expandLocals(d, defs, a, 0)
			s := types.ExprString(a)
			for _, pf := range d.fd.Type.Params.List {
				for _, pn := range pf.Names {
					if !strings.Contains(s, pn.Name) {
						continue
					}
					// argument mentions parameter.Field[index]: the field must be (a pointer to) a slice of struct values
					okDesc := false
					ast.Inspect(a, func(n ast.Node) bool {
						ix, ok := n.(*ast.IndexExpr)
						if !ok {
							return true
						}
						t := typeOfExpanded(d, ix.X)
						if t == nil {
							return true
						}
						if sl, ok := t.Underlying().(*types.Slice); ok {
							if _, isStruct := sl.Elem().Underlying().(*types.Struct); isStruct {
								okDesc = true
							}
						}
						return true
					})
					if okDesc {
						return true, "structural descent into an element of a slice of struct values reachable from parameter " + pn.Name
					}
				}
			}
		}
	}
	return false, "neither a visited-set guard nor a structural descent was recognised"
}

func runC15(c *Ctx) {
	c.notDecided("that the returned node set equals the reachable set; monotonicity in the depth")
	wellFounded(c, extractionEntries)
	c.floor("loop-shape", 15, "≈ 25 loops reachable from the extraction functions")
	c.floor("recursion-guard", 1, "connectedIndexRecursion")
	for _, f := range extractionEntries {
		normaliserRule(c, f, false)
	}
	traversalGuards(c)
	extractionWellFormed(c)
	// D5
	const R = "absent-part-guard"
	c.rule(R, guardRuleText)
	saved := untrustedStructPkgs
	untrustedStructPkgs = nil
	e := newNilEngine(c)
	e.nodeCollections = true
	for _, d := range c.reachDecls(R, extractionEntries...) {
		e.analyse(d)
	}
	e.emit(R)
	untrustedStructPkgs = saved
	inconsistentKeys(c, extractionEntries)
	resliceReuseRule(c, c.reachDecls("work-list-not-aliased", extractionEntries...))
	// the loops of the traversals and of the indexes they walk skip an element only for a stated
	// reason (an index that silently drops parallel edge records loses reachable nodes)
	const RL = "loop-totality"
	c.rule(RL, loopRuleText)
	c.loopTotality(RL, pkgFilter(c.reachDecls(RL, extractionEntries...), "sbom.(*NodeList).", "sbom.(*Edge).AddDestinationById"), loopPolicies, commonSkips)
	// "edges only among the returned nodes, including every edge the traversal followed": the
	// normaliser and the indexes key edges by (source, type) — the two must not run into each other
	compositeKeysSeparated(c, "composite-key-separated", pkgFilter(c.reachDecls("composite-key-separated", extractionEntries...), "sbom.(*NodeList)."))
	// an extraction reads the graph it is given: writing it changes what the next extraction sees
	const RW = "no-operand-write"
	c.rule(RW, "the extraction functions write no memory reachable from their receiver (origin dataflow with callee summaries)")
	o := newOrigins(c.P)
	for _, n := range extractionEntries {
		fn := c.P.Func(n)
		if fn == nil {
			continue
		}
		var w []mutation
		if ss := o.sums[fn]; ss != nil {
			for _, m := range ss.muts {
				if m.param == 0 {
					w = append(w, m)
				}
			}
		}
		if len(w) > 0 {
			c.bad(RW, n+"#receiver", c.P.Pos(w[0].pos), describeMuts(c, n, "receiver", w))
		} else {
			c.ok(RW, n+"#receiver", c.P.Pos(fn.Pos()), "the queried graph is only read")
		}
	}
}

// traversalGuards: C15-D3/D4.
func traversalGuards(c *Ctx) {
	const R = "traversal-guard"
	c.rule(R, "NodeGraph recursion: the recursive step is on the negative side of both the visited lookup and the boundary (root index) lookup; NodeDescendants: a node is stored into the result index only when taken from the current level's queue, expansion of a node is on the negative side of the other-root test, and enqueueing on the negative side of the visited test; roots of the result are exactly the start node")
	// connectedIndexRecursion
	if d := c.decl(R, "sbom.(*NodeList).connectedIndexRecursion"); d != nil {
		for _, cs := range callsIn(d.pkg, d.fd.Body) {
			if cs.callee != d.obj {
				continue
			}
			facts := membersAt(d, cs.call)
			visited, boundary := false, false
			for _, f := range facts {
				if f.present {
					continue
				}
				if p, ok := f.m.(*types.Var); ok {
					// recognised by shape, not by the name of the type: the boundary set maps
					// identifiers to struct{}, the visited index maps identifiers to nodes
					mt := p.Type()
					if f.mt != nil {
						mt = f.mt
					}
					switch mapShape(mt) {
					case "set":
						boundary = true
					case "nodes":
						visited = true
					}
				}
			}
			c.check(visited, R, d.name+"#visited", c.P.Pos(cs.call.Pos()), "recursion only for nodes not yet visited", "the recursive step is not on the negative side of the visited-set lookup")
			c.check(boundary, R, d.name+"#boundary", c.P.Pos(cs.call.Pos()), "recursion stops at other root elements", "the recursive step is not on the negative side of the boundary (root index) lookup: traversal continues through other documents' roots")
		}
		// the insertion into the connected index is on the negative side of the boundary lookup
		var ins ast.Stmt
		ast.Inspect(d.fd.Body, func(n ast.Node) bool {
			if s, ok := n.(*ast.AssignStmt); ok {
				for _, l := range s.Lhs {
					if ix, ok := l.(*ast.IndexExpr); ok {
						if t := d.pkg.TypesInfo.TypeOf(ix.X); t != nil && mapShape(t) == "nodes" {
							ins = s
						}
					}
				}
			}
			return true
		})
		guarded := false
		insPos := d.fd.Pos()
		if ins != nil {
			insPos = ins.Pos()
			for _, f := range membersAt(d, ins) {
				if f.present {
					continue
				}
				mt := f.mt
				if mt == nil {
					if p, ok := f.m.(*types.Var); ok {
						mt = p.Type()
					}
				}
				if mt != nil && mapShape(mt) == "set" {
					guarded = true
				}
			}
		}
		c.check(guarded, R, d.name+"#boundary-before-insert", c.P.Pos(insPos),
			"a boundary node is skipped before it is inserted", "a node is inserted into the connected index before (or without) the boundary test: other roots end up in the full-graph extraction")
	}
	// NodeDescendants
	if d := c.decl(R, "sbom.(*NodeList).NodeDescendants"); d != nil {
		// result index: the map ranged over to fill the result at the end (AddNode loop)
		var resultIdx types.Object
		ast.Inspect(d.fd.Body, func(n ast.Node) bool {
			rs, ok := n.(*ast.RangeStmt)
			if !ok {
				return true
			}
			for _, cs := range callsIn(d.pkg, rs.Body) {
				if cs.callee.Name() == "AddNode" {
					resultIdx = baseObj(d, rs.X)
				}
			}
			// or the inlined form: x.Nodes = append(x.Nodes, v)
			ast.Inspect(rs.Body, func(m ast.Node) bool {
				if as, ok := m.(*ast.AssignStmt); ok && len(as.Lhs) == 1 && len(as.Rhs) == 1 {
					if sel, ok := as.Lhs[0].(*ast.SelectorExpr); ok && sel.Sel.Name == "Nodes" {
						if ce, ok := as.Rhs[0].(*ast.CallExpr); ok {
							if id, ok := ce.Fun.(*ast.Ident); ok && id.Name == "append" {
								if t := d.pkg.TypesInfo.TypeOf(rs.X); t != nil {
									if _, isMap := t.Underlying().(*types.Map); isMap {
										resultIdx = baseObj(d, rs.X)
									}
								}
							}
						}
					}
				}
				return true
			})
			return true
		})
		if resultIdx == nil {
			c.undecided(R, d.name+"#result-index", c.P.Pos(d.fd.Pos()), "result index not recognised")
		} else {
			k := 0
			ast.Inspect(d.fd.Body, func(n ast.Node) bool {
				as, ok := n.(*ast.AssignStmt)
				if !ok {
					return true
				}
				for _, l := range as.Lhs {
					ix, ok := l.(*ast.IndexExpr)
					if !ok || baseObj(d, ix.X) != resultIdx {
						continue
					}
					k++
					// key must be <v>.Id where v is the value variable of the innermost enclosing range
					// whose ranged expression is a plain local slice (the level queue) directly inside the depth loop
					okKey := false
					chain := enclosing(d.fd.Body, as)
					depthLoops := 0
					// the depth loop is a counting loop: `for i := 0; i < n; i++` or `for range n`
					isCounting := func(x ast.Node) bool {
						if _, isFor := x.(*ast.ForStmt); isFor {
							return true
						}
						if rs, isR := x.(*ast.RangeStmt); isR {
							if t := d.pkg.TypesInfo.TypeOf(rs.X); t != nil {
								if b, isB := t.Underlying().(*types.Basic); isB && b.Info()&types.IsInteger != 0 {
									return true
								}
							}
						}
						return false
					}
					for _, x := range chain {
						if isCounting(x) {
							depthLoops++
						}
					}
					var inner *ast.RangeStmt
					nRanges := 0
					for _, x := range chain {
						if rs, isR := x.(*ast.RangeStmt); isR && !isCounting(x) {
							inner = rs
							nRanges++
						}
					}
					if inner != nil && nRanges == 1 && depthLoops == 1 {
						if v, isID := inner.Value.(*ast.Ident); isID && sameKey(types.ExprString(ix.Index), v.Name+".Id") {
							if _, isLocal := inner.X.(*ast.Ident); isLocal {
								okKey = true
							}
						}
					}
					c.check(okKey, R, fmt.Sprintf("%s#result-store@%d", d.name, k), c.P.Pos(as.Pos()),
						"a node enters the result only when taken from the current level's queue",
						"a node is stored into the result index somewhere other than at the point where it is taken from the current level's queue (inside the depth loop): it is returned without consuming a depth level, so the depth bound is exceeded")
				}
				return true
			})
			if k == 0 {
				c.undecided(R, d.name+"#result-store", c.P.Pos(d.fd.Pos()), "no store into the result index found")
			}
		}
		// enqueue on the negative side of the visited test; expansion on the negative side of other-root test
		ast.Inspect(d.fd.Body, func(n ast.Node) bool {
			as, ok := n.(*ast.AssignStmt)
			if !ok || len(as.Rhs) != 1 {
				return true
			}
			ce, ok := as.Rhs[0].(*ast.CallExpr)
			if !ok {
				return true
			}
			if id, ok := ce.Fun.(*ast.Ident); !ok || id.Name != "append" {
				return true
			}
			// the enqueue: append inside three nested ranges
			chain := enclosing(d.fd.Body, as)
			nr := 0
			for _, x := range chain {
				if _, isR := x.(*ast.RangeStmt); isR {
					nr++
				}
			}
			if nr < 3 {
				return true
			}
			facts := membersAt(d, as)
			visited, root := false, false
			for _, f := range facts {
				if f.present {
					continue
				}
				if f.m == resultIdx && resultIdx != nil {
					visited = true
				}
				if o := originOfIndex(d, f.m); o.kind == "roots" {
					root = true
				}
			}
			// `if _, ok := rootIdx[n.Id]; ok && n.Id != id { continue }`: the root test carries the
			// documented exception for the start node, so its negation is a disjunction; accept an
			// early exit ahead of the expansion whose condition has a positive root-index lookup
			// as a conjunct
			if !root {
				for i, x := range chain {
					blk, isBlk := x.(*ast.BlockStmt)
					if !isBlk || i+1 >= len(chain) {
						continue
					}
					for _, st := range blk.List {
						if st == chain[i+1] {
							break
						}
						ifs, isIf := st.(*ast.IfStmt)
						if !isIf || !terminates(ifs.Body) {
							continue
						}
						lk := map[types.Object]*ast.IndexExpr{}
						if o, ix := commaOkLookup(d, ifs.Init); o != nil {
							lk[o] = ix
						}
						for _, f := range condMembers(d, ifs.Cond, true, lk, "early-exit") {
							if o := originOfIndex(d, f.m); f.present && o.kind == "roots" {
								// every other conjunct is the exception for the start node: the
								// looked-up identifier itself compared (!=) with something — not a
								// condition that does not depend on the node at hand
								okRest := true
								for _, cj := range conjuncts(ifs.Cond) {
									if id, isId := ast.Unparen(cj).(*ast.Ident); isId {
										if _, isLk := lk[objOf(d.pkg, id)]; isLk {
											continue
										}
									}
									be, isBE := ast.Unparen(cj).(*ast.BinaryExpr)
									if isBE && be.Op == token.NEQ && (sameKey(types.ExprString(be.X), f.key) || sameKey(types.ExprString(be.Y), f.key)) {
										continue
									}
									if len(condMembers(d, cj, true, lk, "early-exit")) > 0 {
										continue
									}
									okRest = false
								}
								if okRest {
									root = true
								}
							}
						}
					}
				}
			}
			c.check(visited, R, d.name+"#enqueue-unvisited", c.P.Pos(as.Pos()), "only unvisited targets are enqueued", "targets are enqueued without a negative visited test")
			c.check(root, R, d.name+"#expand-non-root", c.P.Pos(as.Pos()), "a node that is another root is not expanded", "the expansion of a node is not on the negative side of the other-root test: traversal continues through other roots")
			return true
		})
	}
	// D4 roots: exactly the start node
	for _, f := range extractionEntries {
		d := c.decl(R, f)
		if d == nil {
			continue
		}
		n := 0
		okRoot := true
		ast.Inspect(d.fd.Body, func(x ast.Node) bool {
			switch s := x.(type) {
			case *ast.AssignStmt:
				for i, l := range s.Lhs {
					if sel, ok := l.(*ast.SelectorExpr); ok && sel.Sel.Name == "RootElements" && i < len(s.Rhs) {
						n++
						if ce, ok := s.Rhs[i].(*ast.CallExpr); ok && len(ce.Args) == 2 {
							v := normText(types.ExprString(ce.Args[1]))
							if !(v == "id" || strings.HasSuffix(v, ".Id")) {
								okRoot = false
							}
						}
					}
				}
			case *ast.KeyValueExpr:
				if id, ok := s.Key.(*ast.Ident); ok && id.Name == "RootElements" {
					if cl, ok := s.Value.(*ast.CompositeLit); ok {
						if len(cl.Elts) > 1 {
							okRoot = false
						}
						if len(cl.Elts) == 1 {
							n++
						}
					}
				}
			}
			return true
		})
		c.check(n == 1 && okRoot, R, f+"#sole-root", c.P.Pos(d.fd.Pos()), "the start node is the sole root of the result", fmt.Sprintf("the result's root elements are set %d times or from something other than the start node's id", n))
	}
}

// inconsistentKeys: inside a loop over a map with key k, another map indexed both by k and by a
// parameter of the function of the same type is a wrong-variable slip.
func inconsistentKeys(c *Ctx, entries []string) {
	const R = "index-key-consistency"
	c.rule(R, "inside a range over an index with key variable k, every lookup into another index that is keyed by k somewhere in the loop is keyed by k everywhere in the loop (never by a same-typed parameter)")
	for _, d := range c.reachDecls(R, entries...) {
		params := map[types.Object]bool{}
		for _, f := range d.fd.Type.Params.List {
			for _, n := range f.Names {
				params[d.pkg.TypesInfo.Defs[n]] = true
			}
		}
		k := 0
		ast.Inspect(d.fd.Body, func(n ast.Node) bool {
			rs, ok := n.(*ast.RangeStmt)
			if !ok {
				return true
			}
			key := objOf(d.pkg, rs.Key)
			if key == nil {
				return true
			}
			if t := d.pkg.TypesInfo.TypeOf(rs.X); t == nil {
				return true
			} else if _, isMap := t.Underlying().(*types.Map); !isMap {
				return true
			}
			byMap := map[string]map[string]token.Pos{}
			ast.Inspect(rs.Body, func(m ast.Node) bool {
				ix, ok := m.(*ast.IndexExpr)
				if !ok {
					return true
				}
				mo := objOf(d.pkg, ix.X)
				io := objOf(d.pkg, ix.Index)
				if mo == nil || io == nil {
					return true
				}
				if byMap[mo.Name()] == nil {
					byMap[mo.Name()] = map[string]token.Pos{}
				}
				kind := "other"
				if io == key {
					kind = "loop-key"
				} else if params[io] && types.Identical(io.Type(), key.Type()) {
					kind = "param:" + io.Name()
				}
				if _, seen := byMap[mo.Name()][kind]; !seen {
					byMap[mo.Name()][kind] = ix.Pos()
				}
				return true
			})
			for mname, kinds := range byMap {
				if _, hasKey := kinds["loop-key"]; !hasKey {
					continue
				}
				k++
				bad := ""
				var pos token.Pos
				for kd, p := range kinds {
					if strings.HasPrefix(kd, "param:") {
						bad = strings.TrimPrefix(kd, "param:")
						pos = p
					}
				}
				construct := fmt.Sprintf("%s#%s@%d", d.name, mname, k)
				if bad == "" {
					c.ok(R, construct, c.P.Pos(rs.Pos()), mname+" is keyed by the loop key throughout the loop")
				} else {
					c.bad(R, construct, c.P.Pos(pos), fmt.Sprintf("inside the loop over %s, %s is indexed by the loop key %s in one place and by the parameter %s in another: a wrong-variable slip — data of the start node is used for every node", types.ExprString(rs.X), mname, key.Name(), bad))
				}
			}
			return true
		})
	}
}

// expandLocals substitutes single-definition locals inside an expression (bounded depth).
func expandLocals(d *declInfo, defs map[types.Object]ast.Expr, e ast.Expr, depth int) ast.Expr {
	if depth > 4 {
		return e
	}
	switch x := e.(type) {
	case *ast.Ident:
		if def, ok := defs[objOf(d.pkg, x)]; ok {
			return expandLocals(d, defs, def, depth+1)
		}
	case *ast.SelectorExpr:
		return &ast.SelectorExpr{X: expandLocals(d, defs, x.X, depth+1), Sel: x.Sel}
	case *ast.StarExpr:
		return &ast.StarExpr{X: expandLocals(d, defs, x.X, depth+1)}
	case *ast.ParenExpr:
		return &ast.ParenExpr{X: expandLocals(d, defs, x.X, depth+1)}
	case *ast.UnaryExpr:
		return &ast.UnaryExpr{Op: x.Op, X: expandLocals(d, defs, x.X, depth+1)}
	case *ast.IndexExpr:
		return &ast.IndexExpr{X: expandLocals(d, defs, x.X, depth+1), Index: x.Index}
	}
	return e
}

// typeOfExpanded finds the type of an expression that may contain synthesised wrapper nodes by
// descending to typed sub-expressions.
func typeOfExpanded(d *declInfo, e ast.Expr) types.Type {
	if t := d.pkg.TypesInfo.TypeOf(e); t != nil {
		return t
	}
	switch x := e.(type) {
	case *ast.ParenExpr:
		return typeOfExpanded(d, x.X)
	case *ast.StarExpr:
		if t := typeOfExpanded(d, x.X); t != nil {
			if p, ok := t.Underlying().(*types.Pointer); ok {
				return p.Elem()
			}
		}
	case *ast.SelectorExpr:
		if t := typeOfExpanded(d, x.X); t != nil {
			if p, ok := t.Underlying().(*types.Pointer); ok {
				t = p.Elem()
			}
			if st, ok := t.Underlying().(*types.Struct); ok {
				for i := 0; i < st.NumFields(); i++ {
					if st.Field(i).Name() == x.Sel.Name {
						return st.Field(i).Type()
					}
				}
			}
		}
	case *ast.UnaryExpr:
		if x.Op == token.AND {
			if t := typeOfExpanded(d, x.X); t != nil {
				return types.NewPointer(t)
			}
		}
	case *ast.IndexExpr:
		if t := typeOfExpanded(d, x.X); t != nil {
			switch u := t.Underlying().(type) {
			case *types.Slice:
				return u.Elem()
			case *types.Array:
				return u.Elem()
			}
		}
	}
	return nil
}

// mapShape classifies (a pointer to) a map by what it holds: "set" for map[string]struct{},
// "nodes" for map[string]*Node; "" otherwise.
func mapShape(t types.Type) string {
	if p, ok := t.Underlying().(*types.Pointer); ok {
		t = p.Elem()
	}
	m, ok := t.Underlying().(*types.Map)
	if !ok {
		return ""
	}
	if st, isStruct := m.Elem().Underlying().(*types.Struct); isStruct && st.NumFields() == 0 {
		return "set"
	}
	if isNodePtr(m.Elem()) {
		return "nodes"
	}
	return ""
}

// worklistLoop: `for len(W) > 0 { x := W[…]; W = W[1:] | W[:len(W)-1]; … }` where the removal is a
// top-level statement of the body ahead of any continue, and every append onto W is dominated by a
// negative lookup of a key in a map followed by the insertion of that key (so the number of pushes
// is bounded by the number of distinct keys).
func worklistLoop(d *declInfo, l *ast.ForStmt) (bool, string) {
	be, ok := l.Cond.(*ast.BinaryExpr)
	if !ok {
		return false, ""
	}
	var w types.Object
	isLenOf := func(e ast.Expr) types.Object {
		ce, ok := e.(*ast.CallExpr)
		if !ok || len(ce.Args) != 1 {
			return nil
		}
		if id, ok := ce.Fun.(*ast.Ident); !ok || id.Name != "len" {
			return nil
		}
		return objOf(d.pkg, ce.Args[0])
	}
	zero := func(e ast.Expr) bool {
		v, ok := constOf(d.pkg, e)
		return ok && v.isInt() && v.int() == 0
	}
	switch {
	case (be.Op == token.GTR || be.Op == token.NEQ) && zero(be.Y):
		w = isLenOf(be.X)
	case be.Op == token.LSS && zero(be.X):
		w = isLenOf(be.Y)
	}
	if w == nil {
		return false, ""
	}
	// unconditional removal at the top level of the body, before any statement that can `continue`
	shrinks := false
	for _, st := range l.Body.List {
		as, isAs := st.(*ast.AssignStmt)
		if isAs && len(as.Lhs) == 1 && len(as.Rhs) == 1 && objOf(d.pkg, as.Lhs[0]) == w {
			if se, isSl := as.Rhs[0].(*ast.SliceExpr); isSl && objOf(d.pkg, se.X) == w {
				// W[1:] or W[:len(W)-1]
				if se.Low != nil && se.High == nil {
					if v, isC := constOf(d.pkg, se.Low); isC && v.isInt() && v.int() >= 1 {
						shrinks = true
					}
				}
				if se.Low == nil && se.High != nil {
					if hb, isB := se.High.(*ast.BinaryExpr); isB && hb.Op == token.SUB && isLenOf(hb.X) == w {
						if v, isC := constOf(d.pkg, hb.Y); isC && v.isInt() && v.int() >= 1 {
							shrinks = true
						}
					}
				}
			}
			if shrinks {
				break
			}
		}
		// anything that may skip the removal ends the search
		mayLeave := false
		ast.Inspect(st, func(n ast.Node) bool {
			if b, ok := n.(*ast.BranchStmt); ok && b.Tok == token.CONTINUE {
				mayLeave = true
			}
			return true
		})
		if mayLeave {
			break
		}
	}
	if !shrinks {
		return false, "the work list " + w.Name() + " is not shortened unconditionally at the top of every iteration"
	}
	// growth only under a visited-set guard
	bad := ""
	n := 0
	ast.Inspect(l.Body, func(x ast.Node) bool {
		as, ok := x.(*ast.AssignStmt)
		if !ok || len(as.Lhs) != 1 || len(as.Rhs) != 1 || objOf(d.pkg, as.Lhs[0]) != w {
			return true
		}
		ce, isCall := as.Rhs[0].(*ast.CallExpr)
		if !isCall {
			return true
		}
		if id, isId := ce.Fun.(*ast.Ident); !isId || id.Name != "append" {
			return true
		}
		n++
		guarded := false
		for _, f := range membersAt(d, as) {
			if f.present || f.m == nil {
				continue
			}
			ast.Inspect(l.Body, func(y ast.Node) bool {
				a2, ok := y.(*ast.AssignStmt)
				if !ok || a2.Pos() > as.Pos() {
					return true
				}
				for _, lh := range a2.Lhs {
					if ix, ok := lh.(*ast.IndexExpr); ok && baseObj(d, ix.X) == f.m && sameKey(types.ExprString(ix.Index), f.key) {
						guarded = true
					}
				}
				return true
			})
		}
		if !guarded {
			bad = "an append onto the work list " + w.Name() + " is not under a visited-set guard (negative lookup of a key followed by its insertion)"
		}
		return true
	})
	if bad != "" {
		return false, bad
	}
	return true, fmt.Sprintf("work-list loop: %s loses one element per iteration and grows (%d site(s)) only for keys not seen before", w.Name(), n)
}
