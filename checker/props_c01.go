package main

import (
	"fmt"
	"go/ast"
	"go/types"

	"golang.org/x/tools/go/types/typeutil"
)

const (
	spdxSer   = "serializers.(*SPDX23).Serialize"
	spdxUnser = "unserializers.(*SPDX23).Unserialize"
	cdxSer    = "serializers.(*CDX).Serialize"
	cdxUnser  = "unserializers.(*CDX).Unserialize"
)

func init() {
	register("C01", "SPDX 2.3 round trip — structural necessary conditions decided from the source: (D1) the enum tables the SPDX writer and reader actually call are mutually inverse over the whole schema enum domain (edge types, checksum algorithms, software-identifier types, external-reference types, primary purposes), by constant-folding both tables; (D2) sibling edge table agreement; (D3/D4/D5) every attribute the statement lists has a field path writer→SPDX field→reader, dates use a parseable layout, identifiers are transferred verbatim; (D6) the conversion loops are total: no truncating exit, only reasoned skips; (D7) DOCUMENT/DESCRIBES constants agree. Decides the shape of the code, not equality of values after the third-party encoder.", runC01)
}

func runC01(c *Ctx) {
	c.rule("table-inverse", "for every constant e of the schema enum that the writer's table maps to a non-default label, reader(norm(writer(e))) == e; tables are the functions actually called by the writer/reader entry points, folded with the compiler's constant values")
	c.rule("table-section", "for every label l in the reader's table, writer(reader(l)) == l (writer is many-to-one)")
	c.rule("sibling-agreement", "two functions documented as the same mapping agree wherever the smaller one is defined")
	c.rule("constant-agreement", "a literal compared by the reader equals the constant emitted by the writer")
	c.notDecided("equality of attribute values after tools-golang encodes and decodes; TrimSpace on copyright; NOASSERTION/NONE substitution values; second-pass idempotence; indentation independence (encoding/json)")
	c.assume("tools-golang passes relationship labels, checksum algorithm names, external-reference category/type strings and purposes through JSON unchanged")

	spdxTables(c)
	spdxConstants(c)
	spdxFlow(c, "C01")
	spdxLoops(c, "C01")
	readerValueUntransformed(c, "reader-value-untransformed", pkgFilter(c.reachDecls("reader-value-untransformed", spdxUnser), "unserializers."))
	firstActorWritten(c)
	driverStateRule(c, "driver-keeps-no-state", []string{spdxSer, "serializers.(*SPDX23).Render", spdxUnser}, newOrigins(c.P))
}

// spdxTables: C01-D1, D2.
func spdxTables(c *Ctx) {
	const R = "table-inverse"
	wr := c.reachDecls(R, spdxSer)
	rd := c.reachDecls(R, spdxUnser)
	if len(wr) == 0 || len(rd) == 0 {
		return
	}
	sbomPkg := "pkg/sbom"

	// --- edge types ---
	edgeT := c.P.namedType(modPath+"/"+sbomPkg, "Edge_Type")
	to := c.uniqueConverter(R, "Edge_Type→string (SPDX writer)", wr, sigPred(isNamed(sbomPkg, "Edge_Type"), isString))
	from := c.uniqueConverter(R, "string→Edge_Type (SPDX reader)", rd, sigPred(isString, isNamed(sbomPkg, "Edge_Type")))
	if edgeT != nil && to != nil && from != nil {
		n := c.inverse(inverseSpec{rule: R, to: to, from: from, dom: enumConsts(edgeT),
			required: func(e *types.Const, w value) bool { return !isZeroConst(e) }})
		c.info("edge-type rows required: %d (every non-UNKNOWN Edge_Type constant)", n)
		c.floor(R, 44, "44 relationship types named by the statement")

		// D2 sibling: the older reader table must agree with the one in use where it is defined
		if fd, pk := c.P.FuncDecl("sbom.EdgeTypeFromSPDX"); fd != nil {
			sib, _ := pk.TypesInfo.Defs[fd.Name].(*types.Func)
			nsib := 0
			for _, e := range enumConsts(edgeT) {
				if isZeroConst(e) {
					continue
				}
				w := c.apply(to, constVal(e))
				if len(w) == 0 || !w[0].isStr() {
					continue
				}
				a := c.apply(sib, w[0])
				b := c.apply(from, w[0])
				if len(a) == 0 || len(b) == 0 || a[0].k != vConst || b[0].k != vConst {
					c.undecided("sibling-agreement", "sbom.EdgeTypeFromSPDX~"+objName(from)+"#"+e.Name(), c.fpos(sib), "table not foldable")
					continue
				}
				if a[0].isInt() && a[0].int() == 0 {
					continue // label not defined in the older table: allowed (subset)
				}
				nsib++
				c.check(sameValue(a[0], b[0]), "sibling-agreement", "sbom.EdgeTypeFromSPDX~"+objName(from)+"#"+e.Name(), c.fpos(sib),
					fmt.Sprintf("%s: both tables give %s", w[0], a[0]),
					fmt.Sprintf("label %s maps to %s in EdgeTypeFromSPDX but %s in %s", w[0], a[0], b[0], objName(from)))
			}
			c.floor("sibling-agreement", 30, "EdgeTypeFromSPDX defines 39 labels today")
			_ = nsib
		}
	}

	// --- checksum algorithms ---
	hashT := c.P.namedType(modPath+"/"+sbomPkg, "HashAlgorithm")
	isCk := isNamed("spdx/v2/common", "ChecksumAlgorithm")
	hto := c.uniqueConverter(R, "HashAlgorithm→ChecksumAlgorithm (SPDX writer)", wr, sigPred(isNamed(sbomPkg, "HashAlgorithm"), isCk))
	hfrom := c.uniqueConverter(R, "ChecksumAlgorithm→HashAlgorithm (SPDX reader)", rd, sigPred(isCk, isNamed(sbomPkg, "HashAlgorithm")))
	if hashT != nil && hto != nil && hfrom != nil {
		n := c.inverse(inverseSpec{rule: R, to: hto, from: hfrom, dom: enumConsts(hashT),
			required: func(e *types.Const, w value) bool { return w.isStr() && w.str() != "" }})
		if n < 16 {
			c.bad(R, "domain:HashAlgorithm/SPDX", c.fpos(hto), fmt.Sprintf("only %d checksum algorithms have an SPDX label; the statement requires the 16 shared with SPDX", n))
		} else {
			c.ok(R, "domain:HashAlgorithm/SPDX", c.fpos(hto), fmt.Sprintf("%d algorithms have SPDX labels", n))
		}
	}

	// --- software identifiers: writer has two one-level tables, reader a two-level one ---
	idT := c.P.namedType(modPath+"/"+sbomPkg, "SoftwareIdentifierType")
	idConvs := converters(wr, sigPred(isNamed(sbomPkg, "SoftwareIdentifierType"), isString))
	var catFn, typFn *types.Func
	// which of them feeds Category and which RefType is read from the field initialisations
	for _, d := range wr {
		defs := singleDefs(d.pkg, d.fd.Body)
		for _, fi := range fieldInits(d.pkg, d.fd.Body) {
			f, _ := outerCallee(d.pkg, defs, fi.value)
			if f == nil {
				continue
			}
			for _, cand := range idConvs {
				if cand == f {
					switch fi.field.Name() {
					case "Category":
						catFn = f
					case "RefType":
						typFn = f
					}
				}
			}
		}
	}
	extToEnum := c.uniqueConverter(R, "*PackageExternalReference→ExternalReferenceType (SPDX reader)", rd,
		sigPred(isPtrNamed("spdx/v2/v2_3", "PackageExternalReference"), isNamed(sbomPkg, "ExternalReference_ExternalReferenceType")))
	idFrom := c.uniqueConverter(R, "string→SoftwareIdentifierType (SPDX reader)", rd, func(f *types.Func) bool {
		return sigPred(isString, isNamed(sbomPkg, "SoftwareIdentifierType"))(f)
	})
	if idT != nil {
		if catFn == nil || typFn == nil {
			c.undecided(R, "converter:SoftwareIdentifierType→(Category,RefType)", "-", "could not identify the writer's category/type tables from the PackageExternalReference field initialisations")
		} else if extToEnum != nil && idFrom != nil {
			n := 0
			for _, e := range enumConsts(idT) {
				if isZeroConst(e) {
					continue
				}
				cat := c.apply(catFn, constVal(e))
				typ := c.apply(typFn, constVal(e))
				construct := fmt.Sprintf("%s∘(%s,%s)#%s", objName(extToEnum), objName(catFn), objName(typFn), e.Name())
				if len(cat) == 0 || len(typ) == 0 || !cat[0].isStr() || !typ[0].isStr() {
					c.undecided(R, construct, c.fpos(typFn), "writer identifier tables not foldable")
					continue
				}
				n++
				r := c.apply(extToEnum, rec(map[string]value{"Category": cat[0], "RefType": typ[0]}))
				back := c.apply(idFrom, typ[0])
				if len(r) < 3 || r[1].k != vConst || len(back) == 0 || back[0].k != vConst {
					c.undecided(R, construct, c.fpos(extToEnum), fmt.Sprintf("reader identifier tables not foldable: %v / %v", r, back))
					continue
				}
				isID := r[1].c.ExactString() == "true" && r[2].k == vNil
				c.check(isID && sameValue(back[0], constVal(e)), R, construct, c.fpos(extToEnum),
					fmt.Sprintf("%s → (%s,%s) → identifier %s", e.Name(), cat[0], typ[0], back[0]),
					fmt.Sprintf("%s is written as category %s type %s; the reader classifies that as identifier=%v err=%v and maps the type back to %s", e.Name(), cat[0], typ[0], r[1], r[2], back[0]))
			}
			if n < 4 {
				c.bad(R, "domain:SoftwareIdentifierType/SPDX", c.fpos(typFn), fmt.Sprintf("%d identifier types", n))
			}
		}
	}

	// --- external reference types ---
	erT := c.P.namedType(modPath+"/"+sbomPkg, "ExternalReference_ExternalReferenceType")
	erConvs := converters(wr, sigPred(isPtrNamed(sbomPkg, "ExternalReference"), isString))
	var erCat, erTyp *types.Func
	for _, d := range wr {
		defs := singleDefs(d.pkg, d.fd.Body)
		for _, fi := range fieldInits(d.pkg, d.fd.Body) {
			f, _ := outerCallee(d.pkg, defs, fi.value)
			for _, cand := range erConvs {
				if f != nil && cand == f {
					switch fi.field.Name() {
					case "Category":
						erCat = f
					case "RefType":
						erTyp = f
					}
				}
			}
		}
	}
	if erT != nil && extToEnum != nil {
		if erCat == nil || erTyp == nil {
			c.undecided(R, "converter:ExternalReference→(Category,RefType)", "-", "could not identify the writer's external-reference category/type tables")
		} else {
			bogus := rec(map[string]value{"Type": cint(-12345)})
			dc, dt := c.apply(erCat, bogus), c.apply(erTyp, bogus)
			n := 0
			for _, e := range enumConsts(erT) {
				in := rec(map[string]value{"Type": constVal(e)})
				cat, typ := c.apply(erCat, in), c.apply(erTyp, in)
				construct := fmt.Sprintf("%s∘(%s,%s)#%s", objName(extToEnum), objName(erCat), objName(erTyp), e.Name())
				if len(cat) == 0 || len(typ) == 0 || !cat[0].isStr() || !typ[0].isStr() || len(dc) == 0 || !dc[0].isStr() || !dt[0].isStr() {
					c.undecided(R, construct, c.fpos(erTyp), "writer external-reference tables not foldable")
					continue
				}
				isDefault := sameValue(cat[0], dc[0]) && sameValue(typ[0], dt[0])
				if isDefault && e.Name() != "ExternalReference_OTHER" {
					continue // SPDX cannot express it: written as OTHER (documented degradation)
				}
				n++
				r := c.apply(extToEnum, rec(map[string]value{"Category": cat[0], "RefType": typ[0]}))
				if len(r) < 3 || r[0].k == vUnknown || r[1].k != vConst {
					c.undecided(R, construct, c.fpos(extToEnum), fmt.Sprintf("reader table not foldable: %v", r))
					continue
				}
				okv := sameValue(r[0], constVal(e)) && r[1].c.ExactString() == "false" && r[2].k == vNil
				c.check(okv, R, construct, c.fpos(extToEnum),
					fmt.Sprintf("%s → (%s,%s) → %s", e.Name(), cat[0], typ[0], r[0]),
					fmt.Sprintf("%s is written as category %s type %s, read back as %s (identifier=%v, err=%v)", e.Name(), cat[0], typ[0], r[0], r[1], r[2]))
			}
			if n < 8 {
				c.bad(R, "domain:ExternalReferenceType/SPDX", c.fpos(erTyp), fmt.Sprintf("only %d external-reference types have a non-default SPDX (category,type) pair; 8 confirmed on the pinned tree", n))
			} else {
				c.ok(R, "domain:ExternalReferenceType/SPDX", c.fpos(erTyp), fmt.Sprintf("%d expressible types", n))
			}
		}
	}

	// --- primary purpose: reader labels are a section of the writer's table ---
	spdxPurposes(c, wr, rd)
}

func isZeroConst(e *types.Const) bool {
	v := constVal(e)
	return v.isInt() && v.int() == 0
}

// spdxPurposes: the writer's purpose switch assigns Package.PrimaryPackagePurpose; the reader's
// switch on Package.PrimaryPackagePurpose assigns Node.PrimaryPurpose = []Purpose{K}.
func spdxPurposes(c *Ctx, wr, rd []*declInfo) {
	const R = "table-section"
	var wrows, rrows []switchRow
	var wpos, rpos string
	for _, d := range wr {
		for _, sw := range findSwitches(d.fd.Body) {
			rows, _ := assignSwitchRows(c.P, d.pkg, sw, func(l ast.Expr) bool {
				f := selectorField(d.pkg, l)
				return f != nil && f.Name() == "PrimaryPackagePurpose"
			})
			if len(rows) > 0 {
				wrows = append(wrows, rows...)
				wpos = c.P.Pos(sw.Pos())
			}
		}
	}
	for _, d := range rd {
		for _, sw := range findSwitches(d.fd.Body) {
			if sw.Tag == nil {
				continue
			}
			if f := selectorField(d.pkg, sw.Tag); f == nil || f.Name() != "PrimaryPackagePurpose" {
				continue
			}
			rows, _ := assignSwitchRows(c.P, d.pkg, sw, func(l ast.Expr) bool {
				f := selectorField(d.pkg, l)
				return f != nil && f.Name() == "PrimaryPurpose"
			})
			if len(rows) > 0 {
				rrows = append(rrows, rows...)
				rpos = c.P.Pos(sw.Pos())
			}
		}
	}
	if len(rrows) == 0 {
		// the reader's table may live in a converter function string → sbom.Purpose: fold it on
		// the labels of its own switch
		for _, f := range converters(rd, sigPred(isString, isNamed("pkg/sbom", "Purpose"))) {
			fd, pk := c.P.FuncDecl(objName(f))
			if fd == nil || fd.Body == nil {
				continue
			}
			for _, sw := range findSwitches(fd.Body) {
				for _, cc := range sw.Body.List {
					cl := cc.(*ast.CaseClause)
					for _, e := range cl.List {
						lbl, ok := constOf(pk, e)
						if !ok || !lbl.isStr() {
							continue
						}
						if out := c.apply(f, lbl); len(out) == 1 && out[0].k == vConst {
							rrows = append(rrows, switchRow{keys: []value{lbl}, val: value{k: vList, list: []value{out[0]}}, pos: e.Pos()})
							rpos = c.P.Pos(sw.Pos())
						}
					}
				}
			}
		}
	}
	if len(rrows) == 0 {
		// … or in a package-level map table indexed with the package's PrimaryPackagePurpose
		for _, d := range rd {
			ast.Inspect(d.fd.Body, func(n ast.Node) bool {
				ix, ok := n.(*ast.IndexExpr)
				if !ok {
					return true
				}
				if f := selectorField(d.pkg, ix.Index); f == nil || f.Name() != "PrimaryPackagePurpose" {
					return true
				}
				id, isId := ix.X.(*ast.Ident)
				if !isId {
					return true
				}
				pv, isVar := d.pkg.TypesInfo.Uses[id].(*types.Var)
				if !isVar || pv.Pkg() == nil || pv.Parent() != pv.Pkg().Scope() {
					return true
				}
				ev := &evaluator{p: c.P}
				tab := ev.packageTable(pv)
				if tab.k != vMap {
					return true
				}
				for i, k := range tab.mkey {
					if tab.list[i].k == vConst {
						rrows = append(rrows, switchRow{keys: []value{k}, val: value{k: vList, list: []value{tab.list[i]}}, pos: ix.Pos()})
						rpos = c.P.Pos(ix.Pos())
					}
				}
				return true
			})
		}
	}
	if len(wrows) == 0 {
		// … and so may the writer's: a converter sbom.Purpose → string whose result is stored into
		// PrimaryPackagePurpose, folded on the constants of its own switch
		for _, f := range converters(wr, sigPred(isNamed("pkg/sbom", "Purpose"), isString)) {
			fd, pk := c.P.FuncDecl(objName(f))
			if fd == nil || fd.Body == nil {
				continue
			}
			stored := false
			for _, d := range wr {
				for _, fi := range fieldInits(d.pkg, d.fd.Body) {
					if fi.field.Name() != "PrimaryPackagePurpose" {
						continue
					}
					if ce, isCall := fi.value.(*ast.CallExpr); isCall {
						if g, _ := typeutil.Callee(d.pkg.TypesInfo, ce).(*types.Func); g == f {
							stored = true
						}
					}
				}
			}
			if !stored {
				continue
			}
			for _, sw := range findSwitches(fd.Body) {
				for _, cc := range sw.Body.List {
					cl := cc.(*ast.CaseClause)
					for _, e := range cl.List {
						k, ok := constOf(pk, e)
						if !ok {
							continue
						}
						if out := c.apply(f, k); len(out) == 1 && out[0].k == vConst {
							wrows = append(wrows, switchRow{keys: []value{k}, val: out[0], pos: e.Pos()})
							wpos = c.P.Pos(sw.Pos())
						}
					}
				}
			}
		}
	}
	if len(wrows) == 0 || len(rrows) == 0 {
		c.undecided(R, "anchor:purpose-switches", "-", fmt.Sprintf("purpose switches not found (writer rows %d, reader rows %d)", len(wrows), len(rrows)))
		return
	}
	n := 0
	for _, rr := range rrows {
		for _, label := range rr.keys {
			if !label.isStr() || label.str() == "" {
				continue
			}
			construct := "spdx-purpose#" + label.str()
			if rr.val.k != vList || len(rr.val.list) != 1 || rr.val.list[0].k != vConst {
				c.undecided(R, construct, rpos, "reader row does not assign a one-element constant purpose list: "+rr.val.String())
				continue
			}
			n++
			back, ok := lookupRow(wrows, rr.val.list[0])
			c.check(ok && sameValue(back, label), R, construct, wpos,
				fmt.Sprintf("%s → purpose %s → %s", label, rr.val.list[0], back),
				fmt.Sprintf("reader maps label %s to purpose %s, which the writer emits as %v (found=%v): the native purpose does not survive", label, rr.val.list[0], back, ok))
		}
	}
	c.floor(R, 12, "12 SPDX 2.3 primary package purposes")
	_ = n
}

// spdxConstants: C01-D7.
func spdxConstants(c *Ctx) {
	const R = "constant-agreement"
	wr := c.reachDecls(R, spdxSer)
	rd := c.reachDecls(R, spdxUnser)
	// Writer: relationships appended in Serialize with RefA = MakeDocElementID("", X) and
	// Relationship = Y. Reader: comparison literals against RefA.ElementRefID and Relationship.
	var wDoc, wRel []value
	for _, d := range wr {
		for _, fi := range fieldInits(d.pkg, d.fd.Body) {
			if fi.owner == nil || fi.owner.Obj().Name() != "Relationship" {
				continue
			}
			switch fi.field.Name() {
			case "RefA":
				if ce, ok := fi.value.(*ast.CallExpr); ok && len(ce.Args) == 2 {
					if v, ok := constOf(d.pkg, ce.Args[1]); ok {
						wDoc = append(wDoc, v)
					}
				}
			case "Relationship":
				if v, ok := constOf(d.pkg, fi.value); ok {
					wRel = append(wRel, v)
				}
			}
		}
	}
	var rDoc, rRel []value
	var rpos string
	for _, d := range rd {
		ast.Inspect(d.fd.Body, func(n ast.Node) bool {
			switch e := n.(type) {
			case *ast.BinaryExpr:
				for _, pair := range [][2]ast.Expr{{e.X, e.Y}, {e.Y, e.X}} {
					if f := selectorField(d.pkg, pair[0]); f != nil && f.Name() == "ElementRefID" {
						if v, ok := constOf(d.pkg, pair[1]); ok {
							rDoc = append(rDoc, v)
							rpos = c.P.Pos(e.Pos())
						}
					}
				}
			case *ast.CallExpr:
				if len(e.Args) == 2 {
					for _, pair := range [][2]ast.Expr{{e.Args[0], e.Args[1]}, {e.Args[1], e.Args[0]}} {
						if f := selectorField(d.pkg, pair[0]); f != nil && f.Name() == "Relationship" {
							if v, ok := constOf(d.pkg, pair[1]); ok {
								rRel = append(rRel, v)
							}
						}
					}
				}
			}
			return true
		})
	}
	if len(wDoc) != 1 || len(wRel) != 1 || len(rDoc) != 1 || len(rRel) != 1 {
		c.undecided(R, "spdx-root-relationship", rpos, fmt.Sprintf("root-element relationship idiom not recognised: writer doc=%v rel=%v, reader doc=%v rel=%v", wDoc, wRel, rDoc, rRel))
		return
	}
	c.check(sameValue(wDoc[0], rDoc[0]), R, "spdx-root-relationship#DOCUMENT", rpos,
		"writer and reader agree on "+wDoc[0].String(), fmt.Sprintf("writer emits root relationships from %s, reader recognises %s", wDoc[0], rDoc[0]))
	eq := wRel[0].isStr() && rRel[0].isStr() && equalFold(wRel[0].str(), rRel[0].str())
	c.check(eq, R, "spdx-root-relationship#DESCRIBES", rpos,
		"writer and reader agree on "+wRel[0].String(), fmt.Sprintf("writer emits %s, reader recognises %s", wRel[0], rRel[0]))
}
