package main

import (
	"fmt"
	"go/ast"
	"go/token"
	"go/types"
	"regexp/syntax"
	"strings"
	"unicode"

	"golang.org/x/tools/go/types/typeutil"
)

func init() {
	register("C03", "Nothing dropped or invented in translation — structural conditions: (D1) the per-node and per-edge emission loops of both writers are total (no truncating exit, only reasoned skips) and the SPDX package/file loops filter complementary kinds; (D2) in the CycloneDX writer every insertion into the 'placed' set is paired, in the same statement list, with an attachment of that component; (D3) no expressible edge is skipped because of placement state (known finding); (D4) every registry entry's key constant agrees with the version/encoding its driver is built with and both registries cover the same keys; the auto-reference eraser applies to the flag segment only. Does not decode the output independently.", runC03)
	register("C05", "Parsed graphs well-formed, deterministic, layout-independent — structural conditions: (D1) the only nondeterminism sources reachable from the parsers are in the allowance table (UUID for a missing SPDX namespace; UUID in the identifier generator only when no usable seed is given, and the CycloneDX reader always passes a constant-format counter seed); (D2) that counter is allocated per Unserialize call, incremented on every component, and threaded by pointer; (D3) identifiers and edge endpoints are transferred verbatim from the native document (node Id, never the raw bom-ref, feeds edges and roots); (D4) protobom never inspects raw bytes while parsing (the stream goes only to the JSON decoders); (D5) single dispatch; (D6) the identifier generator's escape pattern admits only the identifier-safe alphabet.", runC05)
}

func runC03(c *Ctx) {
	c.notDecided("decoding the output independently and comparing sets; conversions of mutated real SBOMs; references to elements that were not emitted beyond the pairing rule")
	const R = "loop-totality"
	c.rule(R, loopRuleText)
	ds := pkgFilter(c.reachDecls(R, spdxSer, cdxSer, "beta.(*SPDX3).Serialize"), "serializers.", "beta.")
	c.loopTotality(R, ds, loopPolicies, commonSkips)
	c.floor(R, 18, "conversion loops of the three serializers")
	kindComplement(c, R)
	placedAttached(c)
	registryAgreement(c)
	cdxAutoRef(c)
	driverStateRule(c, "driver-keeps-no-state", []string{cdxSer, spdxSer, "beta.(*SPDX3).Serialize"}, newOrigins(c.P))
	// "no reference to an element that was not emitted": relationship endpoints and element
	// identifiers are the node identifiers, unchanged; identity attributes have a path through both formats
	verbatimSPDX(c)
	identityAttributePaths(c)
	relationshipLabelsDistinct(c)
}

// placedAttached: C03-D2.
func placedAttached(c *Ctx) {
	const R = "placed-implies-attached"
	c.rule(R, "in the CycloneDX serializer every store into the placed set (the map consulted by serializerCDXState.components to skip a component) with key K is accompanied, in the same statement list, by an attachment of component K: an append of componentsDict[K] into some Components list, or the assignment of Metadata.Component from the node whose Id is K")
	// the placed set: the map field tested in components()
	comp := c.decl(R, "serializers.(*serializerCDXState).components")
	if comp == nil {
		return
	}
	// the set whose *absence* of the component's key lets components() emit it: membership facts
	// at the append into the result (comma-ok lookups, bool sets, early `continue`s alike)
	placedField := ""
	ast.Inspect(comp.fd.Body, func(n ast.Node) bool {
		as, ok := n.(*ast.AssignStmt)
		if !ok || len(as.Rhs) != 1 {
			return true
		}
		if ce, isCall := as.Rhs[0].(*ast.CallExpr); isCall {
			if id, isId := ce.Fun.(*ast.Ident); isId && id.Name == "append" {
				for _, f := range membersAt(comp, as) {
					if !f.present {
						if i := strings.LastIndex(f.mexpr, "."); i >= 0 {
							placedField = f.mexpr[i+1:]
						} else if def, has := singleDefs(comp.pkg, comp.fd.Body)[f.m]; has {
							// the set bound to a local first: added := s.addedDict
							if sel, isSel := def.(*ast.SelectorExpr); isSel {
								placedField = sel.Sel.Name
							}
						}
					}
				}
			}
		}
		return true
	})
	if placedField == "" {
		c.undecided(R, "placed-set", c.P.Pos(comp.fd.Pos()), "the set consulted by components() was not recognised")
		return
	}
	n := 0
	for _, d := range pkgFilter(c.reachDecls(R, cdxSer), "serializers.") {
		ast.Inspect(d.fd.Body, func(x ast.Node) bool {
			blk, ok := x.(*ast.BlockStmt)
			var list []ast.Stmt
			if ok {
				list = blk.List
			} else if cc, ok := x.(*ast.CaseClause); ok {
				list = cc.Body
			} else {
				return true
			}
			for _, st := range list {
				as, ok := st.(*ast.AssignStmt)
				if !ok || len(as.Lhs) != 1 {
					continue
				}
				ix, ok := as.Lhs[0].(*ast.IndexExpr)
				if !ok {
					continue
				}
				sel, ok := ix.X.(*ast.SelectorExpr)
				if !ok {
					// a local alias of the set
					if id, isId := ix.X.(*ast.Ident); isId {
						if def, has := singleDefs(d.pkg, d.fd.Body)[objOf(d.pkg, id)]; has {
							sel, ok = def.(*ast.SelectorExpr)
						}
					}
				}
				if !ok || sel.Sel.Name != placedField {
					continue
				}
				n++
				key := types.ExprString(ix.Index)
				attached := false
				attachedIdx := -1
				// search the same statement list (and nested statements of its siblings)
				for sibIdx, sib := range list {
					sibIdx := sibIdx
					ast.Inspect(sib, func(m ast.Node) bool {
						a2, ok := m.(*ast.AssignStmt)
						if !ok || len(a2.Rhs) != 1 {
							return true
						}
						rhs := types.ExprString(a2.Rhs[0])
						lhs := types.ExprString(a2.Lhs[0])
						// append(*…Components, *state.componentsDict[K]) — the appended component may
						// have been bound to a local by an earlier lookup `x, ok := dict[K]`
						if ce, isCall := a2.Rhs[0].(*ast.CallExpr); isCall && strings.Contains(lhs, "Components") {
							if id, isId := ce.Fun.(*ast.Ident); isId && id.Name == "append" {
								for _, arg := range ce.Args[1:] {
									if k := lookupKeyOf(d, arg); k != "" && normText(k) == normText(key) {
										attached = true
										attachedIdx = sibIdx
									}
								}
							}
						}
						// doc.Metadata.Component = s.nodeToComponent(X) with key == X.Id
						// (a direct sibling of the mark: under a further condition — only the first of
						// several roots — the others are marked without being attached anywhere)
						if strings.HasSuffix(lhs, "Metadata.Component") && strings.HasSuffix(key, ".Id") && strings.Contains(rhs, "("+strings.TrimSuffix(key, ".Id")+")") && ast.Stmt(a2) == sib {
							attached = true
						}
						return true
					})
				}
				construct := fmt.Sprintf("%s#%s[%s]", d.name, placedField, key)
				// … on every path: between the mark and the attachment nothing may leave the iteration
				// (an error return aborts the whole serialization and is fine)
				if attached && attachedIdx >= 0 {
					storeIdx := -1
					for i, st2 := range list {
						if st2 == ast.Stmt(as) {
							storeIdx = i
						}
					}
					if storeIdx >= 0 && storeIdx < attachedIdx {
						for _, mid := range list[storeIdx+1 : attachedIdx] {
							leaves := ""
							ast.Inspect(mid, func(m ast.Node) bool {
								switch b := m.(type) {
								case *ast.FuncLit:
									return false
								case *ast.BranchStmt:
									if b.Tok == token.CONTINUE || b.Tok == token.BREAK {
										leaves = b.Tok.String()
									}
								case *ast.ReturnStmt:
									if n := len(b.Results); n > 0 && isNilIdent(d.pkg, b.Results[n-1]) {
										leaves = "return with a nil error"
									}
								}
								return true
							})
							if leaves != "" {
								c.bad(R, construct+"#every-path", c.P.Pos(mid.Pos()), fmt.Sprintf("component %s is marked as placed and the attachment follows, but a `%s` between the two leaves the iteration first: on that path the component is placed nowhere and missing from the top level", key, leaves))
							}
						}
					}
				}
				c.check(attached, R, construct, c.P.Pos(as.Pos()), "marked as placed and attached in the same statement list",
					fmt.Sprintf("component %s is marked as placed (%s) but is not attached to any Components list or to Metadata.Component in the same statement list: components() will not emit it at top level, so it vanishes from the output while other elements still refer to it", key, types.ExprString(as.Lhs[0])))
			}
			return true
		})
	}
	c.floor(R, 2, "the root component and contained components")
	_ = n
}

// ---- C05 ----

func runC05(c *Ctx) {
	c.notDecided("uniqueness relative to the input's; non-emptiness of generated identifiers for arbitrary seeds beyond the escape pattern; behaviour on duplicate or missing references")
	entries := []string{cdxUnser, spdxUnser}
	nondetRule(c, entries, map[string]string{
		"unserializers.buildDocumentIdentifier→uuid.NewString": "only when the SPDX document has no namespace (schema-invalid input); the value flows only into Metadata.Id",
		"sbom.NewNodeIdentifier→uuid.New":                      "only when no usable seed is given; the CycloneDX reader always passes a constant-format counter seed (checked by counter-seed)",
	})
	counterRule(c)
	noGoroutines(c, "drivers-sequential", c.reachDecls("drivers-sequential", entries...), "parser entry points")
	verbatimIDs(c)
	rawBytes(c)
	snifferStreamUses(c)
	snifferDecodesValues(c)
	singleDispatch(c)
	idAlphabet(c)
	seedTransformsKeepSeeds(c)
	const R = "loop-totality"
	c.rule(R, loopRuleText)
	// graph assembly only: attribute loops (licences, hashes, …) belong to C02/C03
	ds := pkgFilter(c.reachDecls(R, cdxUnser, spdxUnser), "unserializers.(*CDX).Unserialize", "unserializers.(*SPDX23).Unserialize", "unserializers.(*CDX).componentToNodeList",
		"sbom.(*NodeList).", "sbom.(*Edge).AddDestinationById")
	c.loopTotality(R, ds, loopPolicies, commonSkips)
	// "parsing the same bytes twice yields equivalent graphs with identical identifiers": nothing a
	// parser leaves behind may depend on Go's randomised map iteration order
	mapOrderRule(c, c.reachDecls("map-order-independence", cdxUnser, spdxUnser))
	// "parsing with auto-detection equals parsing with the format stated explicitly": the detector
	// must report, for the declaration each readable format carries, exactly that format's key
	if s := findSniffer(c, "writer-sniffer-agreement"); s != nil {
		wr, rd := registryAgreement(c)
		writerSnifferAgreement(c, s, wr, rd)
	}
	// … for every document a reader parses, not only the first: a detection result remembered in
	// the reader would stand in for the next document's explicit format
	operandsUntouchedIn(c, "detection-leaves-reader-unchanged", "the parse entry points and what they call (format detection included) do not write memory reachable from the reader: what was detected for one document is not carried to the next", map[string]bool{"receiver": true},
		"reader.(*Reader).ParseStreamWithOptions", "reader.(*Reader).ParseFileWithOptions")
}

// counterRule: C05-D1 (seed) and D2.
func counterRule(c *Ctx) {
	const R = "counter-seed"
	c.rule(R, "every call of sbom.NewNodeIdentifier reachable from the parsers passes a second argument fmt.Sprintf(<constant format with a %d verb>, *counter) where counter is a parameter of pointer type that the same function increments before the use, and every caller passes either its own counter parameter or the address of a local initialised in the Unserialize method")
	ds := pkgFilter(c.reachDecls(R, cdxUnser, spdxUnser), "unserializers.")
	n := 0
	for _, d := range ds {
		for _, cs := range callsIn(d.pkg, d.fd.Body) {
			if objName(cs.callee) != "sbom.NewNodeIdentifier" {
				continue
			}
			n++
			construct := d.name + "#NewNodeIdentifier"
			if len(cs.call.Args) < 2 {
				c.bad(R, construct, c.P.Pos(cs.call.Pos()), "the identifier generator is called without a seed: it falls back to a random UUID, so parsing the same bytes twice yields different identifiers")
				continue
			}
			seed, ok := cs.call.Args[1].(*ast.CallExpr)
			okSeed := false
			var ctr types.Object
			if ok {
				if f, _ := typeutil.Callee(d.pkg.TypesInfo, seed).(*types.Func); f != nil && f.FullName() == "fmt.Sprintf" && len(seed.Args) == 2 {
					if fv, ok := constOf(d.pkg, seed.Args[0]); ok && fv.isStr() && strings.Contains(fv.str(), "d") && strings.Contains(fv.str(), "%") {
						if st, ok := seed.Args[1].(*ast.StarExpr); ok {
							ctr = objOf(d.pkg, st.X)
							okSeed = ctr != nil
						}
					}
				}
			}
			// variant: the helper takes the already incremented counter *value*; then every caller
			// must increment its counter unconditionally right before the call and pass *counter
			if !okSeed && ok {
				if f, _ := typeutil.Callee(d.pkg.TypesInfo, seed).(*types.Func); f != nil && f.FullName() == "fmt.Sprintf" && len(seed.Args) == 2 {
					if fv, okf := constOf(d.pkg, seed.Args[0]); okf && fv.isStr() && strings.Contains(fv.str(), "d") && strings.Contains(fv.str(), "%") {
						if id, isId := seed.Args[1].(*ast.Ident); isId {
							po := objOf(d.pkg, id)
							pidx, k := -1, 0
							for _, fl := range d.fd.Type.Params.List {
								for _, nm := range fl.Names {
									if d.pkg.TypesInfo.Defs[nm] == po {
										pidx = k
									}
									k++
								}
							}
							calls := moduleCalls()[d.obj]
							all := pidx >= 0 && len(calls) > 0
							for _, mc := range calls {
								if pidx >= len(mc.call.Args) {
									all = false
									continue
								}
								st, isStar := mc.call.Args[pidx].(*ast.StarExpr)
								if !isStar {
									all = false
									continue
								}
								cobj := objOf(mc.d.pkg, st.X)
								incd := false
								for _, top := range mc.d.fd.Body.List {
									if top.Pos() > mc.call.Pos() {
										break
									}
									if ids, isInc := top.(*ast.IncDecStmt); isInc && ids.Tok == token.INC {
										if pe, isP := ids.X.(*ast.ParenExpr); isP {
											if se, isS := pe.X.(*ast.StarExpr); isS && objOf(mc.d.pkg, se.X) == cobj && cobj != nil {
												incd = true
											}
										}
									}
								}
								all = all && incd
							}
							if all {
								c.ok(R, construct, c.P.Pos(cs.call.Pos()), "seed is the counter value every caller increments unconditionally before the call")
								continue
							}
						}
					}
				}
			}
			if !okSeed {
				c.bad(R, construct, c.P.Pos(cs.call.Pos()), "the seed is not fmt.Sprintf(<constant %d format>, *counter): generated identifiers are not a function of the component's position in the document")
				continue
			}
			// the counter is a pointer parameter incremented earlier in the function
			isParam := false
			for _, f := range d.fd.Type.Params.List {
				for _, nm := range f.Names {
					if d.pkg.TypesInfo.Defs[nm] == ctr {
						isParam = true
					}
				}
			}
			inc := false
			uncond := false
			ast.Inspect(d.fd.Body, func(x ast.Node) bool {
				if ids, ok := x.(*ast.IncDecStmt); ok && ids.Tok == token.INC && ids.Pos() < cs.call.Pos() {
					if st, ok := ids.X.(*ast.ParenExpr); ok {
						if se, ok := st.X.(*ast.StarExpr); ok && objOf(d.pkg, se.X) == ctr {
							inc = true
							// top-level statement of the body: executed on every call
							for _, top := range d.fd.Body.List {
								if top == ast.Stmt(ids) {
									uncond = true
								}
							}
						}
					}
				}
				return true
			})
			c.check(isParam && inc && uncond, R, construct, c.P.Pos(cs.call.Pos()), "seed is the per-parse counter, incremented unconditionally for every component",
				fmt.Sprintf("the seed counter is not a pointer parameter incremented unconditionally before use (parameter %v, incremented %v, unconditionally %v): identifiers repeat or depend on which components carry a bom-ref", isParam, inc, uncond))
		}
	}
	if n == 0 {
		c.undecided(R, "NewNodeIdentifier-call", "-", "no call of the identifier generator found in the readers")
	}
	// provenance of the counter at the root: a local of Unserialize, initialised to a constant
	if d := c.decl(R, cdxUnser); d != nil {
		okLocal := false
		var ctrObj types.Object
		oneCounter := true
		for _, cs := range callsIn(d.pkg, d.fd.Body) {
			if cs.callee.Pkg() == nil || !strings.HasSuffix(cs.callee.Pkg().Path(), "unserializers") {
				continue
			}
			for _, a := range cs.call.Args {
				if u, ok := a.(*ast.UnaryExpr); ok && u.Op == token.AND {
					if o := objOf(d.pkg, u.X); o != nil && isLocal(d, o) {
						if b, ok := o.Type().Underlying().(*types.Basic); ok && b.Info()&types.IsInteger != 0 {
							okLocal = true
							if ctrObj != nil && ctrObj != o {
								oneCounter = false
							}
							ctrObj = o
						}
					}
				}
			}
		}
		// one counter for the whole parse, starting from a constant and only advanced by the
		// conversion helpers: a second counter, or one re-derived from what was parsed so far
		// (len of the node list), repeats or skips numbers when nodes were merged
		constInit, reassigned := false, false
		if ctrObj != nil {
			ast.Inspect(d.fd.Body, func(n ast.Node) bool {
				switch s := n.(type) {
				case *ast.AssignStmt:
					for i, l := range s.Lhs {
						if objOf(d.pkg, l) != ctrObj {
							continue
						}
						if s.Tok == token.DEFINE && i < len(s.Rhs) {
							if _, isC := constOf(d.pkg, s.Rhs[i]); isC {
								constInit = true
								continue
							}
						}
						reassigned = true
					}
				case *ast.ValueSpec:
					for i, nm := range s.Names {
						if d.pkg.TypesInfo.Defs[nm] == ctrObj {
							if i >= len(s.Values) {
								constInit = true
							} else if _, isC := constOf(d.pkg, s.Values[i]); isC {
								constInit = true
							} else {
								reassigned = true
							}
						}
					}
				}
				return true
			})
			c.check(oneCounter && constInit && !reassigned, R, cdxUnser+"#single-counter", c.P.Pos(d.fd.Pos()), "one counter per parse, initialised with a constant",
				fmt.Sprintf("the component counter is not a single local initialised with a constant (one counter: %v, constant start: %v, re-derived: %v): numbers handed to components can repeat, so two id-less components get the same generated identifier", oneCounter, constInit, reassigned))
		}
		// never a package-level variable or a receiver field
		c.check(okLocal, R, cdxUnser+"#counter-per-parse", c.P.Pos(d.fd.Pos()), "the counter is a local of Unserialize passed by address",
			"the component counter handed to the conversion helpers is not the address of a local integer of Unserialize: a counter that lives in the driver or in a package variable makes identifiers depend on what was parsed before")
		_ = ctrObj
	}
}

// verbatimIDs: C05-D3.
func verbatimIDs(c *Ctx) {
	const R = "verbatim-identifiers"
	c.rule(R, "in the readers, values stored into Edge.From, Edge.To, NodeList.RootElements and passed as the anchor of RelateNodeListAtID derive from Node.Id / an SPDX ElementRefID / RootElements of a converted list — never from the raw CycloneDX bom-ref, which may be empty; Node.Id itself is the native identifier (type conversion only) or the generated one")
	ds := pkgFilter(c.reachDecls(R, cdxUnser, spdxUnser), "unserializers.")
	n := 0
	for _, d := range ds {
		for _, fi := range fieldInits(d.pkg, d.fd.Body) {
			if fi.owner == nil {
				continue
			}
			on := fi.owner.Obj().Name()
			fn := fi.field.Name()
			if !((on == "Edge" && (fn == "From" || fn == "To")) || (on == "NodeList" && fn == "RootElements")) {
				continue
			}
			n++
			s := normText(exprText(c.P.Fset, fi.value))
			construct := fmt.Sprintf("%s#%s.%s", d.name, on, fn)
			bad := strings.Contains(s, "BOMRef")
			okSrc := strings.Contains(s, ".Id") || strings.Contains(s, "ElementRefID") || strings.Contains(s, "RootElements") || strings.HasSuffix(s, "{}")
			c.check(!bad && okSrc, R, construct, c.P.Pos(fi.pos), fn+" ← "+s,
				fmt.Sprintf("%s.%s is filled from %s: edge endpoints and roots must name the parsed node's Id (the raw bom-ref is empty for components that got a generated identifier, leaving a dangling endpoint)", on, fn, s))
		}
		// appends to RootElements
		ast.Inspect(d.fd.Body, func(x ast.Node) bool {
			as, ok := x.(*ast.AssignStmt)
			if !ok || len(as.Lhs) != 1 || len(as.Rhs) != 1 {
				return true
			}
			if sel, ok := as.Lhs[0].(*ast.SelectorExpr); !ok || sel.Sel.Name != "RootElements" {
				return true
			}
			s := normText(exprText(c.P.Fset, as.Rhs[0]))
			n++
			c.check(!strings.Contains(s, "BOMRef") && (strings.Contains(s, "ElementRefID") || strings.Contains(s, ".Id")), R, d.name+"#RootElements-append", c.P.Pos(as.Pos()),
				"root ← "+s, "a root element is appended from "+s)
			// SPDX: the root is the end of the relationship *opposite* to the one tested to be the
			// document — the document itself is not a node
			if strings.Contains(s, "ElementRefID") {
				defs := singleDefs(d.pkg, d.fd.Body)
				docEnd := ""
				for _, en := range enclosing(d.fd.Body, as) {
					ifs, isIf := en.(*ast.IfStmt)
					if !isIf {
						continue
					}
					for _, cj := range conjuncts(ifs.Cond) {
						// the test may live in a helper handed the relationship: isTopLevel(r)
						if hc, isCall := ast.Unparen(cj).(*ast.CallExpr); isCall && len(hc.Args) == 1 {
							if hf, _ := typeutil.Callee(d.pkg.TypesInfo, hc).(*types.Func); hf != nil && hf.Pkg() != nil && strings.HasPrefix(hf.Pkg().Path(), modPath+"/") {
								if hfd, hpk := c.P.FuncDecl(objName(hf)); hfd != nil && hfd.Body != nil && len(hfd.Type.Params.List) == 1 && len(hfd.Type.Params.List[0].Names) == 1 {
									pname := hfd.Type.Params.List[0].Names[0].Name
									ast.Inspect(hfd.Body, func(y ast.Node) bool {
										hb, isHB := y.(*ast.BinaryExpr)
										if !isHB || hb.Op != token.EQL {
											return true
										}
										if v, isC := constOf(hpk, hb.Y); !isC || !v.isStr() || v.str() != "DOCUMENT" {
											return true
										}
										if hs, isSel := ast.Unparen(hb.X).(*ast.SelectorExpr); isSel && hs.Sel.Name == "ElementRefID" {
											t := normText(exprText(c.P.Fset, hs.X))
											if strings.HasPrefix(t, pname+".") {
												docEnd = normText(exprText(c.P.Fset, hc.Args[0])) + strings.TrimPrefix(t, pname)
											}
										}
										return true
									})
								}
							}
							continue
						}
						be, isBE := ast.Unparen(cj).(*ast.BinaryExpr)
						if !isBE || be.Op != token.EQL {
							continue
						}
						if v, isC := constOf(d.pkg, be.Y); !isC || !v.isStr() || v.str() != "DOCUMENT" {
							continue
						}
						sel, isSel := ast.Unparen(be.X).(*ast.SelectorExpr)
						if !isSel || sel.Sel.Name != "ElementRefID" {
							continue
						}
						docEnd = normText(exprText(c.P.Fset, chase(d.pkg, defs, sel.X)))
					}
				}
				other := ""
				switch {
				case strings.HasSuffix(docEnd, ".RefA"):
					other = strings.TrimSuffix(docEnd, ".RefA") + ".RefB"
				case strings.HasSuffix(docEnd, ".RefB"):
					other = strings.TrimSuffix(docEnd, ".RefB") + ".RefA"
				}
				c.check(other != "" && strings.Contains(s, other+".ElementRefID"), R, d.name+"#RootElements-append#described-end", c.P.Pos(as.Pos()),
					"the root is the end opposite to the one tested to be the document",
					fmt.Sprintf("the root appended (%s) is not established to be the end of the relationship opposite to the one compared with \"DOCUMENT\" (%s): the document itself, which is not a node, can end up as a root element", s, docEnd))
			}
			return true
		})
		// anchors of RelateNodeListAtID / RelateNodeAtID
		for _, cs := range callsIn(d.pkg, d.fd.Body) {
			if (cs.callee.Name() == "RelateNodeListAtID" || cs.callee.Name() == "RelateNodeAtID") && len(cs.call.Args) >= 2 {
				n++
				s := normText(types.ExprString(cs.call.Args[1]))
				c.check(!strings.Contains(s, "BOMRef") && (strings.Contains(s, ".Id") || strings.Contains(s, "RootElements[")), R, d.name+"#"+cs.callee.Name()+"-anchor", c.P.Pos(cs.call.Pos()),
					"anchor ← "+s, "sub-components are related at "+s+", which is not the parsed node's Id")
			}
		}
		// Node.Id
		for _, fi := range fieldInits(d.pkg, d.fd.Body) {
			if fi.owner != nil && fi.owner.Obj().Name() == "Node" && fi.field.Name() == "Id" {
				n++
				e := chase(d.pkg, nil, fi.value)
				s := normText(types.ExprString(e))
				okID := strings.HasSuffix(s, "BOMRef") || strings.HasSuffix(s, "SPDXIdentifier") || strings.Contains(s, "NewNodeIdentifier(")
				c.check(okID, R, d.name+"#Node.Id", c.P.Pos(fi.pos), "Id ← "+s, "Node.Id is filled from "+s+", not from the native identifier or the generator")
			}
		}
	}
	// single source of truth: the raw bom-ref is read only to initialise Node.Id
	for _, d := range ds {
		k := 0
		ast.Inspect(d.fd.Body, func(x ast.Node) bool {
			sel, ok := x.(*ast.SelectorExpr)
			if !ok || sel.Sel.Name != "BOMRef" {
				return true
			}
			k++
			okUse := false
			chain := enclosing(d.fd.Body, sel)
			for _, y := range chain {
				switch s := y.(type) {
				case *ast.KeyValueExpr:
					if id, ok := s.Key.(*ast.Ident); ok && id.Name == "Id" {
						okUse = true
					}
				case *ast.AssignStmt:
					for _, l := range s.Lhs {
						if ls, ok := l.(*ast.SelectorExpr); ok && ls.Sel.Name == "Id" {
							okUse = true
						}
					}
				}
			}
			c.check(okUse, R, fmt.Sprintf("%s#BOMRef-use@%d", d.name, k), c.P.Pos(sel.Pos()), "the raw bom-ref only initialises Node.Id",
				"the raw bom-ref of a component is used somewhere other than the initialisation of Node.Id: for components without a bom-ref it is empty while the node carries a generated identifier, so whatever is built from it (an edge endpoint, a root, a lookup key) does not name the parsed node")
			return true
		})
	}
	c.floor(R, 8, "edge endpoints, roots, anchors and node ids in the two readers")
	_ = n
}

// rawBytes: C05-D4.
func rawBytes(c *Ctx) {
	const R = "raw-bytes-to-decoder-only"
	c.rule(R, "the io.Reader parameter of each Unserialize is used exactly once, as the argument of the third-party JSON decoder constructor / reader")
	for _, fname := range []string{cdxUnser, spdxUnser} {
		d := c.decl(R, fname)
		if d == nil {
			continue
		}
		var r types.Object
		if len(d.fd.Type.Params.List) > 0 && len(d.fd.Type.Params.List[0].Names) > 0 {
			r = d.pkg.TypesInfo.Defs[d.fd.Type.Params.List[0].Names[0]]
		}
		uses, okUse := streamUses(c, d, r, 0)
		c.check(uses == 1 && okUse, R, fname, c.P.Pos(d.fd.Pos()), "the stream goes only to the JSON decoder",
			fmt.Sprintf("the input stream is used %d times (decoder use found: %v): protobom code that reads the raw bytes itself makes the result depend on the JSON layout", uses, okUse))
	}
}

// streamUses counts the uses of the stream parameter r in d and tells whether a use hands it to
// the third-party decoder, directly or through a helper of the module that does the same with its
// own parameter (a wrapper that contains a panic of the decoder, say).
func streamUses(c *Ctx, d *declInfo, r types.Object, depth int) (uses int, okUse bool) {
	if r == nil || depth > 3 {
		return 0, false
	}
	ast.Inspect(d.fd.Body, func(x ast.Node) bool {
		if id, ok := x.(*ast.Ident); ok && objOf(d.pkg, id) == r {
			uses++
		}
		ce, ok := x.(*ast.CallExpr)
		if !ok {
			return true
		}
		f, _ := typeutil.Callee(d.pkg.TypesInfo, ce).(*types.Func)
		if f == nil {
			return true
		}
		full := f.FullName()
		if full == "github.com/CycloneDX/cyclonedx-go.NewBOMDecoder" || full == "github.com/spdx/tools-golang/json.Read" {
			if len(ce.Args) > 0 && objOf(d.pkg, ce.Args[0]) == r {
				okUse = true
			}
			return true
		}
		if f.Pkg() == nil || !strings.HasPrefix(f.Pkg().Path(), modPath+"/") {
			return true
		}
		for ai, a := range ce.Args {
			if objOf(d.pkg, a) != r {
				continue
			}
			gfd, gpk := c.P.FuncDecl(objName(f))
			if gfd == nil || gfd.Body == nil {
				continue
			}
			var po types.Object
			k := 0
			for _, fl := range gfd.Type.Params.List {
				for _, nm := range fl.Names {
					if k == ai {
						po = gpk.TypesInfo.Defs[nm]
					}
					k++
				}
			}
			gu, gok := streamUses(c, &declInfo{fd: gfd, pkg: gpk, obj: f, name: objName(f)}, po, depth+1)
			if gu == 1 && gok {
				okUse = true
			} else {
				uses += gu // the helper reads the stream some other way
			}
		}
		return true
	})
	return uses, okUse
}

// idAlphabet: C05-D6 — the escape pattern of the identifier generator.
func idAlphabet(c *Ctx) {
	const R = "identifier-alphabet"
	c.rule(R, "the regular expression whose matches NewNodeIdentifier escapes is a negated character class whose complement (the characters left untouched) is a subset of [A-Za-z0-9.-]; the separators it replaces beforehand become dashes")
	pk := c.P.pkg("pkg/sbom")
	var pat string
	var pos token.Pos
	// the pattern is whatever *regexp.Regexp package variable NewNodeIdentifier escapes with
	// (receiver of its ReplaceAll* call) — found by use, not by name
	reVar := ""
	genDecls := pkgFilter(c.reachDecls(R, "sbom.NewNodeIdentifier"), "sbom.")
	for _, d := range genDecls {
		if d.name != "sbom.NewNodeIdentifier" && (d.obj == nil || ast.IsExported(d.obj.Name())) {
			continue // only the generator and the unexported helpers it is split into
		}
		for _, cs := range callsIn(d.pkg, d.fd.Body) {
			if strings.HasPrefix(cs.callee.Name(), "ReplaceAll") && strings.HasSuffix(cs.callee.FullName(), cs.callee.Name()) && strings.Contains(cs.callee.FullName(), "regexp.Regexp") {
				if sel, ok := cs.call.Fun.(*ast.SelectorExpr); ok {
					if id, isId := sel.X.(*ast.Ident); isId {
						if pv, isVar := d.pkg.TypesInfo.Uses[id].(*types.Var); isVar && pv.Pkg() != nil && pv.Parent() == pv.Pkg().Scope() {
							reVar = id.Name
						}
					}
				}
			}
		}
	}
	for _, f := range pk.Syntax {
		ast.Inspect(f, func(n ast.Node) bool {
			vs, ok := n.(*ast.ValueSpec)
			if !ok {
				return true
			}
			for i, nm := range vs.Names {
				if nm.Name == reVar && reVar != "" && i < len(vs.Values) {
					if ce, ok := vs.Values[i].(*ast.CallExpr); ok && len(ce.Args) == 1 {
						if v, ok := constOf(pk, ce.Args[0]); ok && v.isStr() {
							pat = v.str()
							pos = ce.Pos()
						}
					}
				}
			}
			return true
		})
	}
	if pat == "" {
		c.undecided(R, "sbom.invalidIDCharsRe", "-", "the escape pattern was not found as a constant")
		return
	}
	re, err := syntax.Parse(pat, syntax.Perl)
	if err != nil {
		c.undecided(R, "sbom.invalidIDCharsRe", c.P.Pos(pos), "pattern does not parse: "+err.Error())
		return
	}
	// expect (Plus|Star)(CharClass)
	cc := re
	if (re.Op == syntax.OpPlus || re.Op == syntax.OpStar) && len(re.Sub) == 1 {
		cc = re.Sub[0]
	}
	if cc.Op != syntax.OpCharClass {
		c.undecided(R, "sbom.invalidIDCharsRe", c.P.Pos(pos), "pattern is not a repeated character class")
		return
	}
	matched := func(r rune) bool {
		for i := 0; i+1 < len(cc.Rune); i += 2 {
			if r >= cc.Rune[i] && r <= cc.Rune[i+1] {
				return true
			}
		}
		return false
	}
	var leaks []string
	for r := rune(0); r < 0x3000; r++ {
		safe := (r >= 'a' && r <= 'z') || (r >= 'A' && r <= 'Z') || (r >= '0' && r <= '9') || r == '.' || r == '-'
		if !matched(r) && !safe {
			if unicode.IsPrint(r) {
				leaks = append(leaks, fmt.Sprintf("%q", r))
			} else {
				leaks = append(leaks, fmt.Sprintf("U+%04X", r))
			}
			if len(leaks) > 6 {
				break
			}
		}
	}
	c.check(len(leaks) == 0, R, "sbom.invalidIDCharsRe", c.P.Pos(pos), "pattern "+pat+" leaves only [A-Za-z0-9.-] unescaped",
		fmt.Sprintf("the escape pattern %s leaves %v unescaped: generated identifiers can contain characters outside the identifier-safe alphabet", pat, leaks))
	// the escape is applied to every seed: ReplaceAllStringFunc on the pattern inside the loop over prefixes
	if d := c.decl(R, "sbom.NewNodeIdentifier"); d != nil {
		applied := false
		for _, gd := range genDecls {
			if gd.name != "sbom.NewNodeIdentifier" && (gd.obj == nil || ast.IsExported(gd.obj.Name())) {
				continue
			}
			for _, cs := range callsIn(gd.pkg, gd.fd.Body) {
				if strings.HasPrefix(cs.callee.Name(), "ReplaceAll") {
					if sel, ok := cs.call.Fun.(*ast.SelectorExpr); ok && types.ExprString(sel.X) == reVar {
						applied = true
					}
				}
			}
		}
		c.check(applied, R, "sbom.NewNodeIdentifier#escapes", c.P.Pos(d.fd.Pos()), "seeds are escaped with the pattern", "seeds are not passed through the escape pattern")
	}
}

// lookupKeyOf: e is (a dereference of) M[K], or a local bound once to M[K] (plain or comma-ok);
// returns the text of K.
func lookupKeyOf(d *declInfo, e ast.Expr) string {
	for {
		switch x := e.(type) {
		case *ast.ParenExpr:
			e = x.X
			continue
		case *ast.StarExpr:
			e = x.X
			continue
		case *ast.UnaryExpr:
			e = x.X
			continue
		}
		break
	}
	switch x := e.(type) {
	case *ast.IndexExpr:
		return types.ExprString(x.Index)
	case *ast.Ident:
		o := objOf(d.pkg, x)
		if o == nil {
			return ""
		}
		key, n := "", 0
		ast.Inspect(d.fd.Body, func(m ast.Node) bool {
			as, ok := m.(*ast.AssignStmt)
			if !ok || len(as.Rhs) != 1 || len(as.Lhs) == 0 || objOf(d.pkg, as.Lhs[0]) != o {
				return true
			}
			n++
			if ix, isIx := as.Rhs[0].(*ast.IndexExpr); isIx {
				key = types.ExprString(ix.Index)
			}
			return true
		})
		if n == 1 {
			return key
		}
	}
	return ""
}

// relationshipLabelsDistinct: C03 — "every relationship the target format can express (all typed
// relationships for SPDX)". Two different edge types written under the same SPDX label cannot both
// be in the output: one of them is dropped and a relationship of the other type invented.
func relationshipLabelsDistinct(c *Ctx) {
	const R = "relationship-labels-distinct"
	c.rule(R, "the SPDX writer's Edge_Type→label table (the function the writer calls, folded over every Edge_Type constant) maps no two non-UNKNOWN edge types to the same non-empty label")
	wr := c.reachDecls(R, spdxSer)
	edgeT := c.P.namedType(modPath+"/pkg/sbom", "Edge_Type")
	to := c.uniqueConverter(R, "Edge_Type→string (SPDX writer)", wr, sigPred(isNamed("pkg/sbom", "Edge_Type"), isString))
	if edgeT == nil || to == nil {
		return
	}
	first := map[string]string{}
	for _, e := range enumConsts(edgeT) {
		if isZeroConst(e) {
			continue
		}
		w := c.apply(to, constVal(e))
		if len(w) == 0 || !w[0].isStr() {
			c.undecided(R, e.Name(), c.fpos(to), "label not foldable")
			continue
		}
		label := w[0].str()
		if label == "" {
			continue
		}
		if other, dup := first[label]; dup {
			c.bad(R, e.Name(), c.fpos(to), fmt.Sprintf("%s and %s are both written as %q: the output cannot tell the two relationship types apart, so one typed relationship is dropped and another invented", other, e.Name(), label))
			continue
		}
		first[label] = e.Name()
		c.ok(R, e.Name(), c.fpos(to), "label "+label)
	}
	c.floor(R, 40, "the relationship types SPDX names")
}
