package main

// E3 — schema exhaustiveness and per-field consistency. The schema oracle is the generated
// message struct itself (exported fields of sbom.Node, Edge, Person, ExternalReference, NodeList),
// read from go/types on every run: a field added to the .proto tomorrow is an undischarged
// obligation the moment the generated code contains it.

import (
	"fmt"
	"go/ast"
	"go/token"
	"go/types"
	"reflect"
	"strings"

	"golang.org/x/tools/go/packages"
)

func (c *Ctx) schema(name string) []*types.Var {
	nt := c.P.namedType(modPath+"/pkg/sbom", name)
	if nt == nil {
		c.undecided("schema", "anchor:sbom."+name, "-", "message type not found")
		return nil
	}
	return exportedFields(nt)
}

// protoName extracts name=... from the protobuf struct tag of field i.
func protoNames(nt *types.Named) map[string]string { // proto name -> Go field name
	out := map[string]string{}
	st, ok := nt.Underlying().(*types.Struct)
	if !ok {
		return out
	}
	for i := 0; i < st.NumFields(); i++ {
		tag := reflect.StructTag(st.Tag(i)).Get("protobuf")
		for _, part := range strings.Split(tag, ",") {
			if strings.HasPrefix(part, "name=") {
				out[strings.TrimPrefix(part, "name=")] = st.Field(i).Name()
			}
		}
	}
	return out
}

// fieldKind classifies a schema field for the emptiness-test and diff-helper tables.
func fieldKind(t types.Type) string {
	switch u := t.Underlying().(type) {
	case *types.Basic:
		if u.Info()&types.IsString != 0 {
			return "string"
		}
		return "scalar"
	case *types.Slice:
		if _, ok := u.Elem().Underlying().(*types.Pointer); ok {
			return "msglist"
		}
		return "slice"
	case *types.Map:
		return "map"
	case *types.Pointer:
		return "pointer"
	}
	return "other"
}

// objOf returns the variable an identifier expression denotes.
func objOf(pkg *packages.Package, e ast.Expr) types.Object {
	if p, ok := e.(*ast.ParenExpr); ok {
		return objOf(pkg, p.X)
	}
	id, ok := e.(*ast.Ident)
	if !ok {
		return nil
	}
	if o := pkg.TypesInfo.Uses[id]; o != nil {
		return o
	}
	return pkg.TypesInfo.Defs[id]
}

// fieldOf recognises `x.F` and `x.GetF()` where x denotes obj; returns the field name.
func fieldOf(pkg *packages.Package, e ast.Expr, obj types.Object) (string, bool) {
	switch x := e.(type) {
	case *ast.ParenExpr:
		return fieldOf(pkg, x.X, obj)
	case *ast.SelectorExpr:
		if objOf(pkg, x.X) == obj && obj != nil {
			if si := pkg.TypesInfo.Selections[x]; si != nil && si.Kind() == types.FieldVal {
				return x.Sel.Name, true
			}
		}
	case *ast.CallExpr:
		if sel, ok := x.Fun.(*ast.SelectorExpr); ok && len(x.Args) == 0 && strings.HasPrefix(sel.Sel.Name, "Get") {
			if objOf(pkg, sel.X) == obj && obj != nil {
				return strings.TrimPrefix(sel.Sel.Name, "Get"), true
			}
		}
	}
	return "", false
}

// mentions lists the fields of obj read anywhere inside node (x.F or x.GetF()).
func mentions(pkg *packages.Package, node ast.Node, obj types.Object) map[string]bool {
	out := map[string]bool{}
	if node == nil {
		return out
	}
	ast.Inspect(node, func(n ast.Node) bool {
		if e, ok := n.(ast.Expr); ok {
			if f, ok := fieldOf(pkg, e, obj); ok {
				out[f] = true
			}
		}
		return true
	})
	return out
}

// emptiness fact about x.F derived from a condition.
type emptyFact struct {
	obj      types.Object
	field    string
	nonEmpty bool
	how      string // "len", "str", "nil"
}

// condFacts returns the facts that hold when cond evaluates to `positive`.
func condFacts(pkg *packages.Package, cond ast.Expr, positive bool, objs ...types.Object) []emptyFact {
	switch e := cond.(type) {
	case *ast.ParenExpr:
		return condFacts(pkg, e.X, positive, objs...)
	case *ast.UnaryExpr:
		if e.Op == token.NOT {
			return condFacts(pkg, e.X, !positive, objs...)
		}
	case *ast.BinaryExpr:
		switch e.Op {
		case token.LAND:
			if positive {
				return append(condFacts(pkg, e.X, true, objs...), condFacts(pkg, e.Y, true, objs...)...)
			}
			return nil
		case token.LOR:
			if !positive {
				return append(condFacts(pkg, e.X, false, objs...), condFacts(pkg, e.Y, false, objs...)...)
			}
			return nil
		case token.EQL, token.NEQ, token.GTR, token.LSS, token.GEQ, token.LEQ:
			return cmpFact(pkg, e, positive, objs...)
		}
	}
	return nil
}

func cmpFact(pkg *packages.Package, e *ast.BinaryExpr, positive bool, objs ...types.Object) []emptyFact {
	op := e.Op
	x, y := e.X, e.Y
	// normalise constant to the right
	if _, ok := constOf(pkg, x); ok || isNilIdent(pkg, x) {
		x, y = y, x
		switch op {
		case token.GTR:
			op = token.LSS
		case token.LSS:
			op = token.GTR
		case token.GEQ:
			op = token.LEQ
		case token.LEQ:
			op = token.GEQ
		}
	}
	var nonEmpty, decided bool
	how := ""
	var subject ast.Expr
	if call, ok := x.(*ast.CallExpr); ok {
		if id, ok := call.Fun.(*ast.Ident); ok && id.Name == "len" && len(call.Args) == 1 {
			if _, isB := pkg.TypesInfo.Uses[id].(*types.Builtin); isB {
				if v, ok := constOf(pkg, y); ok && v.isInt() {
					k := v.int()
					how = "len"
					subject = call.Args[0]
					switch {
					case op == token.GTR && k == 0, op == token.NEQ && k == 0, op == token.GEQ && k == 1:
						nonEmpty, decided = true, true
					case op == token.EQL && k == 0, op == token.LSS && k == 1, op == token.LEQ && k == 0:
						nonEmpty, decided = false, true
					}
				}
			}
		}
	}
	if !decided {
		if v, ok := constOf(pkg, y); ok && v.isStr() && v.str() == "" && (op == token.EQL || op == token.NEQ) {
			how, subject = "str", x
			nonEmpty, decided = op == token.NEQ, true
		} else if isNilIdent(pkg, y) && (op == token.EQL || op == token.NEQ) {
			how, subject = "nil", x
			nonEmpty, decided = op == token.NEQ, true
		}
	}
	if !decided {
		return nil
	}
	if !positive {
		nonEmpty = !nonEmpty
	}
	for _, o := range objs {
		if f, ok := fieldOf(pkg, subject, o); ok {
			return []emptyFact{{o, f, nonEmpty, how}}
		}
	}
	return nil
}

func isNilIdent(pkg *packages.Package, e ast.Expr) bool {
	id, ok := e.(*ast.Ident)
	if !ok || id.Name != "nil" {
		return false
	}
	_, isNil := pkg.TypesInfo.Uses[id].(*types.Nil)
	return isNil
}

// pathFacts collects the emptiness facts that hold at stmt, from every enclosing if.
func pathFacts(pkg *packages.Package, root ast.Node, stmt ast.Node, objs ...types.Object) []emptyFact {
	var facts []emptyFact
	chain := enclosing(root, stmt)
	for i, n := range chain {
		ifs, ok := n.(*ast.IfStmt)
		if !ok || i+1 >= len(chain) {
			continue
		}
		switch chain[i+1] {
		case ast.Node(ifs.Body):
			facts = append(facts, condFacts(pkg, ifs.Cond, true, objs...)...)
		case ifs.Else:
			facts = append(facts, condFacts(pkg, ifs.Cond, false, objs...)...)
		}
	}
	return facts
}

// adequate says whether an emptiness test of kind `how` is a non-emptiness test for a field of
// the given kind (a `!= nil` test on a slice or map admits a non-nil empty collection).
func adequate(kind, how string, nonEmpty bool) bool {
	switch kind {
	case "string":
		return how == "str" || how == "len"
	case "slice", "msglist", "map":
		if how == "len" {
			return true
		}
		// `x == nil` is a fine *emptiness* test only together with len; alone it is not
		return false
	case "pointer":
		return how == "nil"
	}
	return false
}

// recvAndParam returns the receiver object and the first parameter object of a method.
func recvAndParam(d *declInfo) (types.Object, types.Object) {
	var r, p types.Object
	if d.fd.Recv != nil && len(d.fd.Recv.List) == 1 && len(d.fd.Recv.List[0].Names) == 1 {
		r = d.pkg.TypesInfo.Defs[d.fd.Recv.List[0].Names[0]]
	}
	if d.fd.Type.Params != nil && len(d.fd.Type.Params.List) >= 1 && len(d.fd.Type.Params.List[0].Names) >= 1 {
		p = d.pkg.TypesInfo.Defs[d.fd.Type.Params.List[0].Names[0]]
	}
	return r, p
}

// mergeRule checks Update (augment=false) or Augment (augment=true): C09-D1.
func (c *Ctx) mergeRule(fname string, augment bool, exempt map[string]string) {
	const R = "merge-precedence"
	d := c.decl(R, fname)
	if d == nil {
		return
	}
	fields := c.schema("Node")
	recv, par := recvAndParam(d)
	if recv == nil || par == nil {
		c.undecided(R, fname+"#signature", c.P.Pos(d.fd.Pos()), "receiver/parameter not named")
		return
	}
	type store struct {
		lhs, rhs string
		stmt     *ast.AssignStmt
	}
	byField := map[string][]store{}
	var foreign []string
	ast.Inspect(d.fd.Body, func(n ast.Node) bool {
		as, ok := n.(*ast.AssignStmt)
		if !ok {
			return true
		}
		for i, l := range as.Lhs {
			lf, ok := fieldOf(d.pkg, l, recv)
			if !ok {
				continue
			}
			if _, isCall := l.(*ast.CallExpr); isCall {
				continue
			}
			rhs := ""
			if len(as.Lhs) == len(as.Rhs) {
				if rf, ok := fieldOf(d.pkg, as.Rhs[i], par); ok {
					rhs = rf
				} else {
					foreign = append(foreign, lf)
				}
			}
			byField[lf] = append(byField[lf], store{lf, rhs, as})
		}
		return true
	})
	for _, f := range fields {
		name := f.Name()
		construct := fname + "#" + name
		if why, ok := exempt[name]; ok {
			if len(byField[name]) > 0 {
				c.bad(R, construct, c.P.Pos(byField[name][0].stmt.Pos()), "field "+name+" is identity ("+why+") and must not be merged, but it is assigned")
			} else {
				c.okTrivial(R, construct, c.P.Pos(d.fd.Pos()), "exempt: "+why)
			}
			continue
		}
		st := byField[name]
		if len(st) == 0 {
			c.bad(R, construct, c.P.Pos(d.fd.Pos()), fmt.Sprintf("schema field %s is never merged by %s: the attribute of the other operand is silently ignored", name, fname))
			continue
		}
		if len(st) > 1 {
			c.bad(R, construct, c.P.Pos(st[1].stmt.Pos()), fmt.Sprintf("field %s is assigned %d times in %s; expected exactly one guarded store", name, len(st), fname))
			continue
		}
		s := st[0]
		pos := c.P.Pos(s.stmt.Pos())
		if s.rhs != name {
			c.bad(R, construct, pos, fmt.Sprintf("%s.%s is assigned from the other operand's %q, not from its %s", recv.Name(), name, s.rhs, name))
			continue
		}
		facts := pathFacts(d.pkg, d.fd.Body, s.stmt, recv, par)
		kind := fieldKind(f.Type())
		var srcOK, dstOK bool
		var wrong []string
		for _, fa := range facts {
			if fa.field != name {
				wrong = append(wrong, fmt.Sprintf("%s.%s", fa.obj.Name(), fa.field))
				continue
			}
			if fa.obj == par && fa.nonEmpty && adequate(kind, fa.how, true) {
				srcOK = true
			}
			if fa.obj == par && !fa.nonEmpty {
				wrong = append(wrong, "inverted test of "+par.Name()+"."+name)
			}
			if fa.obj == recv && !fa.nonEmpty && (adequate(kind, fa.how, false) || fa.how == "nil") {
				dstOK = true
			}
			if fa.obj == recv && fa.nonEmpty {
				wrong = append(wrong, "inverted test of "+recv.Name()+"."+name)
			}
		}
		switch {
		case len(wrong) > 0:
			c.bad(R, construct, pos, fmt.Sprintf("store to %s is guarded by a test of the wrong field or polarity: %v", name, wrong))
		case !srcOK:
			c.bad(R, construct, pos, fmt.Sprintf("store %s.%s = %s.%s is not guarded by a non-emptiness test of %s.%s adequate for a %s field: an empty value would overwrite", recv.Name(), name, par.Name(), name, par.Name(), name, kind))
		case augment && !dstOK:
			c.bad(R, construct, pos, fmt.Sprintf("Augment store to %s is not guarded by an emptiness test of the receiver's %s: a non-empty receiver value would be overwritten", name, name))
		case !augment && dstOK:
			c.bad(R, construct, pos, fmt.Sprintf("Update store to %s is guarded by an emptiness test of the receiver: the argument would not win over a non-empty receiver value", name))
		default:
			c.ok(R, construct, pos, fmt.Sprintf("%s.%s = %s.%s under %s", recv.Name(), name, par.Name(), name, kind+"-nonempty("+par.Name()+")"))
		}
	}
	// stores to fields that are not in the schema list cannot exist (type checked); stores from
	// something other than the parameter's field are reported
	for _, lf := range foreign {
		c.bad(R, fname+"#foreign-store:"+lf, c.P.Pos(d.fd.Pos()), "receiver field "+lf+" is assigned from something other than the same field of the argument")
	}
}

// resultVar finds the variable (or literal) a Copy-like function returns.
func resultInfo(d *declInfo) (obj types.Object, lits []*ast.CompositeLit) {
	ast.Inspect(d.fd.Body, func(n ast.Node) bool {
		if _, ok := n.(*ast.FuncLit); ok {
			return false
		}
		rs, ok := n.(*ast.ReturnStmt)
		if !ok || len(rs.Results) == 0 {
			return true
		}
		e := rs.Results[0]
		if u, ok := e.(*ast.UnaryExpr); ok && u.Op == token.AND {
			e = u.X
		}
		switch x := e.(type) {
		case *ast.Ident:
			if o := objOf(d.pkg, x); o != nil {
				obj = o
			}
		case *ast.CompositeLit:
			lits = append(lits, x)
		}
		return true
	})
	if obj != nil {
		// the literal(s) assigned to the result variable
		ast.Inspect(d.fd.Body, func(n ast.Node) bool {
			switch s := n.(type) {
			case *ast.AssignStmt:
				for i, l := range s.Lhs {
					if objOf(d.pkg, l) == obj && i < len(s.Rhs) {
						e := s.Rhs[i]
						if u, ok := e.(*ast.UnaryExpr); ok && u.Op == token.AND {
							e = u.X
						}
						if cl, ok := e.(*ast.CompositeLit); ok {
							lits = append(lits, cl)
						}
					}
				}
			case *ast.ValueSpec:
				for i, nm := range s.Names {
					if d.pkg.TypesInfo.Defs[nm] == obj && i < len(s.Values) {
						e := s.Values[i]
						if u, ok := e.(*ast.UnaryExpr); ok && u.Op == token.AND {
							e = u.X
						}
						if cl, ok := e.(*ast.CompositeLit); ok {
							lits = append(lits, cl)
						}
					}
				}
			}
			return true
		})
	}
	return obj, lits
}

// rangeSources maps range variables to the receiver field they iterate.
func rangeSources(d *declInfo, src types.Object) map[types.Object]string {
	out := map[types.Object]string{}
	// a local bound to one field of the source stands for that field: contacts := p.Contacts
	for o, def := range singleDefs(d.pkg, d.fd.Body) {
		if f, ok := fieldOf(d.pkg, ast.Unparen(def), src); ok {
			out[o] = f
		}
	}
	ast.Inspect(d.fd.Body, func(n ast.Node) bool {
		rs, ok := n.(*ast.RangeStmt)
		if !ok {
			return true
		}
		if lo := objOf(d.pkg, rs.X); lo != nil {
			if f, isAlias := out[lo]; isAlias {
				for _, e := range []ast.Expr{rs.Key, rs.Value} {
					if o := objOf(d.pkg, e); o != nil {
						out[o] = f
					}
				}
			}
		}
		if f, ok := fieldOf(d.pkg, rs.X, src); ok {
			for _, e := range []ast.Expr{rs.Key, rs.Value} {
				if o := objOf(d.pkg, e); o != nil {
					out[o] = f
				}
			}
		}
		return true
	})
	return out
}

// copyRule: C12-D2 — every schema field of the result is written from the same field of the
// source.
func (c *Ctx) copyRule(fname, msg string) {
	const R = "copy-field-exhaustive"
	d := c.decl(R, fname)
	if d == nil {
		return
	}
	fields := c.schema(msg)
	src, _ := recvAndParam(d)
	if src == nil {
		c.undecided(R, fname+"#receiver", c.P.Pos(d.fd.Pos()), "receiver not named")
		return
	}
	res, lits := resultInfo(d)
	if res == nil && len(lits) == 0 {
		c.undecided(R, fname+"#result", c.P.Pos(d.fd.Pos()), "result object not recognised (neither a returned variable nor a returned literal)")
		return
	}
	rvars := rangeSources(d, src)
	// sources(expr): fields of src the expression derives from
	sources := func(e ast.Node) map[string]bool {
		m := mentions(d.pkg, e, src)
		ast.Inspect(e, func(n ast.Node) bool {
			if id, ok := n.(*ast.Ident); ok {
				if f, ok := rvars[objOf(d.pkg, id)]; ok {
					m[f] = true
				}
			}
			return true
		})
		return m
	}
	written := map[string]map[string]bool{} // result field -> source fields
	wpos := map[string]token.Pos{}
	condOn := map[string]map[string]bool{} // result field -> source fields its stores are conditional on
	condText := map[string]string{}
	allocGuard := map[string]ast.Expr{} // result field -> guard of a store of a fresh empty container
	noteConds := func(field string, at ast.Node) {
		chain := enclosing(d.fd.Body, at)
		for i, x := range chain {
			var conds []ast.Expr
			switch s := x.(type) {
			case *ast.IfStmt:
				if i+1 < len(chain) && (chain[i+1] == ast.Node(s.Body) || (s.Else != nil && chain[i+1] == ast.Node(s.Else))) {
					conds = append(conds, s.Cond)
				}
			case *ast.SwitchStmt:
				if s.Tag != nil {
					conds = append(conds, s.Tag)
				}
				// the clause reached, and every clause before it (they must have failed)
				for _, cc := range s.Body.List {
					cl, isCl := cc.(*ast.CaseClause)
					if !isCl {
						continue
					}
					conds = append(conds, cl.List...)
					if i+2 < len(chain) && chain[i+2] == ast.Node(cl) {
						break
					}
				}
			}
			for _, ce := range conds {
				for f := range sources(ce) {
					if condOn[field] == nil {
						condOn[field] = map[string]bool{}
					}
					condOn[field][f] = true
					if f != field && condText[field] == "" {
						condText[field] = types.ExprString(ce)
					}
				}
			}
		}
	}
	note := func(field string, val ast.Node, pos token.Pos) {
		if written[field] == nil {
			written[field] = map[string]bool{}
			wpos[field] = pos
		}
		for f := range sources(val) {
			written[field][f] = true
		}
	}
	for _, cl := range lits {
		for _, el := range cl.Elts {
			if kv, ok := el.(*ast.KeyValueExpr); ok {
				if id, ok := kv.Key.(*ast.Ident); ok {
					note(id.Name, kv.Value, kv.Pos())
				}
			}
		}
	}
	if res != nil {
		ast.Inspect(d.fd.Body, func(n ast.Node) bool {
			as, ok := n.(*ast.AssignStmt)
			if !ok {
				return true
			}
			for i, l := range as.Lhs {
				if f, ok := fieldOf(d.pkg, l, res); ok {
					if _, isCall := l.(*ast.CallExpr); isCall {
						continue
					}
					var val ast.Node = as
					if len(as.Lhs) == len(as.Rhs) {
						val = as.Rhs[i]
					}
					note(f, val, as.Pos())
					noteConds(f, as)
					// a fresh empty container stored under a guard
					if len(as.Lhs) == len(as.Rhs) {
						isAlloc := false
						switch r := as.Rhs[i].(type) {
						case *ast.CompositeLit:
							isAlloc = len(r.Elts) == 0
						case *ast.CallExpr:
							if id, isId := r.Fun.(*ast.Ident); isId && id.Name == "make" {
								isAlloc = true
							}
						}
						if isAlloc {
							chain := enclosing(d.fd.Body, as)
							for j := len(chain) - 1; j >= 0; j-- {
								if ifs, isIf := chain[j].(*ast.IfStmt); isIf {
									allocGuard[f] = ifs.Cond
									break
								}
							}
						}
					}
				}
			}
			return true
		})
	}
	// which list/map fields does the equality encoding of this message test against nil?
	nilSensitive := map[string]bool{}
	if ed := c.declQuiet(strings.TrimSuffix(fname, ".Copy") + ".flatString"); ed != nil {
		if er, _ := recvAndParam(ed); er != nil {
			ast.Inspect(ed.fd.Body, func(n ast.Node) bool {
				be, ok := n.(*ast.BinaryExpr)
				if !ok || (be.Op != token.NEQ && be.Op != token.EQL) || !isNilIdent(ed.pkg, be.Y) {
					return true
				}
				if f, isF := fieldOf(ed.pkg, be.X, er); isF {
					if t := ed.pkg.TypesInfo.TypeOf(be.X); t != nil {
						switch t.Underlying().(type) {
						case *types.Slice, *types.Map:
							nilSensitive[f] = true
						}
					}
				}
				return true
			})
		}
	}
	for _, f := range fields {
		name := f.Name()
		construct := fname + "#" + name
		srcs, ok := written[name]
		pos := c.P.Pos(d.fd.Pos())
		if p, ok := wpos[name]; ok {
			pos = c.P.Pos(p)
		}
		switch {
		case !ok || len(srcs) == 0:
			c.bad(R, construct, pos, fmt.Sprintf("the copy's %s is never filled from the source's %s: the copy does not compare equal to its source", name, name))
		case !srcs[name]:
			c.bad(R, construct, pos, fmt.Sprintf("the copy's %s is filled from %v, not from the source's %s", name, keysOf(srcs), name))
		case len(srcs) > 1:
			c.bad(R, construct, pos, fmt.Sprintf("the copy's %s derives from several source fields %v", name, keysOf(srcs)))
		case condText[name] != "":
			c.bad(R, construct, pos, fmt.Sprintf("the copy's %s is written only where `%s` decides so — a condition on other fields of the source (in a tagless switch every clause also requires the earlier ones to have failed): a source that has %s and those other fields set is copied without %s", name, condText[name], name, name))
		case nilSensitive[name] && allocGuard[name] != nil && !isNilTestOf(d, allocGuard[name], src, name):
			c.bad(R, construct, pos, fmt.Sprintf("the copy's %s is allocated under `%s`, but the equality encoding of %s distinguishes a nil %s from an allocated empty one (it tests `%s != nil`): an allocated empty %s is copied as nil and the copy does not compare equal to its source", name, types.ExprString(allocGuard[name]), msg, name, name, name))
		default:
			c.ok(R, construct, pos, "result."+name+" ← source."+name)
		}
	}
}

// isNilTestOf: cond is `src.F != nil` (possibly conjoined with other tests of the same field).
func isNilTestOf(d *declInfo, cond ast.Expr, src types.Object, field string) bool {
	for _, cj := range conjuncts(cond) {
		if be, ok := ast.Unparen(cj).(*ast.BinaryExpr); ok && be.Op == token.NEQ && isNilIdent(d.pkg, be.Y) {
			if f, isF := fieldOf(d.pkg, be.X, src); isF && f == field {
				return true
			}
		}
	}
	return false
}

func keysOf(m map[string]bool) []string {
	var out []string
	for k := range m {
		out = append(out, k)
	}
	sortStrings(out)
	return out
}

// readsAllRule: C13-D2 — an encoding function reads every schema field of its receiver.
func (c *Ctx) readsAllRule(rule, fname, msg string, alsoParam bool) {
	d := c.decl(rule, fname)
	if d == nil {
		return
	}
	fields := c.schema(msg)
	recv, par := recvAndParam(d)
	m := mentionsThroughHelpers(c, d, recv, 0)
	var mp map[string]bool
	if alsoParam {
		mp = mentionsThroughHelpers(c, d, par, 0)
	}
	c.nestedEncoders(rule, d, recv, 0, map[*types.Func]bool{})
	for _, f := range fields {
		construct := fname + "#" + f.Name()
		ok := m[f.Name()] && (!alsoParam || mp[f.Name()])
		c.check(ok, rule, construct, c.P.Pos(d.fd.Pos()),
			"reads "+f.Name(),
			fmt.Sprintf("%s never reads schema field %s.%s: two values differing only in %s are treated as equal", fname, msg, f.Name(), f.Name()))
	}
}

// mentionsThroughHelpers: the fields of obj read in d, and in module functions d hands obj to as
// receiver or argument (an encoder split into a writer helper reads the same fields).
func mentionsThroughHelpers(c *Ctx, d *declInfo, obj types.Object, depth int) map[string]bool {
	out := mentions(d.pkg, d.fd.Body, obj)
	if depth > 2 || obj == nil {
		return out
	}
	for _, cs := range callsIn(d.pkg, d.fd.Body) {
		if cs.callee.Pkg() == nil || !strings.HasPrefix(cs.callee.Pkg().Path(), modPath+"/") || cs.callee == d.obj {
			continue
		}
		fd, pk := c.P.FuncDecl(objName(cs.callee))
		if fd == nil || fd.Body == nil {
			continue
		}
		var target types.Object
		if sel, ok := cs.call.Fun.(*ast.SelectorExpr); ok && objOf(d.pkg, sel.X) == obj && fd.Recv != nil && len(fd.Recv.List) == 1 && len(fd.Recv.List[0].Names) == 1 {
			target = pk.TypesInfo.Defs[fd.Recv.List[0].Names[0]]
		}
		if target == nil {
			k := 0
			for _, fl := range fd.Type.Params.List {
				for _, nm := range fl.Names {
					if k < len(cs.call.Args) && objOf(d.pkg, cs.call.Args[k]) == obj {
						target = pk.TypesInfo.Defs[nm]
					}
					k++
				}
			}
		}
		if target == nil {
			continue
		}
		hd := &declInfo{fd: fd, pkg: pk, obj: cs.callee, name: objName(cs.callee)}
		for f := range mentionsThroughHelpers(c, hd, target, depth+1) {
			out[f] = true
		}
	}
	return out
}

// nestedEncoders: an element of a message-typed list ranged inside an encoder (or a helper the
// encoder hands its subject to) is itself encoded by a function that reads every schema field of
// the element's type — the registered encoder, or a helper that is as complete. A helper that
// writes only the element's scalar fields drops what is nested below it.
func (c *Ctx) nestedEncoders(rule string, d *declInfo, subject types.Object, depth int, seen map[*types.Func]bool) {
	if depth > 2 || subject == nil || seen[d.obj] {
		return
	}
	seen[d.obj] = true
	info := d.pkg.TypesInfo
	ast.Inspect(d.fd.Body, func(n ast.Node) bool {
		rs, ok := n.(*ast.RangeStmt)
		if !ok || rs.Value == nil {
			return true
		}
		f, isField := fieldOf(d.pkg, rs.X, subject)
		if !isField {
			return true
		}
		ev := objOf(d.pkg, rs.Value)
		if ev == nil {
			return true
		}
		et := ev.Type()
		if pt, isP := et.(*types.Pointer); isP {
			et = pt.Elem()
		}
		nt, isNamed := et.(*types.Named)
		if !isNamed || nt.Obj().Pkg() == nil || nt.Obj().Pkg().Path() != modPath+"/pkg/sbom" {
			return true
		}
		if _, isStruct := nt.Underlying().(*types.Struct); !isStruct {
			return true
		}
		want := exportedFields(nt)
		for _, cs := range callsIn(d.pkg, rs.Body) {
			if cs.callee.Pkg() == nil || !strings.HasPrefix(cs.callee.Pkg().Path(), modPath+"/") {
				continue
			}
			fd, pk := c.P.FuncDecl(objName(cs.callee))
			if fd == nil || fd.Body == nil {
				continue
			}
			var target types.Object
			if sel, ok := cs.call.Fun.(*ast.SelectorExpr); ok && objOf(d.pkg, sel.X) == ev && info.Selections[sel] != nil && fd.Recv != nil && len(fd.Recv.List) == 1 && len(fd.Recv.List[0].Names) == 1 {
				target = pk.TypesInfo.Defs[fd.Recv.List[0].Names[0]]
			}
			if target == nil {
				k := 0
				for _, fl := range fd.Type.Params.List {
					for _, nm := range fl.Names {
						if k < len(cs.call.Args) && objOf(d.pkg, cs.call.Args[k]) == ev {
							target = pk.TypesInfo.Defs[nm]
						}
						k++
					}
				}
			}
			if target == nil {
				continue
			}
			hd := &declInfo{fd: fd, pkg: pk, obj: cs.callee, name: objName(cs.callee)}
			construct := fmt.Sprintf("%s#%s[]→%s", d.name, f, nt.Obj().Name())
			// the element's own encoder (checked by its own obligations), directly or through a
			// wrapper such as Checksum
			if viaRegisteredEncoder(c, hd, target, 0) {
				c.ok(rule, construct, c.P.Pos(cs.call.Pos()), "elements of "+f+" are encoded by "+nt.Obj().Name()+"'s own encoder")
				continue
			}
			got := mentionsThroughHelpers(c, hd, target, 0)
			var missing []string
			for _, w := range want {
				if !got[w.Name()] {
					missing = append(missing, w.Name())
				}
			}
			c.check(len(missing) == 0, rule, construct, c.P.Pos(cs.call.Pos()), "elements of "+f+" are encoded by "+hd.name+", which reads every field of "+nt.Obj().Name(),
				fmt.Sprintf("the elements of %s are encoded by %s, which never reads %s.%v: two values differing only there (e.g. below the first nesting level) are treated as equal", f, hd.name, nt.Obj().Name(), missing))
		}
		return true
	})
	// the subject handed on to helpers of the encoder
	for _, cs := range callsIn(d.pkg, d.fd.Body) {
		if cs.callee.Pkg() == nil || !strings.HasPrefix(cs.callee.Pkg().Path(), modPath+"/") || cs.callee == d.obj {
			continue
		}
		fd, pk := c.P.FuncDecl(objName(cs.callee))
		if fd == nil || fd.Body == nil {
			continue
		}
		var target types.Object
		if sel, ok := cs.call.Fun.(*ast.SelectorExpr); ok && objOf(d.pkg, sel.X) == subject && fd.Recv != nil && len(fd.Recv.List) == 1 && len(fd.Recv.List[0].Names) == 1 {
			target = pk.TypesInfo.Defs[fd.Recv.List[0].Names[0]]
		}
		if target != nil {
			c.nestedEncoders(rule, &declInfo{fd: fd, pkg: pk, obj: cs.callee, name: objName(cs.callee)}, target, depth+1, seen)
		}
	}
}

// viaRegisteredEncoder: hd is a message's flatString method, or calls one on target.
func viaRegisteredEncoder(c *Ctx, hd *declInfo, target types.Object, depth int) bool {
	if strings.HasSuffix(hd.name, ").flatString") {
		return true
	}
	if depth > 2 {
		return false
	}
	for _, cs := range callsIn(hd.pkg, hd.fd.Body) {
		sel, ok := cs.call.Fun.(*ast.SelectorExpr)
		if !ok || objOf(hd.pkg, sel.X) != target {
			continue
		}
		if strings.HasSuffix(objName(cs.callee), ").flatString") {
			return true
		}
		fd, pk := c.P.FuncDecl(objName(cs.callee))
		if fd == nil || fd.Body == nil || fd.Recv == nil || len(fd.Recv.List) != 1 || len(fd.Recv.List[0].Names) != 1 {
			continue
		}
		if viaRegisteredEncoder(c, &declInfo{fd: fd, pkg: pk, obj: cs.callee, name: objName(cs.callee)}, pk.TypesInfo.Defs[fd.Recv.List[0].Names[0]], depth+1) {
			return true
		}
	}
	return false
}
