package main

import (
	"fmt"
	"go/types"
	"os"
	"strings"
)

// aliasRules: C12-D1 — no reference into an operand is returned or stored into the result.
func aliasRules(c *Ctx) {
	const R = "no-operand-alias-in-result"
	c.rule(R, "for Copy (five message types), copyEdgeList, copyNodeSlice, Union and Intersect: neither the returned value nor any object reachable from it has an origin in a parameter; strings and scalars are values, slices/maps/message pointers are references; cloners are slices.Clone/maps.Clone (for scalar elements), timestamppb.New, and module functions whose own summary is fresh and clean")
	c.assume("slices.Clone / maps.Clone copy the container but keep element references; timestamppb.New and proto.Clone return independent values")
	o := newOrigins(c.P)
	if dbg := os.Getenv("PROTOLINT_DEBUG_FN"); dbg != "" {
		o.dump(dbg)
	}
	type tgt struct {
		name string
		msg  string // message type whose reference fields are enumerated ("" = per operand)
	}
	targets := []tgt{
		{"sbom.(*Node).Copy", "Node"}, {"sbom.(*Edge).Copy", "Edge"}, {"sbom.(*Person).Copy", "Person"},
		{"sbom.(*ExternalReference).Copy", "ExternalReference"}, {"sbom.(*NodeList).Copy", "NodeList"},
		{"sbom.copyEdgeList", ""}, {"sbom.copyNodeSlice", ""}, {"sbom.(*NodeList).Union", ""}, {"sbom.(*NodeList).Intersect", ""},
	}
	for _, t := range targets {
		fn := c.P.Func(t.name)
		if fn == nil {
			c.undecided(R, "anchor:"+t.name, "-", "function not found")
			continue
		}
		c.sawFunc(t.name)
		s := o.sums[fn]
		pos := c.P.Pos(fn.Pos())
		if s == nil || len(s.ret) == 0 {
			c.undecided(R, t.name, pos, "no summary / no result")
			continue
		}
		// the returned reference itself
		direct := false
		for r := range s.ret[0] {
			if r.isParam() {
				direct = true
				c.bad(R, t.name+"#return", pos, fmt.Sprintf("%s may return a reference into its operand (%s) instead of a new value", t.name, r))
			}
			if r.k == rGlobal {
				c.bad(R, t.name+"#return", pos, fmt.Sprintf("%s may return shared package-level state (%s)", t.name, r))
			}
		}
		if !direct {
			c.ok(R, t.name+"#return", pos, "the returned reference is freshly allocated")
		}
		// leaks by destination field
		byField := map[string][]leak{}
		var other []leak
		for _, l := range s.leaks {
			if !l.r.isParam() {
				continue
			}
			if l.field != "" {
				byField[l.field] = append(byField[l.field], l)
			} else {
				other = append(other, l)
			}
		}
		if t.msg != "" {
			for _, f := range c.schema(t.msg) {
				if !isRefType(f.Type()) {
					continue
				}
				construct := t.name + "#" + f.Name()
				if ls := byField[f.Name()]; len(ls) > 0 {
					c.bad(R, construct, c.P.Pos(ls[0].pos), fmt.Sprintf("the copy's %s holds a reference into the source (%s, origin %s): mutating one side changes the other", f.Name(), ls[0].what, ls[0].r))
					delete(byField, f.Name())
				} else {
					c.ok(R, construct, pos, "no operand reference stored into "+f.Name())
				}
			}
		} else {
			for j, p := range fn.Params {
				if !isRefType(p.Type()) {
					continue
				}
				construct := fmt.Sprintf("%s#%s", t.name, p.Name())
				var mine []leak
				for _, ls := range byField {
					for _, l := range ls {
						if l.r.j == j {
							mine = append(mine, l)
						}
					}
				}
				for _, l := range other {
					if l.r.j == j {
						mine = append(mine, l)
					}
				}
				if len(mine) == 0 {
					c.ok(R, construct, pos, "nothing reachable from the result references "+p.Name())
					continue
				}
				var desc []string
				seen := map[string]bool{}
				for _, l := range mine {
					d := fmt.Sprintf("%s at %s", l.what, c.P.Pos(l.pos))
					if l.field != "" {
						d = fmt.Sprintf("%s (field %s) at %s", l.what, l.field, c.P.Pos(l.pos))
					}
					if !seen[d] {
						seen[d] = true
						desc = append(desc, d)
					}
				}
				c.bad(R, construct, c.P.Pos(mine[0].pos), fmt.Sprintf("the result of %s shares memory with its operand %s: %s", t.name, p.Name(), strings.Join(desc, "; ")))
			}
			continue
		}
		// leaks that are not attached to a schema field of the copied message
		for f, ls := range byField {
			c.bad(R, t.name+"#"+f, c.P.Pos(ls[0].pos), fmt.Sprintf("an object reachable from the result (field %s) references the source: %s", f, ls[0].what))
		}
		if len(other) > 0 {
			c.bad(R, t.name+"#nested", c.P.Pos(other[0].pos), fmt.Sprintf("an object reachable from the result references the source: %s", other[0].what))
		}
	}
	c.floor(R, 25, "reference-typed fields of the five message types plus per-operand obligations")
	copyNilEmptyRule(c)
}

// copyNilEmptyRule: C12-D3 — contradiction rule: the equality encoding of a message branches on
// `X == nil` / `X != nil` for a collection field X, so Copy must not store an unconditional
// non-nil empty literal into X.
func copyNilEmptyRule(c *Ctx) {
	const R = "copy-preserves-nil"
	c.rule(R, "if a message's equality encoder tests a collection field against nil, that message's Copy does not initialise the field with an unconditional non-nil empty literal")
	pairs := [][3]string{
		{"sbom.(*Person).flatString", "sbom.(*Person).Copy", "Person"},
		{"sbom.(*ExternalReference).flatString", "sbom.(*ExternalReference).Copy", "ExternalReference"},
		{"sbom.(*Edge).flatString", "sbom.(*Edge).Copy", "Edge"},
	}
	for _, pr := range pairs {
		enc := c.decl(R, pr[0])
		cp := c.decl(R, pr[1])
		if enc == nil || cp == nil {
			continue
		}
		recv, _ := recvAndParam(enc)
		nilTested := map[string]bool{}
		for _, fa := range allNilFacts(enc, recv) {
			nilTested[fa] = true
		}
		src, _ := recvAndParam(cp)
		for _, f := range c.schema(pr[2]) {
			k := fieldKind(f.Type())
			if k != "slice" && k != "msglist" && k != "map" {
				continue
			}
			construct := pr[1] + "#" + f.Name()
			if !nilTested[f.Name()] {
				c.okTrivial(R, construct, c.P.Pos(cp.fd.Pos()), "the encoder does not distinguish nil from empty for "+f.Name())
				continue
			}
			bad := false
			for _, fi := range fieldInits(cp.pkg, cp.fd.Body) {
				if fi.field.Name() != f.Name() {
					continue
				}
				if isEmptyLiteral(cp, fi) && len(pathFacts(cp.pkg, cp.fd.Body, nodeAt(cp, fi), src)) == 0 {
					bad = true
					c.bad(R, construct, c.P.Pos(fi.pos), fmt.Sprintf("%s tests %s against nil, but %s unconditionally initialises the copy's %s with a non-nil empty literal: a value with nil %s and its copy do not compare equal", pr[0], f.Name(), pr[1], f.Name(), f.Name()))
				}
			}
			if !bad {
				c.ok(R, construct, c.P.Pos(cp.fd.Pos()), "nil-ness of "+f.Name()+" is preserved by the copy")
			}
		}
	}
	_ = types.Universe
}
