package main

// Rename transparency for unexported functions and methods.
//
// Rules, policy rows and known-finding keys name program entities (`sbom.(*NodeList).cleanEdges`).
// Renaming an *unexported* function is a behaviour-preserving edit, so a name that vanished must
// not turn into an alarm. /verif/roles.json (written by `protolint -dump-roles` on a tree where all
// anchors resolve; committed) records, for every unexported top-level function of the module, its
// role: package, receiver type, signature, the functions that call it statically and the
// functions it calls. When a recorded name is absent from the tree under analysis, the tree's
// unexported functions that are *not* recorded are candidates; a candidate with the same package,
// receiver and signature that shares a caller (or, for functions nobody calls statically, a callee)
// with the recorded role is the renamed function — if it is the only one. Its new name is then
// rendered as the recorded name everywhere (fnName / objName), so every table keeps working.
// Exported names are API: renaming them is not behaviour-preserving for callers and is not followed.

import (
	"encoding/json"
	"fmt"
	"go/ast"
	"go/types"
	"os"
	"sort"
	"strings"

	"golang.org/x/tools/go/types/typeutil"
)

type roleEntry struct {
	Name    string   `json:"name"`
	Pkg     string   `json:"pkg"`
	Recv    string   `json:"recv,omitempty"`
	Sig     string   `json:"sig"`
	Callers []string `json:"callers,omitempty"`
	Callees []string `json:"callees,omitempty"`
}

// nameAlias maps the name a renamed function has in the analysed tree to its recorded name.
var nameAlias = map[string]string{}

// typeAlias maps a renamed unexported receiver type (pkg.Name) to its recorded name.
var typeAlias = map[string]string{}

func rawObjName(f *types.Func) string {
	saved, savedT := nameAlias, typeAlias
	nameAlias, typeAlias = map[string]string{}, map[string]string{}
	defer func() { nameAlias, typeAlias = saved, savedT }()
	return objName(f)
}

func sigString(f *types.Func) string {
	sig := f.Type().(*types.Signature)
	q := func(p *types.Package) string { return p.Name() }
	var ps, rs []string
	for i := 0; i < sig.Params().Len(); i++ {
		ps = append(ps, types.TypeString(sig.Params().At(i).Type(), q))
	}
	for i := 0; i < sig.Results().Len(); i++ {
		rs = append(rs, types.TypeString(sig.Results().At(i).Type(), q))
	}
	v := ""
	if sig.Variadic() {
		v = "..."
	}
	return "(" + strings.Join(ps, ",") + v + ")(" + strings.Join(rs, ",") + ")"
}

func recvString(f *types.Func) string {
	sig := f.Type().(*types.Signature)
	if sig.Recv() == nil {
		return ""
	}
	return types.TypeString(sig.Recv().Type(), func(p *types.Package) string { return p.Name() })
}

// currentRoles describes every unexported top-level function of the module (generated files and
// test doubles excluded).
func currentRoles(p *Program) []roleEntry {
	type acc struct {
		e       roleEntry
		callers map[string]bool
		callees map[string]bool
	}
	byName := map[string]*acc{}
	var order []string
	var paths []string
	for path := range p.Pkgs {
		paths = append(paths, path)
	}
	sort.Strings(paths)
	type declRec struct {
		obj *types.Func
		fd  *ast.FuncDecl
		pk  string
	}
	var decls []declRec
	for _, path := range paths {
		pk := p.Pkgs[path]
		if !strings.HasPrefix(path, modPath+"/") || strings.Contains(path, "fakes") {
			continue
		}
		for _, f := range pk.Syntax {
			if strings.HasSuffix(p.Fset.Position(f.Pos()).Filename, ".pb.go") {
				continue
			}
			for _, d := range f.Decls {
				fd, ok := d.(*ast.FuncDecl)
				if !ok || fd.Body == nil {
					continue
				}
				obj, _ := pk.TypesInfo.Defs[fd.Name].(*types.Func)
				if obj == nil {
					continue
				}
				decls = append(decls, declRec{obj, fd, path})
				if ast.IsExported(obj.Name()) || obj.Name() == "init" || obj.Name() == "_" {
					continue
				}
				n := rawObjName(obj)
				byName[n] = &acc{e: roleEntry{Name: n, Pkg: shortPkg(path), Recv: recvString(obj), Sig: sigString(obj)}, callers: map[string]bool{}, callees: map[string]bool{}}
				order = append(order, n)
			}
		}
	}
	for _, dr := range decls {
		caller := rawObjName(dr.obj)
		pk := p.Pkgs[dr.pk]
		ast.Inspect(dr.fd.Body, func(n ast.Node) bool {
			ce, ok := n.(*ast.CallExpr)
			if !ok {
				return true
			}
			f, _ := typeutil.Callee(pk.TypesInfo, ce).(*types.Func)
			if f == nil || f.Pkg() == nil || !strings.HasPrefix(f.Pkg().Path(), modPath+"/") {
				return true
			}
			if o := f.Origin(); o != nil {
				f = o
			}
			callee := rawObjName(f)
			if a := byName[callee]; a != nil && callee != caller {
				a.callers[caller] = true
			}
			if a := byName[caller]; a != nil && callee != caller {
				a.callees[callee] = true
			}
			return true
		})
	}
	var out []roleEntry
	sort.Strings(order)
	for _, n := range order {
		a := byName[n]
		for c := range a.callers {
			a.e.Callers = append(a.e.Callers, c)
		}
		for c := range a.callees {
			a.e.Callees = append(a.e.Callees, c)
		}
		sort.Strings(a.e.Callers)
		sort.Strings(a.e.Callees)
		out = append(out, a.e)
	}
	return out
}

// currentFields lists the unexported fields of the module's struct types as role entries named
// "field:<pkg>.<Type>.<field>", with the field's type in Sig and its position in Recv.
func currentFields(p *Program) []roleEntry {
	var out []roleEntry
	var paths []string
	for path := range p.Pkgs {
		paths = append(paths, path)
	}
	sort.Strings(paths)
	q := func(pk *types.Package) string { return pk.Name() }
	for _, path := range paths {
		pk := p.Pkgs[path]
		if !strings.HasPrefix(path, modPath+"/") || strings.Contains(path, "fakes") || pk.Types == nil {
			continue
		}
		sc := pk.Types.Scope()
		for _, name := range sc.Names() {
			tn, ok := sc.Lookup(name).(*types.TypeName)
			if !ok || strings.HasSuffix(p.Fset.Position(tn.Pos()).Filename, ".pb.go") {
				continue
			}
			st, ok := tn.Type().Underlying().(*types.Struct)
			if !ok {
				continue
			}
			tname := shortPkg(path) + "." + name
			if c, ok := typeAlias[tname]; ok {
				tname = c
			}
			for i := 0; i < st.NumFields(); i++ {
				f := st.Field(i)
				if f.Exported() || f.Name() == "_" {
					continue
				}
				out = append(out, roleEntry{Name: "field:" + tname + "." + f.Name(), Pkg: shortPkg(path), Recv: fmt.Sprint(i), Sig: types.TypeString(f.Type(), q)})
			}
		}
	}
	return out
}

// fieldAlias maps a renamed unexported struct field (bare name) to its recorded name.
var fieldAlias = map[string]string{}

func canonField(name string) string {
	if c, ok := fieldAlias[name]; ok {
		return c
	}
	return name
}

func dumpRoles(p *Program, path string) error {
	b, err := json.MarshalIndent(append(currentRoles(p), currentFields(p)...), "", " ")
	if err != nil {
		return err
	}
	return os.WriteFile(path, append(b, '\n'), 0o644)
}

// resolveRenames fills nameAlias from the recorded roles. It returns notes for the evidence.
func resolveRenames(p *Program, rolesPath string) []string {
	nameAlias = map[string]string{}
	typeAlias = map[string]string{}
	b, err := os.ReadFile(rolesPath)
	if err != nil {
		return nil // no table: names are taken as they are
	}
	var recorded []roleEntry
	if json.Unmarshal(b, &recorded) != nil {
		return []string{"roles.json unreadable: rename resolution disabled"}
	}
	recordedFuncs = map[string]bool{}
	for _, e := range recorded {
		if !strings.HasPrefix(e.Name, "field:") {
			recordedFuncs[e.Name] = true
		}
	}
	fieldAlias = map[string]string{}
	var recFields []roleEntry
	{
		var fns []roleEntry
		for _, e := range recorded {
			if strings.HasPrefix(e.Name, "field:") {
				recFields = append(recFields, e)
			} else {
				fns = append(fns, e)
			}
		}
		recorded = fns
	}
	cur := currentRoles(p)
	curBy := map[string]roleEntry{}
	for _, e := range cur {
		curBy[e.Name] = e
	}
	recBy := map[string]roleEntry{}
	for _, e := range recorded {
		recBy[e.Name] = e
	}
	var notes []string
	// 1. renamed unexported receiver types: a recorded receiver that no current function has, and a
	// current receiver no recorded function has, in the same package, carrying the same method names
	// (at least two, or the only method)
	methodsOf := func(es []roleEntry) map[string]map[string]bool {
		m := map[string]map[string]bool{}
		for _, e := range es {
			if e.Recv == "" {
				continue
			}
			r := strings.TrimPrefix(e.Recv, "*")
			if m[r] == nil {
				m[r] = map[string]bool{}
			}
			m[r][e.Name[strings.LastIndex(e.Name, ".")+1:]] = true
		}
		return m
	}
	recM, curM := methodsOf(recorded), methodsOf(cur)
	for rt, rms := range recM {
		if _, still := curM[rt]; still || typeExists(p, rt) {
			continue
		}
		var cands []string
		for ct, cms := range curM {
			if _, known := recM[ct]; known || ct[:strings.Index(ct, ".")+1] != rt[:strings.Index(rt, ".")+1] {
				continue
			}
			same := 0
			for m := range rms {
				if cms[m] {
					same++
				}
			}
			if same == len(rms) && len(cms) == len(rms) {
				cands = append(cands, ct)
			}
		}
		if len(cands) == 1 {
			typeAlias[cands[0]] = rt
			notes = append(notes, fmt.Sprintf("unexported type %s is analysed under its recorded name %s", cands[0], rt))
		}
	}
	if len(typeAlias) > 0 {
		// recompute current names with the type alias applied
		cur = currentRolesAliased(p)
		curBy = map[string]roleEntry{}
		for _, e := range cur {
			curBy[e.Name] = e
		}
	}
	// 2. renamed functions and methods
	var missing []roleEntry
	for _, e := range recorded {
		if _, ok := curBy[e.Name]; !ok {
			missing = append(missing, e)
		}
	}
	var fresh []roleEntry
	for _, e := range cur {
		if _, ok := recBy[e.Name]; !ok {
			fresh = append(fresh, e)
		}
	}
	overlap := func(a, b []string) int {
		n := 0
		for _, x := range a {
			for _, y := range b {
				if x == y {
					n++
				}
			}
		}
		return n
	}
	used := map[string]bool{}
	done := map[string]bool{}
	canon := func(names []string) []string {
		out := make([]string, len(names))
		for i, n := range names {
			out[i] = n
			if c, ok := nameAlias[n]; ok {
				out[i] = c
			}
		}
		return out
	}
	// callers and callees may be renamed themselves: iterate until no further name resolves
	for changed := true; changed; {
		changed = false
		for _, m := range missing {
			if done[m.Name] {
				continue
			}
			var cands []roleEntry
			for _, f := range fresh {
				if used[f.Name] || f.Pkg != m.Pkg {
					continue
				}
				// same receiver and signature — or a method turned into a function that takes the
				// receiver as its first parameter (and the reverse)
				// … or the very same identifier kept while receiver and parameter list were reshaped
				// (a method whose unused receiver was dropped, pointer-to-map parameters turned into maps)
				base := func(n string) string { return n[strings.LastIndex(n, ".")+1:] }
				if !(f.Recv == m.Recv && f.Sig == m.Sig) && !methodAsFunc(m, f) && !methodAsFunc(f, m) && base(f.Name) != base(m.Name) {
					continue
				}
				fc, fe := canon(f.Callers), canon(f.Callees)
				if overlap(m.Callers, fc) > 0 || (len(m.Callers) == 0 && len(fc) == 0 && (overlap(m.Callees, fe) > 0 || len(m.Callees)+len(fe) == 0)) {
					cands = append(cands, f)
				}
			}
			if len(cands) == 1 {
				nameAlias[cands[0].Name] = m.Name
				used[cands[0].Name] = true
				done[m.Name] = true
				changed = true
				notes = append(notes, fmt.Sprintf("unexported function %s is analysed under its recorded name %s (same package, receiver and signature, shared callers)", cands[0].Name, m.Name))
			}
		}
	}
	// 2b. last resort: a caller that lost exactly one recorded callee and gained exactly one fresh
	// callee, whatever name, receiver and parameter list the fresh one has (a helper moved onto a
	// new state struct)
	for _, m := range missing {
		if done[m.Name] {
			continue
		}
		var cand *roleEntry
		ambiguous := false
		for _, callerName := range m.Callers {
			caller, ok := curBy[callerName]
			if !ok {
				continue
			}
			// missing callees of this caller (recorded view) and fresh callees (current view)
			nMissing := 0
			if rc, ok := recBy[callerName]; ok {
				for _, ce := range rc.Callees {
					for _, mm := range missing {
						if mm.Name == ce && !done[mm.Name] {
							nMissing++
						}
					}
				}
			}
			var freshCallees []roleEntry
			for _, ce := range caller.Callees {
				for i := range fresh {
					if fresh[i].Name == ce && !used[fresh[i].Name] && fresh[i].Pkg == m.Pkg {
						freshCallees = append(freshCallees, fresh[i])
					}
				}
			}
			if nMissing == 1 && len(freshCallees) == 1 {
				if cand != nil && cand.Name != freshCallees[0].Name {
					ambiguous = true
				}
				fc := freshCallees[0]
				cand = &fc
			}
		}
		if cand != nil && !ambiguous {
			nameAlias[cand.Name] = m.Name
			used[cand.Name] = true
			done[m.Name] = true
			notes = append(notes, fmt.Sprintf("unexported function %s is analysed under its recorded name %s (the only new callee of a caller that lost exactly this callee)", cand.Name, m.Name))
		}
	}
	// 3. renamed unexported struct fields: per struct type, a recorded field that is gone and a
	// current field that is not recorded, with the same type — unique, or at the same position
	curFields := currentFields(p)
	byType := func(es []roleEntry) map[string][]roleEntry {
		m := map[string][]roleEntry{}
		for _, e := range es {
			t := e.Name[len("field:"):strings.LastIndex(e.Name, ".")]
			m[t] = append(m[t], e)
		}
		return m
	}
	recT, curT := byType(recFields), byType(curFields)
	for t, rfs := range recT {
		cfs := curT[t]
		has := func(es []roleEntry, name string) bool {
			for _, e := range es {
				if e.Name == name {
					return true
				}
			}
			return false
		}
		var gone, fresh []roleEntry
		for _, r := range rfs {
			if !has(cfs, r.Name) {
				gone = append(gone, r)
			}
		}
		for _, cf := range cfs {
			if !has(rfs, cf.Name) {
				fresh = append(fresh, cf)
			}
		}
		for _, g := range gone {
			var cands []roleEntry
			for _, f := range fresh {
				if f.Sig == g.Sig {
					cands = append(cands, f)
				}
			}
			if len(cands) > 1 {
				var same []roleEntry
				for _, f := range cands {
					if f.Recv == g.Recv {
						same = append(same, f)
					}
				}
				cands = same
			}
			if len(cands) == 1 {
				nw := cands[0].Name[strings.LastIndex(cands[0].Name, ".")+1:]
				old := g.Name[strings.LastIndex(g.Name, ".")+1:]
				fieldAlias[nw] = old
				notes = append(notes, fmt.Sprintf("unexported field %s.%s is analysed under its recorded name %s", t, nw, old))
			}
		}
	}
	sort.Strings(notes)
	return notes
}

func currentRolesAliased(p *Program) []roleEntry {
	es := currentRoles(p)
	for i := range es {
		es[i].Name = applyTypeAlias(es[i].Name)
		for j := range es[i].Callers {
			es[i].Callers[j] = applyTypeAlias(es[i].Callers[j])
		}
		for j := range es[i].Callees {
			es[i].Callees[j] = applyTypeAlias(es[i].Callees[j])
		}
		if es[i].Recv != "" {
			star := ""
			r := es[i].Recv
			if strings.HasPrefix(r, "*") {
				star, r = "*", r[1:]
			}
			if c, ok := typeAlias[r]; ok {
				es[i].Recv = star + c
			}
		}
	}
	return es
}

// applyTypeAlias rewrites pkg.(*New).m / pkg.New.m to the recorded type name.
func applyTypeAlias(name string) string {
	for nw, old := range typeAlias {
		pk := nw[:strings.Index(nw, ".")+1]
		n, o := nw[len(pk):], old[len(pk):]
		name = strings.Replace(name, pk+"(*"+n+").", pk+"(*"+o+").", 1)
		if strings.HasPrefix(name, pk+n+".") {
			name = pk + o + "." + name[len(pk+n+"."):]
		}
	}
	return name
}

func typeExists(p *Program, qualified string) bool {
	i := strings.Index(qualified, ".")
	if i < 0 {
		return false
	}
	for path, pk := range p.Pkgs {
		if shortPkg(path) == qualified[:i] && pk.Types != nil && pk.Types.Scope().Lookup(qualified[i+1:]) != nil {
			return true
		}
	}
	return false
}

// canonical applies the aliases to a rendered name.
func canonical(name string) string {
	if len(typeAlias) > 0 {
		name = applyTypeAlias(name)
	}
	if c, ok := nameAlias[name]; ok {
		return c
	}
	// anonymous functions of a renamed parent: parent$1
	if i := strings.Index(name, "$"); i > 0 {
		if c, ok := nameAlias[name[:i]]; ok {
			return c + name[i:]
		}
	}
	return name
}

// methodAsFunc: m is a method with receiver R and signature (P)(Q); f is a plain function with
// signature (R,P)(Q).
func methodAsFunc(m, f roleEntry) bool {
	if m.Recv == "" || f.Recv != "" {
		return false
	}
	i := strings.Index(m.Sig, ")(")
	if i < 0 {
		return false
	}
	params := m.Sig[1:i]
	want := "(" + m.Recv
	if params != "" {
		want += "," + params
	}
	want += m.Sig[i:]
	return f.Sig == want
}

// recordedFuncs: the unexported functions known to roles.json (nil when there is no table).
var recordedFuncs map[string]bool

// ownerName: a fresh unexported helper (not in the role table, not a renamed function) that is
// called from exactly one function is a piece split off that function; its loops and stores are
// named after the function it was split from, so policy rows keep applying.
func ownerName(d *declInfo) string {
	return ownerNameDepth(d, 0)
}

func ownerNameDepth(d *declInfo, depth int) string {
	if recordedFuncs == nil || d.obj == nil || depth > 3 || ast.IsExported(d.obj.Name()) || recordedFuncs[d.name] {
		return d.name
	}
	var caller *declInfo
	for _, mc := range moduleCalls()[d.obj] {
		if mc.d.obj == d.obj {
			continue
		}
		if caller != nil && caller.obj != mc.d.obj {
			return d.name
		}
		caller = mc.d
	}
	if caller == nil {
		return d.name
	}
	return ownerNameDepth(caller, depth+1)
}
