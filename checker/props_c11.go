package main

import (
	"fmt"
	"go/ast"
	"go/types"
	"os"
	"sort"
	"strings"

	"golang.org/x/tools/go/ssa"
)

func init() {
	register("C11", "Read-only operations leave operands unchanged — decided for every input and schedule at once by an origin dataflow over SSA: for every function of pkg/sbom outside the frozen mutator table, and for Serialize/Render of every registered serializer with respect to the document, no store, map update, in-place sort, copy, delete or append reaches memory that is reachable from a parameter (receiver included), directly or through any callee (interprocedural summaries to fixpoint). Absence of writes to operand memory implies the snapshot clause and the data-race clause between such operations.", runC11)
}

// frozen mutator table (DESIGN.md A.4): operations documented to modify their receiver.
var sbomMutators = map[string]string{
	"sbom.(*NodeList).AddEdge":              "appends an edge to the receiver",
	"sbom.(*NodeList).AddRootNode":          "adds a root node to the receiver",
	"sbom.(*NodeList).AddNode":              "appends a node to the receiver",
	"sbom.(*NodeList).Add":                  "in-place union into the receiver",
	"sbom.(*NodeList).RemoveNodes":          "removes nodes from the receiver",
	"sbom.(*NodeList).cleanEdges":           "normalises the receiver's edges",
	"sbom.(*NodeList).reconnectOrphanNodes": "adds roots to the receiver",
	"sbom.(*NodeList).RelateNodeAtID":       "adds a node and an edge to the receiver",
	"sbom.(*NodeList).RelateNodeListAtID":   "grafts a node list into the receiver",
	"sbom.(*Node).Update":                   "merges into the receiver",
	"sbom.(*Node).Augment":                  "merges into the receiver",
	"sbom.(*Node).AddHash":                  "adds a hash to the receiver",
	"sbom.(*Edge).AddDestinationById":       "adds targets to the receiver",
}

// parameters that are outputs by contract (one named symbol each, with the reason)
var outputParams = map[string]string{
	"sbom.(*NodeList).connectedIndexRecursion#connectedNodes": "unexported helper's output parameter: the index under construction, allocated fresh by its only caller indexConnectedNodes (whose own operands are checked)",
}

var mutatorNamePrefixes = []string{"Add", "Remove", "Set", "Relate", "Merge", "Clean"}

func isGenerated(p *Program, fn *ssa.Function) bool {
	return strings.HasSuffix(p.Fset.Position(fn.Pos()).Filename, ".pb.go")
}

// readOnlyAPI lists the functions whose operands must stay untouched.
func readOnlyAPI(c *Ctx) []*ssa.Function {
	var out []*ssa.Function
	for _, fn := range c.P.Funcs {
		if fn.Parent() != nil || fn.Synthetic != "" {
			continue
		}
		if fnPkgPath(fn) != modPath+"/pkg/sbom" || isGenerated(c.P, fn) {
			continue
		}
		name := fnName(fn)
		if _, ok := sbomMutators[name]; ok {
			continue
		}
		mut := false
		if fn.Signature.Recv() != nil {
			for _, p := range mutatorNamePrefixes {
				if strings.HasPrefix(fn.Name(), p) {
					mut = true
				}
			}
		}
		if mut || fn.Name() == "init" {
			continue
		}
		// The property speaks about the operations a caller can invoke. An unexported helper that
		// fills a parameter by design (an output slice, an edge under construction) is judged
		// through its callers: its writes appear in their summaries with the caller's own origins.
		// Unexported functions nobody in the module calls directly (interface implementations such
		// as flatString) stay in, so nothing reachable only by dynamic dispatch is lost.
		if !ast.IsExported(fn.Name()) && hasStaticCaller(c, fn) {
			continue
		}
		// a method of an unexported helper type (the state struct an encoder's callback was moved
		// onto) is not an operation on the caller's values: its receiver is created inside the library
		if rv := fn.Signature.Recv(); rv != nil {
			t := rv.Type()
			if pt, isP := t.(*types.Pointer); isP {
				t = pt.Elem()
			}
			if nt, isNamed := t.(*types.Named); isNamed && !nt.Obj().Exported() {
				continue
			}
		}
		out = append(out, fn)
	}
	return out
}

func runC11(c *Ctx) {
	const R = "no-operand-write"
	c.rule(R, "for every read-only function F and every reference-typed parameter p (receiver included): no instruction reachable from F stores, map-updates, sorts, copies into, deletes from or appends onto memory whose origin is p (origin sets over SSA values, callee summaries applied by substitution)")
	c.rule("no-operand-append", "no append whose base slice has operand origin and whose result is kept: it may write the operand's backing array beyond its length")
	c.assume("external callees other than the frozen mutator list (sort.*, slices.Sort*, slices.Reverse, copy, delete, clear, proto.Merge/Reset/Unmarshal, json.Unmarshal/Decode) do not write through their arguments")
	c.assume("memory reachable from an operand at entry is one region per operand (no points-to precision inside it)")
	c.notDecided("writes performed by third-party encoders on their own copies; reads racing with the caller's own writes")
	o := newOrigins(c.P)
	if dbg := os.Getenv("PROTOLINT_DEBUG_FN"); dbg != "" {
		o.dump(dbg)
	}
	fns := readOnlyAPI(c)
	// serializers: Serialize w.r.t. the document (param 1), Render w.r.t. the native document (param 1)
	type target struct {
		fn     *ssa.Function
		params []int // nil = all
	}
	var targets []target
	for _, fn := range fns {
		targets = append(targets, target{fn, nil})
	}
	for _, n := range []string{"serializers.(*CDX).Serialize", "serializers.(*SPDX23).Serialize", "beta.(*SPDX3).Serialize"} {
		if fn := c.P.Func(n); fn != nil {
			targets = append(targets, target{fn, []int{0, 1}})
		} else {
			c.undecided(R, "anchor:"+n, "-", "serializer entry point not found")
		}
	}
	for _, n := range []string{"serializers.(*CDX).Render", "serializers.(*SPDX23).Render", "beta.(*SPDX3).Render"} {
		if fn := c.P.Func(n); fn != nil {
			targets = append(targets, target{fn, []int{0}})
		}
	}
	for _, t := range targets {
		name := fnName(t.fn)
		c.sawFunc(name)
		s := o.sums[t.fn]
		if s == nil {
			c.undecided(R, name, c.P.Pos(t.fn.Pos()), "no summary computed")
			continue
		}
		for j, p := range t.fn.Params {
			if !isRefType(p.Type()) {
				continue
			}
			if t.params != nil {
				in := false
				for _, k := range t.params {
					in = in || k == j
				}
				if !in {
					continue
				}
			}
			construct := fmt.Sprintf("%s#%s", name, p.Name())
			if why, ok := outputParams[construct]; ok {
				c.okTrivial(R, construct, c.P.Pos(t.fn.Pos()), "exempt: "+why)
				continue
			}
			var w, a []mutation
			for _, m := range s.muts {
				if m.param != j {
					continue
				}
				if m.app {
					a = append(a, m)
				} else {
					w = append(w, m)
				}
			}
			if len(w) == 0 {
				c.ok(R, construct, c.P.Pos(t.fn.Pos()), "no write to memory reachable from "+p.Name())
			} else {
				c.bad(R, construct, c.P.Pos(w[0].pos), describeMuts(c, name, p.Name(), w))
			}
			if len(a) == 0 {
				c.okTrivial("no-operand-append", construct, c.P.Pos(t.fn.Pos()), "no append on memory reachable from "+p.Name())
			} else {
				c.bad("no-operand-append", construct, c.P.Pos(a[0].pos), describeMuts(c, name, p.Name(), a))
			}
		}
	}
	c.floor(R, 40, "46 (function, operand) pairs in the exported read-only API plus dynamically dispatched helpers")
	c.CallSites += len(o.cg.Nodes)
}

func describeMuts(c *Ctx, fname, pname string, ms []mutation) string {
	var parts []string
	seen := map[string]bool{}
	for _, m := range ms {
		depth := "the object itself"
		if m.deep {
			depth = "memory reachable from it"
		}
		via := ""
		if m.via != "" {
			via = " via " + m.via
		}
		s := fmt.Sprintf("%s at %s%s (writes %s)", m.what, c.P.Pos(m.pos), via, depth)
		if !seen[s] {
			seen[s] = true
			parts = append(parts, s)
		}
	}
	sort.Strings(parts)
	if len(parts) > 4 {
		parts = append(parts[:4], fmt.Sprintf("… and %d more", len(parts)-4))
	}
	return fmt.Sprintf("%s writes memory of its operand %s: %s", fname, pname, strings.Join(parts, "; "))
}

// hasStaticCaller: some module function calls fn by a statically resolved call.
func hasStaticCaller(c *Ctx, fn *ssa.Function) bool {
	for _, g := range c.P.Funcs {
		for _, b := range g.Blocks {
			for _, ins := range b.Instrs {
				if call, ok := ins.(ssa.CallInstruction); ok {
					if sc := call.Common().StaticCallee(); sc != nil && (sc == fn || sc.Origin() == fn) {
						return true
					}
				}
			}
		}
	}
	return false
}
