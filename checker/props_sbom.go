package main

import "fmt"

func init() {
	register("C09", "Union / in-place add — structural necessary conditions: (D1) Update and Augment merge every schema field of Node except the identity fields, each store copying the same field of the argument under a non-emptiness test of the argument's field (and, for Augment, an emptiness test of the receiver's field) with the right polarity; (D2) no merge call is applied to an object and itself; (D3) Union/Add range over all operand collections with total loops; (D5) Union merges with Update and Add with Augment, argument node as parameter. Does not decide the algebraic laws as value statements.", runC09)
	register("C12", "Copies and combined results are independent — structural necessary conditions: (D1) no reference-typed value reachable from an operand is returned or stored into the result of Copy/Union/Intersect (origin dataflow over SSA); (D2) every Copy writes every schema field of its message from the same field of the source; (D3) Copy does not turn nil into non-nil-empty where the equality encoding distinguishes them. Does not decide 'compares equal' as a value statement.", runC12)
	register("C13", "Equality and checksums — structural necessary conditions: (D1) every Equal is f(a)==f(b) for one encoder f, and Checksum is a digest of that encoder only; (D2) each encoder reads every schema field of its message (Node via ProtoReflect().Range plus explicit cases for every collection/message/timestamp field); (D3) every slice reaching an order-sensitive sink is sorted after its last append, and no string is built in map-iteration order; (D4) user strings are quoted before concatenation (known finding); (D5) dates are encoded to the second. Does not decide SHA-256 collision freedom.", runC13)
	register("C14", "Node diff — structural necessary conditions: (D1) every schema field of Node has exactly one diff stanza and contributes to DiffCount exactly once; (D2) within a stanza the helper's arguments, the Added and Removed destinations all name the same field, receiver first; (D3) the helper matches the field's kind; (D4) a non-nil diff is returned exactly under DiffCount > 0; (D5/D6) helpers are pure and nested identity is the equality encoding (shared with C11/C13). Does not decide set semantics inside helpers on duplicates.", runC14)
}

var nodeIdentity = map[string]string{
	"Id":   "identity of the node: nodes are matched by Id before merging",
	"Type": "node kind is part of the node's identity and is never merged",
}

func runC09(c *Ctx) {
	c.rule("merge-precedence", "for every schema field F of Node outside {Id, Type}: exactly one store recv.F = arg.F, control-dependent on a non-emptiness test of arg.F adequate for F's kind (string: != \"\"; slice/map: len > 0; message pointer: != nil); Augment additionally under an emptiness test of recv.F; Update never under one")
	c.notDecided("idempotence, commutativity, associativity and identity of union as laws over values")
	c.mergeRule("sbom.(*Node).Update", false, nodeIdentity)
	c.mergeRule("sbom.(*Node).Augment", true, nodeIdentity)
	c.floor("merge-precedence", 52, "26 Node fields × {Update, Augment}")
	unionRules(c)
	timestampPresenceRule(c, "timestamp-presence-by-nil", pkgFilter(c.reachDecls("timestamp-presence-by-nil", "sbom.(*NodeList).Union", "sbom.(*NodeList).Add"), "sbom."))
	// "the union contains exactly the nodes, edges and roots found in either operand" holds for a
	// result only as long as no later union writes into it: a result that shares a backing array
	// with its receiver is rewritten by the receiver's next union
	operandsUntouched(c, "union-operands-unchanged", "Union and Intersect neither write nor append onto memory reachable from the receiver or the argument (origin sets over SSA, callee summaries substituted); Add writes its receiver only", "sbom.(*NodeList).Union", "sbom.(*NodeList).Intersect")
}

func runC12(c *Ctx) {
	c.rule("copy-field-exhaustive", "every exported field of the message struct is written on the copy by an expression that reads the same field of the source (directly or through a range over it), and no other field")
	c.notDecided("'compares equal to its source' as a value statement")
	c.copyRule("sbom.(*Node).Copy", "Node")
	c.copyRule("sbom.(*Edge).Copy", "Edge")
	c.copyRule("sbom.(*Person).Copy", "Person")
	c.copyRule("sbom.(*ExternalReference).Copy", "ExternalReference")
	c.copyRule("sbom.(*NodeList).Copy", "NodeList")
	madeWithLengthThenAppended(c, "made-with-length-then-appended", pkgFilter(c.reachDecls("made-with-length-then-appended", "sbom.(*Node).Copy", "sbom.(*NodeList).Copy", "sbom.(*Person).Copy", "sbom.(*ExternalReference).Copy", "sbom.(*Edge).Copy"), "sbom."))
	c.floor("copy-field-exhaustive", 43, "26+3+6+5+3 schema fields")
	aliasRules(c)
	// "compares equal to its source": the loops a copy is built with take every element
	c.rule("loop-totality", loopRuleText)
	c.loopTotality("loop-totality", pkgFilter(c.reachDecls("loop-totality", "sbom.(*Node).Copy", "sbom.(*NodeList).Copy", "sbom.(*Person).Copy", "sbom.(*ExternalReference).Copy", "sbom.(*Edge).Copy"),
		"sbom.(*Node).Copy", "sbom.(*NodeList).Copy", "sbom.(*Person).Copy", "sbom.(*ExternalReference).Copy", "sbom.(*Edge).Copy", "sbom.copy"), loopPolicies, commonSkips)
	timestampPresenceRule(c, "timestamp-presence-by-nil", pkgFilter(c.reachDecls("timestamp-presence-by-nil", "sbom.(*Node).Copy", "sbom.(*NodeList).Copy", "sbom.(*Person).Copy", "sbom.(*ExternalReference).Copy", "sbom.(*Edge).Copy"), "sbom."))
}

func runC13(c *Ctx) {
	c.rule("encode-exhaustive", "the equality encoder of a message reads every exported field of the generated struct")
	c.rule("equality-kernel", "Equal returns false early or f(receiver) == f(argument) for one encoder f")
	c.rule("checksum-of-encoding", "Checksum uses its receiver only through the equality encoder and hashes the result")
	c.rule("sorted-before-ordered-sink", "a slice passed to strings.Join / reflect.DeepEqual / cmp.Equal / a concatenation loop is sorted after its last append")
	c.rule("map-order-leak", "no string is accumulated inside a range over a map")
	c.rule("comparator-is-an-order", "a function literal handed to sort.Slice/SliceStable/slices.SortFunc in an encoder is one strict comparison of a key or a lexicographic chain in which a later key is compared only under equality of the earlier ones (`k1 < || (k1 == && k2 <)`, `if k1 != { return k1 < }`); `a.k1 < b.k1 || a.k2 < b.k2` and `<=` are reported")
	c.notDecided("collision freedom of SHA-256; whether Person.Contacts is a set")
	c.kernelRule("sbom.(*Node).Equal")
	c.kernelRule("sbom.(*Edge).Equal")
	c.checksumRule("sbom.(*Node).Checksum", "sbom.(*Node).flatString")
	c.nodeFlatRule("sbom.(*Node).flatString")
	c.readsAllRule("encode-exhaustive", "sbom.(*Edge).flatString", "Edge", false)
	c.readsAllRule("encode-exhaustive", "sbom.(*Person).flatString", "Person", false)
	c.readsAllRule("encode-exhaustive", "sbom.(*ExternalReference).flatString", "ExternalReference", false)
	c.readsAllRule("encode-exhaustive", "sbom.(*NodeList).Equal", "NodeList", true)
	c.floor("encode-exhaustive", 43, "26+3+6+5+3 schema fields")
	encodingHistoryFree(c, "encoding-history-free", "sbom.(*Node).flatString", "sbom.(*Edge).flatString", "sbom.(*Person).flatString", "sbom.(*ExternalReference).flatString")
	encodingValuesVerbatim(c, "encoding-values-verbatim", "sbom.(*Node).flatString", "sbom.(*Edge).flatString", "sbom.(*Person).flatString", "sbom.(*ExternalReference).flatString")
	distinctFieldTags(c, "distinct-field-tags", "sbom.(*Person).flatString", "sbom.(*ExternalReference).flatString")
	for _, f := range []string{"sbom.(*Node).flatString", "sbom.(*Edge).flatString", "sbom.(*Person).flatString",
		"sbom.(*ExternalReference).flatString", "sbom.(*NodeList).Equal", "sbom.flatStringStrSlice", "sbom.flatStringMap"} {
		c.sortedBeforeSinkRule(f)
	}
	c.floor("sorted-before-ordered-sink", 6, "pairs, tos, r1, r2, nlEdges, nl2Edges, vals, keys")
	equalityExtra(c)
	dateGranularity(c, "date-granularity")
	injectiveEncoding(c)
	encDecls := c.reachDecls("schema-map-key", "sbom.(*Node).flatString", "sbom.(*Edge).flatString", "sbom.(*Person).flatString",
		"sbom.(*ExternalReference).flatString", "sbom.(*NodeList).Equal", "sbom.(*Node).Equal", "sbom.(*Node).HashesMatch")
	schemaMapKeyRule(c, encDecls)
	enumNameTableRule(c, encDecls)
	timestampPresenceRule(c, "timestamp-presence-by-nil", encDecls)
}

func runC14(c *Ctx) {
	c.rule("diff-stanza", "for every exported field F of Node: one helper call on (receiver.F, argument.F); its results #0/#1/#2 reach Added.F / Removed.F / DiffCount(+=) exactly once each")
	c.rule("diff-helper-kind", "scalars use diff, comparable-element slices diffSlice, message lists diffList, maps diffMap, timestamps diffDates")
	c.rule("diff-result", "Diff returns a non-nil value exactly under DiffCount > 0")
	c.notDecided("set semantics inside the helpers on duplicates; reconstruction as a value statement; empty-vs-absent collections")
	c.diffRule("sbom.(*Node).Diff")
	c.floor("diff-stanza", 26, "26 Node fields")
	diffHelpers(c)
	diffKeysAreEncodings(c)
	// completeness against Equal: a date at the epoch is a date for the equality encoding, so it is
	// one for the diff
	timestampPresenceRule(c, "timestamp-presence-by-nil", pkgFilter(c.reachDecls("timestamp-presence-by-nil", "sbom.(*Node).Diff"), "sbom.diff", "sbom.(*Node).Diff"))
	// the list helper compares nested messages through their equality encoding: a field the
	// encoding reads under the wrong key is a difference Diff cannot see
	schemaMapKeyRule(c, c.reachDecls("schema-map-key", "sbom.(*Node).Diff", "sbom.(*Person).flatString", "sbom.(*ExternalReference).flatString"))
	// the list helper keys nested messages by their equality encoding
	encodingHistoryFree(c, "encoding-history-free", "sbom.(*Person).flatString", "sbom.(*ExternalReference).flatString")
	// "the reported additions and removals suffice to rebuild the second node from the first":
	// only while the first (and second) node still are what they were — Diff and its helpers build
	// their results in fresh storage, never by filtering an operand's slice or map in place
	operandsUntouched(c, "diff-operands-unchanged", "Node.Diff and the helpers it calls neither write nor append onto memory reachable from the receiver or the argument (origin sets over SSA, callee summaries substituted): the result lists are fresh, the compared nodes are unchanged and a second Diff of the same pair reports the same", "sbom.(*Node).Diff")
}

// operandsUntouched: no write and no kept append on memory reachable from any reference-typed
// parameter of the named functions.
func operandsUntouched(c *Ctx, R, text string, names ...string) {
	operandsUntouchedIn(c, R, text, nil, names...)
}

// operandsUntouchedIn restricts the rule to the given roles ("receiver", "argument"); nil = all.
func operandsUntouchedIn(c *Ctx, R, text string, roles map[string]bool, names ...string) {
	c.rule(R, text)
	o := newOrigins(c.P)
	for _, name := range names {
		fn := c.P.Func(name)
		if fn == nil {
			c.undecided(R, "anchor:"+name, "-", "function not found")
			continue
		}
		c.sawFunc(name)
		s := o.sums[fn]
		if s == nil {
			c.undecided(R, name, c.P.Pos(fn.Pos()), "no summary computed")
			continue
		}
		for j, p := range fn.Params {
			if !isRefType(p.Type()) {
				continue
			}
			role := "argument"
			if j == 0 && fn.Signature.Recv() != nil {
				role = "receiver"
			}
			if roles != nil && !roles[role] {
				continue
			}
			var w []mutation
			for _, m := range s.muts {
				if m.param == j {
					w = append(w, m)
				}
			}
			construct := fmt.Sprintf("%s#%s", name, role)
			if len(w) == 0 {
				c.ok(R, construct, c.P.Pos(fn.Pos()), "no write to memory reachable from the "+role)
			} else {
				c.bad(R, construct, c.P.Pos(w[0].pos), describeMuts(c, name, "the "+role, w))
			}
		}
	}
}
