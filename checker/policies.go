package main

// Allowed-skip / allowed-exit table for conversion loops (DESIGN.md Appendix A.2). Keys are
// function "/" ranged-collection; each admitted class carries its one-line reason. Loops that
// are not listed admit no skip and no non-error exit. Classes are structural (see
// classifyAtom), so renaming variables or reordering statements does not detach an entry.

var commonSkips = map[string]string{
	"nil-element":          "a nil entry of a list carries no data",
	"inexpressible":        "a converter of the target format has no image for the value (format cannot express it / invalid value in the input)",
	"unknown-enum-number":  "an enum number the schema does not define has no label in any format",
	"caller-predicate":     "a generic filter helper keeps what the predicate it is handed accepts; the predicate is the call site's and is not judged inside the helper",
	"not:caller-predicate": "a generic filter helper keeps what the predicate it is handed accepts; the predicate is the call site's and is not judged inside the helper",
}

var firstActorExits = map[string]string{
	"break":        "the package has room for one person: the selection stops at the first (first-actor-written checks that it is the first)",
	"return-value": "the package has room for one person: the selection stops at the first (first-actor-written checks that it is the first)",
}

var loopPolicies = map[string]loopPolicy{
	// --- SPDX 2.3 writer ---
	"serializers.(*SPDX23).buildPackages/Nodes":              {skips: map[string]string{"kind-filter": "files are emitted by buildFiles (complementarity checked separately)"}},
	"serializers.buildFiles/Nodes":                           {skips: map[string]string{"kind-filter": "packages are emitted by buildPackages (complementarity checked separately)"}},
	"serializers.(*SPDX23).buildPackages/ExternalReferences": {skips: map[string]string{"empty(Url)": "an SPDX external reference needs a locator"}},
	// SPDX 2.3 carries one supplier and one originator; which one is decided by first-actor-written
	"serializers.(*SPDX23).buildPackages/Suppliers":      {exits: firstActorExits},
	"serializers.(*SPDX23).buildPackages/Originators":    {exits: firstActorExits},
	"serializers.(*SPDX23).buildPackages/[]*sbom.Person": {exits: firstActorExits},
	// --- CycloneDX writer ---
	"serializers.(*CDX).componentsMaps/Nodes":                     {skips: map[string]string{"lookup-miss": "nodeToComponent returns nil only for a nil node element"}},
	"serializers.(*CDX).dependencies/Edges":                       {skips: map[string]string{"switch-default(sbom.Edge_Type)": "CycloneDX expresses only containment and dependency"}},
	"serializers.(*serializerCDXState).components/componentsDict": {skips: map[string]string{"present-in-index": "already placed in the tree (sound by the placed⇒attached pairing rule)"}},
	"serializers.(*CDX).nodeToComponent/Identifiers": {skips: map[string]string{
		"switch-default(int32)": "CycloneDX components carry only purl and cpe",
		"not:empty(CPE)":        "one CPE per component: 2.3 wins over 2.2",
		"empty-value":           "an empty CPE 2.3 value is indistinguishable from an absent one in CycloneDX (omitempty) and must not erase a CPE 2.2"}},
	"serializers.clearAutoRefs/*[]cyclonedx.Component": {skips: map[string]string{
		"*": "which references are erased is decided by folding the eraser's own decision on sample identifiers (constant-agreement:cdx-auto-ref#<sample>), whatever string functions spell it"}},
	"serializers.(*CDX).dependencies/To": {skips: map[string]string{"dedupe": "a dependency target is listed once per edge; the key is the target id itself",
		"self-edge": "a component cannot be nested in itself: the CycloneDX tree has no place for a containment self-edge, and nesting-is-acyclic (C07) requires the exclusion"}},
	// --- CycloneDX reader ---
	"unserializers.(*CDX).componentToNode/Hashes":                            {skips: map[string]string{"dedupe": "the model holds one value per hash algorithm; the key is the algorithm number"}},
	"unserializers.(*CDX).licenseChoicesToLicenseList/*cyclonedx.Licenses":   {skips: map[string]string{"empty(Expression)&empty(ID)": "a choice with neither expression nor licence id is not representable"}},
	"unserializers.(*CDX).licenseChoicesToLicenseString/*cyclonedx.Licenses": {skips: map[string]string{"empty(Expression)&empty(ID)": "a choice with neither expression nor licence id is not representable"}},
	// --- node-list operations ---
	"sbom.(*NodeList).Add/RootElements":                 {skips: map[string]string{"present-in-index(roots)": "the identifier is already a root of the receiver"}},
	"sbom.(*NodeList).Union/RootElements":               {skips: map[string]string{"present-in-index(roots)": "the identifier is already a root of the result"}},
	"sbom.(*NodeList).Union/To":                         {skips: map[string]string{"predicate(sbom.(*Edge).PointsTo)": "the merged edge already points to the target"}},
	"sbom.(*NodeList).Intersect/indexNodes()":           {skips: map[string]string{"absent-from-index(nodes)": "a node absent from the other operand does not survive: that is the intersection"}},
	"sbom.(*NodeList).Intersect/To":                     {skips: map[string]string{"present-in-index": "the merged edge already points to the target"}},
	"sbom.(*NodeList).cleanEdges/Edges":                 {skips: map[string]string{"absent-from-index(nodes)": "the edge's source is not a node of the list: dropping it is the normalisation"}},
	"sbom.(*NodeList).cleanEdges/To":                    {skips: map[string]string{"absent-from-index(nodes)": "the target is not a node of the list: dropping it is the normalisation"}},
	"sbom.(*NodeList).cleanEdges/seenCache":             {skips: map[string]string{"not:len-test": "an edge left without targets is dropped"}},
	"sbom.(*NodeList).cleanEdges/map[string]*sbom.Edge": {skips: map[string]string{"not:len-test": "an edge left without targets is dropped"}},
	"sbom.(*NodeList).RemoveNodes/Nodes":                {skips: map[string]string{"present-in-index": "the identifier is in the removal set"}},
	"sbom.(*NodeList).RemoveNodes/RootElements":         {skips: map[string]string{"present-in-index": "the identifier is in the removal set"}},
	"sbom.(*NodeList).RelateNodeListAtID/Nodes":         {skips: map[string]string{"present-in-index(nodes)": "a node with that identifier is already in the list (documented de-duplication)"}},
	"sbom.(*Edge).AddDestinationById/[]string":          {skips: map[string]string{"dedupe": "a destination is added only once; the key is the identifier itself"}},
	// --- lookups and matching (C16): a skip is the criterion itself ---
	"sbom.(*NodeList).GetMatchingNode/Hashes": {skips: map[string]string{"absent-from-index": "no node of the list carries that algorithm:value pair"}},
	"sbom.(*NodeList).GetMatchingNode/[]*sbom.Node": {skips: map[string]string{
		"dedupe(identity)":                        "the same node, reached through another of the probe's hashes, is collected once; the key is the node itself so distinct nodes sharing an identifier stay distinct",
		"not:predicate(sbom.(*Node).HashesMatch)": "the candidate's common hash algorithms do not all agree: that is the matching rule"}},
	"sbom.(*NodeList).GetMatchingNode/map[*sbom.Node]struct{}": {skips: map[string]string{"not:comparison": "the purl tie-break keeps only hash matches carrying the probe's purl", "empty-value": "a hash match without purl cannot break the tie"}},
	"sbom.(*NodeList).indexNodesByHash/Hashes":                 {skips: map[string]string{"empty-value": "an empty digest identifies nothing"}},
	"sbom.(*Node).HashesMatch/map[int32]string":                {skips: map[string]string{"absent-from-index": "only algorithms present on both sides are compared"}, exits: map[string]string{"return-value": "for-all test: the first disagreement decides"}},
	"sbom.(*NodeList).GetNodesByName/Nodes":                    {skips: map[string]string{"not:comparison": "the name criterion"}},
	"sbom.(*NodeList).GetNodesByIdentifier/Nodes":              {skips: map[string]string{"nil-field(Identifiers)": "a node without identifiers cannot match", "absent-from-index": "the node has no identifier of the requested type", "not:comparison": "the identifier value criterion"}},
	"sbom.(*NodeList).GetNodesByPurlType/Nodes":                {skips: map[string]string{"not:predicate(strings.HasPrefix)": "the purl type criterion (shape checked by lookup-criterion)"}},
	"sbom.(*NodeList).GetNodesByPurlType/Edges":                {skips: map[string]string{"absent-from-index(nodes)": "edges are kept only when their source is a selected node"}},
	"sbom.(*NodeList).reconnectOrphanNodes/Nodes":              {skips: map[string]string{"present-in-index(roots)": "already a root", "present-in-index(edges)": "the node is the source of an edge, so not an orphan"}},
	"sbom.(*NodeList).GetRootNodes/Nodes":                      {skips: map[string]string{"absent-from-index": "the root-membership criterion"}},
	// --- sub-graph extraction (C15): a skip is "already visited", "not a node of the list" or the boundary rule ---
	"sbom.(*NodeList).connectedIndexRecursion/Nodes": {skips: map[string]string{
		"dedupe":           "already in the connected index: visited (checked with the recursion guard by traversal-guard)",
		"present-in-index": "a boundary: another root element is reached but not traversed through"}},
	"sbom.(*NodeList).NodeSiblings/Edges": {skips: map[string]string{"not:comparison": "only edges leaving the start node are followed (one hop)"}},
	"sbom.(*NodeList).NodeSiblings/To": {skips: map[string]string{
		"lookup-miss":      "the target identifier names no node of the list (dangling edge)",
		"dedupe(identity)": "the target was already collected; the key is the target identifier itself"}},
	"sbom.(*NodeList).NodeDescendants/[]*sbom.Node": {skips: map[string]string{"dedupe": "already visited at an earlier level"}},
	"sbom.(*NodeList).NodeDescendants/To": {skips: map[string]string{
		"present-in-index": "already visited",
		"lookup-miss":      "the target identifier names no node of the list (dangling edge)"}},
	// --- SPDX3 (beta) writer ---
	"beta.(*SPDX3).Serialize/Nodes":                 {skips: map[string]string{"lookup-miss": "when the kind dispatch lives in a helper, the helper yields nothing only for a node kind outside {PACKAGE, FILE}", "switch-default(sbom.Node_NodeType)": "a node kind outside {PACKAGE, FILE} is an unknown enum number"}},
	"beta.purposeStringsFromPurpose/[]sbom.Purpose": {skips: map[string]string{"switch-default(sbom.Purpose)": "unknown purpose number"}},
}
