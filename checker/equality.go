package main

import (
	"fmt"
	"go/ast"
	"go/token"
	"go/types"
	"sort"
	"strings"

	"golang.org/x/tools/go/packages"
	"golang.org/x/tools/go/types/typeutil"
)

func sortStrings(s []string) { sort.Strings(s) }

// nodeFlatRule: C13-D2/D3 for sbom.(*Node).flatString — the reflective encoder.
//   - the receiver's ProtoReflect().Range visits every populated field, and the switch has a
//     default clause that encodes the visited value: every scalar field is covered wholesale;
//   - every field whose Go kind is a collection, a nested message or a timestamp has an explicit
//     case (the default would encode it order-sensitively / by protobuf text format);
//   - each explicit case reads the Go field that its protobuf full name denotes (or the visited
//     value itself), and no other field.
func (c *Ctx) nodeFlatRule(fname string) {
	const R = "encode-exhaustive"
	d := c.decl(R, fname)
	if d == nil {
		return
	}
	recv, _ := recvAndParam(d)
	nt := c.P.namedType(modPath+"/pkg/sbom", "Node")
	if nt == nil || recv == nil {
		c.undecided(R, fname+"#anchor", "-", "Node type or receiver not found")
		return
	}
	names := protoNames(nt)
	fields := exportedFields(nt)
	// find X.ProtoReflect().Range(func(fd, v) bool {...})
	var lit *ast.FuncLit
	ast.Inspect(d.fd.Body, func(n ast.Node) bool {
		ce, ok := n.(*ast.CallExpr)
		if !ok || len(ce.Args) != 1 {
			return true
		}
		sel, ok := ce.Fun.(*ast.SelectorExpr)
		if !ok || sel.Sel.Name != "Range" {
			return true
		}
		inner, ok := sel.X.(*ast.CallExpr)
		if !ok {
			return true
		}
		isel, ok := inner.Fun.(*ast.SelectorExpr)
		if !ok || isel.Sel.Name != "ProtoReflect" || objOf(d.pkg, isel.X) != recv {
			return true
		}
		if fl, ok := ce.Args[0].(*ast.FuncLit); ok {
			lit = fl
		}
		return true
	})
	if lit == nil || len(lit.Type.Params.List) < 2 {
		// not the reflective shape: fall back to the plain "reads every field" rule
		c.info("%s is not of the ProtoReflect().Range shape; using the explicit per-field rule", fname)
		c.readsAllRule(R, fname, "Node", false)
		return
	}
	var fdObj, vObj types.Object
	idx := 0
	for _, f := range lit.Type.Params.List {
		for _, nm := range f.Names {
			if idx == 0 {
				fdObj = d.pkg.TypesInfo.Defs[nm]
			} else if idx == 1 {
				vObj = d.pkg.TypesInfo.Defs[nm]
			}
			idx++
		}
	}
	var sw *ast.SwitchStmt
	litDefs := singleDefs(d.pkg, lit.Body)
	isFullName := func(e ast.Expr) bool {
		if e == nil {
			return false
		}
		e = chase(d.pkg, litDefs, e)
		if ce, ok := e.(*ast.CallExpr); ok {
			if sel, ok := ce.Fun.(*ast.SelectorExpr); ok && sel.Sel.Name == "FullName" && objOf(d.pkg, sel.X) == fdObj {
				return true
			}
		}
		return false
	}
	for _, s := range findSwitches(lit.Body) {
		if isFullName(s.Tag) {
			sw = s
			break
		}
	}
	// clauses that live in a helper of the encoder which is handed the field name:
	// if date, ok := n.flatStringDate(name); ok { … }
	type helperClause struct {
		cl   *ast.CaseClause
		pkg  *packages.Package
		recv types.Object
	}
	helperCases := map[string]helperClause{}
	for _, cs := range callsIn(d.pkg, lit.Body) {
		if cs.callee.Pkg() == nil || !strings.HasPrefix(cs.callee.Pkg().Path(), modPath+"/") {
			continue
		}
		argIdx := -1
		for i, a := range cs.call.Args {
			if isFullName(a) {
				argIdx = i
			}
		}
		sel, isSel := cs.call.Fun.(*ast.SelectorExpr)
		if argIdx < 0 || !isSel || objOf(d.pkg, sel.X) != recv {
			continue
		}
		hfd, hpk := c.P.FuncDecl(objName(cs.callee))
		if hfd == nil || hfd.Body == nil || hfd.Recv == nil || len(hfd.Recv.List) != 1 || len(hfd.Recv.List[0].Names) != 1 {
			continue
		}
		hrecv := hpk.TypesInfo.Defs[hfd.Recv.List[0].Names[0]]
		var hparam types.Object
		k := 0
		for _, fl := range hfd.Type.Params.List {
			for _, nm := range fl.Names {
				if k == argIdx {
					hparam = hpk.TypesInfo.Defs[nm]
				}
				k++
			}
		}
		for _, hs := range findSwitches(hfd.Body) {
			if hs.Tag == nil || hparam == nil || objOfInfo(hpk, hs.Tag) != hparam {
				continue
			}
			for _, cc := range hs.Body.List {
				cl := cc.(*ast.CaseClause)
				for _, e := range cl.List {
					if v, ok := constOf(hpk, e); ok && v.isStr() {
						label := v.str()
						if i := strings.LastIndex(label, "."); i >= 0 {
							if goName, known := names[label[i+1:]]; known && strings.HasSuffix(label[:i], ".Node") {
								helperCases[goName] = helperClause{cl, hpk, hrecv}
							}
						}
					}
				}
			}
		}
	}
	if sw == nil {
		c.undecided(R, fname+"#switch", c.P.Pos(lit.Pos()), "no switch on the field descriptor's FullName inside the Range callback")
		return
	}
	explicit := map[string]*ast.CaseClause{} // Go field name -> clause
	var deflt *ast.CaseClause
	for _, cc := range sw.Body.List {
		cl := cc.(*ast.CaseClause)
		if cl.List == nil {
			deflt = cl
			continue
		}
		for _, e := range cl.List {
			v, ok := constOf(d.pkg, e)
			if !ok || !v.isStr() {
				c.undecided(R, fname+"#case", c.P.Pos(e.Pos()), "non-constant case label")
				continue
			}
			label := v.str()
			i := strings.LastIndex(label, ".")
			goName, known := names[label[i+1:]]
			if !known || !strings.HasSuffix(label[:i], ".Node") {
				c.bad(R, fname+"#case:"+label, c.P.Pos(e.Pos()), "case label "+label+" names no field of the Node message: the clause is dead and the field falls to the default encoding")
				continue
			}
			explicit[goName] = cl
		}
	}
	usesV := func(n ast.Node) bool {
		found := false
		ast.Inspect(n, func(x ast.Node) bool {
			if id, ok := x.(*ast.Ident); ok && objOf(d.pkg, id) == vObj && vObj != nil {
				found = true
			}
			return true
		})
		return found
	}
	defaultOK := deflt != nil
	if deflt != nil {
		body := &ast.BlockStmt{List: deflt.Body}
		defaultOK = usesV(body)
	}
	// the callback must keep iterating: every return is `return true`
	keepGoing := true
	ast.Inspect(lit.Body, func(n ast.Node) bool {
		if _, ok := n.(*ast.FuncLit); ok && n != ast.Node(lit) {
			return false
		}
		if rs, ok := n.(*ast.ReturnStmt); ok && len(rs.Results) == 1 {
			if v, ok := constOf(d.pkg, rs.Results[0]); !ok || v.c.ExactString() != "true" {
				keepGoing = false
			}
		}
		return true
	})
	c.check(keepGoing, R, fname+"#range-total", c.P.Pos(lit.Pos()), "the Range callback always returns true",
		"the Range callback can return something other than the constant true: iteration over the fields may stop early and later fields are not encoded")
	for _, f := range fields {
		name := f.Name()
		construct := fname + "#" + name
		kind := fieldKind(f.Type())
		if hc, ok := helperCases[name]; ok {
			if _, dup := explicit[name]; !dup {
				m := mentions(hc.pkg, &ast.BlockStmt{List: hc.cl.Body}, hc.recv)
				c.check(m[name], R, construct, c.P.Pos(hc.cl.Pos()), "explicit case (in a helper handed the field name) reads "+name,
					fmt.Sprintf("the helper's case for %s does not read that field", name))
				continue
			}
		}
		if cl, ok := explicit[name]; ok {
			body := &ast.BlockStmt{List: cl.Body}
			m := mentions(d.pkg, body, recv)
			var others []string
			for g := range m {
				if g != name {
					others = append(others, g)
				}
			}
			sort.Strings(others)
			shared := len(cl.List) > 1
			switch {
			case len(others) > 0 && !m[name] && !(shared && usesV(body)):
				c.bad(R, construct, c.P.Pos(cl.Pos()), fmt.Sprintf("the case for %s encodes field(s) %v instead of %s", name, others, name))
			case !m[name] && !usesV(body):
				c.bad(R, construct, c.P.Pos(cl.Pos()), fmt.Sprintf("the case for %s reads neither the field nor the visited value: the field does not contribute to equality", name))
			default:
				c.ok(R, construct, c.P.Pos(cl.Pos()), "explicit case reads "+name)
			}
			continue
		}
		switch kind {
		case "string", "scalar":
			c.check(defaultOK, R, construct, c.P.Pos(sw.Pos()), "covered by the default clause (encodes the visited value)",
				"no default clause encoding the visited value: scalar field "+name+" does not contribute to equality")
		default:
			c.bad(R, construct, c.P.Pos(sw.Pos()), fmt.Sprintf("field %s (%s) has no explicit case: it falls to the default clause, which encodes collections in stored order and nested messages in protobuf text format — equality becomes order-sensitive for it", name, kind))
		}
	}
}

// sortedBeforeSinkRule: C13-D3. In the named function, every slice handed to an order-sensitive
// sink (strings.Join, reflect.DeepEqual, cmp.Equal, a string-concatenation loop) is in a
// canonical order there: either it was sorted after its last order-dependent fill, or every
// fill happened in a loop over a slice that was itself canonical. Order-dependent fills are
// appends inside a range over a map, over a field of an operand (stored order), inside a
// callback or a counted loop, and assignments from an operand's field.
func (c *Ctx) sortedBeforeSinkRule(fname string) {
	const R = "sorted-before-ordered-sink"
	d := c.decl(R, fname)
	if d == nil {
		return
	}
	info := d.pkg.TypesInfo
	type ev struct {
		pos     token.Pos
		kind    string // fill | sort | sink
		what    string
		ordered bool // for fills: provably in canonical order
		over    types.Object
		loopPos token.Pos
	}
	events := map[types.Object][]*ev{}
	isSlice := func(o types.Object) bool {
		if o == nil {
			return false
		}
		_, ok := o.Type().Underlying().(*types.Slice)
		return ok
	}
	recv, par := recvAndParam(d)
	type leakSite struct {
		local   types.Object // local sorted-or-not slice ranged over (nil: operand field)
		loopPos token.Pos
		pos     token.Pos
		key     string
		over    string
	}
	var leakSites []leakSite
	mentionsOperand := func(e ast.Expr) bool {
		found := false
		ast.Inspect(e, func(n ast.Node) bool {
			if sel, ok := n.(*ast.SelectorExpr); ok {
				if o := objOf(d.pkg, sel.X); o != nil && (o == recv || o == par) {
					found = true
				}
			}
			if id, ok := n.(*ast.Ident); ok {
				if o := objOf(d.pkg, id); o != nil && !isLocal(d, o) {
					if _, isVar := o.(*types.Var); isVar && isSlice(o) {
						found = true // a slice parameter
					}
				}
			}
			return true
		})
		return found
	}
	// enclosing loop context of a node: the innermost loops from outside in
	loopCtx := func(n ast.Node) (unordered bool, over types.Object, loopPos token.Pos) {
		chain := enclosing(d.fd.Body, n)
		for _, x := range chain {
			switch l := x.(type) {
			case *ast.FuncLit:
				unordered = true // callback invoked in an order we do not control
			case *ast.ForStmt:
				unordered = true
			case *ast.RangeStmt:
				t := info.TypeOf(l.X)
				if t == nil {
					unordered = true
					continue
				}
				if _, isMap := t.Underlying().(*types.Map); isMap {
					unordered = true
					continue
				}
				o := objOf(d.pkg, l.X)
				if o != nil && isLocal(d, o) && isSlice(o) {
					over, loopPos = o, l.Pos()
					continue
				}
				unordered = true // a field of an operand, a call result, a parameter
			}
		}
		return
	}
	ast.Inspect(d.fd.Body, func(n ast.Node) bool {
		switch s := n.(type) {
		case *ast.AssignStmt:
			for i, l := range s.Lhs {
				o := objOf(d.pkg, l)
				if !isSlice(o) || i >= len(s.Rhs) {
					continue
				}
				if ce, ok := s.Rhs[i].(*ast.CallExpr); ok {
					if id, ok := ce.Fun.(*ast.Ident); ok && id.Name == "append" {
						un, over, lp := loopCtx(s)
						// appending a whole operand slice keeps its stored order
						if len(ce.Args) > 1 && ce.Ellipsis.IsValid() && mentionsOperand(ce.Args[len(ce.Args)-1]) {
							un = true
						}
						events[o] = append(events[o], &ev{pos: s.Pos(), kind: "fill", what: "append", ordered: !un, over: over, loopPos: lp})
						continue
					}
				}
				// the result of a module helper that sorts what it returns is in canonical order
				if ce, ok := s.Rhs[i].(*ast.CallExpr); ok {
					if g, _ := typeutil.Callee(info, ce).(*types.Func); g != nil && returnsSorted(c, g) {
						events[o] = append(events[o], &ev{pos: s.Pos(), kind: "sort", what: "result of " + objName(g) + " (sorted before it is returned)"})
						continue
					}
				}
				if mentionsOperand(s.Rhs[i]) {
					events[o] = append(events[o], &ev{pos: s.Pos(), kind: "fill", what: "assignment from an operand's list"})
				}
			}
		case *ast.CallExpr:
			f, _ := typeutil.Callee(info, s).(*types.Func)
			if f == nil || len(s.Args) == 0 {
				return true
			}
			full := f.FullName()
			switch full {
			case "sort.Strings", "sort.Ints", "sort.Slice", "sort.SliceStable", "slices.Sort", "sort.Sort", "sort.Stable", "slices.SortFunc", "slices.SortStableFunc":
				if o := objOf(d.pkg, s.Args[0]); isSlice(o) {
					events[o] = append(events[o], &ev{pos: s.Pos(), kind: "sort", what: full})
				}
				// a hand-written comparator has to be an order, or "sorted" means nothing
				if len(s.Args) == 2 {
					if lit, isLit := s.Args[1].(*ast.FuncLit); isLit {
						verdict, why := comparatorVerdict(d, lit, strings.HasPrefix(full, "slices."))
						construct := fmt.Sprintf("%s#%s(%s)", fname, f.Name(), normText(types.ExprString(s.Args[0])))
						switch verdict {
						case "order":
							c.ok("comparator-is-an-order", construct, c.P.Pos(lit.Pos()), "strict comparison / lexicographic chain")
						case "invalid":
							c.bad("comparator-is-an-order", construct, c.P.Pos(lit.Pos()), "the comparator is not a strict weak order: "+why+"; the encoding of an unchanged value then varies with map iteration order, so Equal is not reflexive and Checksum not stable")
						default:
							c.undecided("comparator-is-an-order", construct, c.P.Pos(lit.Pos()), why)
						}
					}
				}
			case "strings.Join":
				if o := objOf(d.pkg, s.Args[0]); isSlice(o) {
					events[o] = append(events[o], &ev{pos: s.Pos(), kind: "sink", what: full})
				}
			case "reflect.DeepEqual", "github.com/google/go-cmp/cmp.Equal", "slices.Equal":
				for _, a := range s.Args[:min(2, len(s.Args))] {
					if o := objOf(d.pkg, a); isSlice(o) {
						events[o] = append(events[o], &ev{pos: s.Pos(), kind: "sink", what: full})
					}
				}
			}
		case *ast.RangeStmt:
			// map-order leak: ranging over a map while concatenating into a string
			if t := info.TypeOf(s.X); t != nil {
				if _, isMap := t.Underlying().(*types.Map); isMap {
					ast.Inspect(s.Body, func(m ast.Node) bool {
						as, ok := m.(*ast.AssignStmt)
						if !ok || len(as.Lhs) != 1 {
							return true
						}
						lt := info.TypeOf(as.Lhs[0])
						if lt == nil {
							return true
						}
						b, isStr := lt.Underlying().(*types.Basic)
						if !isStr || b.Info()&types.IsString == 0 {
							return true
						}
						lo := objOf(d.pkg, as.Lhs[0])
						if lo == nil || (lo.Pos() >= s.Body.Pos() && lo.Pos() <= s.Body.End()) {
							return true // string local to one iteration
						}
						if as.Tok == token.ADD_ASSIGN || as.Tok == token.ASSIGN {
							c.bad("map-order-leak", fmt.Sprintf("%s#%s<-range %s", fname, lo.Name(), types.ExprString(s.X)), c.P.Pos(as.Pos()),
								fmt.Sprintf("string %s is built inside a range over the map %s: Go randomises map iteration order, so the encoding (and every checksum) of an unchanged value varies between calls", lo.Name(), types.ExprString(s.X)))
						}
						return true
					})
				}
			}
			// position leak: the index of a range over a collection in stored order reaches the
			// encoding (Sprintf argument / concatenation / appended value)
			if k, ok := s.Key.(*ast.Ident); ok && k.Name != "_" {
				ko := objOf(d.pkg, k)
				xo := objOf(d.pkg, s.X)
				stored := mentionsOperand(s.X)
				var local types.Object
				if xo != nil && isLocal(d, xo) && isSlice(xo) {
					stored = true
					local = xo
				}
				if t := info.TypeOf(s.X); t != nil {
					if _, isMap := t.Underlying().(*types.Map); isMap {
						stored = false // map keys are data, handled by the sort rules
					}
				}
				if stored && ko != nil {
					ast.Inspect(s.Body, func(m ast.Node) bool {
						ce, ok := m.(*ast.CallExpr)
						if !ok {
							return true
						}
						f, _ := typeutil.Callee(info, ce).(*types.Func)
						if f == nil || f.FullName() != "fmt.Sprintf" {
							return true
						}
						for _, a := range ce.Args[1:] {
							if objOf(d.pkg, a) == ko {
								leakSites = append(leakSites, leakSite{local, s.Pos(), ce.Pos(), k.Name, types.ExprString(s.X)})
							}
						}
						return true
					})
				}
			}
			// concatenation loop over a local slice: for _, s := range vals { ret += ... }
			o := objOf(d.pkg, s.X)
			if !isSlice(o) || !isLocal(d, o) {
				return true
			}
			concat := false
			ast.Inspect(s.Body, func(m ast.Node) bool {
				if as, ok := m.(*ast.AssignStmt); ok && as.Tok == token.ADD_ASSIGN {
					if t := info.TypeOf(as.Lhs[0]); t != nil {
						if b, ok := t.Underlying().(*types.Basic); ok && b.Info()&types.IsString != 0 {
							concat = true
						}
					}
				}
				return true
			})
			if concat {
				events[o] = append(events[o], &ev{pos: s.Pos(), kind: "sink", what: "string concatenation loop"})
			}
		}
		return true
	})
	var canonicalAt func(o types.Object, pos token.Pos, depth int) (bool, string)
	canonicalAt = func(o types.Object, pos token.Pos, depth int) (bool, string) {
		if depth > 4 {
			return false, "derivation too deep"
		}
		evs := events[o]
		var lastSort token.Pos
		for _, e := range evs {
			if e.pos < pos && e.kind == "sort" && e.pos > lastSort {
				lastSort = e.pos
			}
		}
		for _, e := range evs {
			if e.kind != "fill" || e.pos >= pos || e.pos < lastSort {
				continue
			}
			// a fill after the last sort: must itself be order-preserving
			if !e.ordered {
				return false, fmt.Sprintf("%s at %s happens in stored/iteration order and no sort follows it", e.what, c.P.Pos(e.pos))
			}
			if e.over != nil {
				if ok, why := canonicalAt(e.over, e.loopPos, depth+1); !ok {
					return false, fmt.Sprintf("filled in a loop over %s, which is not in canonical order there (%s)", e.over.Name(), why)
				}
			}
		}
		return true, ""
	}
	for _, ls := range leakSites {
		if ls.local != nil {
			if ok, _ := canonicalAt(ls.local, ls.loopPos, 0); ok {
				continue // position in a canonically ordered slice is itself canonical
			}
		}
		c.bad("position-leak", fmt.Sprintf("%s#%s in range %s", fname, ls.key, ls.over), c.P.Pos(ls.pos),
			fmt.Sprintf("the position %s of an element in the stored order of %s is written into the encoding: two values holding the same elements in a different order encode differently, so equality and checksums depend on the order of a set-valued attribute", ls.key, ls.over))
	}
	var objs []types.Object
	for o := range events {
		objs = append(objs, o)
	}
	sort.Slice(objs, func(i, j int) bool { return objs[i].Pos() < objs[j].Pos() })
	for _, o := range objs {
		for _, e := range events[o] {
			if e.kind != "sink" {
				continue
			}
			construct := fmt.Sprintf("%s#%s→%s", fname, o.Name(), e.what)
			ok, why := canonicalAt(o, e.pos, 0)
			c.check(ok, R, construct, c.P.Pos(e.pos),
				fmt.Sprintf("%s is in canonical order when it reaches %s", o.Name(), e.what),
				fmt.Sprintf("slice %s reaches the order-sensitive sink %s in an order that depends on how the value is stored: %s", o.Name(), e.what, why))
		}
	}
}

func isLocal(d *declInfo, o types.Object) bool {
	return o.Pos() >= d.fd.Body.Pos() && o.Pos() <= d.fd.Body.End()
}

func min(a, b int) int {
	if a < b {
		return a
	}
	return b
}

// kernelRule: C13-D1. Equal is `nil test; return f(a) == f(b)` for one encoder f.
func (c *Ctx) kernelRule(fname string) {
	const R = "equality-kernel"
	d := c.decl(R, fname)
	if d == nil {
		return
	}
	recv, par := recvAndParam(d)
	var cmp *ast.BinaryExpr
	nret := 0
	ast.Inspect(d.fd.Body, func(n ast.Node) bool {
		rs, ok := n.(*ast.ReturnStmt)
		if !ok || len(rs.Results) != 1 {
			return true
		}
		nret++
		// `return f(a) == f(b)` — possibly as the last conjunct after nil tests of the argument:
		// `return b != nil && f(a) == f(b)`
		for _, cj := range conjuncts(rs.Results[0]) {
			be, ok := cj.(*ast.BinaryExpr)
			if !ok {
				continue
			}
			if be.Op == token.EQL {
				if _, isCall := be.X.(*ast.CallExpr); isCall {
					cmp = be
				}
			}
		}
		return true
	})
	construct := fname + "#f(a)==f(b)"
	if cmp == nil {
		c.undecided(R, construct, c.P.Pos(d.fd.Pos()), "no `return f(a) == f(b)` statement found")
		return
	}
	callOn := func(e ast.Expr) (types.Object, *types.Func) {
		ce, ok := e.(*ast.CallExpr)
		if !ok || len(ce.Args) != 0 {
			return nil, nil
		}
		sel, ok := ce.Fun.(*ast.SelectorExpr)
		if !ok {
			return nil, nil
		}
		f, _ := typeutil.Callee(d.pkg.TypesInfo, ce).(*types.Func)
		return objOf(d.pkg, sel.X), f
	}
	o1, f1 := callOn(cmp.X)
	o2, f2 := callOn(cmp.Y)
	okv := f1 != nil && f1 == f2 && ((o1 == recv && o2 == par) || (o1 == par && o2 == recv))
	c.check(okv, R, construct, c.P.Pos(cmp.Pos()),
		fmt.Sprintf("compares %s of the receiver with %s of the argument", objName(f1), objName(f2)),
		fmt.Sprintf("the comparison is not f(receiver) == f(argument) for a single encoder f (got %s on %v, %s on %v): equality may not be an equivalence", objName(f1), nameOf(o1), objName(f2), nameOf(o2)))
	// other returns must be constant false under a nil test of the argument
	ast.Inspect(d.fd.Body, func(n ast.Node) bool {
		rs, ok := n.(*ast.ReturnStmt)
		if !ok || len(rs.Results) != 1 || rs.Results[0] == ast.Expr(cmp) {
			return true
		}
		// the comparison sits in this return as a conjunct next to nil tests of the argument only
		if cjs := conjuncts(rs.Results[0]); len(cjs) > 1 {
			has, onlyNil := false, true
			for _, cj := range cjs {
				if cj == ast.Expr(cmp) {
					has = true
					continue
				}
				be, isB := cj.(*ast.BinaryExpr)
				if !isB || be.Op != token.NEQ || !isNilIdent(d.pkg, be.Y) || objOf(d.pkg, be.X) != par {
					onlyNil = false
				}
			}
			if has && onlyNil {
				return true
			}
		}
		v, isConst := constOf(d.pkg, rs.Results[0])
		facts := pathFacts(d.pkg, d.fd.Body, rs, par)
		_ = facts
		c.check(isConst && v.c.ExactString() == "false", R, fname+"#early-return", c.P.Pos(rs.Pos()),
			"early return is the constant false", "an early return yields something other than false: equality is no longer decided by the encoder alone")
		// … and only because an operand is absent: any other early "not equal" is a second, unrelated
		// notion of equality (a size, a count, a single field) that can disagree with the encoder
		chain := enclosing(d.fd.Body, rs)
		for i, en := range chain {
			ifs, isIf := en.(*ast.IfStmt)
			if !isIf || i+1 >= len(chain) || chain[i+1] != ast.Node(ifs.Body) {
				continue
			}
			onlyNil := true
			var walk func(e ast.Expr)
			walk = func(e ast.Expr) {
				switch x := e.(type) {
				case *ast.ParenExpr:
					walk(x.X)
					return
				case *ast.BinaryExpr:
					if x.Op == token.LOR {
						walk(x.X)
						walk(x.Y)
						return
					}
					if x.Op == token.EQL && isNilIdent(d.pkg, x.Y) {
						if o := objOf(d.pkg, x.X); o != nil && (o == par || o == recv) {
							return
						}
					}
				}
				onlyNil = false
			}
			walk(ifs.Cond)
			c.check(onlyNil, R, fname+"#early-return-condition", c.P.Pos(ifs.Pos()), "early false only for an absent operand",
				fmt.Sprintf("an early `return false` is taken under `%s`, which is not a nil test of an operand: two values with the same encoding (and the same checksum) can be reported unequal", types.ExprString(ifs.Cond)))
		}
		return true
	})
}

func nameOf(o types.Object) string {
	if o == nil {
		return "?"
	}
	return o.Name()
}

// checksumRule: Checksum is a function of flatString only.
func (c *Ctx) checksumRule(fname, encoder string) {
	const R = "checksum-of-encoding"
	d := c.decl(R, fname)
	if d == nil {
		return
	}
	recv, _ := recvAndParam(d)
	uses := 0
	viaEnc := 0
	ast.Inspect(d.fd.Body, func(n ast.Node) bool {
		if id, ok := n.(*ast.Ident); ok && objOf(d.pkg, id) == recv {
			uses++
		}
		if ce, ok := n.(*ast.CallExpr); ok {
			if f, _ := typeutil.Callee(d.pkg.TypesInfo, ce).(*types.Func); f != nil && objName(f) == encoder {
				if sel, ok := ce.Fun.(*ast.SelectorExpr); ok && objOf(d.pkg, sel.X) == recv {
					viaEnc++
				}
			}
		}
		return true
	})
	hashes := false
	for _, cs := range callsIn(d.pkg, d.fd.Body) {
		if strings.HasPrefix(cs.callee.FullName(), "crypto/sha256.Sum") || strings.HasPrefix(cs.callee.FullName(), "crypto/sha512.Sum") {
			hashes = true
		}
	}
	c.check(uses == viaEnc && viaEnc == 1 && hashes, R, fname+"#only-via-"+encoder, c.P.Pos(d.fd.Pos()),
		"the receiver is used exactly once, as the receiver of "+encoder+", and the result is a cryptographic digest",
		fmt.Sprintf("the receiver is used %d times, %d of them through %s (digest call present: %v): checksum equality may disagree with Equal", uses, viaEnc, encoder, hashes))
}

// symmetricExitRule: C13-D1 for list equality. Every `return false` of the function is decided
// by a condition that is invariant under swapping the two operands: a nil test of the argument,
// a comparison of the same field's length on both sides, or an (in)equality / DeepEqual /
// cmp.Equal of two locals derived the same way from one operand each. A per-element
// membership test inside a loop over one operand is one-sided (a ⊆ b is not b ⊆ a).
func (c *Ctx) symmetricExitRule(fname string) {
	const R = "symmetric-comparison"
	d := c.decl(R, fname)
	if d == nil {
		return
	}
	recv, par := recvAndParam(d)
	// derivation of locals: which operand fields feed each local
	type deriv struct{ r, p map[string]bool }
	der := map[types.Object]*deriv{}
	get := func(o types.Object) *deriv {
		if der[o] == nil {
			der[o] = &deriv{map[string]bool{}, map[string]bool{}}
		}
		return der[o]
	}
	addFrom := func(o types.Object, n ast.Node, ranges []*ast.RangeStmt) {
		dv := get(o)
		for f := range mentions(d.pkg, n, recv) {
			dv.r[f] = true
		}
		for f := range mentions(d.pkg, n, par) {
			dv.p[f] = true
		}
		for _, rs := range ranges {
			for f := range mentions(d.pkg, rs.X, recv) {
				dv.r[f] = true
			}
			for f := range mentions(d.pkg, rs.X, par) {
				dv.p[f] = true
			}
		}
	}
	var walk func(n ast.Node, ranges []*ast.RangeStmt)
	walk = func(n ast.Node, ranges []*ast.RangeStmt) {
		ast.Inspect(n, func(m ast.Node) bool {
			switch s := m.(type) {
			case *ast.RangeStmt:
				if s != n {
					walk(s.Body, append(append([]*ast.RangeStmt{}, ranges...), s))
					return false
				}
			case *ast.AssignStmt:
				for _, l := range s.Lhs {
					base := l
					if ix, ok := l.(*ast.IndexExpr); ok {
						base = ix.X
					}
					if o := objOf(d.pkg, base); o != nil && o != recv && o != par && isLocal(d, o) {
						addFrom(o, s, ranges)
					}
				}
			}
			return true
		})
	}
	walk(d.fd.Body, nil)
	// propagate one level through locals (x := y)
	side := func(e ast.Expr) (string, map[string]bool) {
		mr, mp := mentions(d.pkg, e, recv), mentions(d.pkg, e, par)
		ast.Inspect(e, func(n ast.Node) bool {
			if id, ok := n.(*ast.Ident); ok {
				if dv := der[objOf(d.pkg, id)]; dv != nil {
					for f := range dv.r {
						mr[f] = true
					}
					for f := range dv.p {
						mp[f] = true
					}
				}
			}
			return true
		})
		switch {
		case len(mr) > 0 && len(mp) == 0:
			return "recv", mr
		case len(mp) > 0 && len(mr) == 0:
			return "par", mp
		case len(mr) == 0 && len(mp) == 0:
			return "none", nil
		}
		return "both", nil
	}
	symmetricCond := func(e ast.Expr) (bool, string) {
		var sym func(e ast.Expr) (bool, string)
		sym = func(e ast.Expr) (bool, string) {
			switch x := e.(type) {
			case *ast.ParenExpr:
				return sym(x.X)
			case *ast.UnaryExpr:
				if x.Op == token.NOT {
					return sym(x.X)
				}
			case *ast.BinaryExpr:
				switch x.Op {
				case token.LOR, token.LAND:
					a, wa := sym(x.X)
					b, wb := sym(x.Y)
					if !a {
						return false, wa
					}
					return b, wb
				case token.EQL, token.NEQ:
					if isNilIdent(d.pkg, x.Y) && objOf(d.pkg, x.X) == par {
						return true, ""
					}
					s1, f1 := side(x.X)
					s2, f2 := side(x.Y)
					if (s1 == "recv" && s2 == "par") || (s1 == "par" && s2 == "recv") {
						if fmt.Sprint(keysOf(f1)) == fmt.Sprint(keysOf(f2)) {
							return true, ""
						}
						return false, fmt.Sprintf("compares %v of one operand with %v of the other", keysOf(f1), keysOf(f2))
					}
					return false, fmt.Sprintf("comparison %s is not between one value per operand", types.ExprString(x))
				}
			case *ast.CallExpr:
				if f, _ := typeutil.Callee(d.pkg.TypesInfo, x).(*types.Func); f != nil && len(x.Args) >= 2 {
					switch f.FullName() {
					case "reflect.DeepEqual", "github.com/google/go-cmp/cmp.Equal", "slices.Equal", "maps.Equal":
						s1, f1 := side(x.Args[0])
						s2, f2 := side(x.Args[1])
						if ((s1 == "recv" && s2 == "par") || (s1 == "par" && s2 == "recv")) && fmt.Sprint(keysOf(f1)) == fmt.Sprint(keysOf(f2)) {
							return true, ""
						}
						return false, fmt.Sprintf("%s compares values derived from %s%v and %s%v", f.Name(), s1, keysOf(f1), s2, keysOf(f2))
					}
				}
			}
			return false, "condition " + types.ExprString(e) + " is not a recognised operand-symmetric comparison"
		}
		return sym(e)
	}
	n := 0
	ast.Inspect(d.fd.Body, func(m ast.Node) bool {
		rs, ok := m.(*ast.ReturnStmt)
		if !ok || len(rs.Results) != 1 {
			return true
		}
		n++
		construct := fmt.Sprintf("%s#return@%d", fname, n)
		v, isConst := constOf(d.pkg, rs.Results[0])
		if !isConst {
			okc, why := symmetricCond(rs.Results[0])
			c.check(okc, R, construct, c.P.Pos(rs.Pos()), "final result is an operand-symmetric comparison", "the returned comparison is not operand-symmetric: "+why)
			return true
		}
		chain := enclosing(d.fd.Body, rs)
		inLoop := false
		var cond ast.Expr
		for i, x := range chain {
			switch s := x.(type) {
			case *ast.RangeStmt, *ast.ForStmt:
				inLoop = true
			case *ast.IfStmt:
				if i+1 < len(chain) && chain[i+1] == ast.Node(s.Body) {
					cond = s.Cond
					if s.Init != nil {
						// `if _, ok := set[k]; !ok` — a membership test
						if as, ok := s.Init.(*ast.AssignStmt); ok && len(as.Lhs) == 2 {
							inLoop = inLoop || false
							cond = nil
							c.bad(R, construct, c.P.Pos(rs.Pos()), fmt.Sprintf("`return %s` is decided by the membership test `%s`: comparing by one-sided membership (a ⊆ b) is neither symmetric nor discriminating when elements repeat", v.c.ExactString(), types.ExprString(as.Rhs[0])))
							return true
						}
					}
				}
			}
		}
		if v.c.ExactString() == "true" && cond == nil {
			return true // unconditional final `return true` after all comparisons
		}
		if cond == nil {
			c.bad(R, construct, c.P.Pos(rs.Pos()), "unconditional constant return")
			return true
		}
		okc, why := symmetricCond(cond)
		if okc && inLoop {
			// element-wise comparison of two equally derived sequences is fine
		}
		c.check(okc, R, construct, c.P.Pos(rs.Pos()), "early exit under the operand-symmetric condition "+types.ExprString(cond),
			"early exit is not operand-symmetric: "+why)
		return true
	})
}

func equalityExtra(c *Ctx) {
	c.rule("symmetric-comparison", "every exit of list equality is decided by a condition invariant under swapping the operands (nil test of the argument, same-field length comparison, or comparison of two locals derived identically from one operand each)")
	c.symmetricExitRule("sbom.(*NodeList).Equal")
	c.floor("symmetric-comparison", 4, "length test, roots, edges, nodes")
}

// returnsSorted: a module function whose every return hands out a local slice that was sorted
// (sort.Strings/Ints, slices.Sort) after the last statement that assigns or appends to it.
func returnsSorted(c *Ctx, g *types.Func) bool {
	if g.Pkg() == nil || !strings.HasPrefix(g.Pkg().Path(), modPath+"/") {
		return false
	}
	fd, pk := c.P.FuncDecl(objName(g))
	if fd == nil || fd.Body == nil {
		return false
	}
	ok, n := true, 0
	ast.Inspect(fd.Body, func(x ast.Node) bool {
		rs, isRet := x.(*ast.ReturnStmt)
		if !isRet || len(rs.Results) != 1 {
			return true
		}
		n++
		id, isId := rs.Results[0].(*ast.Ident)
		if !isId {
			ok = false
			return true
		}
		ro := objOfInfo(pk, id)
		var lastSort, lastWrite token.Pos
		ast.Inspect(fd.Body, func(y ast.Node) bool {
			switch s := y.(type) {
			case *ast.CallExpr:
				if f, _ := typeutil.Callee(pk.TypesInfo, s).(*types.Func); f != nil && len(s.Args) >= 1 && objOfInfo(pk, s.Args[0]) == ro {
					switch f.FullName() {
					case "sort.Strings", "sort.Ints", "slices.Sort":
						if s.Pos() < rs.Pos() && s.Pos() > lastSort {
							lastSort = s.Pos()
						}
					}
				}
			case *ast.AssignStmt:
				for _, l := range s.Lhs {
					if objOfInfo(pk, l) == ro && s.Pos() < rs.Pos() && s.Pos() > lastWrite {
						lastWrite = s.Pos()
					}
				}
			}
			return true
		})
		if !lastSort.IsValid() || lastWrite > lastSort {
			ok = false
		}
		return true
	})
	return ok && n > 0
}
