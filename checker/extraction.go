package main

// Extraction results are well-formed node lists: (A) every node enters the result once, and (B) a
// root element of the result names a node that is present. Both are read from the shape of the three
// extraction functions: where the result's Nodes are appended to, and what is known about an
// identifier where it is put into the result's RootElements.

import (
	"fmt"
	"go/ast"
	"go/types"
	"strings"
)

var extractionFuncs = []string{"sbom.(*NodeList).NodeGraph", "sbom.(*NodeList).NodeSiblings", "sbom.(*NodeList).NodeDescendants"}

func isNodeListType(t types.Type) bool {
	if p, ok := t.(*types.Pointer); ok {
		t = p.Elem()
	}
	nt, ok := t.(*types.Named)
	return ok && nt.Obj().Name() == "NodeList" && nt.Obj().Pkg() != nil && strings.HasSuffix(nt.Obj().Pkg().Path(), "/pkg/sbom")
}

func extractionWellFormed(c *Ctx) {
	const RA = "extraction-nodes-once"
	const RB = "extraction-root-is-present"
	c.rule(RA, "in NodeGraph, NodeSiblings and NodeDescendants the nodes of the fresh result are appended at one site inside a range over a map keyed by identifier, or — with several sites — every site is registered in one common seen-set (a negative lookup and an insertion for loop sites, an insertion or an initial entry for straight-line sites): no node can enter the result twice")
	c.rule(RB, "an identifier is put into the RootElements of a fresh extraction result only where the node it names is known to be present: after a positive lookup in an index of the receiver, or as the Id of a node checked against nil")
	for _, fname := range extractionFuncs {
		d := c.decl(RA, fname)
		if d == nil {
			continue
		}
		// fresh results: locals of type NodeList / *NodeList
		fresh := map[types.Object]bool{}
		ast.Inspect(d.fd.Body, func(n ast.Node) bool {
			if id, ok := n.(*ast.Ident); ok {
				if o := d.pkg.TypesInfo.Defs[id]; o != nil && isNodeListType(o.Type()) && declaredInside(o, d.fd.Body) {
					fresh[o] = true
				}
			}
			return true
		})
		type site struct {
			stmt ast.Stmt
			arg  ast.Expr
		}
		var nodeSites []site
		type rootSite struct {
			at  ast.Node
			arg ast.Expr
		}
		var rootSites []rootSite
		ast.Inspect(d.fd.Body, func(n ast.Node) bool {
			switch s := n.(type) {
			case *ast.AssignStmt:
				if len(s.Lhs) != 1 || len(s.Rhs) != 1 {
					return true
				}
				sel, ok := s.Lhs[0].(*ast.SelectorExpr)
				if !ok || !fresh[baseObj(d, sel.X)] {
					return true
				}
				ce, ok := s.Rhs[0].(*ast.CallExpr)
				if !ok {
					return true
				}
				if id, isId := ce.Fun.(*ast.Ident); !isId || id.Name != "append" || len(ce.Args) < 2 {
					return true
				}
				switch sel.Sel.Name {
				case "Nodes":
					for _, a := range ce.Args[1:] {
						nodeSites = append(nodeSites, site{s, a})
					}
				case "RootElements":
					for _, a := range ce.Args[1:] {
						rootSites = append(rootSites, rootSite{s, a})
					}
				}
			case *ast.ExprStmt:
				if ce, ok := s.X.(*ast.CallExpr); ok && len(ce.Args) == 1 {
					if sel, ok := ce.Fun.(*ast.SelectorExpr); ok && fresh[baseObj(d, sel.X)] {
						switch sel.Sel.Name {
						case "AddNode":
							nodeSites = append(nodeSites, site{s, ce.Args[0]})
						case "AddRootNode":
							nodeSites = append(nodeSites, site{s, ce.Args[0]})
						}
					}
				}
			case *ast.CompositeLit:
				if t := d.pkg.TypesInfo.TypeOf(s); t != nil && isNodeListType(t) {
					for _, el := range s.Elts {
						kv, ok := el.(*ast.KeyValueExpr)
						if !ok {
							continue
						}
						k, _ := kv.Key.(*ast.Ident)
						if k == nil || k.Name != "RootElements" {
							continue
						}
						if cl, ok := kv.Value.(*ast.CompositeLit); ok {
							for _, e := range cl.Elts {
								rootSites = append(rootSites, rootSite{s, e})
							}
						}
					}
				}
			}
			return true
		})
		// ---- A: nodes enter once
		if len(nodeSites) == 0 {
			c.undecided(RA, fname, c.P.Pos(d.fd.Pos()), "no statement appending to the result's Nodes was found")
		} else {
			type cls struct {
				kind string // map-range | dedupe | single | range
				set  types.Object
				desc string
			}
			classify := func(s site) cls {
				chain := enclosing(d.fd.Body, s.stmt)
				var inner *ast.RangeStmt
				inLoop := false
				for _, x := range chain {
					switch l := x.(type) {
					case *ast.RangeStmt:
						inner = l
						inLoop = true
					case *ast.ForStmt:
						inner = nil
						inLoop = true
					}
				}
				// a negative lookup in S together with an insertion into S on the way to the site
				for _, f := range membersAt(d, s.stmt) {
					if f.present || f.m == nil {
						continue
					}
					inserted := false
					for _, x := range chain {
						blk, ok := x.(*ast.BlockStmt)
						if !ok {
							continue
						}
						for _, st := range blk.List {
							as, ok := st.(*ast.AssignStmt)
							if !ok {
								continue
							}
							for _, l := range as.Lhs {
								if ix, ok := l.(*ast.IndexExpr); ok && baseObj(d, ix.X) == f.m && sameKey(types.ExprString(ix.Index), f.key) {
									inserted = true
								}
							}
						}
					}
					if inserted {
						return cls{"dedupe", f.m, "negative lookup and insertion in " + f.m.Name()}
					}
				}
				if inner != nil {
					if t := d.pkg.TypesInfo.TypeOf(inner.X); t != nil {
						if _, isMap := t.Underlying().(*types.Map); isMap {
							return cls{"map-range", baseObj(d, inner.X), "range over the map " + types.ExprString(inner.X)}
						}
					}
					return cls{"range", nil, "range over " + types.ExprString(inner.X)}
				}
				if inLoop {
					return cls{"range", nil, "a counting loop"}
				}
				return cls{"single", nil, "straight-line code"}
			}
			var cs []cls
			for _, s := range nodeSites {
				cs = append(cs, classify(s))
			}
			ok, why := true, ""
			if len(cs) == 1 {
				if cs[0].kind == "range" {
					ok, why = false, fmt.Sprintf("the only append site sits in %s without a seen-set: an element listed twice there enters the result twice", cs[0].desc)
				}
			} else {
				// one common set
				var common types.Object
				for _, k := range cs {
					if k.set != nil {
						if common == nil {
							common = k.set
						} else if common != k.set {
							ok, why = false, "the append sites use different seen-sets ("+common.Name()+", "+k.set.Name()+")"
						}
					}
				}
				if common == nil && ok {
					ok, why = false, fmt.Sprintf("%d append sites and no seen-set shared between them", len(cs))
				}
				for i, k := range cs {
					if !ok {
						break
					}
					switch k.kind {
					case "dedupe", "map-range":
					case "single":
						// registered in the common set: an initial entry of its literal or a store
						reg := false
						key := normText(types.ExprString(nodeSites[i].arg)) + ".Id"
						ast.Inspect(d.fd.Body, func(n ast.Node) bool {
							switch x := n.(type) {
							case *ast.AssignStmt:
								for j, l := range x.Lhs {
									if ix, isIx := l.(*ast.IndexExpr); isIx && baseObj(d, ix.X) == common && sameKey(types.ExprString(ix.Index), key) {
										reg = true
									}
									if objOf(d.pkg, l) == common && j < len(x.Rhs) {
										if cl, isCl := x.Rhs[j].(*ast.CompositeLit); isCl {
											for _, el := range cl.Elts {
												if kv, isKV := el.(*ast.KeyValueExpr); isKV && sameKey(types.ExprString(kv.Key), key) {
													reg = true
												}
											}
										}
									}
								}
							}
							return true
						})
						if !reg {
							ok, why = false, fmt.Sprintf("`%s` is appended in straight-line code without being recorded in the seen-set %s that guards the other append site: when a later element is that same node it is appended again, and the result lists one identifier twice", types.ExprString(nodeSites[i].arg), common.Name())
						}
					default:
						ok, why = false, fmt.Sprintf("an append site in %s is not guarded by the seen-set %s", k.desc, common.Name())
					}
				}
			}
			var descs []string
			for _, k := range cs {
				descs = append(descs, k.desc)
			}
			c.check(ok, RA, fname, c.P.Pos(nodeSites[0].stmt.Pos()), "nodes enter the result at: "+strings.Join(descs, "; "), fname+": "+why)
		}
		// ---- B: roots name present nodes
		for i, rs := range rootSites {
			construct := fmt.Sprintf("%s#root@%d", fname, i+1)
			okRoot, how := false, ""
			argText := normText(types.ExprString(rs.arg))
			// v.Id with v checked against nil before
			if strings.HasSuffix(argText, ".Id") {
				var holder ast.Expr
				switch a := ast.Unparen(rs.arg).(type) {
				case *ast.SelectorExpr:
					holder = a.X
				case *ast.CallExpr: // v.GetId()
					if fs, isFS := a.Fun.(*ast.SelectorExpr); isFS && len(a.Args) == 0 {
						holder = fs.X
					}
				}
				if holder != nil {
					if v := objOf(d.pkg, holder); v != nil {
						for _, x := range enclosing(d.fd.Body, rs.at) {
							blk, isBlk := x.(*ast.BlockStmt)
							if !isBlk {
								continue
							}
							for _, st := range blk.List {
								if st.Pos() >= rs.at.Pos() {
									break
								}
								if ifs, isIf := st.(*ast.IfStmt); isIf && ifs.Else == nil && terminates(ifs.Body) {
									for _, dj := range append(disjuncts(ifs.Cond), ifs.Cond) {
										if be, isBE := ast.Unparen(dj).(*ast.BinaryExpr); isBE && be.Op.String() == "==" && objOf(d.pkg, be.X) == v && isNilIdent(d.pkg, be.Y) {
											okRoot, how = true, v.Name()+" is checked against nil"
										}
									}
								}
							}
						}
					}
				}
			}
			if !okRoot {
				var at ast.Node = rs.at
				// facts hold at the statement that contains a literal
				for _, f := range membersAt(d, at) {
					if f.present && sameKey(f.key, argText) {
						okRoot, how = true, "positive lookup of "+f.key+" in "+f.mexpr
					}
				}
			}
			c.check(okRoot, RB, construct, c.P.Pos(rs.at.Pos()), "the root "+argText+" names a present node ("+how+")",
				fmt.Sprintf("%s puts `%s` into the result's RootElements where nothing is known about the node it names: for an identifier that is not in the list the result has a root element without a node", fname, types.ExprString(rs.arg)))
		}
		if len(rootSites) == 0 {
			c.undecided(RB, fname, c.P.Pos(d.fd.Pos()), "no statement filling the result's RootElements was found")
		}
	}
}
