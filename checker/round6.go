package main

// Rules added after the sixth round of seeded changes.

import (
	"fmt"
	"go/ast"
	"go/token"
	"go/types"
	"strings"

	"golang.org/x/tools/go/types/typeutil"
)

// timestampPresenceRule: whether a date attribute is present is decided by a nil test of the
// pointer, never by its value: `ts.GetSeconds() == 0`, `t.IsZero()`, `t.Unix() == 0` treat a date at
// the Unix epoch (SOURCE_DATE_EPOCH=0 builds) as absent.
func timestampPresenceRule(c *Ctx, rule string, ds []*declInfo) {
	c.rule(rule, "no condition in the listed functions tests a timestamp's value for zero (GetSeconds/GetNanos/Unix/UnixNano compared with 0, IsZero()): presence of a date is the non-nil pointer, a date at the epoch is a date")
	for _, d := range ds {
		n := 0
		var bad ast.Node
		what := ""
		ast.Inspect(d.fd.Body, func(m ast.Node) bool {
			var cond ast.Expr
			switch s := m.(type) {
			case *ast.IfStmt:
				cond = s.Cond
			case *ast.CaseClause:
				for _, e := range s.List {
					if isTimestampZeroTest(d, e) != "" && bad == nil {
						bad, what = e, isTimestampZeroTest(d, e)
					}
				}
				return true
			default:
				return true
			}
			n++
			for _, cj := range flattenBool(cond) {
				if w := isTimestampZeroTest(d, cj); w != "" && bad == nil {
					bad, what = cj, w
				}
			}
			return true
		})
		if bad != nil {
			c.bad(rule, d.name, c.P.Pos(bad.Pos()), fmt.Sprintf("%s decides on %s: a date at the Unix epoch is handled as if no date were set, so it is dropped from copies/encodings/merges while the source still carries it", d.name, what))
		} else {
			c.okTrivial(rule, d.name, c.P.Pos(d.fd.Pos()), fmt.Sprintf("%d conditions, none tests a timestamp value for zero", n))
		}
	}
}

func flattenBool(e ast.Expr) []ast.Expr {
	switch x := e.(type) {
	case *ast.ParenExpr:
		return flattenBool(x.X)
	case *ast.UnaryExpr:
		if x.Op == token.NOT {
			return flattenBool(x.X)
		}
	case *ast.BinaryExpr:
		if x.Op == token.LAND || x.Op == token.LOR {
			return append(flattenBool(x.X), flattenBool(x.Y)...)
		}
	}
	return []ast.Expr{e}
}

func isTimestampZeroTest(d *declInfo, e ast.Expr) string {
	isTS := func(x ast.Expr) bool {
		t := d.pkg.TypesInfo.TypeOf(x)
		if t == nil {
			return false
		}
		s := t.String()
		return strings.HasSuffix(s, "timestamppb.Timestamp") || s == "time.Time" || s == "*time.Time"
	}
	zeroCall := func(x ast.Expr) string {
		ce, ok := x.(*ast.CallExpr)
		if !ok {
			return ""
		}
		sel, ok := ce.Fun.(*ast.SelectorExpr)
		if !ok {
			return ""
		}
		switch sel.Sel.Name {
		case "GetSeconds", "GetNanos", "Unix", "UnixNano", "UnixMilli":
			recv := sel.X
			if isTS(recv) {
				return types.ExprString(x)
			}
			// ts.AsTime().Unix()
			if inner, ok := recv.(*ast.CallExpr); ok {
				if isel, ok := inner.Fun.(*ast.SelectorExpr); ok && isel.Sel.Name == "AsTime" && isTS(isel.X) {
					return types.ExprString(x)
				}
			}
		}
		return ""
	}
	switch x := e.(type) {
	case *ast.CallExpr:
		if sel, ok := x.Fun.(*ast.SelectorExpr); ok && sel.Sel.Name == "IsZero" {
			if isTS(sel.X) {
				return types.ExprString(x)
			}
			if inner, ok := sel.X.(*ast.CallExpr); ok {
				if isel, ok := inner.Fun.(*ast.SelectorExpr); ok && isel.Sel.Name == "AsTime" && isTS(isel.X) {
					return types.ExprString(x)
				}
			}
		}
	case *ast.BinaryExpr:
		if x.Op == token.EQL || x.Op == token.NEQ {
			for _, pr := range [][2]ast.Expr{{x.X, x.Y}, {x.Y, x.X}} {
				if v, isC := constOf(d.pkg, pr[1]); isC && v.isInt() && v.int() == 0 {
					if w := zeroCall(pr[0]); w != "" {
						return w + " compared with 0"
					}
				}
			}
		}
	}
	return ""
}

// relateAddsTarget: C08 — RelateNodeAtID names n.Id as an edge target; on every exit after that,
// the node is in the list: the only reason not to add it is that its identifier is already there.
func relateAddsTarget(c *Ctx) {
	const R = "relate-adds-target"
	fname := "sbom.(*NodeList).RelateNodeAtID"
	c.rule(R, "in RelateNodeAtID, once the argument node's identifier has been made an edge target, the function does not return before AddNode(n) except under the presence of n.Id in the receiver's node index")
	d := c.decl(R, fname)
	if d == nil {
		return
	}
	_, par := recvAndParam(d)
	// first statement that makes n.Id an edge target
	var edgePos token.Pos
	ast.Inspect(d.fd.Body, func(m ast.Node) bool {
		switch s := m.(type) {
		case *ast.KeyValueExpr:
			if id, ok := s.Key.(*ast.Ident); ok && id.Name == "To" && mentionsField(d, s.Value, par, "Id") && !edgePos.IsValid() {
				edgePos = s.Pos()
			}
		case *ast.AssignStmt:
			for i, l := range s.Lhs {
				if strings.HasSuffix(normText(types.ExprString(l)), ".To") && i < len(s.Rhs) && mentionsField(d, s.Rhs[i], par, "Id") && !edgePos.IsValid() {
					edgePos = s.Pos()
				}
			}
		}
		return true
	})
	var add ast.Node
	for _, cs := range callsIn(d.pkg, d.fd.Body) {
		if strings.HasSuffix(objName(cs.callee), ".AddNode") && len(cs.call.Args) == 1 && objOf(d.pkg, cs.call.Args[0]) == par {
			add = cs.call
		}
	}
	// AddNode inlined: recv.Nodes = append(recv.Nodes, n)
	ast.Inspect(d.fd.Body, func(m ast.Node) bool {
		as, ok := m.(*ast.AssignStmt)
		if !ok || len(as.Lhs) != 1 || len(as.Rhs) != 1 || !strings.HasSuffix(normText(types.ExprString(as.Lhs[0])), ".Nodes") {
			return true
		}
		if ce, isCall := as.Rhs[0].(*ast.CallExpr); isCall {
			if id, isId := ce.Fun.(*ast.Ident); isId && id.Name == "append" && len(ce.Args) == 2 && objOf(d.pkg, ce.Args[1]) == par {
				add = as
			}
		}
		return true
	})
	if !edgePos.IsValid() || add == nil {
		c.check(add != nil, R, fname+"#adds", c.P.Pos(d.fd.Pos()), "", "RelateNodeAtID makes the node's identifier an edge target but never adds the node: the edge dangles")
		if !edgePos.IsValid() {
			c.undecided(R, fname+"#edge", c.P.Pos(d.fd.Pos()), "the statement that makes n.Id an edge target was not found")
		}
		return
	}
	// the AddNode call is conditional only on absence of n.Id from the node index
	okGuard := true
	why := ""
	for _, y := range enclosing(d.fd.Body, add) {
		ifs, isIf := y.(*ast.IfStmt)
		if !isIf {
			continue
		}
		facts := condMembers(d, ifs.Cond, true, lookupsOf(d), "if")
		okThis := false
		for _, f := range facts {
			if !f.present && strings.HasSuffix(normText(f.key), ".Id") && originOfIndex(d, f.m).kind == "nodes" {
				okThis = true
			}
		}
		if !okThis {
			okGuard, why = false, "AddNode(n) is guarded by "+exprText(c.P.Fset, ifs.Cond)
		}
	}
	// no return between the edge update and AddNode other than "already present"
	ast.Inspect(d.fd.Body, func(m ast.Node) bool {
		rs, ok := m.(*ast.ReturnStmt)
		if !ok || rs.Pos() < edgePos || rs.Pos() > add.Pos() {
			return true
		}
		present := false
		for _, f := range membersAt(d, rs) {
			if f.present && strings.HasSuffix(normText(f.key), ".Id") && originOfIndex(d, f.m).kind == "nodes" {
				present = true
			}
		}
		if !present {
			okGuard, why = false, "a return at "+c.P.Pos(rs.Pos())+" leaves before the node is added"
		}
		return true
	})
	c.check(okGuard, R, fname+"#adds", c.P.Pos(add.Pos()), "the node is added unless its identifier is already present",
		"after making n.Id an edge target, "+why+": the edge can name a node that is not in the list")
}

func lookupsOf(d *declInfo) map[types.Object]*ast.IndexExpr {
	lookups := map[types.Object]*ast.IndexExpr{}
	ast.Inspect(d.fd.Body, func(n ast.Node) bool {
		if s, ok := n.(ast.Stmt); ok {
			if o, ix := commaOkLookup(d, s); o != nil {
				lookups[o] = ix
			}
		}
		return true
	})
	return lookups
}

func mentionsField(d *declInfo, e ast.Expr, o types.Object, field string) bool {
	f := false
	ast.Inspect(e, func(m ast.Node) bool {
		if sel, ok := m.(*ast.SelectorExpr); ok && sel.Sel.Name == field && objOf(d.pkg, sel.X) == o && o != nil {
			f = true
		}
		if ce, ok := m.(*ast.CallExpr); ok {
			if sel, ok := ce.Fun.(*ast.SelectorExpr); ok && sel.Sel.Name == "Get"+field && objOf(d.pkg, sel.X) == o && o != nil {
				f = true
			}
		}
		return !f
	})
	return f
}

// verbatimCopyGuards: C02 — in the CycloneDX converters an attribute copied as it is may be
// skipped only because it is empty/absent. A comparison of the value with a non-empty constant in
// the guard drops particular values ("NOASSERTION", "NONE", …) that CycloneDX carries like any other text.
func verbatimCopyGuards(c *Ctx, rule string, ds []*declInfo, srcType string) {
	c.rule(rule, "an assignment that copies a source string attribute unchanged into the target is guarded only by emptiness/nil tests: no guard compares the copied value with a non-empty constant")
	for _, d := range ds {
		src := paramOfType(d, srcType)
		if src == nil {
			continue
		}
		n := 0
		defs := singleDefs(d.pkg, d.fd.Body)
		ast.Inspect(d.fd.Body, func(m ast.Node) bool {
			as, ok := m.(*ast.AssignStmt)
			if !ok || len(as.Lhs) != 1 || len(as.Rhs) != 1 {
				return true
			}
			if _, isSel := as.Lhs[0].(*ast.SelectorExpr); !isSel {
				return true
			}
			// the copied value: a field/getter of the source, possibly through an if-init local
			val := as.Rhs[0]
			var alias types.Object
			if id, isId := val.(*ast.Ident); isId {
				alias = objOf(d.pkg, id)
				for _, y := range enclosing(d.fd.Body, as) {
					if ifs, isIf := y.(*ast.IfStmt); isIf {
						if ini, isAs := ifs.Init.(*ast.AssignStmt); isAs && len(ini.Lhs) == 1 && len(ini.Rhs) == 1 && objOf(d.pkg, ini.Lhs[0]) == alias {
							val = ini.Rhs[0]
						}
					}
				}
				if val == as.Rhs[0] {
					val = chase(d.pkg, defs, val)
				}
			}
			if baseObj(d, val) != src {
				return true
			}
			if t := d.pkg.TypesInfo.TypeOf(val); t == nil || !isString(t) {
				return true
			}
			vt := normText(types.ExprString(val))
			n++
			for _, y := range enclosing(d.fd.Body, as) {
				ifs, isIf := y.(*ast.IfStmt)
				if !isIf {
					continue
				}
				for _, cj := range flattenBool(ifs.Cond) {
					be, isB := cj.(*ast.BinaryExpr)
					if !isB || (be.Op != token.EQL && be.Op != token.NEQ) {
						continue
					}
					for _, pr := range [][2]ast.Expr{{be.X, be.Y}, {be.Y, be.X}} {
						v, isC := constOf(d.pkg, pr[1])
						if !isC || !v.isStr() || v.str() == "" {
							continue
						}
						lt := normText(types.ExprString(pr[0]))
						if lt == vt || (alias != nil && objOf(d.pkg, pr[0]) == alias) {
							c.bad(rule, d.name+"#"+normText(types.ExprString(as.Lhs[0])), c.P.Pos(cj.Pos()), fmt.Sprintf("%s is copied from %s only when the value differs from the constant %q: that particular value is silently dropped although the target format carries it like any other text", types.ExprString(as.Lhs[0]), vt, v.str()))
						}
					}
				}
			}
			return true
		})
		c.okTrivial(rule, d.name, c.P.Pos(d.fd.Pos()), fmt.Sprintf("%d verbatim string copies examined", n))
	}
}

// lifecyclePhaseRule: C02 — a typed document type is written with its phase: the store of the
// lifecycle phase is conditional only on the type being set.
func lifecyclePhaseRule(c *Ctx) {
	const R = "lifecycle-phase-for-typed"
	c.rule(R, "in the CycloneDX writer the store `lifecycle.Phase = sbomTypeToPhase(dt)` depends only on nil tests of dt.Type (and error checks): whether a typed document type carries a name does not decide whether its phase is written")
	if c.decl(R, cdxSer) == nil {
		return
	}
	found := false
	// the store may sit in Serialize or in a helper it is split into
	for _, d := range pkgFilter(c.reachDecls(R, cdxSer), "serializers.") {
		ast.Inspect(d.fd.Body, func(m ast.Node) bool {
			as, ok := m.(*ast.AssignStmt)
			if !ok || len(as.Rhs) != 1 {
				return true
			}
			ce, isCall := as.Rhs[0].(*ast.CallExpr)
			if !isCall || calleeBase(d, ce, "") != "sbomTypeToPhase" {
				return true
			}
			found = true
			chain := enclosing(d.fd.Body, as)
			okAll := true
			why := ""
			for i, y := range chain {
				ifs, isIf := y.(*ast.IfStmt)
				if !isIf || i+1 >= len(chain) {
					continue
				}
				for _, cj := range flattenBool(ifs.Cond) {
					t := normText(types.ExprString(cj))
					isTypeNil := strings.Contains(t, ".Type") && strings.Contains(t, "nil")
					isErr := strings.Contains(t, "err")
					if !isTypeNil && !isErr {
						okAll, why = false, t
					}
				}
			}
			// early exits ahead of the store count as conditions too
			// (only exits of the per-document-type code: inside the enclosing loop, or of the helper)
			var scope ast.Node = d.fd.Body
			for _, y := range chain {
				switch l := y.(type) {
				case *ast.RangeStmt:
					scope = l.Body
				case *ast.ForStmt:
					scope = l.Body
				}
			}
			for _, cond := range earlyExits(d, as) {
				if cond.Pos() < scope.Pos() || cond.End() > scope.End() {
					continue
				}
				for _, cj := range flattenBool(cond) {
					t := normText(types.ExprString(cj))
					if !(strings.Contains(t, ".Type") && strings.Contains(t, "nil")) && !strings.Contains(t, "err") && !strings.Contains(t, "nil") {
						okAll, why = false, t
					}
				}
			}
			c.check(okAll, R, cdxSer+"#phase", c.P.Pos(as.Pos()), "the phase is written whenever the document type is typed",
				fmt.Sprintf("whether the lifecycle phase is written depends on `%s`: a typed document type for which that condition goes the other way is written without its phase and reads back untyped", why))
			return true
		})
	}
	if !found {
		c.undecided(R, cdxSer+"#phase", "-", "no store of sbomTypeToPhase(…) into a lifecycle found")
	}
}

// readerValueUntransformed: C01 — the SPDX reader stores text attributes as they are in the
// document. A string attribute of a Node or Person that is computed by a function from the source
// text (other than trimming) may not be invertible.
func readerValueUntransformed(c *Ctx, rule string, ds []*declInfo) {
	c.rule(rule, "in the SPDX reader a string field of sbom.Node / sbom.Person is assigned a source field, a constant, a conversion, strings.TrimSpace of a source field, or the result of a module function that returns one of its arguments unchanged — never text computed from the source by another function")
	allowed := map[string]bool{"strings.TrimSpace": true, "sbom.NewNodeIdentifier": true, "unserializers.buildDocumentIdentifier": true}
	for _, d := range ds {
		n := 0
		check := func(owner *types.Named, field string, val ast.Expr, pos token.Pos) {
			if owner == nil || (owner.Obj().Name() != "Node" && owner.Obj().Name() != "Person") {
				return
			}
			t := d.pkg.TypesInfo.TypeOf(val)
			if t == nil || !isString(t) {
				return
			}
			n++
			defs := singleDefs(d.pkg, d.fd.Body)
			v := chase(d.pkg, defs, val)
			// a local bound by a tuple assignment from a call: `_, name, email := f(x)`
			if id, isId := v.(*ast.Ident); isId {
				o := objOf(d.pkg, id)
				ast.Inspect(d.fd.Body, func(m ast.Node) bool {
					if as, ok := m.(*ast.AssignStmt); ok && len(as.Rhs) == 1 && len(as.Lhs) > 1 {
						for _, l := range as.Lhs {
							if objOf(d.pkg, l) == o && o != nil {
								v = as.Rhs[0]
							}
						}
					}
					return true
				})
			}
			ce, isCall := v.(*ast.CallExpr)
			if !isCall {
				return
			}
			if tv, ok := d.pkg.TypesInfo.Types[ce.Fun]; ok && tv.IsType() {
				return
			}
			f, _ := typeutil.Callee(d.pkg.TypesInfo, ce).(*types.Func)
			if f == nil {
				return
			}
			name := f.FullName()
			if allowed[name] || allowed[objName(f)] {
				return
			}
			if sel, ok := ce.Fun.(*ast.SelectorExpr); ok && strings.HasPrefix(sel.Sel.Name, "Get") && len(ce.Args) == 0 {
				return // generated getter
			}
			if f.Pkg() != nil && strings.HasPrefix(f.Pkg().Path(), modPath+"/") && returnsAnArgument(f) {
				return
			}
			c.bad(rule, d.name+"#"+owner.Obj().Name()+"."+field, c.P.Pos(pos), fmt.Sprintf("%s.%s is set to text computed by %s from the document's value: what the writer wrote verbatim is not what is read back whenever that function is not the identity (names with parentheses, prefixes, …)", owner.Obj().Name(), field, name))
		}
		for _, fi := range fieldInits(d.pkg, d.fd.Body) {
			check(fi.owner, fi.field.Name(), fi.value.(ast.Expr), fi.value.Pos())
		}
		c.okTrivial(rule, d.name, c.P.Pos(d.fd.Pos()), fmt.Sprintf("%d string attributes examined", n))
	}
}

// returnsAnArgument: every return of the module function is one of its parameters or a constant.
func returnsAnArgument(f *types.Func) bool {
	if theProgram == nil {
		return false
	}
	fd, pk := theProgram.FuncDecl(objName(f))
	if fd == nil || fd.Body == nil {
		return false
	}
	params := map[types.Object]bool{}
	if fd.Type.Params != nil {
		for _, fl := range fd.Type.Params.List {
			for _, n := range fl.Names {
				params[pk.TypesInfo.Defs[n]] = true
			}
		}
	}
	ok, rets := true, 0
	ast.Inspect(fd.Body, func(m ast.Node) bool {
		rs, isRet := m.(*ast.ReturnStmt)
		if !isRet {
			return true
		}
		rets++
		for _, r := range rs.Results {
			if _, isC := pk.TypesInfo.Types[r]; isC && pk.TypesInfo.Types[r].Value != nil {
				continue
			}
			id, isId := r.(*ast.Ident)
			if !isId || !params[pk.TypesInfo.Uses[id]] {
				ok = false
			}
		}
		return true
	})
	return ok && rets > 0
}

// sniffFileWholeStream: C06 — SniffFile hands the opened file itself to SniffReader: a limited or
// sectioned view makes detection depend on the size of the document.
func sniffFileWholeStream(c *Ctx) {
	const R = "sniff-file-whole-stream"
	c.rule(R, "SniffFile passes the *os.File it opened to SniffReader unchanged (no io.LimitReader / io.NewSectionReader / buffer of fixed size in between)")
	d := c.decl(R, "formats.(*Sniffer).SniffFile")
	if d == nil {
		return
	}
	defs := singleDefs(d.pkg, d.fd.Body)
	found := false
	for _, cs := range callsIn(d.pkg, d.fd.Body) {
		if !strings.HasSuffix(objName(cs.callee), ".SniffReader") || len(cs.call.Args) != 1 {
			continue
		}
		found = true
		a := cs.call.Args[0]
		okArg := false
		if id, isId := a.(*ast.Ident); isId {
			// f, err := os.Open(path)
			ast.Inspect(d.fd.Body, func(m ast.Node) bool {
				if as, ok := m.(*ast.AssignStmt); ok && len(as.Rhs) == 1 && len(as.Lhs) >= 1 && objOf(d.pkg, as.Lhs[0]) == objOf(d.pkg, id) {
					if ce, isCall := as.Rhs[0].(*ast.CallExpr); isCall {
						if f, _ := typeutil.Callee(d.pkg.TypesInfo, ce).(*types.Func); f != nil && (f.FullName() == "os.Open" || f.FullName() == "os.OpenFile") {
							okArg = true
						}
					}
				}
				return true
			})
		}
		_ = defs
		c.check(okArg, R, "formats.(*Sniffer).SniffFile#stream", c.P.Pos(cs.call.Pos()), "the opened file is sniffed as it is",
			fmt.Sprintf("SniffFile sniffs %s instead of the opened file: detection sees only part of the document, so a large document written by protobom is reported as unknown", types.ExprString(a)))
	}
	if !found {
		c.undecided(R, "formats.(*Sniffer).SniffFile#stream", c.P.Pos(d.fd.Pos()), "no call of SniffReader found")
	}
}
