package main

// work-list-not-aliased — `y = x[:k]` keeps x's backing array: appending to y overwrites the
// elements of every slice that still shares that array. That is harmless only in the in-place
// filter idiom (range over x, append the ranged element itself, at most once per iteration, so the
// write index never overtakes the read index). Any other append to y while x, or a variable that
// was assigned from/to x, is being ranged corrupts the iteration.

import (
	"fmt"
	"go/ast"
	"go/token"
	"go/types"
	"sort"
)

func resliceReuseRule(c *Ctx, ds []*declInfo) {
	const R = "work-list-not-aliased"
	c.rule(R, "a slice obtained by re-slicing with an explicit upper bound (x[:k], x[:0]) is appended to, while x or an alias of x is being ranged, only in the in-place filter shape (the appended value is the ranged element, once per iteration, not inside an inner loop)")
	for _, d := range ds {
		slices := 0
		info := d.pkg.TypesInfo
		// flow-insensitive alias classes of slice-typed locals
		parent := map[types.Object]types.Object{}
		var find func(o types.Object) types.Object
		find = func(o types.Object) types.Object {
			if p, ok := parent[o]; ok && p != o {
				r := find(p)
				parent[o] = r
				return r
			}
			return o
		}
		union := func(a, b types.Object) {
			if a == nil || b == nil {
				return
			}
			ra, rb := find(a), find(b)
			if ra != rb {
				parent[ra] = rb
			}
		}
		isSlice := func(e ast.Expr) bool {
			t := info.TypeOf(e)
			if t == nil {
				return false
			}
			_, ok := t.Underlying().(*types.Slice)
			return ok
		}
		sliceBase := func(e ast.Expr) types.Object {
			for {
				switch x := e.(type) {
				case *ast.ParenExpr:
					e = x.X
					continue
				case *ast.SliceExpr:
					e = x.X
					continue
				case *ast.Ident:
					return objOf(d.pkg, x)
				}
				return nil
			}
		}
		type reslice struct {
			y   types.Object
			x   types.Object
			pos token.Pos
			txt string
		}
		var rss []reslice
		ast.Inspect(d.fd.Body, func(n ast.Node) bool {
			as, ok := n.(*ast.AssignStmt)
			if !ok || len(as.Lhs) != len(as.Rhs) {
				return true
			}
			for i, l := range as.Lhs {
				if !isSlice(l) {
					continue
				}
				lo := objOf(d.pkg, l)
				r := as.Rhs[i]
				if id, isId := r.(*ast.Ident); isId && isSlice(r) {
					union(lo, objOf(d.pkg, id))
				}
				if se, isSe := r.(*ast.SliceExpr); isSe && isSlice(se.X) {
					slices++
					base := sliceBase(se.X)
					if se.High != nil && lo != nil && base != nil {
						rss = append(rss, reslice{lo, base, se.Pos(), exprText(c.P.Fset, se)})
					}
					// the result shares storage with its operand either way
					union(lo, base)
				}
			}
			return true
		})
		if len(rss) == 0 {
			c.okTrivial(R, d.name+"#none", c.P.Pos(d.fd.Pos()), fmt.Sprintf("%d slice expressions, none re-slices a list with an upper bound", slices))
			continue
		}
		for _, rs := range rss {
			class := find(rs.y)
			key := fmt.Sprintf("%s#%s=%s", d.name, rs.y.Name(), normText(rs.txt))
			var problems []string
			var ppos token.Pos
			loops := 0
			ast.Inspect(d.fd.Body, func(n ast.Node) bool {
				rng, ok := n.(*ast.RangeStmt)
				if !ok || !isSlice(rng.X) {
					return true
				}
				ro := sliceBase(rng.X)
				if ro == nil || find(ro) != class {
					return true
				}
				var valObj, keyObj types.Object
				if rng.Value != nil {
					valObj = objOf(d.pkg, rng.Value)
				}
				if rng.Key != nil {
					keyObj = objOf(d.pkg, rng.Key)
				}
				appends := 0
				ast.Inspect(rng.Body, func(m ast.Node) bool {
					as, ok := m.(*ast.AssignStmt)
					if !ok || len(as.Lhs) != 1 || len(as.Rhs) != 1 || objOf(d.pkg, as.Lhs[0]) != rs.y {
						return true
					}
					ce, ok := as.Rhs[0].(*ast.CallExpr)
					if !ok {
						return true
					}
					if fid, ok := ce.Fun.(*ast.Ident); !ok || fid.Name != "append" || len(ce.Args) < 1 || objOf(d.pkg, ce.Args[0]) != rs.y {
						return true
					}
					loops++
					appends++
					// shape: exactly one appended value, the ranged element, not in an inner loop
					inner := false
					for _, y := range enclosing(rng.Body, as) {
						switch y.(type) {
						case *ast.ForStmt, *ast.RangeStmt:
							inner = true
						}
					}
					elemOK := false
					if len(ce.Args) == 2 && !ce.Ellipsis.IsValid() {
						switch a := ce.Args[1].(type) {
						case *ast.Ident:
							elemOK = valObj != nil && objOf(d.pkg, a) == valObj
						case *ast.IndexExpr:
							elemOK = keyObj != nil && objOf(d.pkg, a.Index) == keyObj && sliceBase(a.X) == ro
						}
					}
					if inner || !elemOK || appends > 1 {
						if ppos == token.NoPos {
							ppos = as.Pos()
						}
						problems = append(problems, fmt.Sprintf("%s while ranging %s", exprText(c.P.Fset, as), exprText(c.P.Fset, rng.X)))
					}
					return true
				})
				return true
			})
			sort.Strings(problems)
			if len(problems) > 0 {
				c.bad(R, key, c.P.Pos(ppos), fmt.Sprintf("%s := %s shares its backing array with the list being ranged; %s overwrites elements that have not been visited yet (not the in-place filter shape)", rs.y.Name(), rs.txt, problems[0]))
			} else {
				c.ok(R, key, c.P.Pos(rs.pos), fmt.Sprintf("re-sliced list is appended to in %d place(s) while an alias is ranged, all in the in-place filter shape", loops))
			}
		}
	}
}
