package main

import "strings"

func equalFold(a, b string) bool { return strings.EqualFold(a, b) }

func selfTest(c *Ctx, repo, verif string, extra map[string]any) {}
