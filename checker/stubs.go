package main

import "strings"

func equalFold(a, b string) bool { return strings.EqualFold(a, b) }

func spdxFlow(c *Ctx, prop string) {}

func selfTest(c *Ctx, repo, verif string, extra map[string]any) {}

func cdxFlow(c *Ctx)                      {}
func cdxTreeAssembly(c *Ctx, prop string) {}

func diffHelpers(c *Ctx) {}

func geometricAccumulation(c *Ctx, ds []*declInfo) {}
