package main

import "strings"

func equalFold(a, b string) bool { return strings.EqualFold(a, b) }
