package main

import (
	"fmt"
	"go/ast"
	"go/token"
	"go/types"
	"strings"

	"golang.org/x/tools/go/ssa"
)

// driverStateRule: the format drivers are singletons held in process-wide registries, so their
// entry methods must not keep state on the receiver: no store reaches memory of parameter 0.
func driverStateRule(c *Ctx, rule string, methods []string, o *origins) {
	c.rule(rule, "Serialize/Render/Unserialize of the registered drivers (singletons shared by every reader and writer) write no memory reachable from their receiver, and touch no package-level variable that is written after initialisation")
	for _, name := range methods {
		fn := c.P.Func(name)
		if fn == nil {
			c.undecided(rule, "anchor:"+name, "-", "driver method not found")
			continue
		}
		c.sawFunc(name)
		s := o.sums[fn]
		if s == nil {
			c.undecided(rule, name, c.P.Pos(fn.Pos()), "no summary")
			continue
		}
		var w []mutation
		for _, m := range s.muts {
			if m.param == 0 {
				w = append(w, m)
			}
		}
		if len(w) > 0 {
			c.bad(rule, name+"#receiver", c.P.Pos(w[0].pos), describeMuts(c, name, "receiver (the shared driver object)", w)+": state carries over from one document to the next and concurrent calls race on it")
		} else {
			c.ok(rule, name+"#receiver", c.P.Pos(fn.Pos()), "the driver object is not written")
		}
		var gw []string
		for g := range s.globWrite {
			if c.P.inModuleGlobal(g) && !strings.HasSuffix(c.P.Fset.Position(g.Pos()).Filename, ".pb.go") {
				gw = append(gw, globalName(g))
			}
		}
		c.check(len(gw) == 0, rule, name+"#globals", c.P.Pos(fn.Pos()), "writes no package-level variable", fmt.Sprintf("writes package-level state %v", gw))
	}
}

var driverMethods = []string{cdxSer, spdxSer, "beta.(*SPDX3).Serialize", "serializers.(*CDX).Render", "serializers.(*SPDX23).Render", "beta.(*SPDX3).Render", cdxUnser, spdxUnser}

func serializerState(c *Ctx) {
	o := newOrigins(c.P)
	// determinism across calls also needs the input document to stay untouched
	const RW = "no-operand-write"
	c.rule(RW, "Serialize writes no memory reachable from the document it is given (origin dataflow, see C11): otherwise a second serialization of the same document sees a different value")
	for _, n := range []string{cdxSer, spdxSer, "beta.(*SPDX3).Serialize"} {
		fn := c.P.Func(n)
		if fn == nil || o.sums[fn] == nil || len(fn.Params) < 2 {
			c.undecided(RW, "anchor:"+n, "-", "serializer not found")
			continue
		}
		var w []mutation
		for _, m := range o.sums[fn].muts {
			if m.param == 1 {
				w = append(w, m)
			}
		}
		if len(w) == 0 {
			c.ok(RW, n+"#bom", c.P.Pos(fn.Pos()), "the document is not written")
		} else {
			c.bad(RW, n+"#bom", c.P.Pos(w[0].pos), describeMuts(c, n, "bom", w))
		}
	}
	driverStateRule(c, "driver-keeps-no-state", []string{cdxSer, spdxSer, "beta.(*SPDX3).Serialize", "serializers.(*CDX).Render", "serializers.(*SPDX23).Render", "beta.(*SPDX3).Render"}, o)
	nondetRule(c, serializerEntries, map[string]string{
		"serializers.(*SPDX23).Serialize→time.Now@Created": "creation timestamp of the SPDX document (excluded by the statement)",
		"beta.(*SPDX3).Serialize→time.Now":                 "creation timestamp of the SPDX 3 document (excluded by the statement)",
	})
}

// singleSection: a function that reads a mutex-guarded variable does so in one critical section:
// it does not take the mutex twice and does not also call a module function that takes it.
func singleSection(c *Ctx) {
	const R = "single-critical-section"
	c.rule(R, "a function that accesses a mutex-guarded package-level variable performs all of its accesses, including those of module functions it calls, inside one critical section (no check in one section and act in another)")
	for gname, mname := range mutexFor {
		// functions that lock the mutex, and how many times
		lockers := map[*ssa.Function]int{}
		for _, fn := range c.P.Funcs {
			for _, b := range fn.Blocks {
				for _, ins := range b.Instrs {
					if call, ok := ins.(*ssa.Call); ok {
						if sc := call.Common().StaticCallee(); sc != nil && (strings.HasSuffix(sc.String(), ".Lock") || strings.HasSuffix(sc.String(), ".RLock")) && len(call.Common().Args) > 0 {
							if g, ok := call.Common().Args[0].(*ssa.Global); ok && globalName(g) == mname {
								lockers[fn]++
							}
						}
					}
				}
			}
		}
		for fn, n := range lockers {
			if isInitFn(fn) {
				continue
			}
			sections := n
			var via []string
			for _, b := range fn.Blocks {
				for _, ins := range b.Instrs {
					if call, ok := ins.(ssa.CallInstruction); ok {
						if sc := call.Common().StaticCallee(); sc != nil && lockers[sc] > 0 && sc != fn {
							sections++
							via = append(via, fnName(sc))
						}
					}
				}
			}
			construct := gname + "@" + fnName(fn)
			c.check(sections == 1, R, construct, c.P.Pos(fn.Pos()), "one critical section",
				fmt.Sprintf("%s enters %d critical sections of %s (own: %d, through %v): a registration or removal between them makes it return a result no sequential order produces", fnName(fn), sections, mname, n, via))
		}
	}
}

// resultDiscipline: C04-D2. Every return of the listed (T, error) functions is (nil-ish, error
// known non-nil) or (value known non-nil, nil).
func resultDiscipline(c *Ctx, fns []string) {
	const R = "result-discipline"
	c.rule(R, "every return of a parser entry point yields either its zero result together with an error that is known to be non-nil there (a constructor call, or a variable under `!= nil`), or a result that is known to be non-nil together with a nil error; a document result has metadata and node list set")
	saved := untrustedStructPkgs
	defer func() { untrustedStructPkgs = saved }()
	for _, name := range fns {
		d := c.decl(R, name)
		if d == nil {
			continue
		}
		e := newNilEngine(c)
		w := &nilWalker{e: e, d: d, sum: &nilSummary{requires: map[int]string{}, mayReturnNil: map[int]bool{}}, record: false}
		n := 0
		w.onReturn = func(rs *ast.ReturnStmt, f *facts) {
			if len(rs.Results) != 2 {
				return
			}
			n++
			construct := fmt.Sprintf("%s#return@%d", name, n)
			pos := c.P.Pos(rs.Pos())
			r0, r1 := rs.Results[0], rs.Results[1]
			zero0 := isNilIdent(d.pkg, r0)
			if v, ok := constOf(d.pkg, r0); ok && v.isStr() && v.str() == "" {
				zero0 = true
			}
			errKnownNonNil := false
			if _, isCall := r1.(*ast.CallExpr); isCall {
				errKnownNonNil = true
			} else if p := w.path(r1); p != "" && f.nonnil[p] {
				errKnownNonNil = true
			}
			errKnownNil := isNilIdent(d.pkg, r1)
			if p := w.path(r1); p != "" && f.isnil[p] {
				errKnownNil = true
			}
			switch {
			case zero0 && errKnownNonNil:
				c.ok(R, construct, pos, "failure: zero result with a non-nil error")
			case zero0:
				c.bad(R, construct, pos, fmt.Sprintf("returns %s together with %s, which is not known to be non-nil at this point (no `!= nil` test of it dominates the return): the caller can receive neither a result nor an error", types.ExprString(r0), types.ExprString(r1)))
			default:
				nonNil := false
				if p := w.path(r0); p != "" && f.nonnil[p] {
					nonNil = true
				}
				if ab, _ := w.absent(r0, 0); !ab {
					if _, isIx := r0.(*ast.IndexExpr); !isIx {
						nonNil = nonNil || !isPtrLike(d.pkg.TypesInfo.TypeOf(r0)) || w.definedNonNil(r0, f)
					}
				}
				if t := d.pkg.TypesInfo.TypeOf(r0); t != nil && !isPtrLike(t) {
					nonNil = true // value results (formats.Format) are checked by their own rules
				}
				if !errKnownNil {
					c.bad(R, construct, pos, fmt.Sprintf("returns a result together with %s, which is not known to be nil here", types.ExprString(r1)))
				} else if !nonNil {
					c.bad(R, construct, pos, fmt.Sprintf("returns %s with a nil error, but %s may be nil here (a map lookup or optional value without a dominating presence test in the same critical section): the caller receives neither a result nor an error", types.ExprString(r0), types.ExprString(r0)))
				} else {
					c.ok(R, construct, pos, "success: non-nil result with a nil error")
				}
			}
		}
		w.run()
	}
	c.floor(R, 10, "returns of the two Unserialize methods, ParseStreamWithOptions, detectFormat, SniffReader, GetFormatUnserializer")
	_ = token.NoPos
}
