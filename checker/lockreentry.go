package main

// no-lock-reentry: "never hangs". sync.Mutex and sync.RWMutex are not reentrant: a goroutine that
// holds a package-level mutex (for reading or writing) and then calls something that acquires the
// same mutex again blocks for ever (a read lock cannot be upgraded; a second read lock deadlocks
// behind any waiting writer). For every function in scope that takes such a mutex, no call made
// while it is held reaches — through the resolved call graph — another acquisition of that mutex.

import (
	"fmt"
	"sort"
	"strings"

	"golang.org/x/tools/go/callgraph"
	"golang.org/x/tools/go/ssa"
)

func lockAcquisitions(fn *ssa.Function) map[string]bool {
	out := map[string]bool{}
	for _, b := range fn.Blocks {
		for _, ins := range b.Instrs {
			call, ok := ins.(*ssa.Call)
			if !ok {
				continue
			}
			sc := call.Common().StaticCallee()
			if sc == nil || len(call.Common().Args) == 0 {
				continue
			}
			switch sc.String() {
			case "(*sync.Mutex).Lock", "(*sync.RWMutex).Lock", "(*sync.RWMutex).RLock":
				if g, isG := call.Common().Args[0].(*ssa.Global); isG {
					out[globalName(g)] = true
				}
			}
		}
	}
	return out
}

// noLockReentry checks the functions reachable from the roots (all module functions when roots is
// nil).
func noLockReentry(c *Ctx, roots []string) {
	const R = "no-lock-reentry"
	c.rule(R, "while a function holds a package-level sync.Mutex/RWMutex (lock sets over SSA blocks), no call it makes reaches, through the VTA call graph, a Lock or RLock of the same mutex; the mutexes are not reentrant and a read lock cannot be upgraded, so such a call never returns")
	var scope []*ssa.Function
	if roots == nil {
		scope = c.P.Funcs
	} else {
		_, scope = c.reachSSA(c.rootsOf(R, roots))
	}
	g := c.callGraph()
	// transitive acquisitions, with a witness chain
	memo := map[*ssa.Function]map[string][]string{}
	var trans func(fn *ssa.Function, stack map[*ssa.Function]bool) map[string][]string
	trans = func(fn *ssa.Function, stack map[*ssa.Function]bool) map[string][]string {
		if m, ok := memo[fn]; ok {
			return m
		}
		if stack[fn] {
			return nil
		}
		stack[fn] = true
		defer delete(stack, fn)
		out := map[string][]string{}
		for m := range lockAcquisitions(fn) {
			out[m] = []string{fnName(fn)}
		}
		if n := g.Nodes[fn]; n != nil {
			for _, e := range n.Out {
				if e.Callee == nil || e.Callee.Func == nil {
					continue
				}
				if _, isGo := e.Site.(*ssa.Go); isGo {
					continue // another goroutine: the caller does not wait for it
				}
				t := e.Callee.Func
				if o := t.Origin(); o != nil {
					t = o
				}
				if !c.P.inModule(t) || t.Blocks == nil || strings.Contains(fnPkgPath(t), "fakes") {
					continue
				}
				for m, via := range trans(t, stack) {
					if _, have := out[m]; !have {
						out[m] = append([]string{fnName(fn)}, via...)
					}
				}
			}
		}
		for _, a := range fn.AnonFuncs {
			_ = a // closures acquire only when called; calls are edges of the graph
		}
		memo[fn] = out
		return out
	}
	n := 0
	for _, fn := range scope {
		if len(lockAcquisitions(fn)) == 0 {
			continue
		}
		ls := lockStates(fn)
		edges := map[ssa.CallInstruction][]*callgraph.Edge{}
		if node := g.Nodes[fn]; node != nil {
			for _, e := range node.Out {
				edges[e.Site] = append(edges[e.Site], e)
			}
		}
		bad := map[string]string{}
		var badPos = map[string]ssa.Instruction{}
		for _, b := range fn.Blocks {
			for _, ins := range b.Instrs {
				call, ok := ins.(*ssa.Call)
				if !ok || len(ls[ins]) == 0 {
					continue
				}
				held := ls[ins]
				// a second acquisition in the function itself
				if sc := call.Common().StaticCallee(); sc != nil && len(call.Common().Args) > 0 {
					switch sc.String() {
					case "(*sync.Mutex).Lock", "(*sync.RWMutex).Lock", "(*sync.RWMutex).RLock":
						if gl, isG := call.Common().Args[0].(*ssa.Global); isG {
							if _, h := held[globalName(gl)]; h {
								bad[globalName(gl)] = "acquires it again itself"
								badPos[globalName(gl)] = ins
							}
						}
						continue
					}
				}
				for _, e := range edges[call] {
					if e.Callee == nil || e.Callee.Func == nil {
						continue
					}
					t := e.Callee.Func
					if o := t.Origin(); o != nil {
						t = o
					}
					if !c.P.inModule(t) || t.Blocks == nil || strings.Contains(fnPkgPath(t), "fakes") {
						continue
					}
					tr := trans(t, map[*ssa.Function]bool{})
					for m := range held {
						if via, re := tr[m]; re {
							if _, seen := bad[m]; !seen {
								bad[m] = "calls " + strings.Join(via, " → ") + ", which acquires it"
								badPos[m] = ins
							}
						}
					}
				}
			}
		}
		var ms []string
		for m := range lockAcquisitions(fn) {
			ms = append(ms, m)
		}
		sort.Strings(ms)
		for _, m := range ms {
			n++
			key := fnName(fn) + "#" + m
			if why, isBad := bad[m]; isBad {
				c.bad(R, key, c.P.Pos(badPos[m].Pos()), fmt.Sprintf("%s holds %s and %s: the mutex is not reentrant, so the call blocks for ever (and every later user of the registry with it)", fnName(fn), m, why))
			} else {
				c.ok(R, key, c.P.Pos(fn.Pos()), "no call made while "+m+" is held acquires it again")
			}
		}
	}
	_ = n
}
