package main

import (
	"fmt"
	"sort"
)

func init() {
	register("LOOPS", "development aid: dump conversion loops", func(c *Ctx) {
		roots := []string{spdxSer, spdxUnser, cdxSer, cdxUnser, "beta.(*SPDX3).Serialize",
			"sbom.(*NodeList).Union", "sbom.(*NodeList).Intersect", "sbom.(*NodeList).Add", "sbom.(*NodeList).RemoveNodes",
			"sbom.(*NodeList).NodeGraph", "sbom.(*NodeList).NodeSiblings", "sbom.(*NodeList).NodeDescendants", "sbom.(*NodeList).GetNodesByPurlType",
			"sbom.(*NodeList).RelateNodeAtID", "sbom.(*NodeList).RelateNodeListAtID", "sbom.(*NodeList).Copy", "sbom.(*NodeList).Equal",
			"sbom.(*NodeList).GetMatchingNode", "sbom.(*NodeList).GetNodesByName", "sbom.(*NodeList).GetNodesByIdentifier", "sbom.(*NodeList).GetRootNodes",
			"sbom.(*Node).Copy", "sbom.(*Node).Diff", "formats.(*Sniffer).SniffReader"}
		ds := c.reachDecls("loops", roots...)
		sort.Slice(ds, func(i, j int) bool { return ds[i].name < ds[j].name })
		for _, d := range ds {
			for _, li := range c.loopsIn(d) {
				fmt.Printf("LOOP %s  @%s accs=%d\n", li.id, c.P.Pos(li.stmt.Pos()), len(li.accs))
				for _, a := range li.accs {
					fmt.Printf("    acc: %s\n", a.what)
				}
				for _, e := range li.exits {
					fmt.Printf("    exit: %s  %s @%s\n", e.kind, e.desc, c.P.Pos(e.pos))
				}
				for _, sp := range li.paths {
					fmt.Printf("    skip-path(%s):", sp.end)
					for _, g := range sp.decisions {
						fmt.Printf(" [%s | %s]", g.class, g.desc)
					}
					fmt.Println()
				}
			}
		}
	})
}
