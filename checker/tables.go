package main

import (
	"fmt"
	"go/ast"
	"go/token"
	"go/types"
	"sort"
	"strings"

	"golang.org/x/tools/go/packages"
)

// declInfo pairs a function declaration with its package.
type declInfo struct {
	fd   *ast.FuncDecl
	pkg  *packages.Package
	obj  *types.Func
	name string
}

// decl resolves a stable function name; a missing anchor is reported as undecided.
func (c *Ctx) decl(rule, name string) *declInfo {
	fd, pk := c.P.FuncDecl(name)
	if fd == nil || fd.Body == nil {
		c.undecided(rule, "anchor:"+name, "-", "anchor function "+name+" not found in the current tree; the rule cannot be evaluated")
		return nil
	}
	c.sawFunc(name)
	obj, _ := pk.TypesInfo.Defs[fd.Name].(*types.Func)
	return &declInfo{fd, pk, obj, name}
}

// reachDecls returns the module function declarations reachable from the named roots through
// statically resolved calls (method values and interface calls are not followed: the table
// rules only need direct helper calls).
func (c *Ctx) reachDecls(rule string, roots ...string) []*declInfo {
	seen := map[string]*declInfo{}
	var order []*declInfo
	var visit func(name string, must bool)
	visit = func(name string, must bool) {
		if _, ok := seen[name]; ok {
			return
		}
		var d *declInfo
		if must {
			d = c.decl(rule, name)
		} else {
			fd, pk := c.P.FuncDecl(name)
			if fd != nil && fd.Body != nil {
				obj, _ := pk.TypesInfo.Defs[fd.Name].(*types.Func)
				d = &declInfo{fd, pk, obj, name}
				c.sawFunc(name)
			}
		}
		seen[name] = d
		if d == nil {
			return
		}
		order = append(order, d)
		for _, cs := range callsIn(d.pkg, d.fd.Body) {
			c.CallSites++
			f := cs.callee
			if f.Pkg() == nil || !strings.HasPrefix(f.Pkg().Path(), modPath+"/") {
				continue
			}
			if o := f.Origin(); o != nil {
				f = o
			}
			// a call through a module interface reaches every module implementation of the method
			if sig, ok := f.Type().(*types.Signature); ok && sig.Recv() != nil && types.IsInterface(sig.Recv().Type()) {
				for _, impl := range c.implementations(sig.Recv().Type(), f.Name()) {
					visit(objName(impl), false)
				}
				continue
			}
			visit(objName(f), false)
		}
	}
	for _, r := range roots {
		visit(r, true)
	}
	return order
}

// converters lists the distinct callees, in the given declarations, accepted by pred.
func converters(ds []*declInfo, pred func(f *types.Func) bool) []*types.Func {
	seen := map[*types.Func]bool{}
	var out []*types.Func
	for _, d := range ds {
		for _, cs := range callsIn(d.pkg, d.fd.Body) {
			if cs.callee.Name() == "String" && cs.callee.Type().(*types.Signature).Params().Len() == 0 {
				continue // fmt.Stringer of a generated enum is not a format converter
			}
			if !seen[cs.callee] && pred(cs.callee) {
				seen[cs.callee] = true
				out = append(out, cs.callee)
			}
		}
	}
	sort.Slice(out, func(i, j int) bool { return objName(out[i]) < objName(out[j]) })
	return out
}

// uniqueConverter reports undecided unless exactly one converter matches.
func (c *Ctx) uniqueConverter(rule, what string, ds []*declInfo, pred func(f *types.Func) bool) *types.Func {
	fs := converters(ds, pred)
	if len(fs) == 1 {
		return fs[0]
	}
	var names []string
	for _, f := range fs {
		names = append(names, objName(f))
	}
	c.undecided(rule, "converter:"+what, "-", fmt.Sprintf("expected exactly one %s converter in scope, found %d %v", what, len(fs), names))
	return nil
}

// apply folds the module function f on one input (receiver or single argument).
func (c *Ctx) apply(f *types.Func, in ...value) []value {
	out := c.apply0(f, in...)
	// a converter that reports "no image" through a second boolean result (v, ok) is read like one
	// that reports it through an error: ok ↦ nil error, !ok ↦ an error
	if sig, _ := f.Type().(*types.Signature); sig != nil && sig.Results().Len() == 2 && len(out) == 2 {
		if b, isB := sig.Results().At(1).Type().Underlying().(*types.Basic); isB && b.Kind() == types.Bool && out[1].k == vConst {
			if out[1].c != nil && out[1].c.ExactString() == "true" {
				out[1] = value{k: vNil}
			} else {
				out[1] = value{k: vErr}
			}
		}
	}
	return out
}

func (c *Ctx) apply0(f *types.Func, in ...value) []value {
	fd, pk := c.P.FuncDecl(objName(f))
	if fd == nil {
		return []value{unknown("no declaration for %s", objName(f))}
	}
	c.sawFunc(objName(f))
	ev := &evaluator{p: c.P}
	sig := f.Type().(*types.Signature)
	if sig.Recv() != nil {
		if sig.Params().Len() == 0 && len(in) == 1 {
			return ev.evalFunc(fd, pk, &in[0], nil)
		}
		// method with parameters: receiver is not part of the table (e.g. (*CDX).f(x))
		r := rec(map[string]value{})
		return ev.evalFunc(fd, pk, &r, in)
	}
	return ev.evalFunc(fd, pk, nil, in)
}

func (c *Ctx) fpos(f *types.Func) string { return c.P.Pos(f.Pos()) }

// sigPred builds a converter predicate from input/output type tests.
func sigPred(in, out func(types.Type) bool) func(*types.Func) bool {
	return func(f *types.Func) bool {
		i, o := sigIn(f), sigOut(f)
		return i != nil && o != nil && in(i) && out(o)
	}
}

func isNamed(pkgSuffix, name string) func(types.Type) bool {
	return func(t types.Type) bool {
		if _, ok := t.(*types.Pointer); ok {
			return false
		}
		return typeIs(t, pkgSuffix, name)
	}
}

func isPtrNamed(pkgSuffix, name string) func(types.Type) bool {
	return func(t types.Type) bool {
		if _, ok := t.(*types.Pointer); !ok {
			return false
		}
		return typeIs(t, pkgSuffix, name)
	}
}

func isString(t types.Type) bool {
	b, ok := t.(*types.Basic)
	return ok && b.Kind() == types.String
}

// inverseRule checks from(norm(to(e))) == e for every constant in dom.
// skip decides which constants are outside the required domain (with a reason, printed as info).
type inverseSpec struct {
	rule     string
	label    string // e.g. "Edge_Type/SPDX2"
	to, from *types.Func
	dom      []*types.Const
	// required(e, toVal) says whether e must survive; when false the row is not an obligation.
	required func(e *types.Const, w value) bool
	// wrap adapts the writer's output to the reader's input (identity when nil)
	wrap func(w value) []value
	// toIn adapts the enum constant to the writer's input (identity when nil)
	toIn func(e value) []value
	// resultOK compares the reader's results with the original constant
	resultOK func(e value, r []value) bool
}

func (c *Ctx) inverse(s inverseSpec) int {
	n := 0
	for _, e := range s.dom {
		ev := constVal(e)
		in := []value{ev}
		if s.toIn != nil {
			in = s.toIn(ev)
		}
		w := c.apply(s.to, in...)
		construct := fmt.Sprintf("%s∘%s#%s", objName(s.from), objName(s.to), e.Name())
		if len(w) == 0 || w[0].k == vUnknown {
			why := "no result"
			if len(w) > 0 {
				why = w[0].why
			}
			c.undecided(s.rule, construct, c.fpos(s.to), "writer table not foldable for "+e.Name()+": "+why)
			continue
		}
		if s.required != nil && !s.required(e, w[0]) {
			continue
		}
		n++
		rin := []value{w[0]}
		if s.wrap != nil {
			rin = s.wrap(w[0])
		}
		r := c.apply(s.from, rin...)
		if len(r) == 0 || r[0].k == vUnknown {
			why := "no result"
			if len(r) > 0 {
				why = r[0].why
			}
			c.undecided(s.rule, construct, c.fpos(s.from), "reader table not foldable on "+w[0].String()+": "+why)
			continue
		}
		ok := sameValue(r[0], ev)
		if s.resultOK != nil {
			ok = s.resultOK(ev, r)
		}
		c.check(ok, s.rule, construct, c.fpos(s.from),
			fmt.Sprintf("%s → %s → %s", e.Name(), w[0], r[0]),
			fmt.Sprintf("%s is written as %s, which reads back as %s, not %s: the value does not survive the round trip", e.Name(), w[0], r[0], e.Name()))
	}
	return n
}

// switchTable is a switch statement read as a finite map: case constants → the constant (or
// constant list) each clause assigns to / returns for a target picked by `pick`.
type switchRow struct {
	keys []value
	val  value
	pos  token.Pos
}

// assignSwitchRows reads `switch tag { case K...: target = V }`: for each clause the value of
// the first assignment whose left side satisfies isTarget (or the returned value when isTarget
// is nil).
func assignSwitchRows(p *Program, pkg *packages.Package, sw *ast.SwitchStmt, isTarget func(lhs ast.Expr) bool) (rows []switchRow, hasDefault bool) {
	ev := &evaluator{p: p}
	fr := &frame{pkg: pkg, env: map[types.Object]value{}}
	for _, cc := range sw.Body.List {
		cl := cc.(*ast.CaseClause)
		if cl.List == nil {
			hasDefault = true
		}
		var row switchRow
		row.pos = cl.Pos()
		for _, e := range cl.List {
			row.keys = append(row.keys, ev.expr(fr, e))
		}
		found := false
		for _, st := range cl.Body {
			ast.Inspect(st, func(n ast.Node) bool {
				if found {
					return false
				}
				switch s := n.(type) {
				case *ast.AssignStmt:
					if isTarget == nil {
						return true
					}
					for i, l := range s.Lhs {
						if isTarget(l) && i < len(s.Rhs) {
							row.val = ev.expr(fr, s.Rhs[i])
							found = true
						}
					}
				case *ast.ReturnStmt:
					if isTarget == nil && len(s.Results) > 0 {
						row.val = ev.expr(fr, s.Results[0])
						found = true
					}
				}
				return true
			})
		}
		if found && cl.List != nil {
			rows = append(rows, row)
		}
	}
	return rows, hasDefault
}

// lookupRow finds the row whose keys contain k.
func lookupRow(rows []switchRow, k value) (value, bool) {
	for _, r := range rows {
		for _, key := range r.keys {
			if sameValue(key, k) {
				return r.val, true
			}
		}
	}
	return value{}, false
}

// selectorField returns the field object selected by e (x.F), or nil.
func selectorField(pkg *packages.Package, e ast.Expr) *types.Var {
	sel, ok := e.(*ast.SelectorExpr)
	if !ok {
		return nil
	}
	if si := pkg.TypesInfo.Selections[sel]; si != nil && si.Kind() == types.FieldVal {
		return si.Obj().(*types.Var)
	}
	return nil
}

// implementations lists the methods named `method` of the module's named types (and their pointer
// types) that implement the interface type it.
func (c *Ctx) implementations(it types.Type, method string) []*types.Func {
	iface, ok := it.Underlying().(*types.Interface)
	if !ok {
		return nil
	}
	var out []*types.Func
	var paths []string
	for path := range c.P.Pkgs {
		paths = append(paths, path)
	}
	sort.Strings(paths)
	for _, path := range paths {
		pk := c.P.Pkgs[path]
		if pk.Types == nil || strings.Contains(path, "fakes") {
			continue
		}
		sc := pk.Types.Scope()
		for _, name := range sc.Names() {
			tn, ok := sc.Lookup(name).(*types.TypeName)
			if !ok || types.IsInterface(tn.Type()) {
				continue
			}
			for _, t := range []types.Type{tn.Type(), types.NewPointer(tn.Type())} {
				if !types.Implements(t, iface) {
					continue
				}
				obj, _, _ := types.LookupFieldOrMethod(t, true, pk.Types, method)
				if fn, ok := obj.(*types.Func); ok {
					dup := false
					for _, o := range out {
						dup = dup || o == fn
					}
					if !dup {
						out = append(out, fn)
					}
				}
			}
		}
	}
	return out
}

// declQuiet is decl without an obligation when the function does not exist.
func (c *Ctx) declQuiet(name string) *declInfo {
	fd, pk := c.P.FuncDecl(name)
	if fd == nil || fd.Body == nil {
		return nil
	}
	obj, _ := pk.TypesInfo.Defs[fd.Name].(*types.Func)
	return &declInfo{fd, pk, obj, name}
}
