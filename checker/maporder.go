package main

// map-order-independence — Go randomises map iteration order, so anything a `for … range <map>`
// loop leaves behind must not depend on which entry came first. What a loop may leave behind:
//   * elements appended to a slice, entries stored in another map      → a set; order carries no meaning
//   * a scalar (field or variable declared outside the loop)           → must be order-independent
// A scalar sink is order-independent when at most one map key can write it (the write sits in a
// `case K:` of a switch on the range key with a single constant, or under `if key == K`), when the
// written value is a constant, or when the writers form a priority scheme that converges: at most one
// "priority" writer that writes only non-empty values and at most one "fallback" writer that writes
// only while the sink is still empty. Early `break`/`return <value>` out of such a loop selects an
// entry by iteration order and is rejected unless the returned values are constants/nil.

import (
	"fmt"
	"go/ast"
	"go/token"
	"go/types"
	"sort"
	"strings"
)

type mapWriter struct {
	keys     int    // number of distinct keys under which this write runs; -1 = unbounded
	kind     string // "always" | "fallback" (only while sink empty) | "priority" (only non-empty values) | "const"
	pos      token.Pos
	keyNames string
}

func mapOrderRule(c *Ctx, ds []*declInfo) {
	const R = "map-order-independence"
	c.rule(R, "a range over a map leaves behind only sets (appends, keyed stores) and scalars whose final value cannot depend on iteration order: one writing key, a constant, or one priority writer (non-empty values only) plus at most one fallback writer (only while the sink is empty); no break / value-return selects an entry")
	loops := 0
	for _, d := range ds {
		ast.Inspect(d.fd.Body, func(n ast.Node) bool {
			rs, ok := n.(*ast.RangeStmt)
			if !ok {
				return true
			}
			t := d.pkg.TypesInfo.TypeOf(rs.X)
			if t == nil {
				return true
			}
			if _, isMap := t.Underlying().(*types.Map); !isMap {
				return true
			}
			loops++
			mapOrderLoop(c, R, d, rs)
			return true
		})
	}
	c.info("map-order-independence: %d ranges over maps in %d functions", loops, len(ds))
}

func mapOrderLoop(c *Ctx, R string, d *declInfo, rs *ast.RangeStmt) {
	subj := d.name + "/" + rangeSubject(d, rs)
	mapOrderCarriedState(c, R, d, rs, subj)
	keyObj := objOf(d.pkg, rs.Key)
	valObj := types.Object(nil)
	if rs.Value != nil {
		valObj = objOf(d.pkg, rs.Value)
	}
	// variables assigned inside the body are iteration-dependent too
	iterVars := map[types.Object]bool{}
	if keyObj != nil {
		iterVars[keyObj] = true
	}
	if valObj != nil {
		iterVars[valObj] = true
	}
	ast.Inspect(rs.Body, func(n ast.Node) bool {
		switch s := n.(type) {
		case *ast.FuncLit:
			return false
		case *ast.AssignStmt:
			if s.Tok == token.DEFINE {
				for _, l := range s.Lhs {
					if o := objOf(d.pkg, l); o != nil {
						iterVars[o] = true
					}
				}
			}
		case *ast.RangeStmt:
			for _, e := range []ast.Expr{s.Key, s.Value} {
				if e != nil {
					if o := objOf(d.pkg, e); o != nil {
						iterVars[o] = true
					}
				}
			}
		}
		return true
	})
	dependsOnIteration := func(e ast.Expr) bool {
		dep := false
		ast.Inspect(e, func(n ast.Node) bool {
			if id, ok := n.(*ast.Ident); ok {
				if o := objOf(d.pkg, id); o != nil && iterVars[o] {
					dep = true
				}
			}
			return !dep
		})
		return dep
	}

	sinks := map[string][]mapWriter{}
	var sinkOrder []string
	addWriter := func(sink string, w mapWriter) {
		if _, ok := sinks[sink]; !ok {
			sinkOrder = append(sinkOrder, sink)
		}
		sinks[sink] = append(sinks[sink], w)
	}
	sets := 0

	var labelsBreak []ast.Node
	ast.Inspect(rs.Body, func(n ast.Node) bool {
		switch s := n.(type) {
		case *ast.FuncLit:
			return false
		case *ast.BranchStmt:
			if s.Tok == token.BREAK {
				// a break that leaves the map range (not an inner loop/switch/select)
				chain := enclosing(rs.Body, s)
				inner := false
				for _, y := range chain {
					switch y.(type) {
					case *ast.ForStmt, *ast.RangeStmt, *ast.SwitchStmt, *ast.TypeSwitchStmt, *ast.SelectStmt:
						inner = true
					}
				}
				if !inner || s.Label != nil {
					labelsBreak = append(labelsBreak, s)
				}
			}
		case *ast.ReturnStmt:
			allConst := true
			for _, r := range s.Results {
				if _, isC := constOf(d.pkg, r); isC || isNilIdent(d.pkg, r) {
					continue
				}
				if tt := d.pkg.TypesInfo.TypeOf(r); tt != nil && isErrorType(tt) {
					continue // which error is reported may vary; whether one is reported does not
				}
				allConst = false
			}
			if !allConst {
				c.bad(R, subj+"#return", c.P.Pos(s.Pos()), fmt.Sprintf("a value is returned from inside a range over the map %s: which entry produces it depends on Go's randomised iteration order", normText(exprText(c.P.Fset, rs.X))))
			}
		case *ast.IncDecStmt:
			if o := baseObj(d, s.X); o != nil && declaredOutside(o, rs) {
				sets++ // counting is order-independent
			}
		case *ast.AssignStmt:
			for i, l := range s.Lhs {
				if id, ok := l.(*ast.Ident); ok && id.Name == "_" {
					continue
				}
				o := baseObj(d, l)
				if o == nil {
					continue
				}
				if s.Tok == token.DEFINE && !declaredOutside(o, rs) {
					continue
				}
				if !declaredOutside(o, rs.Body) {
					// element built in this iteration — but a pointer into outer storage would hide a sink; only
					// plain locals initialised by a literal/call/zero are taken as iteration-local
					continue
				}
				var rhs ast.Expr
				if len(s.Rhs) == len(s.Lhs) {
					rhs = s.Rhs[i]
				} else if len(s.Rhs) == 1 {
					rhs = s.Rhs[0]
				}
				// keyed store into a map
				if ix, ok := l.(*ast.IndexExpr); ok {
					if mt := d.pkg.TypesInfo.TypeOf(ix.X); mt != nil {
						if _, isMap := mt.Underlying().(*types.Map); isMap {
							sets++
							continue
						}
					}
				}
				// append accumulation
				if s.Tok == token.ASSIGN && rhs != nil {
					if ce, ok := rhs.(*ast.CallExpr); ok {
						if fid, ok := ce.Fun.(*ast.Ident); ok && fid.Name == "append" && len(ce.Args) > 0 &&
							normText(exprText(c.P.Fset, ce.Args[0])) == normText(exprText(c.P.Fset, l)) {
							sets++
							continue
						}
					}
				}
				sink := normText(exprText(c.P.Fset, l))
				w := mapWriter{pos: s.Pos()}
				switch {
				case s.Tok != token.ASSIGN && s.Tok != token.DEFINE:
					// += and friends: commutative for numbers, not for strings
					if tt := d.pkg.TypesInfo.TypeOf(l); tt != nil {
						if b, ok := tt.Underlying().(*types.Basic); ok && b.Info()&types.IsNumeric != 0 && (s.Tok == token.ADD_ASSIGN || s.Tok == token.MUL_ASSIGN || s.Tok == token.OR_ASSIGN || s.Tok == token.AND_ASSIGN || s.Tok == token.XOR_ASSIGN) {
							sets++
							continue
						}
					}
					w.kind, w.keys = "always", -1
					addWriter(sink, w)
					continue
				case rhs != nil && !dependsOnIteration(rhs):
					w.kind = "const"
				default:
					w.kind = "always"
				}
				w.keys, w.keyNames = keysOfWrite(d, rs, keyObj, s)
				if w.kind == "always" {
					w.kind = guardKindOfWrite(c, d, rs, s, l, rhs)
				}
				addWriter(sink, w)
			}
		}
		return true
	})
	for i, b := range labelsBreak {
		c.bad(R, fmt.Sprintf("%s#break@%d", subj, i+1), c.P.Pos(b.Pos()), "the range over a map is left early: the entries seen before the break depend on iteration order")
	}
	if len(sinkOrder) == 0 {
		c.ok(R, subj+"#sets-only", c.P.Pos(rs.Pos()), fmt.Sprintf("the loop leaves behind only sets (%d appends/keyed stores/counters)", sets))
		return
	}
	sort.Strings(sinkOrder)
	for _, sink := range sinkOrder {
		ws := sinks[sink]
		always, fallback, priority, unbounded := 0, 0, 0, false
		var desc []string
		for _, w := range ws {
			if w.kind == "const" {
				desc = append(desc, "const")
				continue
			}
			n := w.keys
			if n < 0 {
				unbounded = true
				n = 2
			}
			switch w.kind {
			case "always":
				always += n
			case "fallback":
				fallback += n
			case "priority":
				priority += n
			}
			desc = append(desc, fmt.Sprintf("%s[%s]", w.kind, w.keyNames))
		}
		total := always + fallback + priority
		good := !unbounded && (total <= 1 || (always == 0 && priority <= 1 && fallback <= 1))
		key := subj + "#" + sink
		pos := c.P.Pos(ws[0].pos)
		if good {
			c.ok(R, key, pos, "writers: "+strings.Join(desc, ", ")+" — final value independent of iteration order")
		} else {
			c.bad(R, key, pos, fmt.Sprintf("scalar %s is written from a range over the map %s by writers {%s}: with more than one applicable entry the surviving value depends on Go's randomised iteration order", sink, normText(exprText(c.P.Fset, rs.X)), strings.Join(desc, ", ")))
		}
	}
}

func isErrorType(t types.Type) bool {
	return types.Identical(t, types.Universe.Lookup("error").Type())
}

// keysOfWrite: how many distinct map keys can reach the statement. Looks for the innermost
// enclosing `case` of a switch on the range key (conversions allowed) or an `if key == K`.
func keysOfWrite(d *declInfo, rs *ast.RangeStmt, keyObj types.Object, stmt ast.Node) (int, string) {
	if keyObj == nil {
		return -1, "*"
	}
	chain := enclosing(rs.Body, stmt)
	isKey := func(e ast.Expr) bool {
		for {
			switch x := e.(type) {
			case *ast.ParenExpr:
				e = x.X
				continue
			case *ast.CallExpr:
				// a type conversion of the key
				if len(x.Args) == 1 {
					if tv, ok := d.pkg.TypesInfo.Types[x.Fun]; ok && tv.IsType() {
						e = x.Args[0]
						continue
					}
				}
				return false
			case *ast.Ident:
				return objOf(d.pkg, x) == keyObj
			}
			return false
		}
	}
	best, names := -1, "*"
	for i, y := range chain {
		switch s := y.(type) {
		case *ast.CaseClause:
			// find the switch this clause belongs to
			for j := i - 1; j >= 0; j-- {
				sw, ok := chain[j].(*ast.SwitchStmt)
				if !ok {
					continue
				}
				if sw.Tag == nil && len(s.List) == 1 {
					// tagless switch: `case key == K:`
					if be, ok := s.List[0].(*ast.BinaryExpr); ok && be.Op == token.EQL {
						var k ast.Expr
						if isKey(be.X) {
							k = be.Y
						} else if isKey(be.Y) {
							k = be.X
						}
						if k != nil {
							if _, isC := constOf(d.pkg, k); isC {
								best, names = 1, types.ExprString(k)
							}
						}
					}
				}
				if sw.Tag != nil && isKey(sw.Tag) && s.List != nil {
					allConst := true
					var ns []string
					for _, e := range s.List {
						if _, isC := constOf(d.pkg, e); !isC {
							allConst = false
						}
						ns = append(ns, types.ExprString(e))
					}
					if allConst && (best < 0 || len(s.List) < best) {
						best, names = len(s.List), strings.Join(ns, "|")
					}
				}
				break
			}
		case *ast.IfStmt:
			if i+1 < len(chain) && chain[i+1] == ast.Node(s.Body) {
				if be, ok := s.Cond.(*ast.BinaryExpr); ok && be.Op == token.EQL {
					var k ast.Expr
					if isKey(be.X) {
						k = be.Y
					} else if isKey(be.Y) {
						k = be.X
					}
					if k != nil {
						if _, isC := constOf(d.pkg, k); isC {
							best, names = 1, types.ExprString(k)
						}
					}
				}
			}
		}
	}
	return best, names
}

// guardKindOfWrite: "fallback" when the write sits directly under `if <sink> == ""` (or nil /
// len()==0); "priority" when it sits under `if <value> != ""` on the written value; else "always".
func guardKindOfWrite(c *Ctx, d *declInfo, rs *ast.RangeStmt, stmt *ast.AssignStmt, lhs, rhs ast.Expr) string {
	chain := enclosing(rs.Body, stmt)
	sink := normText(exprText(c.P.Fset, lhs))
	val := ""
	if rhs != nil {
		val = normText(exprText(c.P.Fset, rhs))
	}
	kind := "always"
	for i, y := range chain {
		ifs, ok := y.(*ast.IfStmt)
		if !ok || i+1 >= len(chain) || chain[i+1] != ast.Node(ifs.Body) {
			continue
		}
		// `if v := expr; v != ""` introduces the value under a short name
		alias := map[string]string{}
		if as, ok := ifs.Init.(*ast.AssignStmt); ok && len(as.Lhs) == len(as.Rhs) {
			for k := range as.Lhs {
				alias[normText(exprText(c.P.Fset, as.Lhs[k]))] = normText(exprText(c.P.Fset, as.Rhs[k]))
			}
		}
		for _, atom := range conjuncts(ifs.Cond) {
			subject, empty, ok := emptinessTest(c, atom)
			if !ok {
				continue
			}
			if subject == sink && empty {
				kind = "fallback"
			}
			if !empty && (subject == val || alias[subject] == val || (alias[val] != "" && alias[val] == alias[subject])) && subject != sink {
				if kind == "always" {
					kind = "priority"
				}
			}
			// value referenced through the alias on the RHS: `if v := m[k]; v != "" { sink = v }`
			if !empty && alias[subject] != "" && val == subject {
				if kind == "always" {
					kind = "priority"
				}
			}
		}
	}
	return kind
}

func conjuncts(e ast.Expr) []ast.Expr {
	switch x := e.(type) {
	case *ast.ParenExpr:
		return conjuncts(x.X)
	case *ast.BinaryExpr:
		if x.Op == token.LAND {
			return append(conjuncts(x.X), conjuncts(x.Y)...)
		}
	}
	return []ast.Expr{e}
}

// emptinessTest recognises `x == ""`, `x != ""`, `x == nil`, `len(x) == 0`, `len(x) > 0`, `len(x) != 0`.
func emptinessTest(c *Ctx, e ast.Expr) (subject string, empty bool, ok bool) {
	be, isB := e.(*ast.BinaryExpr)
	if !isB {
		return "", false, false
	}
	lhs, rhs := be.X, be.Y
	isZero := func(x ast.Expr) bool {
		switch v := x.(type) {
		case *ast.BasicLit:
			return v.Value == `""` || v.Value == "0"
		case *ast.Ident:
			return v.Name == "nil"
		}
		return false
	}
	if isZero(lhs) && !isZero(rhs) {
		lhs, rhs = rhs, lhs
	}
	if !isZero(rhs) {
		return "", false, false
	}
	if ce, isCall := lhs.(*ast.CallExpr); isCall {
		if id, isId := ce.Fun.(*ast.Ident); isId && id.Name == "len" && len(ce.Args) == 1 {
			lhs = ce.Args[0]
		}
	}
	subject = normText(exprText(c.P.Fset, lhs))
	switch be.Op {
	case token.EQL:
		return subject, true, true
	case token.NEQ, token.GTR:
		return subject, false, true
	}
	return "", false, false
}


// mapOrderCarriedState: inside a range over a map, a decision (condition of an if, a skip) that
// looks a key up in a set which the same loop body fills under a *different* key depends on which
// entries were visited before — on the iteration order. (Testing and inserting the same key is
// de-duplication: the result is the same set whatever the order.)
func mapOrderCarriedState(c *Ctx, R string, d *declInfo, rs *ast.RangeStmt, subj string) {
	type ins struct {
		m   types.Object
		key string
	}
	var inserts []ins
	ast.Inspect(rs.Body, func(n ast.Node) bool {
		if _, isLit := n.(*ast.FuncLit); isLit {
			return false
		}
		as, ok := n.(*ast.AssignStmt)
		if !ok {
			return true
		}
		for _, l := range as.Lhs {
			ix, isIx := l.(*ast.IndexExpr)
			if !isIx {
				continue
			}
			if mt := d.pkg.TypesInfo.TypeOf(ix.X); mt != nil {
				if _, isMap := mt.Underlying().(*types.Map); isMap {
					if o := baseObj(d, ix.X); o != nil {
						inserts = append(inserts, ins{o, normText(exprText(c.P.Fset, ix.Index))})
					}
				}
			}
		}
		return true
	})
	if len(inserts) == 0 {
		return
	}
	lookups := map[types.Object]*ast.IndexExpr{}
	ast.Inspect(rs.Body, func(n ast.Node) bool {
		if st, ok := n.(ast.Stmt); ok {
			if o, ix := commaOkLookup(d, st); o != nil {
				lookups[o] = ix
			}
		}
		return true
	})
	bad := ""
	var pos token.Pos
	ast.Inspect(rs.Body, func(n ast.Node) bool {
		ifs, ok := n.(*ast.IfStmt)
		if !ok || bad != "" {
			return true
		}
		lk := map[types.Object]*ast.IndexExpr{}
		for k, v := range lookups {
			lk[k] = v
		}
		if ifs.Init != nil {
			if o, ix := commaOkLookup(d, ifs.Init); o != nil {
				lk[o] = ix
			}
		}
		facts := append(condMembers(d, ifs.Cond, true, lk, "if"), condMembers(d, ifs.Cond, false, lk, "if")...)
		for _, f := range facts {
			if f.m == nil {
				continue
			}
			for _, in := range inserts {
				if in.m == f.m && !sameKey(in.key, f.key) {
					// does this decision change what the iteration does (skip or branch with effects)?
					bad = fmt.Sprintf("the test of %s[%s] depends on entries the same loop stores under %s[%s]", f.mexpr, f.key, f.mexpr, in.key)
					pos = ifs.Pos()
				}
			}
		}
		return true
	})
	if bad != "" {
		c.bad(R, subj+"#carried-state", c.P.Pos(pos), fmt.Sprintf("%s: %s — what an iteration does depends on which map entries were visited before it, and Go randomises that order, so two runs on the same document give different output", subj, bad))
	}
}
