package main

import (
	"fmt"
	"go/ast"
	"go/token"
	"go/types"
	"os"
	"sort"
	"strings"

	"golang.org/x/tools/go/packages"
	"golang.org/x/tools/go/ssa"
	"golang.org/x/tools/go/types/typeutil"
)

func init() {
	register("C17", "Concurrency safety of registries, detection, parsing and writing — schedule-independent structural conditions: (D1) every package-level variable of the library packages is a synchronisation primitive, init-only (never written, directly or through, after package initialisation), or guarded by its mutex at every access site (lock sets computed over SSA blocks; writes need the write lock); package-level objects published into constructor results must be immutable; (D2) functions reachable from the parsers and serializers touch no package-level variable that is not init-only; (D3) every Lock/RLock is released on every path. Does not decide linearizability of results.", runC17)
	register("C18", "Per-instance configuration — structural conditions: (D1) reader.New / writer.New store a freshly allocated options object into the instance and publish no mutable package-level object into it; (D2) option closures write no package-level variable; (D3) the per-call *WithOptions functions neither write their receiver nor retain the per-call options in it; (D4) inside a *WithOptions function every read of an options field goes through the call's argument, the receiver's options being read only as the fallback under an emptiness test of the same field of the argument, and the no-argument convenience methods pass the receiver's options, not the package default.", runC18)
}

var statePkgs = []string{"pkg/reader", "pkg/writer", "pkg/formats", "pkg/storage", "pkg/sbom", "pkg/native", "pkg/native/serializers",
	"pkg/native/unserializers", "pkg/native/serializers/beta", "pkg/formats/cyclonedx", "pkg/formats/spdx"}

func runC17(c *Ctx) {
	const R = "package-state"
	c.rule(R, "each package-level variable is (a) of a sync/atomic type, (b) only written — directly or through the reference it holds — by package initialisation, or (c) associated with a mutex (frozen table) that is held, in write mode for writes, at every access site outside initialisation")
	c.rule("published-default", "a package-level object stored into the value a constructor returns must be of a type no module function mutates (no field store, no map update)")
	c.rule("lock-pairing", "every path from Lock/RLock on a package-level mutex reaches the matching Unlock/RUnlock (or a deferred one) before returning")
	c.assume("sync.Map, sync.Once, sync.RWMutex and *regexp.Regexp are safe for concurrent use")
	c.assume("generated protobuf registration variables (sbom.pb.go, universal.pb.go) are written once by generated initialisation code")
	c.notDecided("that every call returns what it would in some sequential order (linearizability is a property of histories); races inside third-party libraries")
	o := newOrigins(c.P)
	infos := stateDiscipline(c, R, statePkgs, o)
	c.floor(R, 12, "12 hand-written package-level variables confirmed on the pinned tree")
	// D2: parsers and serializers touch only init-only / sync state
	hidden := "no-hidden-state"
	c.rule(hidden, "functions reachable from Unserialize / Serialize / Render / SniffReader read or write no package-level variable that is not init-only or a sync primitive")
	entries := []string{cdxUnser, spdxUnser, cdxSer, spdxSer, "serializers.(*CDX).Render", "serializers.(*SPDX23).Render", "formats.(*Sniffer).SniffReader"}
	hiddenState(c, hidden, entries, infos, o)
	publishedDefaults(c, o)
	lockPairing(c)
	noLockReentry(c, nil)
	lazyStateInitialisedFirst(c)
	oneRegistryLookupPerOperation(c)
	writerTouchesOnlyCallersFile(c)
	singleSection(c)
	driverStateRule(c, "driver-keeps-no-state", driverMethods, o)
	poolDisciplineRule(c)
	lazyInitRule(c)
	atomicUpdateRule(c)
	locksNotCopied(c)
}

// atomicUpdateRule: a package-level atomic cell or concurrent map is individually safe, but a
// function that loads it and later stores into it has a window in which another update is lost
// (or a check is stale) unless the pair is one compare-and-swap / LoadOrStore, or runs under a
// write lock.
func atomicUpdateRule(c *Ctx) {
	const R = "atomic-update-not-lost"
	c.rule(R, "no function outside initialisation both loads and stores the same package-level atomic cell (atomic.Pointer/Value/Int*/Bool) or sync.Map — in its own body or in closures it creates — unless it uses CompareAndSwap/LoadOrStore/Swap-based retry on that variable or holds a write lock: load → compute → store loses a concurrent update")
	isCell := func(g *ssa.Global) bool {
		t := g.Type().(*types.Pointer).Elem()
		ts := types.TypeString(t, nil)
		return strings.HasPrefix(ts, "sync/atomic.") || ts == "sync.Map"
	}
	type use struct {
		load, store, cas, lock bool
		pos                    token.Pos
	}
	uses := map[*ssa.Global]map[*ssa.Function]*use{}
	cells := 0
	seenCell := map[*ssa.Global]bool{}
	for _, fn := range c.P.Funcs {
		if fn.Blocks == nil || fn.Pkg == nil || !strings.HasPrefix(fn.Pkg.Pkg.Path(), modPath+"/") {
			continue
		}
		owner := fn
		for owner.Parent() != nil {
			// a closure handed to sync.Once.Do runs at most once: it is initialisation
			owner = owner.Parent()
		}
		if isInitFn(owner) {
			continue
		}
		onceBody := false
		if fn.Parent() != nil {
			for _, ref := range refsOfClosure(fn) {
				if call, ok := ref.(ssa.CallInstruction); ok {
					if sc := call.Common().StaticCallee(); sc != nil && sc.String() == "(*sync.Once).Do" {
						onceBody = true
					}
				}
			}
		}
		if onceBody {
			continue
		}
		locked := false
		for _, b := range fn.Blocks {
			for _, ins := range b.Instrs {
				call, ok := ins.(ssa.CallInstruction)
				if !ok {
					continue
				}
				sc := call.Common().StaticCallee()
				if sc == nil || len(call.Common().Args) == 0 {
					continue
				}
				if full := sc.String(); full == "(*sync.Mutex).Lock" || full == "(*sync.RWMutex).Lock" {
					locked = true
				}
				g, isG := call.Common().Args[0].(*ssa.Global)
				if !isG || !c.P.inModuleGlobal(g) || !isCell(g) {
					continue
				}
				if !seenCell[g] {
					seenCell[g] = true
					cells++
				}
				if uses[g] == nil {
					uses[g] = map[*ssa.Function]*use{}
				}
				u := uses[g][owner]
				if u == nil {
					u = &use{}
					uses[g][owner] = u
				}
				mname := sc.Name()
				if o := sc.Origin(); o != nil {
					mname = o.Name()
				}
				if i := strings.Index(mname, "["); i >= 0 {
					mname = mname[:i]
				}
				switch mname {
				case "Load", "Range":
					u.load = true
				case "Store", "Delete", "Add", "Clear":
					u.store = true
					if u.pos == token.NoPos {
						u.pos = ins.Pos()
					}
				case "CompareAndSwap", "LoadOrStore", "CompareAndDelete", "LoadAndDelete":
					u.cas = true
				}
			}
		}
		for _, m := range uses {
			if u := m[owner]; u != nil && locked {
				u.lock = true
			}
		}
	}
	n := 0
	for g, m := range uses {
		for fn, u := range m {
			n++
			construct := globalName(g) + "@" + fnName(fn)
			if os.Getenv("PROTOLINT_DEBUG_ATOMIC") != "" {
				fmt.Fprintf(os.Stderr, "atomic %s %+v\n", construct, *u)
			}
			bad := u.load && u.store && !u.cas && !u.lock
			c.check(!bad, R, construct, c.P.Pos(u.pos), "no load-then-store window",
				fmt.Sprintf("%s loads %s and later stores into it without compare-and-swap or a write lock: of two concurrent callers one update is lost, a result no sequential order of the calls produces", fnName(fn), globalName(g)))
		}
	}
	if n == 0 {
		c.okTrivial(R, "none", "-", "no atomic cell or concurrent map is used outside initialisation")
	}
	_ = cells
}

// refsOfClosure: instructions that use the closure value made from fn in its parent.
func refsOfClosure(fn *ssa.Function) []ssa.Instruction {
	var out []ssa.Instruction
	par := fn.Parent()
	if par == nil {
		return nil
	}
	for _, b := range par.Blocks {
		for _, ins := range b.Instrs {
			var v ssa.Value
			switch x := ins.(type) {
			case *ssa.MakeClosure:
				if x.Fn == ssa.Value(fn) {
					v = x
				}
			}
			if v != nil {
				if refs := v.Referrers(); refs != nil {
					out = append(out, *refs...)
				}
			}
			// a closure without free variables is used as a plain function value
			for _, op := range ins.Operands(nil) {
				if *op == ssa.Value(fn) {
					out = append(out, ins)
				}
			}
		}
	}
	return out
}

// hiddenState reports package-level variables touched from the entries that are not init-only.
func hiddenState(c *Ctx, rule string, entries []string, infos map[*ssa.Global]*globalInfo, o *origins) {
	roots := c.rootsOf(rule, entries)
	pred, order := c.reachSSA(roots)
	touched := map[*ssa.Global]*ssa.Function{}
	for _, f := range order {
		for _, b := range f.Blocks {
			for _, ins := range b.Instrs {
				for _, op := range ins.Operands(nil) {
					if g, ok := (*op).(*ssa.Global); ok && c.P.inModuleGlobal(g) {
						if _, seen := touched[g]; !seen {
							touched[g] = f
						}
					}
				}
			}
		}
	}
	for g, f := range touched {
		if strings.HasSuffix(c.P.Fset.Position(g.Pos()).Filename, ".pb.go") || g.Name() == "init$guard" {
			continue
		}
		gi := infos[g]
		construct := globalName(g)
		if gi == nil {
			// a package outside the inventory
			continue
		}
		switch gi.class {
		case "sync", "regexp", "init-only":
			c.ok(rule, construct, c.P.Pos(g.Pos()), fmt.Sprintf("%s (%s), reached via %s", gi.class, gi.reason, chainTo(pred, f)))
		default:
			c.bad(rule, construct, c.P.Pos(g.Pos()), fmt.Sprintf("%s is %s state touched on the path %s: calls on independent documents share it", construct, gi.class, chainTo(pred, f)))
		}
	}
	for _, r := range roots {
		c.ok(rule, "entry:"+fnName(r), c.P.Pos(r.Pos()), fmt.Sprintf("%d module functions reachable", len(order)))
	}
}

func (p *Program) inModuleGlobal(g *ssa.Global) bool {
	return g.Pkg != nil && strings.HasPrefix(g.Pkg.Pkg.Path(), modPath+"/")
}

// typeMutable: some module function outside initialisation stores to a field of T or updates a
// map held in a field of T.
func typeMutable(c *Ctx, t types.Type) (bool, string) {
	if p, ok := t.(*types.Pointer); ok {
		t = p.Elem()
	}
	st, ok := t.Underlying().(*types.Struct)
	if !ok {
		if _, isMap := t.Underlying().(*types.Map); isMap {
			return true, "a map can be updated by anyone holding it"
		}
		return false, ""
	}
	if st.NumFields() == 0 {
		return false, ""
	}
	for _, fn := range c.P.Funcs {
		if isInitFn(fn) {
			continue
		}
		for _, b := range fn.Blocks {
			for _, ins := range b.Instrs {
				switch x := ins.(type) {
				case *ssa.Store:
					if fa, ok := x.Addr.(*ssa.FieldAddr); ok {
						bt := fa.X.Type()
						if pt, ok := bt.Underlying().(*types.Pointer); ok && types.Identical(pt.Elem(), t) {
							// a store into a freshly allocated T (composite literal) is construction, not mutation
							if _, fresh := fa.X.(*ssa.Alloc); fresh {
								continue
							}
							return true, fmt.Sprintf("%s stores to field %s at %s", fnName(fn), fieldNameOf(fa), c.P.Pos(x.Pos()))
						}
					}
				case *ssa.MapUpdate:
					if u, ok := x.Map.(*ssa.UnOp); ok {
						if fa, ok := u.X.(*ssa.FieldAddr); ok {
							bt := fa.X.Type()
							if pt, ok := bt.Underlying().(*types.Pointer); ok && types.Identical(pt.Elem(), t) {
								return true, fmt.Sprintf("%s updates the map in field %s at %s", fnName(fn), fieldNameOf(fa), c.P.Pos(x.Pos()))
							}
						}
					}
				}
			}
		}
	}
	// a struct with exported fields handed out by pointer can be modified by the caller
	return false, ""
}

// publishedDefaults: C17-D1 (second half) / C18-D1.
func publishedDefaults(c *Ctx, o *origins) {
	const R = "published-default"
	for _, name := range []string{"reader.New", "writer.New"} {
		fn := c.P.Func(name)
		if fn == nil {
			c.undecided(R, "anchor:"+name, "-", "constructor not found")
			continue
		}
		c.sawFunc(name)
		s := o.sums[fn]
		if s == nil {
			c.undecided(R, name, c.P.Pos(fn.Pos()), "no summary")
			continue
		}
		globals := map[*ssa.Global]leak{}
		for _, l := range s.leaks {
			if l.r.k == rGlobal {
				g := l.r.v.(*ssa.Global)
				if _, ok := globals[g]; !ok {
					globals[g] = l
				}
			}
		}
		for r := range s.retCont {
			if r.k == rGlobal {
				g := r.v.(*ssa.Global)
				if _, ok := globals[g]; !ok {
					globals[g] = leak{pos: fn.Pos(), what: "reachable from the result"}
				}
			}
		}
		if len(globals) == 0 {
			c.ok(R, name, c.P.Pos(fn.Pos()), "the instance holds no reference to a package-level object")
			continue
		}
		for g, l := range globals {
			t := g.Type().(*types.Pointer).Elem()
			construct := name + "#" + globalName(g)
			mut, why := typeMutable(c, t)
			if !mut {
				// the variable holds a pointer: look at the pointee type too
				if pt, ok := t.Underlying().(*types.Pointer); ok {
					mut, why = typeMutable(c, pt.Elem())
				}
			}
			if mut {
				c.bad(R, construct, c.P.Pos(l.pos), fmt.Sprintf("%s publishes the package-level %s into every instance it returns (%s) and that object is mutable: %s — an option given to one instance changes all others, and concurrent constructors race on it", name, globalName(g), l.what, why))
			} else {
				c.ok(R, construct, c.P.Pos(l.pos), fmt.Sprintf("%s is shared by instances but no module function mutates its type", globalName(g)))
			}
		}
	}
}

func lockPairing(c *Ctx) {
	const R = "lock-pairing"
	n := 0
	for _, fn := range c.P.Funcs {
		ls := lockStates(fn)
		locks := false
		deferred := map[string]bool{}
		for _, b := range fn.Blocks {
			for _, ins := range b.Instrs {
				switch x := ins.(type) {
				case *ssa.Call:
					if sc := x.Common().StaticCallee(); sc != nil && (sc.String() == "(*sync.RWMutex).Lock" || sc.String() == "(*sync.RWMutex).RLock" || sc.String() == "(*sync.Mutex).Lock") {
						locks = true
					}
				case *ssa.Defer:
					if sc := x.Common().StaticCallee(); sc != nil && strings.HasSuffix(sc.String(), "nlock") && len(x.Common().Args) > 0 {
						if g, ok := x.Common().Args[0].(*ssa.Global); ok {
							deferred[globalName(g)] = true
						}
					}
				}
			}
		}
		if !locks {
			continue
		}
		n++
		bad := false
		for _, b := range fn.Blocks {
			for _, ins := range b.Instrs {
				if _, isRet := ins.(*ssa.Return); !isRet {
					continue
				}
				for m := range ls[ins] {
					if !deferred[m] {
						bad = true
						c.bad(R, fnName(fn)+"#"+m, c.P.Pos(ins.Pos()), fmt.Sprintf("%s can return while still holding %s: the next caller deadlocks", fnName(fn), m))
					}
				}
			}
		}
		if !bad {
			c.ok(R, fnName(fn), c.P.Pos(fn.Pos()), "every return releases the locks it took")
		}
	}
	_ = n
}

// ---- C18 ----

func runC18(c *Ctx) {
	c.rule("published-default", "a package-level object stored into the value a constructor returns must be of a type no module function mutates")
	c.rule("option-writes-instance-only", "functions returning ReaderOption/WriterOption closures write no package-level variable")
	c.rule("per-call-no-receiver-write", "the *WithOptions methods do not write memory reachable from their receiver and do not store the per-call options into it")
	c.rule("option-reads-arguments-only", "functions returning ReaderOption/WriterOption closures (and the closures) read no package-level variable that is written after package initialisation (driver registries, counters): an instance's configuration is a function of the defaults and of its own options")
	c.rule("constructor-leaves-options-alone", "New does not append to or write through its variadic options parameter: the slice belongs to the caller (New(all[:k]...) shares all's backing array)")
	c.rule("per-call-no-argument-write", "the *WithOptions methods (and what they call) do not write memory reachable from the per-call options argument: the value is the caller's and may be reused for another call or instance")
	c.rule("per-call-reads-argument", "inside a *WithOptions method a read of the receiver's Options is the fallback branch of an emptiness test of the same field of the per-call argument; convenience methods pass the receiver's options to their *WithOptions sibling")
	c.notDecided("that the defaults equal the documented values")
	o := newOrigins(c.P)
	publishedDefaults(c, o)
	// D2
	for _, fn := range c.P.Funcs {
		if fn.Parent() != nil || fn.Signature.Results().Len() != 1 {
			continue
		}
		rt := fn.Signature.Results().At(0).Type()
		nt, ok := rt.(*types.Named)
		if !ok || (nt.Obj().Name() != "ReaderOption" && nt.Obj().Name() != "WriterOption") {
			continue
		}
		name := fnName(fn)
		c.sawFunc(name)
		s := o.sums[fn]
		var gw []string
		for g := range s.globWrite {
			gw = append(gw, globalName(g))
		}
		c.check(len(gw) == 0, "option-writes-instance-only", name, c.P.Pos(fn.Pos()), "writes no package-level variable",
			fmt.Sprintf("the option closure writes package-level state %v: configuring one instance changes the defaults of every other", gw))
		// … and what the option does must not depend on package-level state that can change after
		// initialisation (registries): the configuration is a function of defaults and arguments only
		var gr []string
		collect := func(f *ssa.Function) {
			if ss := o.sums[f]; ss != nil {
				for g := range ss.globRead {
					if cls := classifyGlobalMutability(c, g); cls != "init-only" {
						gr = append(gr, globalName(g)+" ("+cls+")")
					}
				}
			}
		}
		collect(fn)
		for _, an := range fn.AnonFuncs {
			collect(an)
		}
		sort.Strings(gr)
		c.check(len(gr) == 0, "option-reads-arguments-only", name, c.P.Pos(fn.Pos()), "reads no mutable package-level state",
			fmt.Sprintf("the option's effect depends on package-level state that changes after initialisation %v: the same constructor call configures instances differently depending on what else ran before", gr))
	}
	c.floor("option-writes-instance-only", 8, "five writer options and five reader options")
	optionWritesOwnStorage(c)
	optionCapturesArgumentsOnly(c)
	for _, name := range []string{"reader.New", "writer.New"} {
		fn := c.P.Func(name)
		if fn == nil {
			c.undecided("constructor-leaves-options-alone", "anchor:"+name, "-", "constructor not found")
			continue
		}
		var w []mutation
		if ss := o.sums[fn]; ss != nil {
			for _, m := range ss.muts {
				if m.param == 0 {
					w = append(w, m)
				}
			}
		}
		if len(w) > 0 {
			c.bad("constructor-leaves-options-alone", name, c.P.Pos(w[0].pos), describeMuts(c, name, "options list", w))
		} else {
			c.ok("constructor-leaves-options-alone", name, c.P.Pos(fn.Pos()), "the options list is only read")
		}
	}
	// D3
	perCall := []string{"writer.(*Writer).WriteStreamWithOptions", "writer.(*Writer).WriteFileWithOptions", "writer.(*Writer).StoreWithOptions",
		"reader.(*Reader).ParseStreamWithOptions", "reader.(*Reader).ParseFileWithOptions", "reader.(*Reader).RetrieveWithOptions"}
	for _, name := range perCall {
		fn := c.P.Func(name)
		if fn == nil {
			c.undecided("per-call-no-receiver-write", "anchor:"+name, "-", "method not found")
			continue
		}
		c.sawFunc(name)
		s := o.sums[fn]
		var w []mutation
		for _, m := range s.muts {
			if m.param == 0 {
				w = append(w, m)
			}
		}
		retained := false
		for _, so := range s.stores {
			if so.param == 0 {
				for r := range so.vals {
					if r.isParam() && r.j != 0 {
						retained = true
					}
				}
			}
		}
		switch {
		case len(w) > 0:
			c.bad("per-call-no-receiver-write", name, c.P.Pos(w[0].pos), describeMuts(c, name, "receiver", w))
		case retained:
			c.bad("per-call-no-receiver-write", name, c.P.Pos(fn.Pos()), "the per-call options (or another argument) are stored into the receiver: they outlive the call")
		default:
			c.ok("per-call-no-receiver-write", name, c.P.Pos(fn.Pos()), "receiver untouched")
		}
		// the per-call options value belongs to the caller: writing into it carries one call's
		// (or one instance's) settings into the next call that reuses the value
		last := len(fn.Params) - 1
		var aw []mutation
		for _, m := range s.muts {
			if m.param == last && last > 0 {
				aw = append(aw, m)
			}
		}
		if len(aw) > 0 {
			c.bad("per-call-no-argument-write", name, c.P.Pos(aw[0].pos), describeMuts(c, name, "per-call options argument", aw))
		} else {
			c.ok("per-call-no-argument-write", name, c.P.Pos(fn.Pos()), "the per-call options argument is only read")
		}
	}
	// … nor memory reachable from a package-level variable: a call that lays its options over the
	// shared defaults changes the defaults of every other instance and call
	c.rule("per-call-no-default-write", "no statement of a *WithOptions method stores through a package-level variable or through a local bound to a reference taken from one (*ro = … with ro := defaultOptions.RenderOptions)")
	for _, name := range perCall {
		d := c.decl("per-call-no-default-write", name)
		if d == nil {
			continue
		}
		defs := singleDefs(d.pkg, d.fd.Body)
		isPkgVar := func(o types.Object) bool {
			v, ok := o.(*types.Var)
			return ok && v.Pkg() != nil && v.Parent() == v.Pkg().Scope()
		}
		bad := ""
		var pos token.Pos
		ast.Inspect(d.fd.Body, func(x ast.Node) bool {
			as, ok := x.(*ast.AssignStmt)
			if !ok {
				return true
			}
			for _, l := range as.Lhs {
				switch l.(type) {
				case *ast.StarExpr, *ast.SelectorExpr, *ast.IndexExpr:
				default:
					continue
				}
				bo := baseObj(d, l)
				if bo == nil {
					continue
				}
				if isPkgVar(bo) {
					bad, pos = types.ExprString(l)+" is rooted at the package-level variable "+bo.Name(), as.Pos()
					continue
				}
				if def, has := defs[bo]; has {
					if ro := baseObj(d, def); ro != nil && isPkgVar(ro) && isRefType(d.pkg.TypesInfo.TypeOf(def)) {
						bad, pos = types.ExprString(l)+" writes through "+bo.Name()+", which is "+types.ExprString(def), as.Pos()
					}
				}
			}
			return true
		})
		c.check(bad == "", "per-call-no-default-write", name, c.P.Pos(pos), "no store through the package-level defaults",
			fmt.Sprintf("%s: %s — the per-call options are written into the library's shared defaults, so they stay in force for later calls and for every other instance", name, bad))
	}
	// D4
	for _, name := range perCall {
		perCallReads(c, name)
	}
	convenience := [][2]string{
		{"writer.(*Writer).WriteStream", "WriteStreamWithOptions"}, {"writer.(*Writer).WriteFile", "WriteFileWithOptions"}, {"writer.(*Writer).Store", "StoreWithOptions"},
		{"reader.(*Reader).ParseStream", "ParseStreamWithOptions"}, {"reader.(*Reader).ParseFile", "ParseStreamWithOptions"}, {"reader.(*Reader).Retrieve", "RetrieveWithOptions"},
	}
	for _, cv := range convenience {
		d := c.decl("per-call-reads-argument", cv[0])
		if d == nil {
			continue
		}
		recv, _ := recvAndParam(d)
		found := false
		for _, cs := range callsIn(d.pkg, d.fd.Body) {
			if cs.callee.Name() != cv[1] || len(cs.call.Args) == 0 {
				continue
			}
			found = true
			last := cs.call.Args[len(cs.call.Args)-1]
			f, isRecvOpts := fieldOf(d.pkg, last, recv)
			c.check(isRecvOpts && f == "Options", "per-call-reads-argument", cv[0]+"→"+cv[1], c.P.Pos(cs.call.Pos()),
				"passes the receiver's options", fmt.Sprintf("%s passes %s instead of the receiver's options: the instance's configuration is ignored", cv[0], types.ExprString(last)))
		}
		if !found {
			c.undecided("per-call-reads-argument", cv[0]+"→"+cv[1], c.P.Pos(d.fd.Pos()), "delegation to the *WithOptions sibling not found")
		}
	}
}

// perCallReads: D4 for one *WithOptions method.
func perCallReads(c *Ctx, name string) {
	const R = "per-call-reads-argument"
	d := c.decl(R, name)
	if d == nil {
		return
	}
	recv, _ := recvAndParam(d)
	// the options parameter is the last one
	var opt types.Object
	for _, f := range d.fd.Type.Params.List {
		for _, n := range f.Names {
			opt = d.pkg.TypesInfo.Defs[n]
		}
	}
	if recv == nil || opt == nil {
		c.undecided(R, name, c.P.Pos(d.fd.Pos()), "receiver/options parameter not named")
		return
	}
	n := 0
	ast.Inspect(d.fd.Body, func(node ast.Node) bool {
		sel, ok := node.(*ast.SelectorExpr)
		if !ok {
			return true
		}
		// recv.Options.X  (field or method)
		inner, ok := sel.X.(*ast.SelectorExpr)
		if !ok {
			return true
		}
		if f, ok := fieldOf(d.pkg, inner, recv); !ok || f != "Options" {
			return true
		}
		n++
		what := sel.Sel.Name
		construct := fmt.Sprintf("%s#recv.Options.%s", name, what)
		// allowed only on the empty side of a test of opt.<what>
		facts := pathFacts(d.pkg, d.fd.Body, sel, opt)
		ok2 := false
		for _, fa := range facts {
			if fa.field == what && !fa.nonEmpty {
				ok2 = true
			}
		}
		if !ok2 {
			// the test may be on a local that holds the per-call value: x := opt.F; if x == "" { x = recv.Options.F }
			chain := enclosing(d.fd.Body, sel)
			for i, en := range chain {
				ifs, isIf := en.(*ast.IfStmt)
				if !isIf || i+1 >= len(chain) {
					continue
				}
				positive := chain[i+1] == ast.Node(ifs.Body)
				if !positive && chain[i+1] != ifs.Else {
					continue
				}
				for l, f := range localCopiesOf(d.pkg, d.fd.Body, opt, ifs.Pos()) {
					if f != what {
						continue
					}
					for _, fa := range condFactsLocal(d.pkg, ifs.Cond, positive, l) {
						if !fa {
							ok2 = true
						}
					}
				}
			}
		}
		c.check(ok2, R, construct, c.P.Pos(sel.Pos()),
			"receiver's "+what+" is read only as the fallback when the per-call "+what+" is empty",
			fmt.Sprintf("%s reads the receiver's Options.%s instead of the per-call options' (not under an emptiness test of %s.%s): options given to a single call are ignored", name, what, opt.Name(), what))
		return true
	})
	if n == 0 {
		c.okTrivial(R, name, c.P.Pos(d.fd.Pos()), "no read through the receiver's options")
	}
	// a local that holds a per-call option (x := opt.F, also in a tuple) may be replaced by a
	// fallback only where that very option is known to be empty: `if so == nil || ro == nil
	// { so, ro = defaults… }` throws away a RenderOptions the caller did give
	copies := map[types.Object]string{}
	ast.Inspect(d.fd.Body, func(node ast.Node) bool {
		as, ok := node.(*ast.AssignStmt)
		if !ok || as.Tok != token.DEFINE || len(as.Lhs) != len(as.Rhs) {
			return true
		}
		for i, l := range as.Lhs {
			if _, isCall := as.Rhs[i].(*ast.CallExpr); isCall {
				continue
			}
			if f, ok := fieldOf(d.pkg, as.Rhs[i], opt); ok && f != "" {
				if lo := objOf(d.pkg, l); lo != nil {
					copies[lo] = f
				}
			}
		}
		return true
	})
	ast.Inspect(d.fd.Body, func(node ast.Node) bool {
		as, ok := node.(*ast.AssignStmt)
		if !ok || as.Tok != token.ASSIGN {
			return true
		}
		for _, l := range as.Lhs {
			lo := objOf(d.pkg, l)
			field, isCopy := copies[lo]
			if !isCopy || lo == nil {
				continue
			}
			knownEmpty := false
			chain := enclosing(d.fd.Body, as)
			for i, en := range chain {
				ifs, isIf := en.(*ast.IfStmt)
				if !isIf || i+1 >= len(chain) {
					continue
				}
				positive := chain[i+1] == ast.Node(ifs.Body)
				if !positive && chain[i+1] != ifs.Else {
					continue
				}
				for _, fa := range condFactsLocal(d.pkg, ifs.Cond, positive, lo) {
					if !fa {
						knownEmpty = true
					}
				}
				// or the same test spelled on the option itself
				for _, fa := range condFacts(d.pkg, ifs.Cond, positive, opt) {
					if fa.field == field && !fa.nonEmpty {
						knownEmpty = true
					}
				}
			}
			c.check(knownEmpty, R, fmt.Sprintf("%s#fallback(%s)", name, field), c.P.Pos(as.Pos()),
				"the per-call "+field+" is replaced only where it is empty",
				fmt.Sprintf("%s replaces the per-call %s (held in %s) by a fallback on a path where it is not known to be empty: options given to this call are dropped", name, field, lo.Name()))
		}
		return true
	})
	_ = typeutil.Callee
}

// optionWritesOwnStorage: the option closures and the setter methods of the Options types write
// only storage the instance owns. A value that reached the instance as an argument (a captured
// variable, a parameter other than the instance/receiver) or that is held behind an interface in the
// instance's option table is the caller's: the same value may configure another instance.
func optionWritesOwnStorage(c *Ctx) {
	const R = "option-writes-own-storage"
	c.rule(R, "in the ReaderOption/WriterOption closures and the methods of the reader/writer Options types every field store and map update targets memory rooted at the instance (first parameter / receiver) or freshly allocated; none goes through a captured argument, another parameter, or a value taken out of an interface (format options are stored as the caller's value)")
	var fns []*ssa.Function
	for _, fn := range c.P.Funcs {
		if fn.Pkg == nil || fn.Blocks == nil {
			continue
		}
		pp := fn.Pkg.Pkg.Path()
		if !strings.HasSuffix(pp, "/pkg/reader") && !strings.HasSuffix(pp, "/pkg/writer") {
			continue
		}
		if par := fn.Parent(); par != nil && par.Signature.Results().Len() == 1 {
			if nt, ok := par.Signature.Results().At(0).Type().(*types.Named); ok && (nt.Obj().Name() == "ReaderOption" || nt.Obj().Name() == "WriterOption") {
				fns = append(fns, fn)
			}
			continue
		}
		if rv := fn.Signature.Recv(); rv != nil {
			t := rv.Type()
			if pt, ok := t.(*types.Pointer); ok {
				t = pt.Elem()
			}
			if nt, ok := t.(*types.Named); ok && nt.Obj().Name() == "Options" {
				fns = append(fns, fn)
			}
		}
	}
	sort.Slice(fns, func(i, j int) bool { return fnName(fns[i]) < fnName(fns[j]) })
	var rootOf func(v ssa.Value, depth int) string
	rootOf = func(v ssa.Value, depth int) string {
		if depth > 30 {
			return ""
		}
		switch x := v.(type) {
		case *ssa.Parameter:
			if len(x.Parent().Params) > 0 && x.Parent().Params[0] == x {
				return ""
			}
			return "parameter " + x.Name()
		case *ssa.FreeVar:
			return "captured argument " + x.Name()
		case *ssa.TypeAssert:
			return "a value taken out of an interface"
		case *ssa.FieldAddr:
			return rootOf(x.X, depth+1)
		case *ssa.IndexAddr:
			return rootOf(x.X, depth+1)
		case *ssa.Field:
			return rootOf(x.X, depth+1)
		case *ssa.Lookup:
			return rootOf(x.X, depth+1)
		case *ssa.Index:
			return rootOf(x.X, depth+1)
		case *ssa.UnOp:
			return rootOf(x.X, depth+1)
		case *ssa.Extract:
			return rootOf(x.Tuple, depth+1)
		case *ssa.ChangeType:
			return rootOf(x.X, depth+1)
		case *ssa.Convert:
			return rootOf(x.X, depth+1)
		case *ssa.Slice:
			return rootOf(x.X, depth+1)
		case *ssa.Phi:
			for _, e := range x.Edges {
				if r := rootOf(e, depth+1); r != "" {
					return r
				}
			}
		}
		return ""
	}
	n := 0
	for _, fn := range fns {
		name := fnName(fn)
		c.sawFunc(name)
		bad, badPos := "", fn.Pos()
		for _, b := range fn.Blocks {
			for _, ins := range b.Instrs {
				var target ssa.Value
				switch x := ins.(type) {
				case *ssa.MapUpdate:
					target = x.Map
				case *ssa.Store:
					if _, isAlloc := x.Addr.(*ssa.Alloc); isAlloc {
						continue
					}
					target = x.Addr
				default:
					continue
				}
				c.CallSites++
				if r := rootOf(target, 0); r != "" && bad == "" {
					bad, badPos = r, ins.Pos()
				}
			}
		}
		n++
		c.check(bad == "", R, name, c.P.Pos(badPos), "writes instance-owned storage only",
			fmt.Sprintf("%s writes through %s: the value belongs to the caller and may configure another instance, whose configuration changes with this one's", name, bad))
	}
	if n == 0 {
		c.undecided(R, "anchor:options", "-", "no option closure or Options method found")
	}
	c.floor(R, 10, "ten option closures and the Options setters")
}

// localCopiesOf: locals that, at position `before`, can only hold opt.<F>: their single definition
// before that point is `l := opt.F` (or var l = opt.F) and nothing else assigns them earlier.
func localCopiesOf(pkg *packages.Package, body *ast.BlockStmt, opt types.Object, before token.Pos) map[types.Object]string {
	out := map[types.Object]string{}
	bad := map[types.Object]bool{}
	ast.Inspect(body, func(n ast.Node) bool {
		as, ok := n.(*ast.AssignStmt)
		if !ok || as.Pos() >= before {
			return true
		}
		for i, l := range as.Lhs {
			id, isId := l.(*ast.Ident)
			if !isId {
				continue
			}
			o := objOf(pkg, id)
			if o == nil {
				continue
			}
			if len(as.Lhs) == len(as.Rhs) {
				if f, ok := fieldOf(pkg, as.Rhs[i], opt); ok && f != "" {
					if _, isCall := as.Rhs[i].(*ast.CallExpr); !isCall {
						if prev, seen := out[o]; seen && prev != f {
							bad[o] = true
						}
						out[o] = f
						continue
					}
				}
			}
			bad[o] = true
		}
		return true
	})
	for o := range bad {
		delete(out, o)
	}
	return out
}

// condFactsLocal: non-emptiness facts (true = non-empty) a condition states about the local l.
func condFactsLocal(pkg *packages.Package, cond ast.Expr, positive bool, l types.Object) []bool {
	switch e := cond.(type) {
	case *ast.ParenExpr:
		return condFactsLocal(pkg, e.X, positive, l)
	case *ast.UnaryExpr:
		if e.Op == token.NOT {
			return condFactsLocal(pkg, e.X, !positive, l)
		}
	case *ast.BinaryExpr:
		switch e.Op {
		case token.LAND:
			if positive {
				return append(condFactsLocal(pkg, e.X, true, l), condFactsLocal(pkg, e.Y, true, l)...)
			}
		case token.LOR:
			if !positive {
				return append(condFactsLocal(pkg, e.X, false, l), condFactsLocal(pkg, e.Y, false, l)...)
			}
		case token.EQL, token.NEQ:
			x, y := e.X, e.Y
			if _, ok := constOf(pkg, x); ok || isNilIdent(pkg, x) {
				x, y = y, x
			}
			id, isId := x.(*ast.Ident)
			if !isId || objOf(pkg, id) != l {
				return nil
			}
			empty := isNilIdent(pkg, y)
			if v, ok := constOf(pkg, y); ok && v.isStr() && v.str() == "" {
				empty = true
			}
			if !empty {
				return nil
			}
			return []bool{(e.Op == token.NEQ) == positive}
		}
	}
	return nil
}

// classifyGlobalMutability: "init-only" when the variable (and what it refers to) is written only
// during package initialisation; sync primitives count as mutable state (a sync.Map registry is
// exactly the kind of state an option must not consult).
func classifyGlobalMutability(c *Ctx, g *ssa.Global) string {
	t := g.Type().(*types.Pointer).Elem()
	ts := types.TypeString(t, nil)
	if ts == "sync.Once" || ts == "sync.Mutex" || ts == "sync.RWMutex" {
		return "init-only"
	}
	if syncTypes[ts] {
		// a concurrent container: mutable when any non-init function calls a mutating method on it
		for _, fn := range c.P.Funcs {
			if isInitFn(fn) {
				continue
			}
			for _, b := range fn.Blocks {
				for _, ins := range b.Instrs {
					call, ok := ins.(ssa.CallInstruction)
					if !ok {
						continue
					}
					sc := call.Common().StaticCallee()
					if sc == nil || len(call.Common().Args) == 0 || call.Common().Args[0] != ssa.Value(g) {
						continue
					}
					switch sc.Name() {
					case "Store", "Delete", "Swap", "LoadOrStore", "LoadAndDelete", "CompareAndSwap", "CompareAndDelete", "Add", "Clear":
						return "registry written by " + fnName(fn)
					}
				}
			}
		}
		return "init-only"
	}
	for _, a := range globalAccesses(c.P, g) {
		if a.write && !isInitFn(a.fn) {
			return "written by " + fnName(a.fn)
		}
	}
	return "init-only"
}
