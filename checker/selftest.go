package main

// Thorough tier: the checker's own two-way self-test for one property.
//
// A corpus (/verif/selftest_corpus.json) lists, per property, *mutants* — single textual edits
// of the current source that break one rule instance and still type-check — and *benign
// variants* — behaviour-preserving rewrites. Each is applied as a go/packages overlay (in
// memory; /repo is never modified) and analysed in a fresh subprocess of this binary. A mutant
// must make a new obligation fire (one that does not fire on the unmodified tree) and a benign
// variant must make none fire. Edits whose anchor text no longer exists are "not applicable".
// The outcome is recorded in the evidence; it never turns into a VIOLATION, because it is a
// statement about the checker, not about /repo.

import (
	"encoding/json"
	"fmt"
	"os"
	"os/exec"
	"path/filepath"
	"sort"
	"strings"
	"sync"
)

type corpusEntry struct {
	Name    string `json:"name"`
	File    string `json:"file"`
	Find    string `json:"find"`
	Replace string `json:"replace"`
	Expect  string `json:"expect,omitempty"` // substring of a key that must newly fire (mutants)
	Why     string `json:"why,omitempty"`
}

type corpus struct {
	Mutants []corpusEntry `json:"mutants"`
	Benign  []corpusEntry `json:"benign"`
}

func firedKeys(out string) map[string]bool {
	m := map[string]bool{}
	for _, l := range strings.Split(out, "\n") {
		if strings.HasPrefix(l, "FIRED ") {
			f := strings.Fields(l)
			if len(f) >= 3 {
				m[f[2]] = true
			}
		}
	}
	return m
}

func selfTest(c *Ctx, repo, verif string, extra map[string]any) {
	b, err := os.ReadFile(filepath.Join(verif, "selftest_corpus.json"))
	if err != nil {
		extra["selftest"] = "corpus not found: " + err.Error()
		return
	}
	all := map[string]corpus{}
	if err := json.Unmarshal(b, &all); err != nil {
		extra["selftest"] = "corpus unreadable: " + err.Error()
		return
	}
	cp := all[c.Prop]
	self, _ := os.Executable()
	base := map[string]bool{}
	for _, o := range c.Obls {
		if o.Status != stDischarged {
			base[o.Key] = true
		}
	}
	type job struct {
		e      corpusEntry
		benign bool
	}
	type result struct {
		Name    string   `json:"name"`
		Kind    string   `json:"kind"`
		Outcome string   `json:"outcome"` // caught | silent | MISSED | FIRED | not-applicable | invalid
		New     []string `json:"new_keys,omitempty"`
		Why     string   `json:"why,omitempty"`
	}
	var jobs []job
	for _, e := range cp.Mutants {
		jobs = append(jobs, job{e, false})
	}
	for _, e := range cp.Benign {
		jobs = append(jobs, job{e, true})
	}
	results := make([]result, len(jobs))
	tmpDir, err := os.MkdirTemp("", "protolint-selftest-")
	if err != nil {
		extra["selftest"] = "no temp dir: " + err.Error()
		return
	}
	defer os.RemoveAll(tmpDir)
	sem := make(chan struct{}, 8)
	var wg sync.WaitGroup
	for i, j := range jobs {
		wg.Add(1)
		go func(i int, j job) {
			defer wg.Done()
			sem <- struct{}{}
			defer func() { <-sem }()
			kind := "mutant"
			if j.benign {
				kind = "benign"
			}
			r := result{Name: j.e.Name, Kind: kind, Why: j.e.Why}
			src, err := os.ReadFile(filepath.Join(repo, j.e.File))
			if err != nil || strings.Count(string(src), j.e.Find) != 1 {
				r.Outcome = "not-applicable"
				results[i] = r
				return
			}
			mod := strings.Replace(string(src), j.e.Find, j.e.Replace, 1)
			tmp := filepath.Join(tmpDir, fmt.Sprintf("%d.go", i))
			if err := os.WriteFile(tmp, []byte(mod), 0o644); err != nil {
				r.Outcome = "invalid"
				results[i] = r
				return
			}
			cmd := exec.Command(self, "-repo", repo, "-verif", verif, "-property", c.Prop, "-no-evidence", "-overlay", j.e.File+"="+tmp)
			out, _ := cmd.CombinedOutput()
			if cmd.ProcessState != nil && cmd.ProcessState.ExitCode() >= 2 {
				r.Outcome = "invalid"
				r.Why = "the edited tree does not load: " + lastLine(string(out))
				results[i] = r
				return
			}
			var fresh []string
			for k := range firedKeys(string(out)) {
				if !base[k] {
					fresh = append(fresh, k)
				}
			}
			sort.Strings(fresh)
			hit := len(fresh) > 0
			if hit && j.e.Expect != "" {
				hit = false
				for _, k := range fresh {
					if strings.Contains(k, j.e.Expect) {
						hit = true
					}
				}
			}
			// the evidence lists a few of the new keys only (the expected rule first)
			if len(fresh) > 4 {
				var head []string
				for _, k := range fresh {
					if j.e.Expect != "" && strings.Contains(k, j.e.Expect) && len(head) < 2 {
						head = append(head, k)
					}
				}
				for _, k := range fresh {
					if len(head) >= 4 {
						break
					}
					dup := false
					for _, h := range head {
						dup = dup || h == k
					}
					if !dup {
						head = append(head, k)
					}
				}
				fresh = head
			}
			r.New = fresh
			switch {
			case j.benign && len(fresh) == 0:
				r.Outcome = "silent"
			case j.benign:
				r.Outcome = "FIRED"
			case hit:
				r.Outcome = "caught"
			default:
				r.Outcome = "MISSED"
			}
			results[i] = r
		}(i, j)
	}
	wg.Wait()
	counts := map[string]int{}
	var problems []string
	for _, r := range results {
		counts[r.Kind+":"+r.Outcome]++
		if r.Outcome == "MISSED" || r.Outcome == "FIRED" || r.Outcome == "invalid" {
			problems = append(problems, fmt.Sprintf("%s %s %s %v %s", r.Kind, r.Name, r.Outcome, r.New, r.Why))
		}
	}
	extra["selftest"] = map[string]any{
		"mutants":  len(cp.Mutants),
		"benign":   len(cp.Benign),
		"counts":   counts,
		"results":  results,
		"problems": problems,
		"method":   "each entry is one textual edit of the current source applied as a go/packages overlay and analysed by a fresh subprocess; a mutant must make a new obligation fire, a benign variant none",
	}
	fmt.Printf("%s selftest: %d mutants (%d caught, %d n/a), %d benign (%d silent, %d n/a)\n", c.Prop, len(cp.Mutants), counts["mutant:caught"], counts["mutant:not-applicable"],
		len(cp.Benign), counts["benign:silent"], counts["benign:not-applicable"])
	for _, p := range problems {
		fmt.Println("SELFTEST-WARNING:", p)
	}
}

func lastLine(s string) string {
	ls := strings.Split(strings.TrimSpace(s), "\n")
	if len(ls) == 0 {
		return ""
	}
	return ls[len(ls)-1]
}
