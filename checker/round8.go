package main

// Rules added after the eighth round of seeded changes.

import (
	"fmt"
	"go/ast"
	"go/token"
	"go/types"
	"strings"

	"golang.org/x/tools/go/ssa"
	"golang.org/x/tools/go/types/typeutil"
)

// firstActorWritten: C01 — "first supplier and first originator". The person written into an SPDX
// package's supplier / originator is element 0 of the node's list: an index expression with the
// constant 0, or the result of a helper that selects the first accepted element of the list it is
// given (returns from inside its loop, breaks after the assignment, or indexes with 0). A loop that
// keeps assigning (last wins) or any other index selects a different person as soon as the list has
// two entries.
func firstActorWritten(c *Ctx) {
	const R = "first-actor-written"
	c.rule(R, "the person whose name/kind is written as the SPDX package supplier or originator is element 0 of the node's Suppliers / Originators list: `list[0]`, or the value of a helper whose selection over the list stops at the first accepted element")
	n := 0
	for _, d := range c.reachDecls(R, spdxSer) {
		defs := singleDefs(d.pkg, d.fd.Body)
		ast.Inspect(d.fd.Body, func(node ast.Node) bool {
			cl, ok := node.(*ast.CompositeLit)
			if !ok {
				return true
			}
			t := d.pkg.TypesInfo.TypeOf(cl)
			if t == nil {
				return true
			}
			nt, isNamed := t.(*types.Named)
			if !isNamed || nt.Obj().Pkg() == nil || !strings.Contains(nt.Obj().Pkg().Path(), "tools-golang") {
				return true
			}
			var list string
			switch nt.Obj().Name() {
			case "Supplier":
				list = "Suppliers"
			case "Originator":
				list = "Originators"
			default:
				return true
			}
			for _, el := range cl.Elts {
				kv, isKV := el.(*ast.KeyValueExpr)
				if !isKV {
					continue
				}
				// the person is the receiver of the conversion call (or the expression itself)
				var person ast.Expr = kv.Value
				if ce, isCall := kv.Value.(*ast.CallExpr); isCall {
					if sel, isSel := ce.Fun.(*ast.SelectorExpr); isSel {
						person = sel.X
					} else if len(ce.Args) == 1 {
						person = ce.Args[0]
					}
				}
				n++
				construct := fmt.Sprintf("%s#%s.%s", d.name, nt.Obj().Name(), types.ExprString(kv.Key))
				verdict, why := selectsFirst(c, d, defs, person, list, 0)
				switch verdict {
				case "first":
					c.ok(R, construct, c.P.Pos(kv.Pos()), "element 0 of "+list+" ("+why+")")
				case "other":
					c.bad(R, construct, c.P.Pos(kv.Pos()), fmt.Sprintf("the %s written is not the first of %s: %s — a node with two entries comes back with the wrong one", strings.ToLower(nt.Obj().Name()), list, why))
				default:
					c.undecided(R, construct, c.P.Pos(kv.Pos()), "selection of the person not recognised: "+why)
				}
			}
			return true
		})
	}
	c.floor(R, 4, "name and kind of supplier and originator")
}

// selectsFirst classifies how `e` (an expression of element type) is chosen from the list field.
func selectsFirst(c *Ctx, d *declInfo, defs map[types.Object]ast.Expr, e ast.Expr, list string, depth int) (string, string) {
	if depth > 4 {
		return "", "too deep"
	}
	e = chase(d.pkg, defs, e)
	switch x := e.(type) {
	case *ast.IndexExpr:
		if v, ok := constOf(d.pkg, x.Index); ok && v.isInt() {
			if v.int() == 0 {
				return "first", types.ExprString(x)
			}
			return "other", fmt.Sprintf("index %d", v.int())
		}
		// len(list)-1 and friends
		return "other", "index " + types.ExprString(x.Index)
	case *ast.CallExpr:
		// generated getter chains keep the value: x.GetSuppliers()[0] is handled above; here a
		// helper receives the list
		g, _ := typeutil.Callee(d.pkg.TypesInfo, x).(*types.Func)
		if g == nil || g.Pkg() == nil || !strings.HasPrefix(g.Pkg().Path(), modPath+"/") {
			return "", "call of " + types.ExprString(x.Fun)
		}
		gfd, gpk := c.P.FuncDecl(objName(g))
		if gfd == nil || gfd.Body == nil {
			return "", "helper without body"
		}
		// which parameter receives the list?
		var param types.Object
		idx := 0
		for _, f := range gfd.Type.Params.List {
			for _, nm := range f.Names {
				if idx < len(x.Args) {
					if strings.HasSuffix(normText(types.ExprString(x.Args[idx])), "."+list) {
						param = gpk.TypesInfo.Defs[nm]
					}
				}
				idx++
			}
		}
		if param == nil {
			return "", "helper does not receive " + list
		}
		gd := &declInfo{fd: gfd, pkg: gpk, obj: g, name: objName(g)}
		return helperSelectsFirst(gd, func(e ast.Expr) bool { return objOf(gpk, e) == param }, nil)
	case *ast.Ident:
		// a local filled by a selection loop written in place
		if obj := objOf(d.pkg, x); obj != nil {
			if _, isVar := obj.(*types.Var); isVar {
				return helperSelectsFirst(d, func(e ast.Expr) bool { return strings.HasSuffix(normText(types.ExprString(e)), "."+list) }, obj)
			}
		}
	}
	return "", types.ExprString(e)
}

// helperSelectsFirst: every non-zero value the helper returns is the first accepted element of param.
// With target != nil the question is asked about that local instead of the returned value.
func helperSelectsFirst(d *declInfo, isParam func(ast.Expr) bool, target types.Object) (string, string) {
	// range loops over the parameter and their value / key variables
	type loopVars struct {
		rs       *ast.RangeStmt
		key, val types.Object
	}
	var loops []loopVars
	ast.Inspect(d.fd.Body, func(n ast.Node) bool {
		if rs, ok := n.(*ast.RangeStmt); ok && isParam(rs.X) {
			lv := loopVars{rs: rs}
			if id, ok := rs.Key.(*ast.Ident); ok {
				lv.key = d.pkg.TypesInfo.Defs[id]
			}
			if id, ok := rs.Value.(*ast.Ident); ok {
				lv.val = d.pkg.TypesInfo.Defs[id]
			}
			loops = append(loops, lv)
		}
		return true
	})
	elemOf := func(e ast.Expr) *loopVars {
		for i := range loops {
			lv := &loops[i]
			if lv.val != nil && objOf(d.pkg, e) == lv.val {
				return lv
			}
			if ix, ok := e.(*ast.IndexExpr); ok && isParam(ix.X) && lv.key != nil && objOf(d.pkg, ix.Index) == lv.key {
				return lv
			}
		}
		return nil
	}
	within := func(n ast.Node, rs *ast.RangeStmt) bool { return n.Pos() >= rs.Body.Pos() && n.End() <= rs.Body.End() }
	// exitsAfter: the statement list containing `stmt` leaves the loop (break / return) right after it
	exitsAfter := func(stmt ast.Stmt, rs *ast.RangeStmt) bool {
		chain := enclosing(rs.Body, stmt)
		for i := len(chain) - 1; i >= 0; i-- {
			var listStmts []ast.Stmt
			switch b := chain[i].(type) {
			case *ast.BlockStmt:
				listStmts = b.List
			case *ast.CaseClause:
				listStmts = b.Body
			default:
				continue
			}
			for j, s := range listStmts {
				if s.Pos() <= stmt.Pos() && stmt.End() <= s.End() {
					for _, nx := range listStmts[j+1:] {
						switch y := nx.(type) {
						case *ast.BranchStmt:
							return y.Tok == token.BREAK && y.Label == nil
						case *ast.ReturnStmt:
							return true
						}
					}
				}
			}
			// fell off the end of an inner block: continue with the enclosing one only if that
			// block is not the loop body itself
			if chain[i] == ast.Node(rs.Body) {
				return false
			}
		}
		return false
	}
	verdict, why := "", "no return of an element"
	set := func(v, w string) {
		if verdict == "other" {
			return
		}
		if v == "other" || verdict == "" {
			verdict, why = v, w
		}
	}
	localSel := func(obj types.Object, name string) {
		found := false
		ast.Inspect(d.fd.Body, func(m ast.Node) bool {
			as, ok := m.(*ast.AssignStmt)
			if !ok {
				return true
			}
			for i, l := range as.Lhs {
				if objOf(d.pkg, l) != obj || i >= len(as.Rhs) {
					continue
				}
				rhs := as.Rhs[i]
				if isNilIdent(d.pkg, rhs) {
					continue
				}
				if ix, ok := rhs.(*ast.IndexExpr); ok && isParam(ix.X) {
					if v, isC := constOf(d.pkg, ix.Index); isC && v.isInt() {
						found = true
						if v.int() == 0 {
							set("first", "takes "+types.ExprString(rhs))
						} else {
							set("other", "takes "+types.ExprString(rhs))
						}
						continue
					}
				}
				if lv := elemOf(rhs); lv != nil && within(as, lv.rs) {
					found = true
					if exitsAfter(as, lv.rs) {
						set("first", "the loop stops at the first accepted element")
					} else {
						set("other", "the selection loop keeps assigning until the end of the list (the last accepted element wins)")
					}
					continue
				}
				found = true
				set("", "assigned "+types.ExprString(rhs))
			}
			return true
		})
		if !found {
			set("", "returns "+name)
		}
	}
	if target != nil {
		localSel(target, target.Name())
		return verdict, why
	}
	ast.Inspect(d.fd.Body, func(n ast.Node) bool {
		rs, ok := n.(*ast.ReturnStmt)
		if !ok || len(rs.Results) == 0 {
			return true
		}
		r0 := rs.Results[0]
		if isNilIdent(d.pkg, r0) {
			return true
		}
		if ix, ok := r0.(*ast.IndexExpr); ok && isParam(ix.X) {
			if v, isC := constOf(d.pkg, ix.Index); isC && v.isInt() {
				if v.int() == 0 {
					set("first", "returns "+types.ExprString(r0))
				} else {
					set("other", "returns "+types.ExprString(r0))
				}
				return true
			}
		}
		if lv := elemOf(r0); lv != nil && within(rs, lv.rs) {
			set("first", "returns from inside the loop at the first accepted element")
			return true
		}
		// a local that the loop assigns
		if id, ok := r0.(*ast.Ident); ok {
			localSel(objOf(d.pkg, id), id.Name)
			return true
		}
		set("", "returns "+types.ExprString(r0))
		return true
	})
	return verdict, why
}

// renderEncodesRegisteredVersion: C06 — "detection applied to the writer's output returns exactly
// that format". The registry row K ↦ NewCDX(v, enc) says what the output declares only if Render
// asks the library for exactly that version: the stream goes to cdx.NewBOMEncoder only, and the
// encoder's only output call is EncodeVersion with the value ParseVersion made of the driver's
// version field. A version-less Encode (or another encoder on the stream) writes whatever the
// native document happens to say.
func renderEncodesRegisteredVersion(c *Ctx) {
	const R = "render-encodes-registered-version"
	c.rule(R, "in (*CDX).Render and the helpers it owns the output stream is handed only to cdx.NewBOMEncoder, every output call on that encoder is EncodeVersion, and its version operand is the first result of ParseVersion applied to the driver's version field")
	root := "serializers.(*CDX).Render"
	d0 := c.decl(R, root)
	if d0 == nil {
		return
	}
	ds := []*declInfo{d0}
	for _, d := range c.reachDecls(R, root) {
		if d.name != root && ownerName(d) == root {
			ds = append(ds, d)
		}
	}
	nEnc := 0
	for _, d := range ds {
		defs := singleDefs(d.pkg, d.fd.Body)
		// stream parameters: parameters of an io.Writer-like interface type
		streams := map[types.Object]bool{}
		for _, f := range d.fd.Type.Params.List {
			for _, nm := range f.Names {
				o := d.pkg.TypesInfo.Defs[nm]
				if o != nil && strings.HasSuffix(o.Type().String(), "io.Writer") {
					streams[o] = true
				}
			}
		}
		ast.Inspect(d.fd.Body, func(n ast.Node) bool {
			ce, ok := n.(*ast.CallExpr)
			if !ok {
				return true
			}
			fn, _ := typeutil.Callee(d.pkg.TypesInfo, ce).(*types.Func)
			if fn == nil {
				return true
			}
			full := fn.FullName()
			// (1) where does the stream go?
			for _, a := range ce.Args {
				if id, isId := a.(*ast.Ident); isId && streams[objOf(d.pkg, id)] {
					okSink := strings.HasSuffix(full, "cyclonedx-go.NewBOMEncoder") || (fn.Pkg() != nil && strings.HasPrefix(fn.Pkg().Path(), modPath+"/") && ownerNameOf(c, fn) == root)
					c.check(okSink, R, d.name+"#stream→"+fn.Name(), c.P.Pos(ce.Pos()), "the stream goes to the versioned encoder",
						fmt.Sprintf("the output stream is handed to %s: what is written there does not go through the version conversion of the registered format", full))
				}
			}
			// (2) output calls on the encoder
			if sig, _ := fn.Type().(*types.Signature); sig != nil && sig.Recv() != nil && strings.HasSuffix(sig.Recv().Type().String(), "cyclonedx-go.BOMEncoder") {
				switch fn.Name() {
				case "EncodeVersion":
					nEnc++
					okV := false
					if len(ce.Args) == 2 {
						v := chase(d.pkg, defs, ce.Args[1])
						if pc, isCall := v.(*ast.CallExpr); isCall {
							if pf, _ := typeutil.Callee(d.pkg.TypesInfo, pc).(*types.Func); pf != nil && pf.Name() == "ParseVersion" && len(pc.Args) == 1 {
								if sel, isSel := pc.Args[0].(*ast.SelectorExpr); isSel && canonField(sel.Sel.Name) == "version" {
									okV = true
								}
							}
						}
					}
					c.check(okV, R, d.name+"#EncodeVersion", c.P.Pos(ce.Pos()), "encodes at ParseVersion(driver version)",
						"the version handed to EncodeVersion is not ParseVersion of the driver's version field: the output declares another version than the format it was registered for")
				case "Encode":
					c.bad(R, d.name+"#Encode", c.P.Pos(ce.Pos()), "BOMEncoder.Encode writes the native document without converting it to the registered version: the output declares the library's default specVersion, which detection reports as another format or none")
				}
			}
			return true
		})
	}
	if nEnc == 0 {
		c.undecided(R, root+"#EncodeVersion", c.P.Pos(d0.fd.Pos()), "no EncodeVersion call found")
	}
}

// ownerNameOf: ownerName for a types.Func.
func ownerNameOf(c *Ctx, fn *types.Func) string {
	fd, pk := c.P.FuncDecl(objName(fn))
	if fd == nil {
		return objName(fn)
	}
	return ownerName(&declInfo{fd: fd, pkg: pk, obj: fn, name: objName(fn)})
}

// ---- comparator validity (C13) ----

// comparatorVerdict decides whether the function literal handed to sort.Slice / slices.SortFunc is a
// strict weak order built the usual way: one strict comparison of a key, or a lexicographic chain in
// which every later key is compared only under equality of all earlier ones. "invalid" names a
// comparator that is provably not an order (`a.k1 < b.k1 || a.k2 < b.k2`, `<=`); "" is undecided.
func comparatorVerdict(d *declInfo, lit *ast.FuncLit, intResult bool) (string, string) {
	if lit.Type.Params == nil {
		return "", "no parameters"
	}
	var names []string
	for _, f := range lit.Type.Params.List {
		for _, n := range f.Names {
			names = append(names, n.Name)
		}
	}
	if len(names) != 2 {
		return "", "comparator without two named parameters"
	}
	a, b := names[0], names[1]
	side := func(e ast.Expr, first, second string) string {
		s := " " + types.ExprString(e) + " "
		var out strings.Builder
		// token-wise replacement of the two parameter names
		i := 0
		isIdent := func(c byte) bool {
			return c == '_' || (c >= 'a' && c <= 'z') || (c >= 'A' && c <= 'Z') || (c >= '0' && c <= '9')
		}
		for i < len(s) {
			if isIdent(s[i]) && (i == 0 || !isIdent(s[i-1])) {
				j := i
				for j < len(s) && isIdent(s[j]) {
					j++
				}
				w := s[i:j]
				// a selector's field name is not a parameter
				if i > 0 && s[i-1] == '.' {
					out.WriteString(w)
				} else if w == first {
					out.WriteString("#1")
				} else if w == second {
					out.WriteString("#2")
				} else {
					out.WriteString(w)
				}
				i = j
				continue
			}
			out.WriteByte(s[i])
			i++
		}
		return strings.TrimSpace(out.String())
	}
	// keyOf: for `L op R` the key both sides read, "" when they read different things; dir = +1 when
	// the first parameter is on the left
	keyOf := func(l, r ast.Expr) string {
		if side(l, a, b) == side(r, b, a) && strings.Contains(side(l, a, b), "#") {
			return side(l, a, b)
		}
		return ""
	}
	unparen := func(e ast.Expr) ast.Expr {
		for {
			p, ok := e.(*ast.ParenExpr)
			if !ok {
				return e
			}
			e = p.X
		}
	}
	// strict comparison of one key: returns the key
	var cmpKey func(e ast.Expr) (string, string)
	cmpKey = func(e ast.Expr) (string, string) {
		e = unparen(e)
		be, ok := e.(*ast.BinaryExpr)
		if !ok {
			return "", ""
		}
		switch be.Op {
		case token.LSS, token.GTR:
			// strings.Compare(x, y) < 0
			if ce, isCall := unparen(be.X).(*ast.CallExpr); isCall && len(ce.Args) == 2 {
				if v, isC := constOf(d.pkg, be.Y); isC && v.isInt() && v.int() == 0 {
					if k := keyOf(ce.Args[0], ce.Args[1]); k != "" {
						return k, ""
					}
				}
			}
			if k := keyOf(be.X, be.Y); k != "" {
				return k, ""
			}
			return "", ""
		case token.LEQ, token.GEQ:
			if k := keyOf(be.X, be.Y); k != "" {
				return "", "`" + types.ExprString(be) + "` is not strict: equal elements compare as less in both directions"
			}
		}
		return "", ""
	}
	eqKey := func(e ast.Expr) string {
		be, ok := unparen(e).(*ast.BinaryExpr)
		if !ok || be.Op != token.EQL {
			return ""
		}
		return keyOf(be.X, be.Y)
	}
	neqKey := func(e ast.Expr) string {
		be, ok := unparen(e).(*ast.BinaryExpr)
		if !ok || be.Op != token.NEQ {
			return ""
		}
		return keyOf(be.X, be.Y)
	}
	// boolean less-expression
	var lessExpr func(e ast.Expr) (string, string)
	lessExpr = func(e ast.Expr) (string, string) {
		e = unparen(e)
		if k, bad := cmpKey(e); k != "" {
			return "order", ""
		} else if bad != "" {
			return "invalid", bad
		}
		be, ok := e.(*ast.BinaryExpr)
		if !ok || be.Op != token.LOR {
			return "", "unrecognised comparator expression " + types.ExprString(e)
		}
		k1, bad := cmpKey(be.X)
		if bad != "" {
			return "invalid", bad
		}
		if k1 == "" {
			return "", "unrecognised first alternative " + types.ExprString(be.X)
		}
		// the second alternative must hold only under equality of the first key
		y := unparen(be.Y)
		if and, isAnd := y.(*ast.BinaryExpr); isAnd && and.Op == token.LAND {
			if eqKey(and.X) == k1 {
				return lessExpr(and.Y)
			}
			if eqKey(and.Y) == k1 {
				return lessExpr(and.X)
			}
		}
		if k2, _ := cmpKey(y); k2 != "" || func() bool { v, _ := lessExpr(y); return v != "" }() {
			return "invalid", fmt.Sprintf("`%s` compares a second key without requiring the first (%s) to be equal: for some pairs both less(x, y) and less(y, x) hold, so the sorted order depends on the order of the input", types.ExprString(e), strings.NewReplacer("#1", a, "#2", b).Replace(k1))
		}
		return "", "unrecognised second alternative " + types.ExprString(y)
	}
	stmts := lit.Body.List
	for idx, st := range stmts {
		switch s := st.(type) {
		case *ast.ReturnStmt:
			if len(s.Results) != 1 {
				return "", "return without a single result"
			}
			if intResult {
				if ce, isCall := unparen(s.Results[0]).(*ast.CallExpr); isCall && len(ce.Args) == 2 && keyOf(ce.Args[0], ce.Args[1]) != "" {
					return "order", ""
				}
				return "", "unrecognised three-way comparator " + types.ExprString(s.Results[0])
			}
			return lessExpr(s.Results[0])
		case *ast.IfStmt:
			// if k(a) != k(b) { return k(a) < k(b) }   — one lexicographic step
			if s.Else == nil && len(s.Body.List) == 1 {
				if rs, isRet := s.Body.List[0].(*ast.ReturnStmt); isRet && len(rs.Results) == 1 {
					if intResult {
						// if c := cmp.Compare(x, y); c != 0 { return c }
						if s.Init != nil {
							continue
						}
					} else if k := neqKey(s.Cond); k != "" {
						if k2, bad := cmpKey(rs.Results[0]); k2 == k {
							continue
						} else if bad != "" {
							return "invalid", bad
						}
					} else if k, _ := cmpKey(s.Cond); k != "" {
						// if k(a) < k(b) { return true } ; if k(a) > k(b) { return false }
						if _, isC := constOf(d.pkg, rs.Results[0]); isC {
							continue
						}
					}
				}
			}
			return "", fmt.Sprintf("unrecognised statement %d of the comparator", idx+1)
		case *ast.AssignStmt, *ast.DeclStmt:
			continue
		default:
			return "", fmt.Sprintf("unrecognised statement %d of the comparator", idx+1)
		}
	}
	return "", "comparator does not end in a return"
}

// normaliserDedupesTargets: C08/C10 — "no repeated targets". Every append onto the To list of a
// rebuilt edge in the edge normaliser adds a value that cannot already be there: the key of a range
// over a map (keys are unique), a value under a negative membership test of that very list or of a
// set this function fills with the same key, or the list is sorted and compacted afterwards.
// slices.Compact alone removes adjacent repeats only.
func normaliserDedupesTargets(c *Ctx) {
	const R = "normaliser-dedupes-targets"
	fname := "sbom.(*NodeList).cleanEdges"
	c.rule(R, "in the edge normaliser every value appended to a rebuilt edge's To is a map-range key, or is appended under a negative membership test on that list / a seen-set keyed by the same value, or the list is sorted and then compacted before it is stored; slices.Compact without a preceding sort does not count")
	d := c.decl(R, fname)
	if d == nil {
		return
	}
	info := d.pkg.TypesInfo
	n := 0
	ast.Inspect(d.fd.Body, func(node ast.Node) bool {
		as, ok := node.(*ast.AssignStmt)
		if !ok || len(as.Lhs) != 1 || len(as.Rhs) != 1 {
			return true
		}
		sel, isSel := as.Lhs[0].(*ast.SelectorExpr)
		if !isSel || sel.Sel.Name != "To" {
			return true
		}
		ce, isCall := as.Rhs[0].(*ast.CallExpr)
		if !isCall {
			return true
		}
		id, isId := ce.Fun.(*ast.Ident)
		if !isId || id.Name != "append" || len(ce.Args) < 2 {
			return true
		}
		if _, isB := info.Uses[id].(*types.Builtin); !isB {
			return true
		}
		listText := normText(types.ExprString(as.Lhs[0]))
		for _, a := range ce.Args[1:] {
			n++
			construct := fmt.Sprintf("%s#append@%d", fname, n)
			vobj := objOf(d.pkg, a)
			why := ""
			// (a) key of a range over a map
			for _, en := range enclosing(d.fd.Body, as) {
				rs, isRange := en.(*ast.RangeStmt)
				if !isRange || rs.Key == nil || objOf(d.pkg, rs.Key) != vobj || vobj == nil {
					continue
				}
				if t := info.TypeOf(rs.X); t != nil {
					if _, isMap := t.Underlying().(*types.Map); isMap {
						why = "key of a range over the map " + types.ExprString(rs.X)
					}
				}
			}
			// (b) negative membership test of the list or of a set filled with the same key
			if why == "" {
				chain := enclosing(d.fd.Body, as)
				for i, en := range chain {
					ifs, isIf := en.(*ast.IfStmt)
					if !isIf || i+1 >= len(chain) {
						continue
					}
					positive := chain[i+1] == ast.Node(ifs.Body)
					cond := ifs.Cond
					neg := false
					if u, isU := cond.(*ast.UnaryExpr); isU && u.Op == token.NOT {
						cond, neg = u.X, true
					}
					if cc, isC := cond.(*ast.CallExpr); isC && positive && neg && len(cc.Args) == 2 {
						if f, _ := typeutil.Callee(info, cc).(*types.Func); f != nil && f.FullName() == "slices.Contains" &&
							normText(types.ExprString(cc.Args[0])) == listText && objOf(d.pkg, cc.Args[1]) == vobj {
							why = "appended only when not yet in the list"
						}
					}
				}
				// preceding sibling `if member { continue }`
				if why == "" {
					for _, g := range membersAt(d, as) {
						if g.present || normText(g.key) != normText(types.ExprString(a)) {
							continue
						}
						// the set must be filled by this function with the same key
						filled := false
						ast.Inspect(d.fd.Body, func(m ast.Node) bool {
							if s2, ok := m.(*ast.AssignStmt); ok {
								for _, l := range s2.Lhs {
									if ix, ok := l.(*ast.IndexExpr); ok && normText(types.ExprString(ix.X)) == normText(g.mexpr) && normText(types.ExprString(ix.Index)) == normText(g.key) {
										filled = true
									}
								}
							}
							return true
						})
						if filled {
							why = "appended only when absent from the seen-set " + g.mexpr
						}
					}
				}
			}
			// (c) sort then compact of the same list later in the function
			if why == "" {
				var sortPos, compactPos token.Pos
				ast.Inspect(d.fd.Body, func(m ast.Node) bool {
					cc, ok := m.(*ast.CallExpr)
					if !ok || len(cc.Args) == 0 || normText(types.ExprString(cc.Args[0])) != listText {
						return true
					}
					if f, _ := typeutil.Callee(info, cc).(*types.Func); f != nil {
						switch f.FullName() {
						case "slices.Sort", "sort.Strings":
							sortPos = cc.Pos()
						case "slices.Compact":
							compactPos = cc.Pos()
						}
					}
					return true
				})
				if sortPos.IsValid() && compactPos.IsValid() && sortPos < compactPos {
					why = "sorted and compacted afterwards"
				} else if compactPos.IsValid() {
					c.bad(R, construct, c.P.Pos(as.Pos()), fmt.Sprintf("%s may be appended to %s repeatedly and the later slices.Compact removes adjacent repeats only (the list is not sorted first): [b c b] keeps both b", types.ExprString(a), types.ExprString(as.Lhs[0])))
					continue
				}
			}
			c.check(why != "", R, construct, c.P.Pos(as.Pos()), why,
				fmt.Sprintf("%s is appended to %s without anything that keeps it unique: a target listed twice (or by two merged edges) appears twice in the normalised edge", types.ExprString(a), types.ExprString(as.Lhs[0])))
		}
		return true
	})
	if n == 0 {
		c.undecided(R, fname+"#shape", c.P.Pos(d.fd.Pos()), "no append onto a rebuilt edge's To found")
	}
}

// nestingAcyclic: C07 — clearAutoRefs (and the encoder) descend the component tree recursively; the
// descent is finite only while the tree is a tree. A by-value copy of a component appended to the
// child list of that same component carries the pointer to that very list: the structure becomes
// cyclic and the descent never ends. Every such attachment must exclude parent == child.
func nestingAcyclic(c *Ctx) {
	const R = "nesting-is-acyclic"
	c.rule(R, "every statement that appends the by-value copy *Y of an existing component (a dictionary entry, a parameter) onto (*X).Components is dominated by a test that X and Y differ — by pointer, or by key when both are entries M[K1], M[K2] of one dictionary (an early exit on equality or an enclosing `!=`): a component nested in itself shares its own child list, and the recursive passes over the tree (clearAutoRefs, encoding) do not terminate")
	n := 0
	for _, d := range pkgFilter(c.reachDecls(R, cdxSer), "serializers.") {
		defs := singleDefs(d.pkg, d.fd.Body)
		ref := func(e ast.Expr) (text string, ix *ast.IndexExpr) {
			e = chase(d.pkg, defs, e)
			ix, _ = e.(*ast.IndexExpr)
			return normText(types.ExprString(e)), ix
		}
		keyText := func(e ast.Expr) string { return normText(types.ExprString(chase(d.pkg, defs, e))) }
		ast.Inspect(d.fd.Body, func(x ast.Node) bool {
			as, ok := x.(*ast.AssignStmt)
			if !ok || len(as.Rhs) != 1 {
				return true
			}
			ce, isCall := as.Rhs[0].(*ast.CallExpr)
			if !isCall || len(ce.Args) < 2 {
				return true
			}
			if id, isId := ce.Fun.(*ast.Ident); !isId || id.Name != "append" {
				return true
			}
			first := ce.Args[0]
			if st, isStar := first.(*ast.StarExpr); isStar {
				first = st.X
			}
			sel, isSel := first.(*ast.SelectorExpr)
			if !isSel || sel.Sel.Name != "Components" {
				return true
			}
			pt := d.pkg.TypesInfo.TypeOf(sel.X)
			if pt == nil {
				return true
			}
			if _, isPtr := pt.Underlying().(*types.Pointer); !isPtr {
				return true
			}
			pText, pIx := ref(sel.X)
			for _, a := range ce.Args[1:] {
				st, isStar := a.(*ast.StarExpr)
				if !isStar {
					continue // a freshly built value has no child list yet
				}
				ct := d.pkg.TypesInfo.TypeOf(st.X)
				if ct == nil || !types.Identical(ct, pt) {
					continue
				}
				cText, cIx := ref(st.X)
				n++
				construct := fmt.Sprintf("%s#attach@%d", d.name, n)
				same := func(a, b string) bool { return a == b }
				isCmp := func(e ast.Expr, op token.Token) bool {
					be, ok := e.(*ast.BinaryExpr)
					if !ok || be.Op != op {
						return false
					}
					l, r := keyText(be.X), keyText(be.Y)
					// pointer comparison of the two components
					if (same(l, pText) && same(r, cText)) || (same(l, cText) && same(r, pText)) {
						return true
					}
					// key comparison when both are entries of one dictionary
					if pIx != nil && cIx != nil && normText(types.ExprString(pIx.X)) == normText(types.ExprString(cIx.X)) {
						pk, ck := keyText(pIx.Index), keyText(cIx.Index)
						return (l == pk && r == ck) || (l == ck && r == pk)
					}
					return false
				}
				differ := false
				chain := enclosing(d.fd.Body, as)
				for i, en := range chain {
					switch y := en.(type) {
					case *ast.IfStmt:
						if i+1 < len(chain) && chain[i+1] == ast.Node(y.Body) {
							for _, cj := range conjuncts(y.Cond) {
								if isCmp(cj, token.NEQ) {
									differ = true
								}
							}
						}
					case *ast.BlockStmt:
						if i+1 >= len(chain) {
							continue
						}
						for _, st2 := range y.List {
							if st2 == chain[i+1] {
								break
							}
							if ifs, isIf := st2.(*ast.IfStmt); isIf && terminates(ifs.Body) && isCmp(ifs.Cond, token.EQL) {
								differ = true
							}
						}
					}
				}
				c.check(differ, R, construct, c.P.Pos(as.Pos()), "parent and child are known to differ",
					fmt.Sprintf("the copy of %s is appended to the child list of %s without excluding that they are the same component: a node that contains itself yields a component whose child list contains a copy sharing that same list, and the recursive passes over the tree overflow the stack", cText, pText))
			}
			return true
		})
	}
	if n == 0 {
		c.undecided(R, "anchor:attachment", "-", "no attachment of an existing component to another component's Components found")
	}
}

// encodingHistoryFree: C13/C14 — the equality encoding of a value is a function of that value. A
// helper of an encoder that returns early for a key it finds in a set it also fills (and never
// empties again on the way out) makes the encoding of a shared sub-value depend on what was encoded
// before it: the second occurrence of one *Person encodes as nothing.
func encodingHistoryFree(c *Ctx, rule string, encoders ...string) {
	c.rule(rule, "no function of an equality encoder (flatString and the helpers it hands its subject to) returns early under a membership test of a map that the same function inserts into without deleting the key again before it returns (an on-path set is fine, a seen-anywhere set is not): the encoding of a value must not depend on which values were encoded before it")
	seen := map[*types.Func]bool{}
	var visit func(d *declInfo, subject types.Object, depth int)
	visit = func(d *declInfo, subject types.Object, depth int) {
		if d == nil || depth > 3 || seen[d.obj] {
			return
		}
		seen[d.obj] = true
		c.sawFunc(d.name)
		bad := ""
		var pos token.Pos
		ast.Inspect(d.fd.Body, func(n ast.Node) bool {
			ifs, ok := n.(*ast.IfStmt)
			if !ok || !terminates(ifs.Body) {
				return true
			}
			for _, f := range condMembers(d, ifs.Cond, true, commaOkLookups(d, ifs), "if") {
				if !f.present || f.m == nil {
					continue
				}
				// the same function inserts the key …
				inserts, deletes := false, false
				ast.Inspect(d.fd.Body, func(m ast.Node) bool {
					switch s := m.(type) {
					case *ast.AssignStmt:
						for _, l := range s.Lhs {
							if ix, ok := l.(*ast.IndexExpr); ok && baseObj(d, ix.X) == f.m && sameKey(types.ExprString(ix.Index), f.key) {
								inserts = true
							}
						}
					case *ast.CallExpr:
						if id, ok := s.Fun.(*ast.Ident); ok && id.Name == "delete" && len(s.Args) == 2 && objOf(d.pkg, s.Args[0]) == f.m {
							deletes = true
						}
					}
					return true
				})
				if inserts && !deletes {
					bad, pos = fmt.Sprintf("returns early when %s is already in %s, which it fills and never empties", f.key, f.mexpr), ifs.Pos()
				}
			}
			return true
		})
		c.check(bad == "", rule, d.name, c.P.Pos(pos), "no seen-anywhere set", fmt.Sprintf("%s %s: a value reachable twice (a shared contact) is encoded in full the first time and as nothing the second time, so equal values get different encodings and different values the same", d.name, bad))
		for _, cs := range callsIn(d.pkg, d.fd.Body) {
			if cs.callee.Pkg() == nil || !strings.HasPrefix(cs.callee.Pkg().Path(), modPath+"/") || cs.callee == d.obj {
				continue
			}
			fd, pk := c.P.FuncDecl(objName(cs.callee))
			if fd == nil || fd.Body == nil {
				continue
			}
			// helpers that receive the subject, or an element of one of its lists, as receiver
			if sel, ok := cs.call.Fun.(*ast.SelectorExpr); ok && fd.Recv != nil && len(fd.Recv.List) == 1 && len(fd.Recv.List[0].Names) == 1 {
				rt := d.pkg.TypesInfo.TypeOf(sel.X)
				if rt != nil && subject != nil && types.Identical(rt, subject.Type()) {
					visit(&declInfo{fd: fd, pkg: pk, obj: cs.callee, name: objName(cs.callee)}, pk.TypesInfo.Defs[fd.Recv.List[0].Names[0]], depth+1)
				}
			}
		}
	}
	for _, e := range encoders {
		d := c.decl(rule, e)
		if d == nil {
			continue
		}
		recv, _ := recvAndParam(d)
		visit(d, recv, 0)
	}
}

// commaOkLookups: the comma-ok lookups usable in the condition of ifs (its own init statement and
// the function's other single-statement lookups).
func commaOkLookups(d *declInfo, ifs *ast.IfStmt) map[types.Object]*ast.IndexExpr {
	out := map[types.Object]*ast.IndexExpr{}
	ast.Inspect(d.fd.Body, func(n ast.Node) bool {
		if s, ok := n.(ast.Stmt); ok {
			if o, ix := commaOkLookup(d, s); o != nil {
				out[o] = ix
			}
		}
		return true
	})
	if ifs.Init != nil {
		if o, ix := commaOkLookup(d, ifs.Init); o != nil {
			out[o] = ix
		}
	}
	return out
}

// seedTransformsKeepSeeds: C05 — "deterministically whenever a usable seed is given". Inside the
// identifier generator every rewrite of a seed maps a non-empty string to a non-empty string:
// replacing by a non-empty constant, escaping through the regexp, case mapping. A trim, a cut, a
// re-slice or a replacement by "" can empty a seed; an emptied seed is dropped and the generator
// falls back to a random UUID although a seed was given.
func seedTransformsKeepSeeds(c *Ctx) {
	const R = "seed-survives-normalisation"
	c.rule(R, "in NewNodeIdentifier (and the unexported helpers it is split into) every assignment that rewrites a seed string is strings.ReplaceAll/Replace with a non-empty constant replacement, a regexp ReplaceAll* escape, strings.ToLower/ToUpper/ToValidUTF8 with a non-empty replacement, a conversion, or a concatenation that keeps the seed; strings.Trim*/TrimSpace/Cut*/Split*/Fields and re-slicing are reported (they can empty a seed, which is then replaced by a random identifier)")
	n := 0
	for _, d := range pkgFilter(c.reachDecls(R, "sbom.NewNodeIdentifier"), "sbom.") {
		if d.name != "sbom.NewNodeIdentifier" && (d.obj == nil || ast.IsExported(d.obj.Name())) {
			continue
		}
		info := d.pkg.TypesInfo
		ast.Inspect(d.fd.Body, func(x ast.Node) bool {
			if _, isLit := x.(*ast.FuncLit); isLit {
				return false // the escape callback builds its own replacement text (identifier-alphabet)
			}
			as, ok := x.(*ast.AssignStmt)
			if !ok || as.Tok != token.ASSIGN || len(as.Lhs) != len(as.Rhs) {
				return true
			}
			for i, l := range as.Lhs {
				lo := objOf(d.pkg, l)
				if lo == nil {
					continue
				}
				if b, isB := lo.Type().Underlying().(*types.Basic); !isB || b.Info()&types.IsString == 0 {
					continue
				}
				// a rewrite: the right-hand side mentions the variable itself
				self := false
				ast.Inspect(as.Rhs[i], func(m ast.Node) bool {
					if id, ok := m.(*ast.Ident); ok && info.Uses[id] == lo {
						self = true
					}
					return true
				})
				if !self {
					continue
				}
				n++
				verdict, why := "", ""
				var judge func(e ast.Expr) (string, string)
				judge = func(e ast.Expr) (string, string) {
					switch y := e.(type) {
					case *ast.ParenExpr:
						return judge(y.X)
					case *ast.Ident:
						if info.Uses[y] == lo {
							return "keeps", "the seed itself"
						}
					case *ast.BinaryExpr:
						if y.Op == token.ADD {
							if v, _ := judge(y.X); v == "keeps" {
								return "keeps", "concatenation"
							}
							if v, _ := judge(y.Y); v == "keeps" {
								return "keeps", "concatenation"
							}
						}
					case *ast.SliceExpr:
						return "empties", "re-slicing " + types.ExprString(y)
					case *ast.CallExpr:
						if tv, ok := info.Types[y.Fun]; ok && tv.IsType() && len(y.Args) == 1 {
							return judge(y.Args[0])
						}
						f, _ := typeutil.Callee(info, y).(*types.Func)
						if f == nil {
							return "", "call of " + types.ExprString(y.Fun)
						}
						full := f.FullName()
						nonEmptyConst := func(a ast.Expr) bool {
							v, ok := constOf(d.pkg, a)
							return ok && v.isStr() && v.str() != ""
						}
						switch {
						case full == "strings.ReplaceAll" && len(y.Args) == 3, full == "strings.Replace" && len(y.Args) == 4:
							if nonEmptyConst(y.Args[2]) {
								return judge(y.Args[0])
							}
							return "empties", full + " with a replacement that may be empty"
						case full == "strings.ToLower", full == "strings.ToUpper", full == "strings.ToTitle":
							return judge(y.Args[0])
						case strings.HasPrefix(full, "(*regexp.Regexp).ReplaceAll"):
							// the escape: judged by identifier-alphabet; it maps matches to C<number> text
							if len(y.Args) >= 1 {
								return judge(y.Args[0])
							}
						case strings.HasPrefix(full, "strings.Trim"), strings.HasPrefix(full, "strings.Cut"), strings.HasPrefix(full, "strings.Split"),
							full == "strings.Fields", full == "strings.TrimSpace":
							return "empties", full + " can return the empty string for a non-empty seed"
						}
						return "", "call of " + full
					}
					return "", types.ExprString(e)
				}
				verdict, why = judge(as.Rhs[i])
				construct := fmt.Sprintf("%s#rewrite@%d", d.name, n)
				switch verdict {
				case "keeps":
					c.ok(R, construct, c.P.Pos(as.Pos()), "non-empty seeds stay non-empty ("+why+")")
				case "empties":
					c.bad(R, construct, c.P.Pos(as.Pos()), fmt.Sprintf("the seed is rewritten by %s: a seed made only of the characters removed becomes empty, is dropped, and the identifier is generated from a random UUID although a seed was given", why))
				default:
					c.undecided(R, construct, c.P.Pos(as.Pos()), "seed rewrite not recognised: "+why)
				}
			}
			return true
		})
	}
	if n == 0 {
		c.undecided(R, "anchor:sbom.NewNodeIdentifier", "-", "no seed rewrite found in the generator")
	}
}

// calleeWriteGuards: when a loop's accumulate step is a call of a module helper that writes through
// its receiver or a parameter, the helper's own early exits and enclosing conditions decide whether
// the element is taken. They are returned as text (empty: the write is unconditional, apart from
// lazy initialisation of the container and nil-receiver tests).
func calleeWriteGuards(f *types.Func) []string {
	if theProgram == nil || f == nil {
		return nil
	}
	fd, pk := theProgram.FuncDecl(objName(f))
	if fd == nil || fd.Body == nil {
		return nil
	}
	d := &declInfo{fd: fd, pkg: pk, obj: f, name: objName(f)}
	owned := map[types.Object]bool{}
	if fd.Recv != nil && len(fd.Recv.List) == 1 && len(fd.Recv.List[0].Names) == 1 {
		owned[pk.TypesInfo.Defs[fd.Recv.List[0].Names[0]]] = true
	}
	for _, fl := range fd.Type.Params.List {
		for _, n := range fl.Names {
			owned[pk.TypesInfo.Defs[n]] = true
		}
	}
	// the writes (only direct ones; nested helpers are judged where they are the accumulate step)
	var writes []*ast.AssignStmt
	ast.Inspect(fd.Body, func(n ast.Node) bool {
		if _, isLit := n.(*ast.FuncLit); isLit {
			return false
		}
		as, ok := n.(*ast.AssignStmt)
		if !ok {
			return true
		}
		for _, l := range as.Lhs {
			if _, bare := l.(*ast.Ident); bare {
				continue
			}
			if owned[baseObj(d, l)] {
				// lazy initialisation `x.M = map…{}` under `x.M == nil` is not the write we look for
				if len(as.Rhs) == 1 {
					if _, isLit := as.Rhs[0].(*ast.CompositeLit); isLit {
						continue
					}
					if ce, isCall := as.Rhs[0].(*ast.CallExpr); isCall {
						if id, isId := ce.Fun.(*ast.Ident); isId && id.Name == "make" {
							continue
						}
					}
				}
				writes = append(writes, as)
			}
		}
		return true
	})
	if len(writes) == 0 {
		return nil
	}
	// only value setters are judged here: the helper rejects some *values* it is handed (a basic-typed
	// parameter appears in the condition) and has no error result through which it could say so
	if sig, _ := f.Type().(*types.Signature); sig != nil {
		for i := 0; i < sig.Results().Len(); i++ {
			if sig.Results().At(i).Type().String() == "error" {
				return nil
			}
		}
	}
	valueParam := map[types.Object]bool{}
	for _, fl := range fd.Type.Params.List {
		for _, n := range fl.Names {
			o := pk.TypesInfo.Defs[n]
			if o == nil {
				continue
			}
			if _, isBasic := o.Type().Underlying().(*types.Basic); isBasic {
				valueParam[o] = true
			}
		}
	}
	mentionsValueParam := func(cond ast.Expr) bool {
		found := false
		ast.Inspect(cond, func(n ast.Node) bool {
			if id, ok := n.(*ast.Ident); ok && valueParam[pk.TypesInfo.Uses[id]] {
				found = true
			}
			return true
		})
		return found
	}
	benign := func(cond ast.Expr) bool {
		if !mentionsValueParam(cond) {
			return true
		}
		_ = 0
		// nil tests of the receiver/parameters themselves
		ok := true
		for _, cj := range append(conjuncts(cond), disjuncts(cond)...) {
			be, isB := cj.(*ast.BinaryExpr)
			if !isB || (be.Op != token.EQL && be.Op != token.NEQ) || !isNilIdent(pk, be.Y) || !owned[objOf(pk, be.X)] {
				ok = false
			}
		}
		return ok
	}
	seen := map[string]bool{}
	var out []string
	add := func(cond ast.Expr) {
		if benign(cond) {
			return
		}
		t := types.ExprString(cond)
		if !seen[t] {
			seen[t] = true
			out = append(out, t)
		}
	}
	// an early exit of the whole function that looks at a field of a parameter (AddNode: n.Id == "")
	// turns the helper into a filter as well
	mentionsParamField := func(cond ast.Expr) bool {
		found := false
		ast.Inspect(cond, func(n ast.Node) bool {
			if sel, ok := n.(*ast.SelectorExpr); ok {
				if id, isId := sel.X.(*ast.Ident); isId {
					if o := pk.TypesInfo.Uses[id]; o != nil && owned[o] && !(fd.Recv != nil && len(fd.Recv.List) == 1 && len(fd.Recv.List[0].Names) == 1 && o == pk.TypesInfo.Defs[fd.Recv.List[0].Names[0]]) {
						found = true
					}
				}
			}
			return true
		})
		return found
	}
	for _, st := range fd.Body.List {
		if st.Pos() > writes[0].Pos() {
			break
		}
		if ifs, isIf := st.(*ast.IfStmt); isIf && ifs.Else == nil && terminates(ifs.Body) && mentionsParamField(ifs.Cond) {
			t := types.ExprString(ifs.Cond)
			if !seen[t] {
				seen[t] = true
				out = append(out, t)
			}
		}
	}
	// every write must be reached on every path: collect what can prevent the first of them
	w := writes[0]
	chain := enclosing(fd.Body, w)
	for i, en := range chain {
		switch y := en.(type) {
		case *ast.IfStmt:
			if i+1 < len(chain) && (chain[i+1] == ast.Node(y.Body) || chain[i+1] == y.Else) {
				add(y.Cond)
			}
		case *ast.BlockStmt:
			if i+1 >= len(chain) {
				continue
			}
			for _, st := range y.List {
				if st == chain[i+1] {
					break
				}
				if ifs, isIf := st.(*ast.IfStmt); isIf && terminates(ifs.Body) {
					add(ifs.Cond)
				}
			}
		case *ast.CaseClause:
			for _, e := range y.List {
				add(e)
			}
		}
	}
	return out
}

func disjuncts(e ast.Expr) []ast.Expr {
	switch x := e.(type) {
	case *ast.ParenExpr:
		return disjuncts(x.X)
	case *ast.BinaryExpr:
		if x.Op == token.LOR {
			return append(disjuncts(x.X), disjuncts(x.Y)...)
		}
	}
	return nil
}

// locksNotCopied: C17 — a mutex guards what shares its address. A struct that holds a sync
// primitive by value and is itself copied (value receiver, by-value parameter or result, plain
// assignment, range value) gives every copy its own lock while the maps and slices inside are still
// shared: the "locked" accesses exclude nobody.
func locksNotCopied(c *Ctx) {
	const R = "lock-not-copied"
	c.rule(R, "no type of the library packages that contains a sync.Mutex/RWMutex/Once/WaitGroup/Cond/Map/Pool or an atomic value by value is copied: its methods have pointer receivers, it is never a by-value parameter or result, and no assignment, range clause or call argument copies a value of that type (composite literals and call results are fresh values)")
	memo := map[types.Type]bool{}
	var holdsLock func(t types.Type, depth int) bool
	holdsLock = func(t types.Type, depth int) bool {
		if depth > 6 {
			return false
		}
		if v, ok := memo[t]; ok {
			return v
		}
		memo[t] = false
		res := false
		if nt, ok := t.(*types.Named); ok && nt.Obj().Pkg() != nil {
			switch nt.Obj().Pkg().Path() + "." + nt.Obj().Name() {
			case "sync.Mutex", "sync.RWMutex", "sync.Once", "sync.WaitGroup", "sync.Cond", "sync.Map", "sync.Pool":
				res = true
			}
			if nt.Obj().Pkg().Path() == "sync/atomic" {
				res = true
			}
		}
		if !res {
			switch u := t.Underlying().(type) {
			case *types.Struct:
				for i := 0; i < u.NumFields(); i++ {
					if holdsLock(u.Field(i).Type(), depth+1) {
						res = true
					}
				}
			case *types.Array:
				res = holdsLock(u.Elem(), depth+1)
			}
		}
		memo[t] = res
		return res
	}
	n := 0
	for _, rel := range statePkgs {
		pk := c.P.pkg(rel)
		if pk == nil {
			continue
		}
		for _, file := range pk.Syntax {
			if strings.HasSuffix(c.P.Fset.Position(file.Pos()).Filename, ".pb.go") {
				continue
			}
			for _, dd := range file.Decls {
				fd, ok := dd.(*ast.FuncDecl)
				if !ok {
					continue
				}
				obj, _ := pk.TypesInfo.Defs[fd.Name].(*types.Func)
				if obj == nil {
					continue
				}
				sig := obj.Type().(*types.Signature)
				name := objName(obj)
				check := func(v *types.Var, role string) {
					if v == nil {
						return
					}
					if _, isPtr := v.Type().(*types.Pointer); isPtr {
						return
					}
					if holdsLock(v.Type(), 0) {
						n++
						c.bad(R, name+"#"+role, c.P.Pos(fd.Pos()), fmt.Sprintf("%s takes its %s of type %s by value: the call copies the lock inside it, so the method locks a private copy while the data it guards is shared with the original", name, role, types.TypeString(v.Type(), func(p *types.Package) string { return p.Name() })))
					}
				}
				check(sig.Recv(), "receiver")
				for i := 0; i < sig.Params().Len(); i++ {
					check(sig.Params().At(i), fmt.Sprintf("parameter %d", i))
				}
				for i := 0; i < sig.Results().Len(); i++ {
					check(sig.Results().At(i), fmt.Sprintf("result %d", i))
				}
				if fd.Body == nil {
					continue
				}
				fresh := func(e ast.Expr) bool {
					switch x := e.(type) {
					case *ast.CompositeLit, *ast.CallExpr:
						return true
					case *ast.ParenExpr:
						_ = x
					}
					return false
				}
				k := 0
				ast.Inspect(fd.Body, func(x ast.Node) bool {
					switch s := x.(type) {
					case *ast.AssignStmt:
						for _, r := range s.Rhs {
							if t := pk.TypesInfo.TypeOf(r); t != nil && !fresh(r) && holdsLock(t, 0) {
								if _, isPtr := t.(*types.Pointer); !isPtr {
									k++
									c.bad(R, fmt.Sprintf("%s#copy@%d", name, k), c.P.Pos(s.Pos()), fmt.Sprintf("%s copies a value of type %s (which contains a lock) by assignment", name, types.TypeString(t, func(p *types.Package) string { return p.Name() })))
								}
							}
						}
					case *ast.RangeStmt:
						if s.Value != nil {
							if t := pk.TypesInfo.TypeOf(s.Value); t != nil && holdsLock(t, 0) {
								if _, isPtr := t.(*types.Pointer); !isPtr {
									k++
									c.bad(R, fmt.Sprintf("%s#copy@%d", name, k), c.P.Pos(s.Pos()), fmt.Sprintf("%s ranges over values of type %s (which contains a lock): each iteration copies the lock", name, types.TypeString(t, func(p *types.Package) string { return p.Name() })))
								}
							}
						}
					}
					return true
				})
				n++
			}
		}
	}
	c.ok(R, "library-packages", "-", fmt.Sprintf("%d functions inspected, no lock-holding value is copied", n))
}

// scratchStateByValue: C06 — the line-based sniffers keep per-call scratch state in a table they are
// handed. What one line leaves behind for the next is exactly what the function stores back into
// that table (`states[K] = state`); the paths that return a result without storing back leave
// nothing. A write *through* an entry of the table (a pointer kept in it) persists on every path,
// including the ones that were written to discard it.
func scratchStateByValue(c *Ctx) {
	const R = "scratch-state-by-value"
	c.rule(R, "the sniff implementations write memory reachable from their scratch-state parameter only by storing an entry into the table itself (a map update on the parameter); no store goes through a value loaded from the table")
	o := newOrigins(c.P)
	n := 0
	for _, fn := range c.P.Funcs {
		if fn.Pkg == nil || !strings.HasSuffix(fn.Pkg.Pkg.Path(), "/pkg/formats") || fn.Name() != "sniff" || fn.Signature.Recv() == nil {
			continue
		}
		// the parameter of map type
		idx := -1
		for j, p := range fn.Params {
			if _, isMap := p.Type().Underlying().(*types.Map); isMap {
				idx = j
			}
		}
		if idx < 0 {
			continue
		}
		n++
		name := fnName(fn)
		c.sawFunc(name)
		var deep []mutation
		if s := o.sums[fn]; s != nil {
			for _, m := range s.muts {
				if m.param == idx && m.lvl >= 1 {
					deep = append(deep, m)
				}
			}
		}
		if len(deep) > 0 {
			c.bad(R, name, c.P.Pos(deep[0].pos), describeMuts(c, name, "scratch-state table", deep)+": state written this way persists on the paths that return without storing back, so what an earlier line set (a version found in a quoted string) is combined with what a later line declares")
		} else {
			c.ok(R, name, c.P.Pos(fn.Pos()), "the table is written by entry stores only")
		}
	}
	if n == 0 {
		c.okTrivial(R, "none", "-", "no sniff implementation takes a scratch-state table")
	}
}

// distinctFieldTags: C13 — an encoder that labels each optional field with a constant tag must use a
// different tag per field: with one tag for two fields a value moved from one field to the other
// encodes the same, so two different messages are Equal and share a checksum.
func distinctFieldTags(c *Ctx, rule string, encoders ...string) {
	c.rule(rule, "in an equality encoder the constant tag under which a field is written (the format of the Sprintf that takes exactly that field, or the constant next to the field in a {tag, value} table row) is not used for any other field of the message")
	for _, name := range encoders {
		d := c.decl(rule, name)
		if d == nil {
			continue
		}
		recv, _ := recvAndParam(d)
		if recv == nil {
			continue
		}
		tagOf := map[string]string{} // field → tag
		fieldsIn := func(e ast.Expr) []string {
			var out []string
			for f := range mentions(d.pkg, e, recv) {
				out = append(out, f)
			}
			return out
		}
		clash := ""
		var clashPos token.Pos
		record := func(field, tag string, pos token.Pos) {
			for f, t := range tagOf {
				if t == tag && f != field && clash == "" {
					clash = fmt.Sprintf("fields %s and %s are both written under the tag %q", f, field, tag)
					clashPos = pos
				}
			}
			tagOf[field] = tag
		}
		ast.Inspect(d.fd.Body, func(n ast.Node) bool {
			switch x := n.(type) {
			case *ast.CallExpr:
				f, _ := typeutil.Callee(d.pkg.TypesInfo, x).(*types.Func)
				if f == nil || f.FullName() != "fmt.Sprintf" || len(x.Args) < 2 {
					return true
				}
				fv, ok := constOf(d.pkg, x.Args[0])
				if !ok || !fv.isStr() {
					return true
				}
				var fs []string
				for _, a := range x.Args[1:] {
					fs = append(fs, fieldsIn(a)...)
				}
				if len(fs) == 1 {
					record(fs[0], fv.str(), x.Pos())
				}
			case *ast.CompositeLit:
				// a table row {tag, value}
				if t := d.pkg.TypesInfo.TypeOf(x); t != nil {
					if _, isStruct := t.Underlying().(*types.Struct); !isStruct {
						return true
					}
				}
				var tags, fs []string
				for _, el := range x.Elts {
					if kv, isKV := el.(*ast.KeyValueExpr); isKV {
						el = kv.Value
					}
					if v, ok := constOf(d.pkg, el); ok && v.isStr() {
						tags = append(tags, v.str())
						continue
					}
					fs = append(fs, fieldsIn(el)...)
				}
				if len(tags) == 1 && len(fs) == 1 {
					record(fs[0], tags[0], x.Pos())
				}
			}
			return true
		})
		c.check(clash == "", rule, name, c.P.Pos(clashPos), fmt.Sprintf("%d tagged fields, all tags distinct", len(tagOf)),
			fmt.Sprintf("%s: %s — the same text in either field gives the same encoding, so messages that differ are Equal and have equal checksums", name, clash))
	}
}

// knownPanickingExternals: third-party entry points with a demonstrated panic on input. The design
// trusts the decoding libraries; where that trust is known to be misplaced the call has to be
// contained. Each row names the input that was run against the real code.
var knownPanickingExternals = map[string]string{
	"github.com/spdx/tools-golang/json.Read": `{"spdxVersion":"SPDX-2.3",…,"packages":[null]} — nil pointer dereference in v2_3.(*Document).UnmarshalJSON`,
}

// panickingDecoderContained: C04 — a call of a listed external reachable from the parser entry points
// sits in a function that defers a function literal calling recover(), and that function has an error
// result the literal assigns (so the panic becomes an error return).
func panickingDecoderContained(c *Ctx, entries []string) {
	const R = "panicking-decoder-contained"
	c.rule(R, "every call of a third-party function listed as panicking on some input (frozen table, each row with the input that was run) reachable from the parser entry points is made by a function that defers — before the call — a function literal, or a named function of the module handed the address of the error result, that calls recover() itself and assigns the error result")
	n := 0
	for _, d := range c.reachDecls(R, entries...) {
		for _, cs := range callsIn(d.pkg, d.fd.Body) {
			why, listed := knownPanickingExternals[cs.callee.FullName()]
			if !listed {
				continue
			}
			n++
			contained := false
			ast.Inspect(d.fd.Body, func(x ast.Node) bool {
				df, ok := x.(*ast.DeferStmt)
				if !ok {
					return true
				}
				// the deferred function: a literal, or a named function of the module deferred
				// directly (recover only works in the deferred function itself) that receives the
				// address of the error result
				var body *ast.BlockStmt
				bpk := d.pkg
				viaPtr := false
				if lit, isLit := df.Call.Fun.(*ast.FuncLit); isLit {
					body = lit.Body
				} else if g, _ := typeutil.Callee(d.pkg.TypesInfo, df.Call).(*types.Func); g != nil && g.Pkg() != nil && strings.HasPrefix(g.Pkg().Path(), modPath+"/") {
					if gfd, gpk := c.P.FuncDecl(objName(g)); gfd != nil && gfd.Body != nil {
						for _, a := range df.Call.Args {
							if u, isU := a.(*ast.UnaryExpr); isU && u.Op == token.AND {
								if o := objOf(d.pkg, u.X); o != nil && o.Type().String() == "error" {
									viaPtr = true
								}
							}
						}
						if viaPtr {
							body, bpk = gfd.Body, gpk
						}
					}
				}
				if body == nil {
					return true
				}
				recovers, assignsErr := false, false
				ast.Inspect(body, func(y ast.Node) bool {
					switch z := y.(type) {
					case *ast.FuncLit:
						return false // recover in a nested function does not stop the panic
					case *ast.CallExpr:
						if id, ok := z.Fun.(*ast.Ident); ok && id.Name == "recover" {
							if _, isB := bpk.TypesInfo.Uses[id].(*types.Builtin); isB {
								recovers = true
							}
						}
					case *ast.AssignStmt:
						for _, l := range z.Lhs {
							if o := objOf(bpk, l); o != nil && o.Type().String() == "error" {
								assignsErr = true
							}
							// *errp = …
							if st, isStar := l.(*ast.StarExpr); isStar && viaPtr {
								if t := bpk.TypesInfo.TypeOf(st); t != nil && t.String() == "error" {
									assignsErr = true
								}
							}
						}
					}
					return true
				})
				if recovers && assignsErr && df.Pos() < cs.call.Pos() {
					contained = true
				}
				return true
			})
			c.check(contained, R, d.name+"#"+shortCallee(cs.callee.FullName()), c.P.Pos(cs.call.Pos()), "the call is made under a deferred recover that turns a panic into an error",
				fmt.Sprintf("%s is called without a deferred recover: it panics on %s, and the panic leaves the parser entry point instead of an error", cs.callee.FullName(), why))
		}
	}
	if n == 0 {
		c.okTrivial(R, "none", "-", "no listed external is called from the parsers")
	}
}

// optionCapturesArgumentsOnly: C18 — an option value may be applied to several constructors. What its
// closure stores into an instance is either the caller's own argument or something the closure
// allocates when it runs. A reference the option *constructor* allocated (a default made once per
// option value and captured) ends up shared by every instance the option is applied to.
func optionCapturesArgumentsOnly(c *Ctx) {
	const R = "option-captures-arguments-only"
	c.rule(R, "in functions returning ReaderOption/WriterOption every reference-typed variable the closure captures holds only the constructor's own parameters: no store of a value allocated or computed in the constructor body (it would be one object shared by all instances the option value is applied to)")
	n := 0
	for _, fn := range c.P.Funcs {
		if fn.Parent() != nil || fn.Signature.Results().Len() != 1 || fn.Blocks == nil {
			continue
		}
		nt, ok := fn.Signature.Results().At(0).Type().(*types.Named)
		if !ok || (nt.Obj().Name() != "ReaderOption" && nt.Obj().Name() != "WriterOption") {
			continue
		}
		n++
		name := fnName(fn)
		bad := ""
		var badPos token.Pos
		isParamVal := func(v ssa.Value) bool {
			for i := 0; i < 6; i++ {
				switch x := v.(type) {
				case *ssa.Parameter:
					return true
				case *ssa.ChangeType:
					v = x.X
					continue
				case *ssa.Convert:
					v = x.X
					continue
				case *ssa.Const:
					return true
				}
				break
			}
			return false
		}
		for _, b := range fn.Blocks {
			for _, ins := range b.Instrs {
				mc, ok := ins.(*ssa.MakeClosure)
				if !ok {
					continue
				}
				for _, bind := range mc.Bindings {
					switch x := bind.(type) {
					case *ssa.Parameter:
						// captured by value: the caller's argument
					case *ssa.Alloc:
						// captured by reference: every value stored into the cell
						et := x.Type().(*types.Pointer).Elem()
						if !isRefType(et) {
							continue
						}
						for _, ref := range *x.Referrers() {
							if st, isStore := ref.(*ssa.Store); isStore && st.Addr == ssa.Value(x) && !isParamVal(st.Val) {
								bad, badPos = fmt.Sprintf("the captured variable %s is assigned %s in the constructor body", x.Comment, st.Val.String()), st.Pos()
							}
						}
					default:
						if isRefType(bind.Type()) && !isParamVal(bind) {
							bad, badPos = fmt.Sprintf("the closure captures %s, computed in the constructor body", bind.String()), mc.Pos()
						}
					}
				}
			}
		}
		c.check(bad == "", R, name, c.P.Pos(badPos), "the closure captures the constructor's parameters only",
			fmt.Sprintf("%s: %s — one object is installed in every instance this option value is applied to, so changing it through one instance changes the others", name, bad))
	}
	if n == 0 {
		c.undecided(R, "anchor:options", "-", "no option constructor found")
	}
}

// lossyStringFuncs: functions of the standard library that map different strings to the same
// string. Applied to content inside an equality encoder they make different values compare equal
// and share a checksum.
var lossyStringFuncs = map[string]bool{
	"strings.ToLower": true, "strings.ToUpper": true, "strings.ToTitle": true, "strings.Title": true,
	"strings.TrimSpace": true, "strings.Trim": true, "strings.TrimLeft": true, "strings.TrimRight": true,
	"strings.TrimPrefix": true, "strings.TrimSuffix": true, "strings.TrimFunc": true, "strings.Fields": true,
	"strings.ToValidUTF8": true,
	"strings.EqualFold": true, "strings.ToLowerSpecial": true, "strings.ToUpperSpecial": true,
	"bytes.ToLower": true, "bytes.ToUpper": true, "bytes.TrimSpace": true, "bytes.EqualFold": true,
	"path.Clean": true, "path/filepath.Clean": true,
	"unicode.ToLower": true, "unicode.ToUpper": true,
	"golang.org/x/text/cases.Caser.String": true,
}

// encodingValuesVerbatim: the equality encoders write attribute content as it is.
func encodingValuesVerbatim(c *Ctx, rule string, encoders ...string) {
	c.rule(rule, "no function of the equality encoders (the flatString methods and the package helpers they call) applies a many-to-one string transformation (case mapping, trimming, path cleaning, case-insensitive comparison — frozen list lossyStringFuncs; replacing is not listed because escaping by replacement is one-to-one) to what it encodes: content that differs must encode differently")
	ds := pkgFilter(c.reachDecls(rule, encoders...), "sbom.")
	n := 0
	for _, d := range ds {
		if !strings.Contains(d.name, "flatString") && !strings.Contains(strings.ToLower(d.name), "flat") && ast.IsExported(d.obj.Name()) {
			continue // exported accessors reached from an encoder are not part of the encoding
		}
		n++
		var sites []string
		var pos token.Pos
		for _, cs := range callsIn(d.pkg, d.fd.Body) {
			full := cs.callee.FullName()
			if lossyStringFuncs[full] {
				sites = append(sites, fmt.Sprintf("%s(%s)", full, exprText(c.P.Fset, cs.call.Args[0])))
				if !pos.IsValid() {
					pos = cs.call.Pos()
				}
			}
		}
		c.check(len(sites) == 0, rule, d.name, c.P.Pos(pos), "content is encoded as it is",
			fmt.Sprintf("%s transforms what it encodes with %s: values that differ only in what that transformation removes get the same encoding, so they compare equal and share a checksum", d.name, strings.Join(sites, ", ")))
	}
	c.floor(rule, 4, "the four flatString encoders")
}

// snifferStreamUses: layout independence of detection. The sniffer hands its stream to the JSON
// decoder and to the line scanner, and rewinds it; it never looks at raw bytes itself. A decision
// taken on bytes read directly from the stream (a first-byte test, a prefix comparison) depends on
// white space, byte-order marks and key order, which JSON allows to vary freely.
func snifferStreamUses(c *Ctx) {
	const R = "sniffer-stream-to-decoders-only"
	c.rule(R, "every use of SniffReader's stream parameter — in SniffReader and in module helpers it is handed to — is Seek(0, start), an argument of json.NewDecoder, bufio.NewScanner, bufio.NewReader or io.ReadAll, or a hand-over to another module helper that obeys the same rule; no direct Read/ReadAt/ReadByte on the stream")
	d := c.decl(R, "formats.(*Sniffer).SniffReader")
	if d == nil {
		return
	}
	var param types.Object
	if len(d.fd.Type.Params.List) == 1 && len(d.fd.Type.Params.List[0].Names) == 1 {
		param = d.pkg.TypesInfo.Defs[d.fd.Type.Params.List[0].Names[0]]
	}
	if param == nil {
		c.undecided(R, d.name+"#param", c.P.Pos(d.fd.Pos()), "stream parameter not found")
		return
	}
	allowedArgOf := map[string]bool{"encoding/json.NewDecoder": true, "bufio.NewScanner": true, "bufio.NewReader": true, "io.ReadAll": true, "bufio.NewReaderSize": true}
	var bad []string
	var badPos token.Pos
	uses := 0
	var visit func(dd *declInfo, p types.Object, depth int)
	visit = func(dd *declInfo, p types.Object, depth int) {
		if depth > 3 || p == nil {
			return
		}
		// every identifier use of p, classified by its parent
		ast.Inspect(dd.fd.Body, func(n ast.Node) bool {
			ce, ok := n.(*ast.CallExpr)
			if !ok {
				return true
			}
			f, _ := typeutil.Callee(dd.pkg.TypesInfo, ce).(*types.Func)
			// method on the stream
			if sel, isSel := ce.Fun.(*ast.SelectorExpr); isSel && objOf(dd.pkg, sel.X) == p {
				uses++
				switch sel.Sel.Name {
				case "Seek", "Close":
				default:
					bad = append(bad, fmt.Sprintf("%s calls %s.%s directly", dd.name, p.Name(), sel.Sel.Name))
					if !badPos.IsValid() {
						badPos = ce.Pos()
					}
				}
				return true
			}
			for ai, a := range ce.Args {
				if objOf(dd.pkg, a) != p {
					continue
				}
				uses++
				if f == nil {
					bad = append(bad, fmt.Sprintf("%s hands the stream to a dynamic call", dd.name))
					continue
				}
				full := f.FullName()
				if allowedArgOf[full] {
					continue
				}
				if f.Pkg() != nil && strings.HasPrefix(f.Pkg().Path(), modPath+"/") {
					if gfd, gpk := c.P.FuncDecl(objName(f)); gfd != nil && gfd.Body != nil {
						var gp types.Object
						k := 0
						for _, fl := range gfd.Type.Params.List {
							for _, nm := range fl.Names {
								if k == ai {
									gp = gpk.TypesInfo.Defs[nm]
								}
								k++
							}
						}
						visit(&declInfo{fd: gfd, pkg: gpk, obj: f, name: objName(f)}, gp, depth+1)
						continue
					}
				}
				bad = append(bad, fmt.Sprintf("%s hands the stream to %s", dd.name, full))
				if !badPos.IsValid() {
					badPos = ce.Pos()
				}
			}
			return true
		})
	}
	visit(d, param, 0)
	c.check(len(bad) == 0 && uses > 0, R, d.name, c.P.Pos(badPos), fmt.Sprintf("%d uses of the stream: decoders, scanners and rewinds only", uses),
		fmt.Sprintf("the sniffer reads raw bytes of the stream itself (%s): what it decides then depends on the byte layout — leading white space, a byte-order mark, key order — and a document the JSON decoder accepts is no longer detected", strings.Join(bad, "; ")))
}

// searchOffsetBounded: an index found by a search (bytes/strings Index, IndexAny, IndexByte, …) is
// at most len(s)-1. Reading s[i+k] for a constant k ≥ 1 is therefore in range only where a
// condition relates i+k to len(s); the typical slip is the look-ahead for the second byte of a
// two-byte terminator when the first byte is the last one buffered.
func searchOffsetBounded(c *Ctx, rule string, pkgs ...string) {
	c.rule(rule, "in the parser-side packages every read s[i+k] (k a positive constant, i the result of an Index-family search in s) is dominated by a condition that mentions len(s) together with i; functions used as values (scanner split functions) are included")
	n := 0
	for _, rel := range pkgs {
		pk := c.P.pkg(rel)
		if pk == nil {
			continue
		}
		for _, file := range pk.Syntax {
			for _, dd := range file.Decls {
				fd, ok := dd.(*ast.FuncDecl)
				if !ok || fd.Body == nil {
					continue
				}
				obj, _ := pk.TypesInfo.Defs[fd.Name].(*types.Func)
				if obj == nil {
					continue
				}
				d := &declInfo{fd: fd, pkg: pk, obj: obj, name: objName(obj)}
				defs := singleDefs(pk, fd.Body)
				k := 0
				ast.Inspect(fd.Body, func(x ast.Node) bool {
					ix, ok := x.(*ast.IndexExpr)
					if !ok {
						return true
					}
					be, isBE := ast.Unparen(ix.Index).(*ast.BinaryExpr)
					if !isBE || be.Op != token.ADD {
						return true
					}
					v, isC := constOf(pk, be.Y)
					if !isC || !v.isInt() || v.int() < 1 {
						return true
					}
					io := objOf(pk, be.X)
					if io == nil {
						return true
					}
					def, has := defs[io]
					if !has {
						return true
					}
					call, isCall := ast.Unparen(def).(*ast.CallExpr)
					if !isCall || len(call.Args) < 1 {
						return true
					}
					f, _ := typeutil.Callee(pk.TypesInfo, call).(*types.Func)
					if f == nil || f.Pkg() == nil || (f.Pkg().Path() != "bytes" && f.Pkg().Path() != "strings") || !strings.HasPrefix(f.Name(), "Index") && !strings.HasPrefix(f.Name(), "LastIndex") {
						return true
					}
					sText := normText(exprText(c.P.Fset, ix.X))
					if normText(exprText(c.P.Fset, call.Args[0])) != sText {
						return true
					}
					k++
					n++
					// a condition on the way that relates the index to len(s)
					guarded := false
					lenText := "len(" + sText + ")"
					chain := enclosing(fd.Body, ix)
					for i, y := range chain {
						switch s := y.(type) {
						case *ast.IfStmt:
							if i+1 < len(chain) && chain[i+1] == ast.Node(s.Body) {
								t := normText(exprText(c.P.Fset, s.Cond))
								if strings.Contains(t, lenText) && strings.Contains(t, io.Name()) {
									guarded = true
								}
							}
						case *ast.BinaryExpr:
							if s.Op == token.LAND && i+1 < len(chain) && chain[i+1] == ast.Node(s.Y) {
								t := normText(exprText(c.P.Fset, s.X))
								if strings.Contains(t, lenText) && strings.Contains(t, io.Name()) {
									guarded = true
								}
							}
						case *ast.BlockStmt:
							for _, st := range s.List {
								if i+1 < len(chain) && (st == chain[i+1] || st.Pos() > ix.Pos()) {
									break
								}
								if ifs, isIf := st.(*ast.IfStmt); isIf && ifs.Else == nil && terminates(ifs.Body) {
									t := normText(exprText(c.P.Fset, ifs.Cond))
									if strings.Contains(t, lenText) && strings.Contains(t, io.Name()) {
										guarded = true
									}
								}
							}
						}
					}
					c.check(guarded, rule, fmt.Sprintf("%s#search-offset@%d", d.name, k), c.P.Pos(ix.Pos()), "the look-ahead is bounded by len("+sText+")",
						fmt.Sprintf("%s reads %s where %s is the position %s found: when the match is the last element, %s is out of range and the parser panics instead of returning an error", d.name, exprText(c.P.Fset, ix), io.Name(), exprText(c.P.Fset, call), exprText(c.P.Fset, ix.Index)))
					return true
				})
			}
		}
	}
	if n == 0 {
		c.okTrivial(rule, "none", "-", "no look-ahead past a search result in the parser-side packages")
	}
}

// lookupReturnsElement: Union and Intersect merge the second operand's targets into the edge that
// GetEdgeByType finds in the result. That only changes the result if the edge returned *is* the
// element of the list — a copy absorbs the merge and the targets are lost.
func lookupReturnsElement(c *Ctx, fname string) {
	const R = "lookup-returns-element"
	c.rule(R, "every non-nil return of GetEdgeByType is the ranged element of the receiver's Edges itself (the range value or Edges[i]), never the result of a call")
	d := c.decl(R, fname)
	if d == nil {
		return
	}
	n := 0
	ast.Inspect(d.fd.Body, func(x ast.Node) bool {
		if _, isLit := x.(*ast.FuncLit); isLit {
			return false // predicates handed to search helpers return booleans of their own
		}
		rs, ok := x.(*ast.ReturnStmt)
		if !ok || len(rs.Results) != 1 || isNilIdent(d.pkg, rs.Results[0]) {
			return true
		}
		n++
		r := ast.Unparen(rs.Results[0])
		okElem := false
		switch e := r.(type) {
		case *ast.Ident:
			for _, en := range enclosing(d.fd.Body, rs) {
				if rg, isR := en.(*ast.RangeStmt); isR && rg.Value != nil && objOf(d.pkg, rg.Value) == objOf(d.pkg, e) {
					okElem = true
				}
			}
			if !okElem {
				// a local bound to an element: e := nl.Edges[i]
				if def, has := singleDefs(d.pkg, d.fd.Body)[objOf(d.pkg, e)]; has {
					if _, isIx := ast.Unparen(def).(*ast.IndexExpr); isIx {
						okElem = true
					}
				}
			}
		case *ast.IndexExpr:
			okElem = true
		}
		c.check(okElem, R, fmt.Sprintf("%s#return@%d", fname, n), c.P.Pos(rs.Pos()), "returns the list's own element",
			fmt.Sprintf("%s returns %s instead of the element of the list: Union and Intersect merge the second operand's targets into what this returns, so with a copy those targets never reach the result (and A∩B differs from B∩A)", fname, exprText(c.P.Fset, r)))
		return true
	})
	if n == 0 {
		c.undecided(R, fname, c.P.Pos(d.fd.Pos()), "no non-nil return found")
	}
}

// madeWithLengthThenAppended: `x = make([]T, n)` followed by `x = append(x, …)` leaves n zero
// values in front of the appended elements (the capacity was meant).
func madeWithLengthThenAppended(c *Ctx, rule string, ds []*declInfo) {
	c.rule(rule, "no slice created with make([]T, n) (length n, no separate capacity, n not the constant 0) is afterwards extended with append in the same function without ever being assigned by index: the copy would start with n zero values")
	n := 0
	for _, d := range ds {
		if d.fd.Body == nil {
			continue
		}
		k := 0
		ast.Inspect(d.fd.Body, func(x ast.Node) bool {
			as, ok := x.(*ast.AssignStmt)
			if !ok || len(as.Lhs) != len(as.Rhs) {
				return true
			}
			for i, r := range as.Rhs {
				ce, isCall := r.(*ast.CallExpr)
				if !isCall || len(ce.Args) != 2 {
					continue
				}
				if id, isId := ce.Fun.(*ast.Ident); !isId || id.Name != "make" {
					continue
				}
				if t := d.pkg.TypesInfo.TypeOf(ce.Args[0]); t == nil {
					continue
				} else if _, isSlice := t.Underlying().(*types.Slice); !isSlice {
					continue
				}
				if v, isC := constOf(d.pkg, ce.Args[1]); isC && v.isInt() && v.int() == 0 {
					continue
				}
				target := normText(exprText(c.P.Fset, as.Lhs[i]))
				appended, indexed := false, false
				ast.Inspect(d.fd.Body, func(y ast.Node) bool {
					a2, ok2 := y.(*ast.AssignStmt)
					if !ok2 || a2.Pos() <= as.Pos() {
						return true
					}
					for j, l := range a2.Lhs {
						lt := normText(exprText(c.P.Fset, l))
						if ix, isIx := l.(*ast.IndexExpr); isIx && normText(exprText(c.P.Fset, ix.X)) == target {
							indexed = true
						}
						if lt == target && j < len(a2.Rhs) {
							if c2, isC2 := a2.Rhs[j].(*ast.CallExpr); isC2 {
								if id2, isId2 := c2.Fun.(*ast.Ident); isId2 && id2.Name == "append" && len(c2.Args) >= 1 && normText(exprText(c.P.Fset, c2.Args[0])) == target {
									appended = true
								}
							}
						}
					}
					return true
				})
				// copy(x, …) fills by position as well
				for _, cs := range callsIn(d.pkg, d.fd.Body) {
					if cs.callee.Name() == "copy" && len(cs.call.Args) == 2 && normText(exprText(c.P.Fset, cs.call.Args[0])) == target {
						indexed = true
					}
				}
				ast.Inspect(d.fd.Body, func(y ast.Node) bool {
					if ce2, isCE := y.(*ast.CallExpr); isCE && len(ce2.Args) == 2 {
						if id2, isId2 := ce2.Fun.(*ast.Ident); isId2 && id2.Name == "copy" && normText(exprText(c.P.Fset, ce2.Args[0])) == target {
							indexed = true
						}
					}
					return true
				})
				k++
				n++
				c.check(!(appended && !indexed), rule, fmt.Sprintf("%s#make@%d", d.name, k), c.P.Pos(as.Pos()), "filled by index or not appended to",
					fmt.Sprintf("%s creates %s with make(…, %s) — a length, not a capacity — and then appends to it: the result starts with that many zero values (nil entries) before the real elements", d.name, target, exprText(c.P.Fset, ce.Args[1])))
			}
			return true
		})
	}
	if n == 0 {
		c.okTrivial(rule, "none", "-", "no make([]T, n) with a non-zero length in scope")
	}
}

// snifferDecodesValues: what the sniffer compares are decoded JSON values. A member captured as a
// raw token (json.RawMessage, []byte, interface{}) still carries its spelling — escapes such as
// "1.5", or number vs string — so two encodings of the same document are told apart.
func snifferDecodesValues(c *Ctx) {
	const R = "sniffer-compares-decoded-values"
	c.rule(R, "every field of the struct SniffReader hands to the JSON decoder has a basic type (string, number, bool): no json.RawMessage, byte slice or interface member whose raw spelling could be compared")
	d := c.decl(R, "formats.(*Sniffer).SniffReader")
	if d == nil {
		return
	}
	n := 0
	for _, cs := range callsIn(d.pkg, d.fd.Body) {
		full := cs.callee.FullName()
		if full != "(*encoding/json.Decoder).Decode" && full != "encoding/json.Unmarshal" {
			continue
		}
		arg := cs.call.Args[len(cs.call.Args)-1]
		t := d.pkg.TypesInfo.TypeOf(arg)
		if p, ok := t.(*types.Pointer); ok {
			t = p.Elem()
		}
		st, ok := t.Underlying().(*types.Struct)
		if !ok {
			c.undecided(R, d.name+"#target", c.P.Pos(cs.call.Pos()), "the decoder target is not a struct")
			continue
		}
		for i := 0; i < st.NumFields(); i++ {
			f := st.Field(i)
			n++
			_, isBasic := f.Type().Underlying().(*types.Basic)
			c.check(isBasic, R, d.name+"#"+f.Name(), c.P.Pos(f.Pos()), f.Name()+" is decoded into a "+f.Type().String(),
				fmt.Sprintf("the sniffer keeps %s as %s, the raw spelling of the member: comparing it distinguishes encodings of the same value (\"1\\u002e5\" vs \"1.5\"), so detection depends on the JSON layout", f.Name(), f.Type().String()))
		}
	}
	if n == 0 {
		c.undecided(R, d.name, c.P.Pos(d.fd.Pos()), "no JSON decoder call found in SniffReader")
	}
}

// noGoroutines: the order in which goroutines deliver their results is decided by the scheduler.
// A driver that fans work out and collects results from a channel (or under a lock) builds its
// output in arrival order; wherever that order matters (last store wins for a repeated key,
// first element selected) two runs on the same input differ. The drivers are sequential.
func noGoroutines(c *Ctx, rule string, ds []*declInfo, what string) {
	c.rule(rule, "no function reachable from the "+what+" starts a goroutine or selects over channels: results are produced in program order")
	n := 0
	for _, d := range ds {
		var pos token.Pos
		kind := ""
		ast.Inspect(d.fd.Body, func(x ast.Node) bool {
			switch s := x.(type) {
			case *ast.GoStmt:
				if !pos.IsValid() {
					pos, kind = s.Pos(), "starts a goroutine"
				}
			case *ast.SelectStmt:
				if !pos.IsValid() {
					pos, kind = s.Pos(), "selects over channels"
				}
			}
			return true
		})
		if kind != "" {
			n++
			c.bad(rule, d.name, c.P.Pos(pos), fmt.Sprintf("%s %s: the order in which concurrent workers deliver their results is decided by the scheduler, so whatever is built from them in arrival order (a repeated key where the last store wins, a list) differs between two runs on the same input", d.name, kind))
		}
	}
	if n == 0 {
		c.okTrivial(rule, what, "-", fmt.Sprintf("%d functions, none starts a goroutine", len(ds)))
	}
}

// mergeAppendsOnlyAbsent: Union and Add keep the node set a set. A node of the second operand is
// appended to the result only where its identifier is known to be absent from the node index of
// the result so far — by that test alone. A further condition on the "already there" side (same
// type, equal content) sends nodes that are there down the append branch: the identifier appears
// twice.
func mergeAppendsOnlyAbsent(c *Ctx, fnames ...string) {
	const R = "merge-appends-only-absent"
	c.rule(R, "in Union and Add an element of the second operand's Nodes is appended to the result's Nodes only where a negative lookup of its identifier in the node index of the result holds (membership facts with polarity; `ok && extra` on the positive side gives no negative fact for the else branch)")
	for _, fname := range fnames {
		d := c.decl(R, fname)
		if d == nil {
			continue
		}
		_, par := recvAndParam(d)
		n := 0
		ast.Inspect(d.fd.Body, func(x ast.Node) bool {
			as, ok := x.(*ast.AssignStmt)
			if !ok || len(as.Lhs) != 1 || len(as.Rhs) != 1 {
				return true
			}
			sel, isSel := as.Lhs[0].(*ast.SelectorExpr)
			if !isSel || sel.Sel.Name != "Nodes" {
				return true
			}
			ce, isCall := as.Rhs[0].(*ast.CallExpr)
			if !isCall {
				return true
			}
			if id, isId := ce.Fun.(*ast.Ident); !isId || id.Name != "append" {
				return true
			}
			// inside a range over the second operand's nodes
			overArg := false
			for _, en := range enclosing(d.fd.Body, as) {
				if rs, isR := en.(*ast.RangeStmt); isR && par != nil {
					if strings.HasPrefix(normText(exprText(c.P.Fset, rs.X)), par.Name()+".Nodes") {
						overArg = true
					}
				}
			}
			if !overArg {
				return true
			}
			n++
			absent := false
			for _, f := range membersAt(d, as) {
				if !f.present && f.m != nil {
					if o := originOfIndex(d, f.m); o.kind == "nodes" {
						absent = true
					}
				}
			}
			c.check(absent, R, fmt.Sprintf("%s#append@%d", fname, n), c.P.Pos(as.Pos()), "appended only where the identifier is absent from the result's node index",
				fmt.Sprintf("%s appends a node of the second operand where its identifier is not known to be absent from the node index (the branch is also taken when the lookup succeeds but a further condition fails): a node both operands have is then listed twice instead of being merged", fname))
			return true
		})
		if n == 0 {
			c.undecided(R, fname, c.P.Pos(d.fd.Pos()), "no append of the second operand's nodes found")
		}
	}
}
