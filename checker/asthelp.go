package main

import (
	"bytes"
	"go/ast"
	"go/printer"
	"go/token"
	"go/types"
	"strings"

	"golang.org/x/tools/go/packages"
	"golang.org/x/tools/go/types/typeutil"
)

// callSite is one resolved call in the syntax of a function.
type callSite struct {
	call   *ast.CallExpr
	callee *types.Func
}

// callsIn lists every statically resolved call in node (function literals included).
func callsIn(pkg *packages.Package, node ast.Node) []callSite {
	var out []callSite
	ast.Inspect(node, func(n ast.Node) bool {
		if ce, ok := n.(*ast.CallExpr); ok {
			if f, ok := typeutil.Callee(pkg.TypesInfo, ce).(*types.Func); ok {
				out = append(out, callSite{ce, f})
			}
		}
		return true
	})
	return out
}

// typeIs reports whether t (pointers stripped) is the named type pkgSuffix.name.
func typeIs(t types.Type, pkgSuffix, name string) bool {
	if t == nil {
		return false
	}
	if p, ok := t.(*types.Pointer); ok {
		t = p.Elem()
	}
	nt, ok := t.(*types.Named)
	if !ok || nt.Obj().Name() != name || nt.Obj().Pkg() == nil {
		return false
	}
	return strings.HasSuffix(nt.Obj().Pkg().Path(), pkgSuffix)
}

// sigIn returns the type of the single "input" of f: its receiver if it has one and no
// parameters, else its only parameter.
func sigIn(f *types.Func) types.Type {
	sig := f.Type().(*types.Signature)
	if sig.Recv() != nil && sig.Params().Len() == 0 {
		return sig.Recv().Type()
	}
	if sig.Params().Len() == 1 {
		return sig.Params().At(0).Type()
	}
	return nil
}

func sigOut(f *types.Func) types.Type {
	sig := f.Type().(*types.Signature)
	if sig.Results().Len() >= 1 {
		return sig.Results().At(0).Type()
	}
	return nil
}

// singleDefs maps local variables with exactly one defining assignment `x := e` / `var x = e`
// in body to that expression (used to look through `algo := f(h)`; not a dataflow analysis:
// variables assigned more than once are left out).
func singleDefs(pkg *packages.Package, body ast.Node) map[types.Object]ast.Expr {
	count := map[types.Object]int{}
	def := map[types.Object]ast.Expr{}
	ast.Inspect(body, func(n ast.Node) bool {
		switch s := n.(type) {
		case *ast.AssignStmt:
			for i, l := range s.Lhs {
				id, ok := l.(*ast.Ident)
				if !ok {
					continue
				}
				o := pkg.TypesInfo.Defs[id]
				if o == nil {
					o = pkg.TypesInfo.Uses[id]
				}
				if o == nil {
					continue
				}
				count[o]++
				if len(s.Lhs) == len(s.Rhs) && s.Tok == token.DEFINE {
					def[o] = s.Rhs[i]
				} else if len(s.Rhs) == 1 && s.Tok == token.DEFINE {
					def[o] = s.Rhs[0] // tuple: the call itself
				}
			}
		case *ast.ValueSpec:
			for i, id := range s.Names {
				o := pkg.TypesInfo.Defs[id]
				if o == nil {
					continue
				}
				count[o]++
				if i < len(s.Values) {
					def[o] = s.Values[i]
				}
			}
		case *ast.RangeStmt:
			for _, e := range []ast.Expr{s.Key, s.Value} {
				if id, ok := e.(*ast.Ident); ok {
					if o := pkg.TypesInfo.Defs[id]; o != nil {
						count[o] += 2 // never look through range variables
					}
				}
			}
		case *ast.IncDecStmt:
			if id, ok := s.X.(*ast.Ident); ok {
				if o := pkg.TypesInfo.Uses[id]; o != nil {
					count[o]++
				}
			}
		}
		return true
	})
	for o, n := range count {
		if n != 1 {
			delete(def, o)
		}
	}
	return def
}

// chase looks through parentheses, conversions and single-definition locals.
func chase(pkg *packages.Package, defs map[types.Object]ast.Expr, e ast.Expr) ast.Expr {
	for i := 0; i < 8; i++ {
		switch x := e.(type) {
		case *ast.ParenExpr:
			e = x.X
			continue
		case *ast.Ident:
			if o := pkg.TypesInfo.Uses[x]; o != nil {
				if d, ok := defs[o]; ok {
					e = d
					continue
				}
			}
		case *ast.CallExpr:
			if tv, ok := pkg.TypesInfo.Types[x.Fun]; ok && tv.IsType() && len(x.Args) == 1 {
				e = x.Args[0]
				continue
			}
		}
		break
	}
	return e
}

// fieldInit is one initialisation of a struct field: a keyed composite-literal element or an
// assignment `x.F = v`.
type fieldInit struct {
	field *types.Var
	owner *types.Named // struct type the field belongs to (nil if anonymous)
	value ast.Expr
	pos   token.Pos
}

// fieldInits lists every keyed-literal element and field assignment in node.
func fieldInits(pkg *packages.Package, node ast.Node) []fieldInit {
	var out []fieldInit
	info := pkg.TypesInfo
	ast.Inspect(node, func(n ast.Node) bool {
		switch s := n.(type) {
		case *ast.CompositeLit:
			t := info.TypeOf(s)
			if t == nil {
				return true
			}
			var owner *types.Named
			if p, ok := t.(*types.Pointer); ok {
				t = p.Elem()
			}
			if nt, ok := t.(*types.Named); ok {
				owner = nt
			}
			if _, ok := t.Underlying().(*types.Struct); !ok {
				return true
			}
			for _, el := range s.Elts {
				kv, ok := el.(*ast.KeyValueExpr)
				if !ok {
					continue
				}
				id, ok := kv.Key.(*ast.Ident)
				if !ok {
					continue
				}
				if f, ok := info.Uses[id].(*types.Var); ok && f.IsField() {
					out = append(out, fieldInit{f, owner, kv.Value, kv.Pos()})
				}
			}
		case *ast.AssignStmt:
			if len(s.Lhs) != len(s.Rhs) {
				return true
			}
			for i, l := range s.Lhs {
				sel, ok := l.(*ast.SelectorExpr)
				if !ok {
					continue
				}
				selInfo := info.Selections[sel]
				if selInfo == nil || selInfo.Kind() != types.FieldVal {
					continue
				}
				f := selInfo.Obj().(*types.Var)
				var owner *types.Named
				rt := selInfo.Recv()
				if p, ok := rt.(*types.Pointer); ok {
					rt = p.Elem()
				}
				if nt, ok := rt.(*types.Named); ok {
					owner = nt
				}
				out = append(out, fieldInit{f, owner, s.Rhs[i], s.Pos()})
			}
		}
		return true
	})
	return out
}

// outerCallee returns the callee of e after chasing, or nil when e is not a call.
func outerCallee(pkg *packages.Package, defs map[types.Object]ast.Expr, e ast.Expr) (*types.Func, *ast.CallExpr) {
	e = chase(pkg, defs, e)
	ce, ok := e.(*ast.CallExpr)
	if !ok {
		return nil, nil
	}
	f, _ := typeutil.Callee(pkg.TypesInfo, ce).(*types.Func)
	return f, ce
}

// constOf returns the compile-time constant value of e, if any.
func constOf(pkg *packages.Package, e ast.Expr) (value, bool) {
	if tv, ok := pkg.TypesInfo.Types[e]; ok && tv.Value != nil {
		return value{k: vConst, c: tv.Value}, true
	}
	return value{}, false
}

// findSwitches returns the switch statements in node, outermost first.
func findSwitches(node ast.Node) []*ast.SwitchStmt {
	var out []*ast.SwitchStmt
	ast.Inspect(node, func(n ast.Node) bool {
		if s, ok := n.(*ast.SwitchStmt); ok {
			out = append(out, s)
		}
		return true
	})
	return out
}

// enclosing returns the chain of nodes from root down to (and including) target.
func enclosing(root ast.Node, target ast.Node) []ast.Node {
	var path, found []ast.Node
	ast.Inspect(root, func(n ast.Node) bool {
		if found != nil {
			return false
		}
		if n == nil {
			path = path[:len(path)-1]
			return true
		}
		path = append(path, n)
		if n == target {
			found = append([]ast.Node{}, path...)
			return false
		}
		return true
	})
	return found
}

// allNilFacts lists fields of obj compared with nil anywhere in d.
func allNilFacts(d *declInfo, obj types.Object) []string {
	var out []string
	ast.Inspect(d.fd.Body, func(n ast.Node) bool {
		be, ok := n.(*ast.BinaryExpr)
		if !ok || (be.Op != token.EQL && be.Op != token.NEQ) {
			return true
		}
		for _, pair := range [][2]ast.Expr{{be.X, be.Y}, {be.Y, be.X}} {
			if isNilIdent(d.pkg, pair[1]) {
				if f, ok := fieldOf(d.pkg, pair[0], obj); ok {
					out = append(out, f)
				}
			}
		}
		return true
	})
	return out
}

// isEmptyLiteral: the initialiser is a composite literal without elements (`[]T{}`, `map[K]V{}`)
// or make(T) / make(T, 0).
func isEmptyLiteral(d *declInfo, fi fieldInit) bool {
	switch v := fi.value.(type) {
	case *ast.CompositeLit:
		return len(v.Elts) == 0
	case *ast.CallExpr:
		if id, ok := v.Fun.(*ast.Ident); ok && id.Name == "make" {
			if len(v.Args) == 1 {
				return true
			}
			if len(v.Args) >= 2 {
				if c, ok := constOf(d.pkg, v.Args[1]); ok && c.isInt() && c.int() == 0 {
					return true
				}
			}
		}
	}
	return false
}

// nodeAt finds the syntax node of a field initialisation (for path-condition queries).
func nodeAt(d *declInfo, fi fieldInit) ast.Node {
	var found ast.Node
	ast.Inspect(d.fd.Body, func(n ast.Node) bool {
		if n != nil && n.Pos() == fi.pos && found == nil {
			switch n.(type) {
			case *ast.KeyValueExpr, *ast.AssignStmt:
				found = n
			}
		}
		return found == nil
	})
	if found == nil {
		return d.fd.Body
	}
	return found
}

// exprText prints an expression in full (types.ExprString elides composite literals).
func exprText(fset *token.FileSet, e ast.Node) string {
	var b bytes.Buffer
	if err := printer.Fprint(&b, fset, e); err != nil {
		return "?"
	}
	return strings.Join(strings.Fields(b.String()), " ")
}
