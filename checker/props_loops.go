package main

import (
	"fmt"
	"go/ast"
	"go/token"
	"go/types"
	"strings"
)

const loopRuleText = "every range/for loop whose body stores into memory declared outside it (a conversion loop) has no exit other than error returns, and every path through its body that reaches the next iteration without such a store takes a decision whose structural class is admitted for that loop in the allowed-skip table"

func pkgFilter(ds []*declInfo, prefixes ...string) []*declInfo {
	var out []*declInfo
	for _, d := range ds {
		for _, p := range prefixes {
			if strings.HasPrefix(d.name, p) {
				out = append(out, d)
				break
			}
		}
	}
	return out
}

func spdxLoops(c *Ctx, prop string) {
	const R = "loop-totality"
	c.rule(R, loopRuleText)
	ds := pkgFilter(c.reachDecls(R, spdxSer, spdxUnser), "serializers.", "unserializers.")
	c.loopTotality(R, ds, loopPolicies, commonSkips)
	c.floor(R, 12, "SPDX writer and reader contain 15 conversion loops")
	kindComplement(c, R)
}

func cdxLoops(c *Ctx, prop string) {
	const R = "loop-totality"
	c.rule(R, loopRuleText)
	ds := pkgFilter(c.reachDecls(R, cdxSer, cdxUnser), "serializers.", "unserializers.")
	c.loopTotality(R, ds, loopPolicies, commonSkips)
	c.floor(R, 15, "CycloneDX writer and reader contain 20 conversion loops")
}

// kindComplement: the two SPDX node loops filter on Node.Type with complementary constants:
// every node kind constant is skipped by exactly one of them.
func kindComplement(c *Ctx, rule string) {
	nt := c.P.namedType(modPath+"/pkg/sbom", "Node_NodeType")
	if nt == nil {
		c.undecided(rule, "kind-complement#anchor", "-", "Node_NodeType not found")
		return
	}
	skippedBy := map[string][]string{} // const name -> loops skipping it
	addOnce := func(k, fn string) {
		for _, x := range skippedBy[k] {
			if x == fn {
				return
			}
		}
		skippedBy[k] = append(skippedBy[k], fn)
	}
	for _, fname := range []string{"serializers.(*SPDX23).buildPackages", "serializers.buildFiles"} {
		d := c.decl(rule, fname)
		if d == nil {
			return
		}
		for _, li := range c.loopsIn(d) {
			if li.nested || len(li.accs) == 0 || li.subject != "Nodes" {
				continue
			}
			for _, sp := range li.paths {
				for _, g := range sp.decisions {
					if g.class != "kind-filter" && g.class != "not:kind-filter" {
						continue
					}
					// recover the constant from the atom at g.pos
					ast.Inspect(li.body, func(n ast.Node) bool {
						be, ok := n.(*ast.BinaryExpr)
						if !ok || be.Pos() != g.pos {
							return true
						}
						for _, side := range []ast.Expr{be.X, be.Y} {
							if v, ok := constOf(d.pkg, side); ok && v.isInt() {
								for _, k := range enumConsts(nt) {
									eq := sameValue(constVal(k), v)
									// the atom `Type op K` holds (or not) on the skip path; constant k is
									// skipped when evaluating the atom for k gives that truth value
									atomForK := eq == (be.Op == token.EQL)
									if atomForK == g.holds {
										addOnce(k.Name(), fname)
									}
								}
							}
						}
						return true
					})
				}
			}
		}
	}
	for _, k := range enumConsts(nt) {
		by := skippedBy[k.Name()]
		c.check(len(by) == 1, rule, "kind-complement#"+k.Name(), "-",
			fmt.Sprintf("%s is skipped by exactly one node loop (%v)", k.Name(), by),
			fmt.Sprintf("node kind %s is skipped by %d of the two SPDX node loops %v: such nodes are emitted twice or not at all", k.Name(), len(by), by))
	}
	_ = types.Universe
}
