package main

import (
	"fmt"
	"go/ast"
	"go/token"
	"go/types"
	"strings"

	"golang.org/x/tools/go/types/typeutil"
)

// diffRule: C14-D1/D2/D3. sbom.(*Node).Diff is a sequence of per-field stanzas
//
//	a, r, c := helper(n.F, n2.F); nd.Added.F = a; nd.Removed.F = r; nd.DiffCount += c
//
// Stanzas are recovered by a forward scan that tracks, for each local variable, which helper
// call result it currently holds (variables are re-used between stanzas).
func (c *Ctx) diffRule(fname string) {
	const R = "diff-stanza"
	d := c.decl(R, fname)
	if d == nil {
		return
	}
	recv, par := recvAndParam(d)
	fields := c.schema("Node")
	info := d.pkg.TypesInfo

	type origin struct {
		field  string // stanza field
		idx    int    // result index of the helper call
		helper string
		okArgs bool
		pos    token.Pos
	}
	cur := map[types.Object]origin{}
	type stanza struct {
		helper             string
		pos                token.Pos
		argsOK             bool
		added, removed, ct int
		wrong              []string
		inline             bool
	}
	st := map[string]*stanza{}
	get := func(f string, pos token.Pos) *stanza {
		if st[f] == nil {
			st[f] = &stanza{pos: pos}
		}
		return st[f]
	}
	// nd.Added.F / nd.Removed.F / nd.DiffCount on the left-hand side
	lhsKind := func(e ast.Expr) (part, field string) {
		sel, ok := e.(*ast.SelectorExpr)
		if !ok {
			return "", ""
		}
		if sel.Sel.Name == "DiffCount" {
			return "DiffCount", ""
		}
		inner, ok := sel.X.(*ast.SelectorExpr)
		if !ok {
			return "", ""
		}
		if inner.Sel.Name == "Added" || inner.Sel.Name == "Removed" {
			return inner.Sel.Name, sel.Sel.Name
		}
		return "", ""
	}
	under := "" // condition the statements being scanned run under ("" = unconditional)
	var scan func(stmts []ast.Stmt)
	scan = func(stmts []ast.Stmt) {
		for _, s := range stmts {
			switch s := s.(type) {
			case *ast.AssignStmt:
				// tuple from a helper call
				if len(s.Rhs) == 1 && len(s.Lhs) == 3 {
					if ce, ok := s.Rhs[0].(*ast.CallExpr); ok && len(ce.Args) == 2 {
						f, _ := typeutil.Callee(info, ce).(*types.Func)
						f1, ok1 := fieldOf(d.pkg, ce.Args[0], recv)
						f2, ok2 := fieldOf(d.pkg, ce.Args[1], par)
						hn := "?"
						if f != nil {
							if o := f.Origin(); o != nil {
								f = o
							}
							// the recorded (canonical) name: a renamed helper keeps its role
							cn := objName(f)
							hn = cn[strings.LastIndex(cn, ".")+1:]
						}
						c.CallSites++
						field := f1
						argsOK := ok1 && ok2 && f1 == f2
						if !ok1 {
							// perhaps swapped operands
							if g1, k1 := fieldOf(d.pkg, ce.Args[0], par); k1 {
								field = g1
							}
						}
						sz := get(field, s.Pos())
						if sz.helper != "" {
							sz.wrong = append(sz.wrong, "field is diffed by more than one helper call")
						}
						if under != "" {
							sz.wrong = append(sz.wrong, "the field is compared only under `"+under+"`: for the other pairs of nodes a difference in it is not reported")
						}
						sz.helper = hn
						sz.argsOK = argsOK
						if !argsOK {
							sz.wrong = append(sz.wrong, fmt.Sprintf("helper arguments are (%s, %s); expected (receiver.%s, argument.%s)", types.ExprString(ce.Args[0]), types.ExprString(ce.Args[1]), field, field))
						}
						for i, l := range s.Lhs {
							if o := objOf(d.pkg, l); o != nil {
								cur[o] = origin{field, i, hn, argsOK, s.Pos()}
							}
						}
						continue
					}
				}
				for i, l := range s.Lhs {
					part, field := lhsKind(l)
					if part == "" || i >= len(s.Rhs) && len(s.Rhs) != 1 {
						continue
					}
					rhs := s.Rhs[0]
					if i < len(s.Rhs) {
						rhs = s.Rhs[i]
					}
					o, tracked := cur[objOf(d.pkg, rhs)]
					switch part {
					case "Added", "Removed":
						want := 0
						if part == "Removed" {
							want = 1
						}
						if !tracked {
							sz := get(field, s.Pos())
							sz.wrong = append(sz.wrong, fmt.Sprintf("%s.%s is assigned from %s, which is not a diff-helper result", part, field, types.ExprString(rhs)))
							continue
						}
						sz := get(o.field, o.pos)
						if field != o.field {
							sz.wrong = append(sz.wrong, fmt.Sprintf("result #%d of the %s stanza is stored into %s.%s", o.idx, o.field, part, field))
							get(field, s.Pos()) // make sure the other field shows up too
						}
						if o.idx != want {
							sz.wrong = append(sz.wrong, fmt.Sprintf("%s.%s receives result #%d of the helper (added=#0, removed=#1)", part, field, o.idx))
						}
						if part == "Added" {
							sz.added++
						} else {
							sz.removed++
						}
					case "DiffCount":
						if s.Tok != token.ADD_ASSIGN {
							continue
						}
						if !tracked {
							continue
						}
						sz := get(o.field, o.pos)
						if o.idx != 2 {
							sz.wrong = append(sz.wrong, fmt.Sprintf("DiffCount is increased by result #%d of the helper, not by its count (#2)", o.idx))
						}
						sz.ct++
					}
				}
			case *ast.IfStmt:
				// inline stanza: if n.F != n2.F { nd.Added.F = n2.F; nd.DiffCount++ }
				if be, ok := s.Cond.(*ast.BinaryExpr); ok && be.Op == token.NEQ {
					f1, ok1 := fieldOf(d.pkg, be.X, recv)
					f2, ok2 := fieldOf(d.pkg, be.Y, par)
					if ok1 && ok2 {
						sz := get(f1, s.Pos())
						sz.inline = true
						sz.helper = "inline !="
						sz.argsOK = f1 == f2
						if f1 != f2 {
							sz.wrong = append(sz.wrong, fmt.Sprintf("inline comparison of receiver.%s with argument.%s", f1, f2))
						}
						for _, b := range s.Body.List {
							switch b := b.(type) {
							case *ast.AssignStmt:
								for i, l := range b.Lhs {
									part, field := lhsKind(l)
									if part == "Added" && i < len(b.Rhs) {
										if g, ok := fieldOf(d.pkg, b.Rhs[i], par); ok && g == f1 && field == f1 {
											sz.added++
										} else {
											sz.wrong = append(sz.wrong, "inline stanza stores the wrong field into Added."+field)
										}
									}
									if part == "Removed" {
										sz.removed++
									}
								}
							case *ast.IncDecStmt:
								if part, _ := lhsKind(b.X); part == "DiffCount" && b.Tok == token.INC {
									sz.ct++
								}
							}
						}
						continue
					}
				}
				saved := under
				under = types.ExprString(s.Cond)
				scan(s.Body.List)
				under = saved
			case *ast.BlockStmt:
				scan(s.List)
			}
		}
	}
	scan(d.fd.Body.List)

	helperFor := map[string]string{"string": "diff", "scalar": "diff", "slice": "diffSlice", "msglist": "diffList", "map": "diffMap", "pointer": "diffDates"}
	for _, f := range fields {
		name := f.Name()
		construct := fname + "#" + name
		sz := st[name]
		if sz == nil {
			c.bad(R, construct, c.P.Pos(d.fd.Pos()), fmt.Sprintf("schema field %s has no diff stanza: a difference in %s is never reported", name, name))
			continue
		}
		pos := c.P.Pos(sz.pos)
		kind := fieldKind(f.Type())
		switch {
		case len(sz.wrong) > 0:
			c.bad(R, construct, pos, fmt.Sprintf("stanza for %s is inconsistent: %v", name, sz.wrong))
		case sz.ct != 1:
			c.bad(R, construct, pos, fmt.Sprintf("DiffCount is increased %d times for %s; each differing attribute must count exactly once", sz.ct, name))
		case sz.added != 1:
			c.bad(R, construct, pos, fmt.Sprintf("Added.%s is stored %d times; expected once", name, sz.added))
		case !sz.inline && sz.removed != 1:
			c.bad(R, construct, pos, fmt.Sprintf("Removed.%s is stored %d times; expected once", name, sz.removed))
		case !sz.inline && sz.helper != helperFor[kind]:
			c.bad("diff-helper-kind", construct, pos, fmt.Sprintf("field %s of kind %s is diffed with %s; fields of this kind need %s (pointer-element lists compared with == compare addresses, not contents)", name, kind, sz.helper, helperFor[kind]))
		case sz.inline && kind != "scalar":
			c.bad(R, construct, pos, fmt.Sprintf("field %s of kind %s is compared inline with !=", name, kind))
		default:
			c.ok(R, construct, pos, fmt.Sprintf("%s(receiver.%s, argument.%s) → Added/Removed/DiffCount", sz.helper, name, name))
		}
	}
	for name, sz := range st {
		known := false
		for _, f := range fields {
			known = known || f.Name() == name
		}
		if !known {
			c.bad(R, fname+"#stray:"+name, c.P.Pos(sz.pos), fmt.Sprintf("diff stanza on %q does not correspond to a schema field (%v)", name, sz.wrong))
		}
	}

	// D4: nil iff DiffCount == 0
	okShape := false
	ast.Inspect(d.fd.Body, func(n ast.Node) bool {
		ifs, ok := n.(*ast.IfStmt)
		if !ok {
			return true
		}
		be, ok := ifs.Cond.(*ast.BinaryExpr)
		if !ok {
			return true
		}
		if part, _ := lhsKind(be.X); part != "DiffCount" {
			return true
		}
		v, isC := constOf(d.pkg, be.Y)
		if !isC || !v.isInt() {
			return true
		}
		if (be.Op == token.GTR && v.int() == 0) || (be.Op == token.NEQ && v.int() == 0) || (be.Op == token.GEQ && v.int() == 1) {
			for _, b := range ifs.Body.List {
				if rs, ok := b.(*ast.ReturnStmt); ok && len(rs.Results) == 1 && !isNilIdent(d.pkg, rs.Results[0]) {
					okShape = true
				}
			}
		}
		return true
	})
	c.check(okShape, "diff-result", fname+"#nil-iff-zero", c.P.Pos(d.fd.Pos()),
		"a non-nil diff is returned exactly under DiffCount > 0", "the `DiffCount > 0 → return the diff` shape was not found: self-diff may be reported as a difference or differences dropped")
	// … and "no difference" is decided by the stanzas only: an early `return nil` is admitted for
	// the same object (pointer identity) or an absent operand, never on the word of another notion
	// of equality (Equal, checksums, sizes) — those can call two different nodes the same
	k := 0
	ast.Inspect(d.fd.Body, func(n ast.Node) bool {
		rs, ok := n.(*ast.ReturnStmt)
		if !ok || len(rs.Results) != 1 || !isNilIdent(d.pkg, rs.Results[0]) {
			return true
		}
		chain := enclosing(d.fd.Body, rs)
		for i, en := range chain {
			ifs, isIf := en.(*ast.IfStmt)
			if !isIf || i+1 >= len(chain) || chain[i+1] != ast.Node(ifs.Body) {
				continue
			}
			k++
			okCond := true
			var walk func(e ast.Expr)
			walk = func(e ast.Expr) {
				switch x := e.(type) {
				case *ast.ParenExpr:
					walk(x.X)
					return
				case *ast.BinaryExpr:
					if x.Op == token.LOR || x.Op == token.LAND {
						walk(x.X)
						walk(x.Y)
						return
					}
					if part, _ := lhsKind(x.X); part == "DiffCount" {
						return
					}
					if x.Op == token.EQL {
						lo, ro := objOf(d.pkg, x.X), objOf(d.pkg, x.Y)
						if isNilIdent(d.pkg, x.Y) && lo != nil && (lo == recv || lo == par) {
							return
						}
						if lo != nil && ro != nil && ((lo == recv && ro == par) || (lo == par && ro == recv)) {
							return
						}
					}
				}
				okCond = false
			}
			walk(ifs.Cond)
			c.check(okCond, "diff-result", fmt.Sprintf("%s#early-nil@%d", fname, k), c.P.Pos(ifs.Pos()), "early nil only for the same object or an absent operand",
				fmt.Sprintf("Diff returns nil early under `%s`: whether two nodes differ is then decided by something other than the per-field stanzas, and every pair that test wrongly calls equal has its differences dropped", types.ExprString(ifs.Cond)))
		}
		return true
	})
}
