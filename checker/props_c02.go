package main

import (
	"fmt"
	"go/ast"
	"go/types"
)

const cdxLib = "CycloneDX/cyclonedx-go"

func init() {
	register("C02", "CycloneDX round trip — structural necessary conditions: (D1) the enum tables the CDX writer and reader call are mutually inverse (hash algorithms, external-reference types, lifecycle phases) or the reader is a section of the writer (component types), and the three CDX hash tables agree; (D2) every attribute the statement lists has a field path node→component→node; (D3) element-wise conversion loops are total; (D4) tree assembly has no order-dependent placement and no stale by-value component copy; (D5) the auto-reference eraser's literals agree with the identifier generator's constants. Decides code shape, not value equality through cyclonedx-go.", runC02)
}

func runC02(c *Ctx) {
	c.rule("table-inverse", "for every schema enum constant the CDX writer maps to a non-default label, reader(writer(e)) == e")
	c.rule("table-section", "for every library constant l the reader maps to a non-default enum, writer(reader(l)) == l")
	c.rule("sibling-agreement", "functions documented as the same mapping agree on every library constant")
	c.rule("constant-agreement", "literals used by the auto-reference eraser are derived from the constants used by the identifier generator")
	c.notDecided("value equality after cyclonedx-go encodes/decodes; fields cyclonedx-go drops per spec version; serial-number syntax")
	c.assume("cyclonedx-go passes enum label strings through JSON unchanged for spec versions 1.4/1.5")
	cdxTables(c)
	cdxAutoRef(c)
	cdxFlow(c)
	cdxLoops(c, "C02")
	cdxTreeAssembly(c, "C02")
	placedAttached(c)
	lifecyclePhaseRule(c)
	// "a second pass changes nothing further", document after document: the registered driver
	// objects are shared by every writer and reader
	driverStateRule(c, "driver-keeps-no-state", []string{cdxSer, "serializers.(*CDX).Render", cdxUnser}, newOrigins(c.P))
	var conv []*declInfo
	for _, n := range []string{"serializers.(*CDX).nodeToComponent", "unserializers.(*CDX).componentToNode"} {
		if d := c.decl("verbatim-copy-guards", n); d != nil {
			conv = append(conv, d)
		}
	}
	if len(conv) == 2 {
		verbatimCopyGuards(c, "verbatim-copy-guards", conv[:1], "Node")
		verbatimCopyGuards(c, "verbatim-copy-guards", conv[1:], "Component")
	}
}

func cdxTables(c *Ctx) {
	const R = "table-inverse"
	wr := c.reachDecls(R, cdxSer)
	rd := c.reachDecls(R, cdxUnser)
	if len(wr) == 0 || len(rd) == 0 {
		return
	}
	sbomPkg := "pkg/sbom"
	first := func(v value) []value { return []value{v} }

	// --- hash algorithms ---
	hashT := c.P.namedType(modPath+"/"+sbomPkg, "HashAlgorithm")
	isCdxHash := isNamed(cdxLib, "HashAlgorithm")
	hto := c.uniqueConverter(R, "HashAlgorithm→cdx.HashAlgorithm (CDX writer)", wr, sigPred(isNamed(sbomPkg, "HashAlgorithm"), isCdxHash))
	hfroms := converters(rd, sigPred(isCdxHash, isNamed(sbomPkg, "HashAlgorithm")))
	if len(hfroms) == 0 {
		c.undecided(R, "converter:cdx.HashAlgorithm→HashAlgorithm (CDX reader)", "-", "no hash converter found in the CDX reader")
	}
	if hashT != nil && hto != nil {
		for _, hfrom := range hfroms {
			n := 0
			for _, e := range enumConsts(hashT) {
				w := c.apply(hto, constVal(e))
				construct := fmt.Sprintf("%s∘%s#%s", objName(hfrom), objName(hto), e.Name())
				if len(w) < 2 || (w[1].k != vNil && w[1].k != vErr) {
					c.undecided(R, construct, c.fpos(hto), fmt.Sprintf("writer hash table not foldable: %v", w))
					continue
				}
				if w[1].k == vErr {
					continue // CycloneDX cannot express it
				}
				n++
				r := c.apply(hfrom, first(w[0])...)
				if len(r) == 0 || r[0].k != vConst {
					c.undecided(R, construct, c.fpos(hfrom), "reader hash table not foldable")
					continue
				}
				c.check(sameValue(r[0], constVal(e)), R, construct, c.fpos(hfrom),
					fmt.Sprintf("%s → %s → %s", e.Name(), w[0], r[0]),
					fmt.Sprintf("%s is written as %s which reads back as %s", e.Name(), w[0], r[0]))
			}
			c.check(n >= 12, R, "domain:HashAlgorithm/CDX@"+objName(hfrom), c.fpos(hto),
				fmt.Sprintf("%d CycloneDX-expressible algorithms", n), fmt.Sprintf("only %d algorithms are expressible; 12 confirmed on the pinned tree", n))
		}
		// siblings: every cdx->proto hash table in the module agrees on every library constant
		cdxHashT := c.P.namedType("github.com/"+cdxLib, "HashAlgorithm")
		var sibs []*types.Func
		sibs = append(sibs, hfroms...)
		for _, name := range []string{"sbom.HashAlgorithmFromCDX", "sbom.HashAlgorithmFromCycloneDX"} {
			if fd, pk := c.P.FuncDecl(name); fd != nil {
				f, _ := pk.TypesInfo.Defs[fd.Name].(*types.Func)
				dup := false
				for _, s := range sibs {
					dup = dup || s == f
				}
				if !dup && f != nil {
					sibs = append(sibs, f)
				}
			}
		}
		if cdxHashT != nil && len(sibs) >= 2 {
			for _, lc := range enumConsts(cdxHashT) {
				ref := c.apply(sibs[0], constVal(lc))
				for _, s := range sibs[1:] {
					r := c.apply(s, constVal(lc))
					construct := fmt.Sprintf("%s~%s#%s", objName(sibs[0]), objName(s), lc.Name())
					if len(ref) == 0 || len(r) == 0 || ref[0].k != vConst || r[0].k != vConst {
						c.undecided("sibling-agreement", construct, c.fpos(s), "table not foldable")
						continue
					}
					c.check(sameValue(ref[0], r[0]), "sibling-agreement", construct, c.fpos(s),
						fmt.Sprintf("%s: both give %s", lc.Name(), r[0]),
						fmt.Sprintf("%s maps to %s in %s but %s in %s", lc.Name(), ref[0], objName(sibs[0]), r[0], objName(s)))
				}
			}
			c.floor("sibling-agreement", 24, "12 library hash constants × 2 sibling tables")
		}
	}

	// --- external reference types ---
	erT := c.P.namedType(modPath+"/"+sbomPkg, "ExternalReference_ExternalReferenceType")
	isCdxER := isNamed(cdxLib, "ExternalReferenceType")
	eto := c.uniqueConverter(R, "ExternalReferenceType→cdx.ExternalReferenceType (CDX writer)", wr, sigPred(isNamed(sbomPkg, "ExternalReference_ExternalReferenceType"), isCdxER))
	efrom := c.uniqueConverter(R, "cdx.ExternalReferenceType→ExternalReferenceType (CDX reader)", rd, sigPred(isCdxER, isNamed(sbomPkg, "ExternalReference_ExternalReferenceType")))
	if erT != nil && eto != nil && efrom != nil {
		def := c.apply(eto, cint(-12345))
		n := c.inverse(inverseSpec{rule: R, to: eto, from: efrom, dom: enumConsts(erT),
			required: func(e *types.Const, w value) bool {
				return e.Name() == "ExternalReference_OTHER" || len(def) == 0 || !sameValue(w, def[0])
			}})
		c.check(n >= 39, R, "domain:ExternalReferenceType/CDX", c.fpos(eto),
			fmt.Sprintf("%d CycloneDX-expressible types", n), fmt.Sprintf("only %d external-reference types have a CycloneDX label; 39 confirmed on the pinned tree", n))
	}

	// --- component type ↔ purpose (section) ---
	isCdxCT := isNamed(cdxLib, "ComponentType")
	pto := c.uniqueConverter("table-section", "Purpose→cdx.ComponentType (CDX writer)", wr, sigPred(isNamed(sbomPkg, "Purpose"), isCdxCT))
	pfrom := c.uniqueConverter("table-section", "cdx.ComponentType→Purpose (CDX reader)", rd, sigPred(isCdxCT, isNamed(sbomPkg, "Purpose")))
	ctT := c.P.namedType("github.com/"+cdxLib, "ComponentType")
	if ctT != nil && pto != nil && pfrom != nil {
		n := 0
		for _, lc := range enumConsts(ctT) {
			construct := fmt.Sprintf("%s∘%s#%s", objName(pto), objName(pfrom), lc.Name())
			pv := c.apply(pfrom, constVal(lc))
			if len(pv) == 0 || pv[0].k != vConst {
				c.undecided("table-section", construct, c.fpos(pfrom), "reader purpose table not foldable")
				continue
			}
			if pv[0].isInt() && pv[0].int() == 0 {
				continue // reader does not know this component type
			}
			n++
			w := c.apply(pto, pv[0])
			if len(w) < 2 || w[0].k != vConst {
				c.undecided("table-section", construct, c.fpos(pto), fmt.Sprintf("writer purpose table not foldable: %v", w))
				continue
			}
			c.check(w[1].k == vNil && sameValue(w[0], constVal(lc)), "table-section", construct, c.fpos(pto),
				fmt.Sprintf("%s → purpose %s → %s", lc.Name(), pv[0], w[0]),
				fmt.Sprintf("component type %s is read as purpose %s, which is written back as %s (err=%v)", constVal(lc), pv[0], w[0], w[1]))
		}
		c.check(n >= 12, "table-section", "domain:ComponentType/CDX", c.fpos(pfrom), fmt.Sprintf("%d component types", n), fmt.Sprintf("only %d component types known to the reader; 12 confirmed", n))
	}

	// --- lifecycle phases ---
	isPhase := isNamed(cdxLib, "LifecyclePhase")
	phTo := c.uniqueConverter(R, "*DocumentType→cdx.LifecyclePhase (CDX writer)", wr, sigPred(isPtrNamed(sbomPkg, "DocumentType"), isPhase))
	phFrom := c.uniqueConverter(R, "*cdx.LifecyclePhase→*SBOMType (CDX reader)", rd, sigPred(isPtrNamed(cdxLib, "LifecyclePhase"), isPtrNamed(sbomPkg, "DocumentType_SBOMType")))
	phT := c.P.namedType("github.com/"+cdxLib, "LifecyclePhase")
	dtT := c.P.namedType(modPath+"/"+sbomPkg, "DocumentType_SBOMType")
	if phTo != nil && phFrom != nil && phT != nil && dtT != nil {
		n := 0
		for _, e := range enumConsts(dtT) {
			if e.Name() == "DocumentType_OTHER" {
				continue // free-text row: the phase is the lower-cased name, not a table entry
			}
			construct := fmt.Sprintf("%s∘%s#%s", objName(phFrom), objName(phTo), e.Name())
			w := c.apply(phTo, rec(map[string]value{"Type": constVal(e), "Name": cstr("x"), "Description": cstr("")}))
			if len(w) < 2 || (w[1].k != vNil && w[1].k != vErr) {
				c.undecided(R, construct, c.fpos(phTo), fmt.Sprintf("phase table not foldable: %v", w))
				continue
			}
			if w[1].k == vErr {
				continue
			}
			n++
			r := c.apply(phFrom, w[0])
			if len(r) == 0 || r[0].k == vUnknown {
				c.undecided(R, construct, c.fpos(phFrom), "reader phase table not foldable")
				continue
			}
			c.check(sameValue(r[0], constVal(e)), R, construct, c.fpos(phFrom),
				fmt.Sprintf("%s → %s → %s", e.Name(), w[0], r[0]), fmt.Sprintf("%s is written as phase %s which reads back as %s", e.Name(), w[0], r[0]))
		}
		for _, lc := range enumConsts(phT) {
			construct := fmt.Sprintf("%s∘%s#%s", objName(phTo), objName(phFrom), lc.Name())
			t := c.apply(phFrom, constVal(lc))
			if len(t) == 0 || t[0].k == vUnknown {
				c.undecided(R, construct, c.fpos(phFrom), "reader phase table not foldable")
				continue
			}
			if t[0].k == vNil {
				continue
			}
			w := c.apply(phTo, rec(map[string]value{"Type": t[0], "Name": cstr("x"), "Description": cstr("")}))
			okv := len(w) >= 2 && w[1].k == vNil && sameValue(w[0], constVal(lc))
			c.check(okv, R, construct, c.fpos(phTo), fmt.Sprintf("%s → %s → %v", lc.Name(), t[0], w), fmt.Sprintf("phase %s reads as %s which is written back as %v", constVal(lc), t[0], w))
		}
		// a label outside the library's constants (a named, untyped lifecycle) must stay untyped: a type
		// invented by the reader is written back as a different phase on the second pass
		{
			probe := cstr("X-Unlisted Phase")
			construct := fmt.Sprintf("%s∘%s#unlisted-label", objName(phTo), objName(phFrom))
			t := c.apply(phFrom, probe)
			switch {
			case len(t) == 0 || t[0].k == vUnknown:
				c.undecided(R, construct, c.fpos(phFrom), "reader phase table not foldable on an unlisted label")
			case t[0].k == vNil:
				c.ok(R, construct, c.fpos(phFrom), "an unlisted phase label reads as an untyped lifecycle")
			default:
				w := c.apply(phTo, rec(map[string]value{"Type": t[0], "Name": probe, "Description": cstr("")}))
				okv := len(w) >= 2 && w[1].k == vNil && sameValue(w[0], probe)
				c.check(okv, R, construct, c.fpos(phFrom), "unlisted label survives", fmt.Sprintf("a phase label the library does not list reads as type %s, which is written back as %v: a named, untyped lifecycle comes back typed and changes again on the second pass", t[0], w))
			}
		}
		c.check(n >= 7, R, "domain:LifecyclePhase/CDX", c.fpos(phTo), fmt.Sprintf("%d phases", n), fmt.Sprintf("only %d document types map to a lifecycle phase; 7 confirmed", n))
	}
}

// cdxAutoRef: C02-D5.
func cdxAutoRef(c *Ctx) {
	const R = "constant-agreement"
	wr := c.reachDecls(R, cdxSer)
	rd := c.reachDecls(R, cdxUnser)
	// generator constants
	sb := c.P.pkg("pkg/sbom")
	prefC, _ := sb.Types.Scope().Lookup("NodeIdentifierPrefix").(*types.Const)
	if prefC == nil {
		c.undecided(R, "anchor:sbom.NodeIdentifierPrefix", "-", "constant not found")
		return
	}
	prefix := constVal(prefC).str()
	// the flags the generator knows: the constant table (map keys or list elements) that
	// NewNodeIdentifier consults — found by use, whatever it is called and however it is shaped
	keys := map[string]bool{}
	if gd := c.decl(R, "sbom.NewNodeIdentifier"); gd != nil {
		ev := &evaluator{p: c.P}
		ast.Inspect(gd.fd.Body, func(n ast.Node) bool {
			id, ok := n.(*ast.Ident)
			if !ok {
				return true
			}
			pv, isVar := gd.pkg.TypesInfo.Uses[id].(*types.Var)
			if !isVar || pv.Pkg() == nil || pv.Parent() != pv.Pkg().Scope() {
				return true
			}
			tbl := ev.packageTable(pv)
			switch tbl.k {
			case vMap:
				for _, k := range tbl.mkey {
					if k.isStr() {
						keys[k.str()] = true
					}
				}
			case vList:
				for _, k := range tbl.list {
					if k.isStr() {
						keys[k.str()] = true
					}
				}
			}
			return true
		})
	}
	// the flag the reader passes to NewNodeIdentifier
	var flag string
	var flagPos string
	for _, d := range rd {
		for _, cs := range callsIn(d.pkg, d.fd.Body) {
			if objName(cs.callee) == "sbom.NewNodeIdentifier" && len(cs.call.Args) >= 1 {
				if v, ok := constOf(d.pkg, cs.call.Args[0]); ok && v.isStr() {
					flag = v.str()
					flagPos = c.P.Pos(cs.call.Pos())
				}
			}
		}
	}
	if flag == "" {
		c.undecided(R, "cdx-auto-ref#generator-flag", "-", "the CDX reader's call to sbom.NewNodeIdentifier with a constant flag was not found")
		return
	}
	c.check(keys[flag], R, "cdx-auto-ref#flag-known-to-generator", flagPos,
		fmt.Sprintf("flag %q is a key of protobomPrefixes", flag), fmt.Sprintf("flag %q is not a key of protobomPrefixes %v: generated identifiers would not carry it as a flag", flag, keys))
	// the eraser's decision, folded: the statements of clearAutoRefs' loop body that lead to the
	// store `….BOMRef = ""` are evaluated with the element's BOMRef bound to sample identifiers.
	// A generated identifier (<prefix>-<flag>--<seed>) must be erased; identifiers that merely
	// resemble one must be kept, or the component loses the ref its dependencies point at.
	var eraser *declInfo
	var decision ast.Stmt
	var prelude []ast.Stmt // statements of the loop body ahead of the decision (locals it uses)
	for _, d := range wr {
		ast.Inspect(d.fd.Body, func(n ast.Node) bool {
			as, ok := n.(*ast.AssignStmt)
			if !ok || len(as.Lhs) != 1 || len(as.Rhs) != 1 {
				return true
			}
			sel, ok := as.Lhs[0].(*ast.SelectorExpr)
			if !ok || sel.Sel.Name != "BOMRef" {
				return true
			}
			if v, isC := constOf(d.pkg, as.Rhs[0]); !isC || !v.isStr() || v.str() != "" {
				return true
			}
			// the outermost statement of the innermost loop body that contains the store
			chain := enclosing(d.fd.Body, as)
			for i, y := range chain {
				var body *ast.BlockStmt
				switch l := y.(type) {
				case *ast.RangeStmt:
					body = l.Body
				case *ast.ForStmt:
					body = l.Body
				}
				if body == nil || i+2 >= len(chain) {
					continue
				}
				eraser = d
				decision, _ = chain[i+2].(ast.Stmt)
				prelude = nil
				for _, st := range body.List {
					if st == decision {
						break
					}
					prelude = append(prelude, st)
				}
			}
			return true
		})
	}
	if eraser == nil || decision == nil {
		c.undecided(R, "cdx-auto-ref#eraser", "-", "no loop in the CycloneDX writer stores the empty string into a component's BOMRef")
		return
	}
	pos := c.P.Pos(decision.Pos())
	erased := func(ref string) (bool, string) {
		ev := &evaluator{p: c.P}
		fr := &frame{pkg: eraser.pkg, env: map[types.Object]value{}, fieldOverride: map[string]value{"BOMRef": cstr(ref)}}
		fl, vals := ev.block(fr, append(append([]ast.Stmt{}, prelude...), decision))
		if fl == flowStuck {
			why := "not foldable"
			if len(vals) > 0 {
				why = vals[0].why
			}
			return false, why
		}
		v, stored := fr.fieldStores["BOMRef"]
		return stored && v.isStr() && v.str() == "", ""
	}
	type sample struct {
		ref   string
		erase bool
		why   string
	}
	samples := []sample{
		{prefix + "-" + flag + "--000000001", true, "an identifier generated by the reader"},
		{prefix + "-" + flag + "--a--b", true, "a generated identifier whose seed contains the separator"},
		{prefix + "-node--" + flag + "make-1.16", false, "a generated node identifier whose seed merely contains the flag text"},
		{prefix + "--my-" + flag + "--x", false, "an unflagged identifier whose seed contains the flag text"},
		{"my-" + flag + "--000000001", false, "a user identifier without the generator's prefix"},
		{"pkg:generic/" + flag + "make@1.16", false, "a user identifier"},
		{"", false, "the empty reference"},
	}
	for _, sm := range samples {
		got, stuck := erased(sm.ref)
		key := fmt.Sprintf("cdx-auto-ref#%q", sm.ref)
		if stuck != "" {
			c.undecided(R, key, pos, "the eraser's decision could not be folded for this identifier: "+stuck)
			continue
		}
		if sm.erase {
			c.check(got, R, key, pos, "erased: "+sm.why, fmt.Sprintf("%q (%s) is not erased before output: generated references leak into the CycloneDX document", sm.ref, sm.why))
		} else {
			c.check(!got, R, key, pos, "kept: "+sm.why, fmt.Sprintf("%q (%s) is erased: the component loses its bom-ref while dependencies still point at it", sm.ref, sm.why))
		}
	}
}
