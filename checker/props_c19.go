package main

import (
	"fmt"
	"go/ast"
	"go/token"
	"go/types"
	"regexp"
	"strings"

	"golang.org/x/tools/go/ssa"
	"golang.org/x/tools/go/types/typeutil"
)

func init() {
	register("C19", "Filesystem store — structural conditions: (D1) no process-terminating call is reachable from Store/Retrieve and their reader/writer wrappers; (D2) every path handed to a file-system call in pkg/storage is the configured directory itself or filepath.Join(directory, name) with name produced by a constant format whose only verb is %x of a SHA-256 digest (or a temporary created inside the directory); (D3) the directory is created with a mode that owner can search and write; (D4) the write is preceded by the missing-identifier, nil-options and no-clobber exits; (D5) Retrieve returns a document only after the read, the decode and an identity comparison with the requested identifier succeeded; (D6) the wrappers return the backend's error. Does not decide protobuf fidelity or OS fault behaviour.", runC19)
	register("C20", "Crash-atomic store — structural conditions: (D1) Store never opens the final entry for writing (no os.WriteFile/os.Create/os.OpenFile on it); (D2) the replace protocol is followed in order on the success path: temporary file created in the same directory → written → closed with its error checked → renamed onto the final path, with the temporary removed on every failure exit. Assumes rename(2) within a directory is atomic with respect to process death; durability across power loss is not demanded.", runC20)
}

const storeFn = "storage.(*FileSystem).Store"
const retrieveFn = "storage.(*FileSystem).Retrieve"

var storageEntries = []string{storeFn, retrieveFn, "writer.(*Writer).Store", "writer.(*Writer).StoreWithOptions", "reader.(*Reader).Retrieve", "reader.(*Reader).RetrieveWithOptions"}

// fsCalls: file-system functions and the index of their path arguments.
var fsCalls = map[string][]int{
	"os.WriteFile": {0}, "os.ReadFile": {0}, "os.Create": {0}, "os.OpenFile": {0}, "os.Open": {0}, "os.Remove": {0}, "os.RemoveAll": {0},
	"os.Rename": {0, 1}, "os.Stat": {0}, "os.Lstat": {0}, "os.MkdirAll": {0}, "os.Mkdir": {0}, "os.CreateTemp": {0}, "os.Chmod": {0}, "os.Truncate": {0},
	"sigs.k8s.io/release-utils/util.Exists": {0}, "os.Symlink": {0, 1}, "os.Link": {0, 1},
}

var opensForWriting = map[string]bool{"os.WriteFile": true, "os.Create": true, "os.OpenFile": true, "os.Truncate": true}

type pathClass struct {
	kind string // dir | final | temp | other
	desc string
}

// classifyPath decides what a path expression in pkg/storage denotes.
func classifyPath(d *declInfo, e ast.Expr, defs map[types.Object]ast.Expr, depth int) pathClass {
	if depth > 6 {
		return pathClass{"other", "derivation too deep"}
	}
	info := d.pkg.TypesInfo
	recv, _ := recvAndParam(d)
	isDir := func(x ast.Expr) bool {
		// recv.Options.Path
		sel, ok := x.(*ast.SelectorExpr)
		if !ok || sel.Sel.Name != "Path" {
			return false
		}
		f, ok := fieldOf(d.pkg, sel.X, recv)
		return ok && f == "Options"
	}
	switch x := e.(type) {
	case *ast.ParenExpr:
		return classifyPath(d, x.X, defs, depth)
	case *ast.Ident:
		if o := objOf(d.pkg, x); o != nil {
			if def, ok := defs[o]; ok {
				return classifyPath(d, def, defs, depth+1)
			}
			// a parameter of an internal helper: bound at its call sites
			if args, callers := paramBindings(d, o); len(args) > 0 {
				var cls pathClass
				for i, a := range args {
					pc := classifyPath(callers[i], a, singleDefs(callers[i].pkg, callers[i].fd.Body), depth+1)
					if i > 0 && pc.kind != cls.kind {
						return pathClass{"other", "parameter " + x.Name + " is bound to different kinds of paths at its call sites"}
					}
					cls = pc
				}
				return cls
			}
		}
		return pathClass{"other", "variable " + x.Name + " without a single definition"}
	case *ast.SelectorExpr:
		if isDir(x) {
			return pathClass{"dir", "the configured directory"}
		}
	case *ast.CallExpr:
		f, _ := typeutil.Callee(info, x).(*types.Func)
		if f == nil {
			break
		}
		// a helper of the storage package that returns a path (fs.entryPath(name)): the path it builds,
		// with its parameters bound at the call sites
		if f.Pkg() != nil && f.Pkg() == d.pkg.Types && theProgram != nil {
			if hfd, hpk := theProgram.FuncDecl(objName(f)); hfd != nil && hfd.Body != nil && len(hfd.Body.List) == 1 {
				if rs, isRet := hfd.Body.List[0].(*ast.ReturnStmt); isRet && len(rs.Results) == 1 {
					hd := &declInfo{fd: hfd, pkg: hpk, obj: f, name: objName(f)}
					return classifyPath(hd, rs.Results[0], singleDefs(hpk, hfd.Body), depth+1)
				}
			}
		}
		switch f.FullName() {
		case "path/filepath.Join":
			if len(x.Args) == 2 && (isDir(x.Args[0]) || classifyPath(d, x.Args[0], defs, depth+1).kind == "dir") {
				if isDigestName(d, x.Args[1], defs) {
					return pathClass{"final", "Join(directory, digest file name)"}
				}
				return pathClass{"other", "Join(directory, " + types.ExprString(x.Args[1]) + ") where the name is not the digest file name"}
			}
		case "(*os.File).Name":
			// name of a temporary created inside the directory
			if sel, ok := x.Fun.(*ast.SelectorExpr); ok {
				if o := objOf(d.pkg, sel.X); o != nil {
					// the open temporary handed to a helper: judged where it was created
					if _, hasDef := defs[o]; !hasDef {
						if args, callers := paramBindings(d, o); len(args) > 0 {
							all := true
							for i, a := range args {
								cd := callers[i]
								probe := &ast.CallExpr{Fun: &ast.SelectorExpr{X: a, Sel: sel.Sel}}
								// evaluate `a.Name()` in the caller: reuse this case with the caller's definitions
								cdefs := singleDefs(cd.pkg, cd.fd.Body)
								ao := objOf(cd.pkg, a)
								okTemp := false
								if def, ok := cdefs[ao]; ok && ao != nil {
									if ce, ok := def.(*ast.CallExpr); ok {
										if g, _ := typeutil.Callee(cd.pkg.TypesInfo, ce).(*types.Func); g != nil && g.FullName() == "os.CreateTemp" && len(ce.Args) == 2 {
											recvC, _ := recvAndParam(cd)
											isDirC := func(y ast.Expr) bool {
												s2, ok := y.(*ast.SelectorExpr)
												if !ok || s2.Sel.Name != "Path" {
													return false
												}
												f, ok := fieldOf(cd.pkg, s2.X, recvC)
												return ok && f == "Options"
											}
											if (isDirC(ce.Args[0]) || classifyPath(cd, ce.Args[0], cdefs, depth+1).kind == "dir") && patternSafe(cd, ce.Args[1], cdefs) {
												okTemp = true
											}
										}
									}
								}
								_ = probe
								all = all && okTemp
							}
							if all {
								return pathClass{"temp", "temporary file created inside the directory by the caller"}
							}
							return pathClass{"other", "a file handed in by a caller that did not create it as a temporary inside the directory"}
						}
					}
					if def, ok := defs[o]; ok {
						if ce, ok := def.(*ast.CallExpr); ok {
							if g, _ := typeutil.Callee(info, ce).(*types.Func); g != nil && g.FullName() == "os.CreateTemp" && len(ce.Args) == 2 && (isDir(ce.Args[0]) || classifyPath(d, ce.Args[0], defs, depth+1).kind == "dir") {
								if patternSafe(d, ce.Args[1], defs) {
									return pathClass{"temp", "temporary file created inside the directory"}
								}
								return pathClass{"other", "temporary file whose pattern may contain a path separator"}
							}
						}
					}
				}
			}
		}
	}
	return pathClass{"other", types.ExprString(e)}
}

// isDigestName: the expression is the first result of generateDocFileName-like function: a local
// defined from a call to a module function whose returns are Sprintf(constFormat, sha256.Sum256(..))
// with a format containing exactly the verb %x and no path separator.
func isDigestName(d *declInfo, e ast.Expr, defs map[types.Object]ast.Expr) bool {
	info := d.pkg.TypesInfo
	id, ok := e.(*ast.Ident)
	if !ok {
		return false
	}
	def, ok := defs[objOf(d.pkg, id)]
	if !ok {
		if args, callers := paramBindings(d, objOf(d.pkg, id)); len(args) > 0 {
			for i, a := range args {
				if !isDigestName(callers[i], a, singleDefs(callers[i].pkg, callers[i].fd.Body)) {
					return false
				}
			}
			return true
		}
		return false
	}
	ce, ok := def.(*ast.CallExpr)
	if !ok {
		return false
	}
	f, _ := typeutil.Callee(info, ce).(*types.Func)
	if f == nil || f.Pkg() == nil || !strings.HasPrefix(f.Pkg().Path(), modPath+"/") {
		return false
	}
	return digestNamer(d.pkg.Types, f) == ""
}

var digestNamerProblems = map[*types.Func]string{}
var theProgram *Program

// storageDecls lists the function declarations of pkg/storage (fake.go excluded).
func storageDecls(p *Program) []*declInfo {
	pk := p.pkg("pkg/storage")
	var out []*declInfo
	for _, file := range pk.Syntax {
		if strings.HasSuffix(p.Fset.Position(file.Pos()).Filename, "fake.go") {
			continue
		}
		for _, dd := range file.Decls {
			fd, ok := dd.(*ast.FuncDecl)
			if !ok || fd.Body == nil {
				continue
			}
			obj, _ := pk.TypesInfo.Defs[fd.Name].(*types.Func)
			out = append(out, &declInfo{fd, pk, obj, objName(obj)})
		}
	}
	return out
}

// paramBindings returns, for a parameter of d, the argument expressions at every call site of d
// inside pkg/storage together with the calling declaration.
func paramBindings(d *declInfo, param types.Object) (args []ast.Expr, callers []*declInfo) {
	idx := -1
	i := 0
	for _, f := range d.fd.Type.Params.List {
		for _, n := range f.Names {
			if d.pkg.TypesInfo.Defs[n] == param {
				idx = i
			}
			i++
		}
	}
	if idx < 0 || theProgram == nil {
		return nil, nil
	}
	for _, cd := range storageDecls(theProgram) {
		for _, cs := range callsIn(cd.pkg, cd.fd.Body) {
			if cs.callee == d.obj && idx < len(cs.call.Args) {
				args = append(args, cs.call.Args[idx])
				callers = append(callers, cd)
			}
		}
	}
	return args, callers
}

// digestNamer checks the body of the naming function; returns "" when it is a digest namer.
func digestNamer(_ *types.Package, f *types.Func) string {
	if why, ok := digestNamerProblems[f]; ok {
		return why
	}
	fd, pk := theProgram.FuncDecl(objName(f))
	why := ""
	if fd == nil {
		why = "no declaration"
	} else {
		nonErr := 0
		ast.Inspect(fd.Body, func(n ast.Node) bool {
			rs, ok := n.(*ast.ReturnStmt)
			if !ok || len(rs.Results) == 0 {
				return true
			}
			r0 := rs.Results[0]
			if v, ok := constOf(pk, r0); ok && v.isStr() && v.str() == "" {
				return true // error return
			}
			nonErr++
			// the name is safe constants around exactly one hexadecimal rendering of a SHA-2 digest:
			// Sprintf("…%x…", d), hex.EncodeToString(d[:]), fmt.Sprintf("%x", d) + ".ext", …
			ldefs := singleDefs(pk, fd.Body)
			safeRe := regexp.MustCompile(`^[A-Za-z0-9._-]*$`)
			var dc *ast.CallExpr
			nHex := 0
			var digestOf func(e ast.Expr) *ast.CallExpr
			digestOf = func(e ast.Expr) *ast.CallExpr {
				for i := 0; i < 6; i++ {
					e = chase(pk, ldefs, e)
					if se, isSl := e.(*ast.SliceExpr); isSl && se.Low == nil && se.High == nil {
						e = se.X
						continue
					}
					break
				}
				c2, isCall := e.(*ast.CallExpr)
				if !isCall {
					return nil
				}
				h, _ := typeutil.Callee(pk.TypesInfo, c2).(*types.Func)
				if h == nil || !(strings.HasPrefix(h.FullName(), "crypto/sha256.Sum") || strings.HasPrefix(h.FullName(), "crypto/sha512.Sum")) {
					return nil
				}
				return c2
			}
			var part func(e ast.Expr) string
			part = func(e ast.Expr) string {
				if v, isC := constOf(pk, e); isC && v.isStr() {
					if !safeRe.MatchString(v.str()) {
						return fmt.Sprintf("constant %q is not file-name-safe", v.str())
					}
					return ""
				}
				switch x := e.(type) {
				case *ast.ParenExpr:
					return part(x.X)
				case *ast.BinaryExpr:
					if x.Op == token.ADD {
						if w := part(x.X); w != "" {
							return w
						}
						return part(x.Y)
					}
				case *ast.Ident:
					if def, has := ldefs[objOf(pk, x)]; has {
						return part(def)
					}
				case *ast.CallExpr:
					g, _ := typeutil.Callee(pk.TypesInfo, x).(*types.Func)
					if g == nil {
						break
					}
					switch {
					case g.FullName() == "fmt.Sprintf" && len(x.Args) == 2:
						fv, isC := constOf(pk, x.Args[0])
						if !isC || !fv.isStr() {
							return "format is not constant"
						}
						if !regexp.MustCompile(`^[A-Za-z0-9._-]*%x[A-Za-z0-9._-]*$`).MatchString(fv.str()) {
							return fmt.Sprintf("format %q is not `%%x` surrounded by file-name-safe characters", fv.str())
						}
						nHex++
						if dc = digestOf(x.Args[1]); dc == nil {
							return "the formatted value is not a SHA-2 digest"
						}
						return ""
					case g.FullName() == "encoding/hex.EncodeToString" && len(x.Args) == 1:
						nHex++
						if dc = digestOf(x.Args[0]); dc == nil {
							return "the encoded value is not a SHA-2 digest"
						}
						return ""
					}
				}
				return "returns " + types.ExprString(e) + ", not a hexadecimal digest between file-name-safe constants"
			}
			if w := part(r0); w != "" {
				why = w
				return true
			}
			if nHex != 1 || dc == nil {
				why = "the name does not contain exactly one digest"
				return true
			}
			// the digest input is the identifier parameter itself (conversion only) and that
			// parameter is never reassigned: distinct identifiers give distinct names
			var param types.Object
			if len(fd.Type.Params.List) == 1 && len(fd.Type.Params.List[0].Names) == 1 {
				param = pk.TypesInfo.Defs[fd.Type.Params.List[0].Names[0]]
			}
			in := dc.Args[0]
			for {
				if conv, ok := in.(*ast.CallExpr); ok && len(conv.Args) == 1 {
					if tv, ok := pk.TypesInfo.Types[conv.Fun]; ok && tv.IsType() {
						in = conv.Args[0]
						continue
					}
				}
				break
			}
			if id, ok := in.(*ast.Ident); !ok || param == nil || objOf(pk, id) != param {
				why = "the digest input is " + types.ExprString(dc.Args[0]) + ", not the identifier parameter itself"
				return true
			}
			ast.Inspect(fd.Body, func(m ast.Node) bool {
				if as, ok := m.(*ast.AssignStmt); ok {
					for _, l := range as.Lhs {
						if objOf(pk, l) == param {
							why = "the identifier is rewritten (" + types.ExprString(as.Rhs[0]) + ") before it is hashed: identifiers that differ only in what the rewrite removes share one entry"
						}
					}
				}
				return true
			})
			return true
		})
		if nonErr == 0 && why == "" {
			why = "no value return found"
		}
	}
	digestNamerProblems[f] = why
	return why
}

// patternSafe: a CreateTemp pattern built from the digest file name and constants without '/'.
func patternSafe(d *declInfo, e ast.Expr, defs map[types.Object]ast.Expr) bool {
	switch x := e.(type) {
	case *ast.BasicLit:
		v, ok := constOf(d.pkg, x)
		return ok && v.isStr() && !strings.ContainsAny(v.str(), "/\\")
	case *ast.BinaryExpr:
		return x.Op == token.ADD && patternSafe(d, x.X, defs) && patternSafe(d, x.Y, defs)
	case *ast.Ident:
		if v, ok := constOf(d.pkg, x); ok {
			return v.isStr() && !strings.ContainsAny(v.str(), "/\\")
		}
		if isDigestName(d, x, defs) {
			return true
		}
		if o := objOf(d.pkg, x); o != nil {
			if def, has := defs[o]; has {
				return patternSafe(d, def, defs)
			}
			// a pattern parameter of an internal helper: safe when every call site passes a safe one
			if args, callers := paramBindings(d, o); len(args) > 0 {
				for i, a := range args {
					if !patternSafe(callers[i], a, singleDefs(callers[i].pkg, callers[i].fd.Body)) {
						return false
					}
				}
				return true
			}
		}
		return false
	case *ast.ParenExpr:
		return patternSafe(d, x.X, defs)
	}
	return false
}

// storageFsCalls lists every file-system call in pkg/storage with its path classes.
type fsCall struct {
	d     *declInfo
	call  *ast.CallExpr
	name  string
	paths []pathClass
}

func storageFsCalls(c *Ctx, rule string) []fsCall {
	theProgram = c.P
	var out []fsCall
	for _, d := range storageDecls(c.P) {
		c.sawFunc(d.name)
		defs := singleDefs(d.pkg, d.fd.Body)
		for _, cs := range callsIn(d.pkg, d.fd.Body) {
			idx, ok := fsCalls[cs.callee.FullName()]
			if !ok {
				continue
			}
			c.CallSites++
			fc := fsCall{d: d, call: cs.call, name: cs.callee.FullName()}
			for _, i := range idx {
				if i < len(cs.call.Args) {
					fc.paths = append(fc.paths, classifyPath(d, cs.call.Args[i], defs, 0))
				}
			}
			out = append(out, fc)
		}
	}
	return out
}

// protocolSite finds, among Store and the storage helpers it calls, the function that performs a
// given file-system call on the final entry, and the statement inside Store that leads to it.
func protocolSite(c *Ctx, store *declInfo, match func(d *declInfo, cs callSite) bool) (pf *declInfo, call *ast.CallExpr, inStore ast.Node) {
	for _, d := range storageDecls(c.P) {
		for _, cs := range callsIn(d.pkg, d.fd.Body) {
			if !match(d, cs) {
				continue
			}
			if d.obj == store.obj {
				return d, cs.call, cs.call
			}
			// helper: the call to it inside Store
			for _, sc := range callsIn(store.pkg, store.fd.Body) {
				if sc.callee == d.obj {
					return d, cs.call, sc.call
				}
			}
		}
	}
	return nil, nil, nil
}

// earlyExits returns the conditions of if-statements that precede stmt in its enclosing blocks
// and whose body always leaves the function, plus the path condition of stmt itself.
func earlyExits(d *declInfo, stmt ast.Node) []ast.Expr {
	var out []ast.Expr
	chain := enclosing(d.fd.Body, stmt)
	for i, n := range chain {
		blk, ok := n.(*ast.BlockStmt)
		if !ok || i+1 >= len(chain) {
			continue
		}
		for _, s := range blk.List {
			if s == chain[i+1] {
				break
			}
			if ifs, ok := s.(*ast.IfStmt); ok && ifs.Else == nil && len(ifs.Body.List) > 0 {
				if _, isRet := ifs.Body.List[len(ifs.Body.List)-1].(*ast.ReturnStmt); isRet {
					out = append(out, ifs.Cond)
				}
			}
		}
	}
	return out
}

func runC19(c *Ctx) {
	c.assume("proto.Marshal/Unmarshal round-trip a document; errors of the operating system are reported through the returned error values")
	c.notDecided("fidelity of protobuf encoding; behaviour under OS-level faults beyond 'errors are returned'")
	noExitRule(c, storageEntries)

	const R = "path-confinement"
	c.rule(R, "every path argument of a file-system call in pkg/storage is the configured directory, filepath.Join(directory, name) with name from a constant `%x`-of-SHA-2 format, or the name of a temporary created inside the directory with a separator-free pattern")
	calls := storageFsCalls(c, R)
	for i, fc := range calls {
		for j, pc := range fc.paths {
			construct := fmt.Sprintf("%s#%s@%d.%d", fc.d.name, shortCallee(fc.name), i, j)
			c.check(pc.kind != "other", R, construct, c.P.Pos(fc.call.Pos()), pc.desc,
				fmt.Sprintf("the path given to %s is %s: it is not provably inside the configured directory", fc.name, pc.desc))
		}
	}
	c.floor(R, 5, "Stat, MkdirAll, Exists, the write path and ReadFile")
	entryNeverRemoved(c, calls)

	// D3 directory mode
	const RM = "directory-mode"
	c.rule(RM, "os.MkdirAll is called with a constant mode whose owner bits include rwx (0o700)")
	for _, fc := range calls {
		if fc.name != "os.MkdirAll" || len(fc.call.Args) < 2 {
			continue
		}
		arg := fc.call.Args[1]
		if ce, ok := arg.(*ast.CallExpr); ok && len(ce.Args) == 1 {
			arg = ce.Args[0]
		}
		v, ok := constOf(fc.d.pkg, arg)
		if !ok {
			v, ok = constOf(fc.d.pkg, fc.call.Args[1])
		}
		construct := fc.d.name + "#MkdirAll"
		if !ok || !v.isInt() {
			c.undecided(RM, construct, c.P.Pos(fc.call.Pos()), "mode is not a compile-time constant")
			continue
		}
		c.check(v.int()&0o700 == 0o700, RM, construct, c.P.Pos(fc.call.Pos()), fmt.Sprintf("mode %#o", v.int()),
			fmt.Sprintf("the data directory is created with mode %#o: without owner search/write permission it cannot be used by the store that follows", v.int()))
	}
	// "a missing directory is created and then usable": with all its missing parents
	for _, fc := range calls {
		if fc.name == "os.Mkdir" {
			c.bad(RM, fc.d.name+"#Mkdir", c.P.Pos(fc.call.Pos()), "the data directory is created with os.Mkdir, which creates the last path element only: a configured directory whose parent is missing as well cannot be created and the store fails")
		}
	}
	c.floor(RM, 1, "one MkdirAll in Store")

	storeGuards(c)
	retrieveValidates(c)
	wrappersPropagate(c)
	storeSuccessPublishes(c)
	retrieveReadsWholeEntry(c)
	// Store and Retrieve keep nothing on the backend between calls: a cached "directory is ready"
	// or "entry seen" flag makes a later call skip a check whose outcome may have changed
	const RS = "backend-keeps-no-state"
	c.rule(RS, "FileSystem.Store and FileSystem.Retrieve (and what they call) do not write memory reachable from their receiver: every call re-establishes the directory and reads the entry afresh")
	{
		o := newOrigins(c.P)
		for _, n := range []string{storeFn, retrieveFn} {
			fn := c.P.Func(n)
			if fn == nil {
				c.undecided(RS, "anchor:"+n, "-", "method not found")
				continue
			}
			var w []mutation
			if ss := o.sums[fn]; ss != nil {
				for _, m := range ss.muts {
					if m.param == 0 {
						w = append(w, m)
					}
				}
			}
			if len(w) > 0 {
				c.bad(RS, n, c.P.Pos(w[0].pos), describeMuts(c, n, "receiver", w))
			} else {
				c.ok(RS, n, c.P.Pos(fn.Pos()), "the receiver is only read")
			}
		}
	}
	// "… produces an error return and never … a panic": the guard analysis over the storage code —
	// the document and options handed to Store may be absent, the bytes read back may be empty
	const RG = "absent-part-guard"
	c.rule(RG, guardRuleText)
	saved := untrustedStructPkgs
	untrustedStructPkgs = protobomMessagePkgs
	e := newNilEngine(c)
	e.errLinked = true
	for _, n := range []string{storeFn, retrieveFn} {
		e.entry[n] = true
	}
	e.trusted[storeFn+"#fs"] = true
	e.trusted[retrieveFn+"#fs"] = true
	for _, d := range c.reachDecls(RG, storeFn, retrieveFn) {
		if strings.HasPrefix(d.name, "storage.") {
			e.analyse(d)
		}
	}
	e.emit(RG)
	untrustedStructPkgs = saved
}

// storeGuards: C19-D4.
func storeGuards(c *Ctx) {
	const R = "store-guarded"
	c.rule(R, "the call that makes the entry visible under its final name is preceded by exits for a missing document identifier, by the no-clobber test, and by the nil-options normalisation")
	d := c.decl(R, storeFn)
	if d == nil {
		return
	}
	defs := singleDefs(d.pkg, d.fd.Body)
	theProgram = c.P
	_, pcall, publishAt := protocolSite(c, d, func(pd *declInfo, cs callSite) bool {
		switch cs.callee.FullName() {
		case "os.WriteFile", "os.Rename", "os.Create", "os.OpenFile":
			pdefs := singleDefs(pd.pkg, pd.fd.Body)
			for _, a := range cs.call.Args {
				if classifyPath(pd, a, pdefs, 0).kind == "final" {
					return true
				}
			}
		}
		return false
	})
	var publish *ast.CallExpr
	if pcall != nil {
		publish, _ = publishAt.(*ast.CallExpr)
	}
	if publish == nil {
		c.undecided(R, storeFn+"#publish", c.P.Pos(d.fd.Pos()), "the call that creates the final entry was not found in Store or a helper it calls")
		return
	}
	conds := earlyExits(d, publish)
	hasID, hasClobber := false, false
	for _, cond := range conds {
		ast.Inspect(cond, func(n ast.Node) bool {
			switch x := n.(type) {
			case *ast.BinaryExpr:
				// `x.Id == ""`, `"" == x.GetId()`, `len(x.Id) == 0`: any spelling of "the identifier is empty"
				if subj, empty, ok := emptinessTest(c, x); ok && empty {
					if strings.HasSuffix(subj, ".Id") || subj == "Id" {
						hasID = true
					}
					// the identifier bound to a local first: id := doc.GetMetadata().GetId(); if id == ""
					for _, side := range []ast.Expr{x.X, x.Y} {
						if ce, isCall := side.(*ast.CallExpr); isCall && len(ce.Args) == 1 {
							side = ce.Args[0] // len(id)
						}
						if lid, isId := side.(*ast.Ident); isId {
							if def, has := defs[objOf(d.pkg, lid)]; has && strings.HasSuffix(normText(types.ExprString(def)), ".Id") {
								hasID = true
							}
						}
					}
				}
			case *ast.SelectorExpr:
				if x.Sel.Name == "NoClobber" {
					// must be conjoined with an existence test of the final path
					for _, cs := range callsIn(d.pkg, cond) {
						if strings.HasSuffix(cs.callee.FullName(), ".Exists") {
							if len(cs.call.Args) > 0 && classifyPath(d, cs.call.Args[0], defs, 0).kind == "final" {
								// positive polarity: NoClobber and Exists(final) are conjuncts, neither negated
								pol := true
								for _, y := range enclosing(cond, cs.call) {
									if u, ok := y.(*ast.UnaryExpr); ok && u.Op == token.NOT {
										pol = !pol
									}
									if b, ok := y.(*ast.BinaryExpr); ok && b.Op == token.LOR {
										pol = false
									}
								}
								for _, y := range enclosing(cond, x) {
									if u, ok := y.(*ast.UnaryExpr); ok && u.Op == token.NOT {
										pol = false
									}
								}
								if pol {
									hasClobber = true
								}
							}
						}
					}
				}
			}
			return true
		})
	}
	pos := c.P.Pos(publish.Pos())
	c.check(hasID, R, storeFn+"#identifier", pos, "a missing identifier exits before the entry is created", "the entry is created without a preceding exit for a document that has no identifier")
	c.check(hasClobber, R, storeFn+"#no-clobber", pos, "NoClobber && exists(final) exits before the entry is created", "no `NoClobber && exists(final entry)` exit precedes the creation of the entry: an existing entry is replaced although NoClobber is set")
	// nil options normalised before first use of opts.X
	_, opts := recvAndParam(d)
	var optsObj types.Object
	for _, f := range d.fd.Type.Params.List {
		for _, n := range f.Names {
			optsObj = d.pkg.TypesInfo.Defs[n]
		}
	}
	_ = opts
	okNil := false
	ast.Inspect(d.fd.Body, func(n ast.Node) bool {
		ifs, ok := n.(*ast.IfStmt)
		if !ok {
			return true
		}
		if be, ok := ifs.Cond.(*ast.BinaryExpr); ok && be.Op == token.EQL && objOf(d.pkg, be.X) == optsObj && isNilIdent(d.pkg, be.Y) && ifs.Pos() < publish.Pos() {
			okNil = true
		}
		return true
	})
	c.check(okNil, R, storeFn+"#nil-options", pos, "nil options are normalised first", "nil options are not normalised before use")
}

// retrieveValidates: C19-D5.
func retrieveValidates(c *Ctx) {
	const R = "retrieve-validates"
	c.rule(R, "every return of a non-nil document from Retrieve is preceded by exits on the read error, on the decode error and on a mismatch between the decoded document's identifier and the requested one; every other return is (nil, non-nil error)")
	d := c.decl(R, retrieveFn)
	if d == nil {
		return
	}
	var idParam types.Object
	if len(d.fd.Type.Params.List) > 0 && len(d.fd.Type.Params.List[0].Names) > 0 {
		idParam = d.pkg.TypesInfo.Defs[d.fd.Type.Params.List[0].Names[0]]
	}
	n := 0
	ast.Inspect(d.fd.Body, func(node ast.Node) bool {
		rs, ok := node.(*ast.ReturnStmt)
		if !ok || len(rs.Results) != 2 {
			return true
		}
		n++
		construct := fmt.Sprintf("%s#return@%d", retrieveFn, n)
		if isNilIdent(d.pkg, rs.Results[0]) {
			_, isCall := rs.Results[1].(*ast.CallExpr)
			isErrVar := false
			if id, ok := rs.Results[1].(*ast.Ident); ok && id.Name != "nil" {
				// `return nil, err` inside `if err != nil`
				for _, fa := range pathFactsGeneric(d, rs, id) {
					isErrVar = isErrVar || fa
				}
			}
			c.check(isCall || isErrVar, R, construct, c.P.Pos(rs.Pos()), "failure returns (nil, non-nil error)", "a nil document is returned together with an error that is not known to be non-nil")
			return true
		}
		conds := earlyExits(d, rs)
		readErr, decodeErr, identity := false, false, false
		for _, cond := range conds {
			ast.Inspect(cond, func(m ast.Node) bool {
				be, ok := m.(*ast.BinaryExpr)
				if !ok {
					return true
				}
				if be.Op == token.NEQ && isNilIdent(d.pkg, be.Y) {
					if t := d.pkg.TypesInfo.TypeOf(be.X); t != nil && t.String() == "error" {
						if !readErr {
							readErr = true
						} else {
							decodeErr = true
						}
					}
				}
				if be.Op == token.NEQ || be.Op == token.EQL {
					mentionsID := func(e ast.Expr) bool { return objOf(d.pkg, e) == idParam && idParam != nil }
					mentionsDocID := func(e ast.Expr) bool {
						s := types.ExprString(e)
						return strings.Contains(s, "GetId()") || strings.HasSuffix(s, ".Id")
					}
					if be.Op == token.NEQ && ((mentionsID(be.X) && mentionsDocID(be.Y)) || (mentionsID(be.Y) && mentionsDocID(be.X))) {
						// the comparison must decide the exit by itself: a top-level disjunct, never
						// weakened by a conjunct (`md != nil && md.Id != id` lets an entry without
						// metadata through)
						if topLevelDisjunct(cond, be) {
							identity = true
						}
					}
				}
				return true
			})
		}
		// `if err := proto.Unmarshal(...); err != nil` counts as the decode exit
		for _, cond := range conds {
			_ = cond
		}
		ast.Inspect(d.fd.Body, func(m ast.Node) bool {
			ifs, ok := m.(*ast.IfStmt)
			if !ok || ifs.Init == nil || ifs.Pos() > rs.Pos() {
				return true
			}
			if as, ok := ifs.Init.(*ast.AssignStmt); ok && len(as.Rhs) == 1 {
				if ce, ok := as.Rhs[0].(*ast.CallExpr); ok {
					if f, _ := typeutil.Callee(d.pkg.TypesInfo, ce).(*types.Func); f != nil && strings.Contains(f.FullName(), "Unmarshal") {
						if len(ifs.Body.List) > 0 {
							if _, isRet := ifs.Body.List[len(ifs.Body.List)-1].(*ast.ReturnStmt); isRet {
								decodeErr = true
							}
						}
					}
				}
			}
			return true
		})
		pos := c.P.Pos(rs.Pos())
		// the two error exits are decided on SSA, where a shadowed or overwritten error variable is
		// a different value: the error of every reading call and of every decoding call reached from
		// Retrieve is compared with nil and its failure branch ends in a non-nil error
		rOK, dOK, why := retrieveErrorExits(c, R)
		readErr, decodeErr = readErr && rOK, decodeErr && dOK
		if why != "" {
			why = " (" + why + ")"
		}
		c.check(readErr, R, construct+"#read-error", pos, "read error exits first", "a document is returned without a preceding exit on the read error"+why)
		c.check(decodeErr, R, construct+"#decode-error", pos, "decode error exits first", "a document is returned without a preceding exit on the decode error"+why)
		c.check(identity, R, construct+"#identity", pos, "identifier mismatch exits first", "a document is returned without comparing its identifier with the requested one: an empty or foreign entry (proto.Unmarshal accepts zero bytes) comes back as a valid-looking document")
		return true
	})
	c.floor(R, 4, "three failure returns and one success return")
}

// retrieveErrorExits: over Retrieve and the storage-package functions it reaches, the error of
// each file-reading call and of each Unmarshal call propagates, and so does the error result of
// each storage-package helper called on the way.
func retrieveErrorExits(c *Ctx, R string) (readOK, decodeOK bool, why string) {
	root := c.P.Func(retrieveFn)
	if root == nil {
		return false, false, "Retrieve has no SSA body"
	}
	seen := map[*ssa.Function]bool{}
	var fns []*ssa.Function
	var visit func(f *ssa.Function)
	visit = func(f *ssa.Function) {
		if f == nil || seen[f] || f.Blocks == nil {
			return
		}
		seen[f] = true
		fns = append(fns, f)
		for _, b := range f.Blocks {
			for _, ins := range b.Instrs {
				if call, ok := ins.(ssa.CallInstruction); ok {
					if sc := call.Common().StaticCallee(); sc != nil && sc.Pkg != nil && sc.Pkg == root.Pkg {
						visit(sc)
					}
				}
			}
		}
	}
	visit(root)
	nRead, nDecode := 0, 0
	readOK, decodeOK = true, true
	for _, f := range fns {
		for _, b := range f.Blocks {
			for _, ins := range b.Instrs {
				call, ok := ins.(*ssa.Call)
				if !ok {
					continue
				}
				sc := call.Common().StaticCallee()
				if sc == nil {
					continue
				}
				kind := ""
				switch full := sc.String(); {
				case full == "os.ReadFile" || full == "io.ReadAll" || full == "os.Open" || full == "os.OpenFile" || full == "io.ReadFull":
					kind = "read"
				case strings.Contains(sc.Name(), "Unmarshal"):
					kind = "decode"
				case sc.Pkg != nil && sc.Pkg == root.Pkg:
					kind = "helper"
				}
				if kind == "" {
					continue
				}
				ev := errResultOf(call)
				if ev == nil {
					if res := call.Common().Signature().Results(); res.Len() > 0 && res.At(res.Len()-1).Type().String() == "error" {
						// the error result is dropped
						switch kind {
						case "read", "helper":
							readOK = false
						case "decode":
							decodeOK = false
						}
						why = fmt.Sprintf("%s: the error of %s is dropped", fnName(f), sc.Name())
					}
					continue
				}
				okp, w := errValPropagates(f, ev)
				switch kind {
				case "read":
					nRead++
					readOK = readOK && okp
				case "decode":
					nDecode++
					decodeOK = decodeOK && okp
				case "helper":
					// a helper's error stands for whichever exit it contains
					readOK = readOK && okp
					decodeOK = decodeOK && okp
				}
				if !okp {
					why = fmt.Sprintf("%s: error of %s: %s", fnName(f), sc.Name(), w)
				}
				c.CallSites++
			}
		}
	}
	if nRead == 0 {
		readOK, why = false, "no file-reading call reached from Retrieve"
	}
	if nDecode == 0 {
		decodeOK, why = false, "no Unmarshal call reached from Retrieve"
	}
	return readOK, decodeOK, why
}

// topLevelDisjunct: atom is cond itself or reachable from cond through || (and parentheses) only.
func topLevelDisjunct(cond ast.Expr, atom ast.Expr) bool {
	switch x := cond.(type) {
	case *ast.ParenExpr:
		return topLevelDisjunct(x.X, atom)
	case *ast.BinaryExpr:
		if ast.Expr(x) == atom {
			return true
		}
		if x.Op == token.LOR {
			return topLevelDisjunct(x.X, atom) || topLevelDisjunct(x.Y, atom)
		}
	}
	return cond == atom
}

// pathFactsGeneric: is `id != nil` established on the path to stmt (enclosing ifs, positive)?
func pathFactsGeneric(d *declInfo, stmt ast.Node, id *ast.Ident) []bool {
	var out []bool
	chain := enclosing(d.fd.Body, stmt)
	for i, n := range chain {
		ifs, ok := n.(*ast.IfStmt)
		if !ok || i+1 >= len(chain) || chain[i+1] != ast.Node(ifs.Body) {
			continue
		}
		if be, ok := ifs.Cond.(*ast.BinaryExpr); ok && be.Op == token.NEQ && isNilIdent(d.pkg, be.Y) {
			if x, ok := be.X.(*ast.Ident); ok && objOf(d.pkg, x) == objOf(d.pkg, id) {
				out = append(out, true)
			}
		}
	}
	return out
}

// wrappersPropagate: C19-D6 — decided on SSA so that early-return and single-exit styles are the
// same program: on every path that leaves the true branch of `backendErr != nil`, the wrapper's
// returned error is a freshly constructed error or the backend's error itself.
func wrappersPropagate(c *Ctx) {
	const R = "wrapper-propagates-error"
	c.rule(R, "in Writer.StoreWithOptions / Reader.RetrieveWithOptions the error result of the backend call is compared with nil, and every return reached from the non-nil branch returns a non-nil error (fmt.Errorf / errors.New / the backend error), whatever the exit style")
	for _, w := range [][2]string{{"writer.(*Writer).StoreWithOptions", "Store"}, {"reader.(*Reader).RetrieveWithOptions", "Retrieve"}} {
		fn := c.P.Func(w[0])
		if fn == nil {
			c.undecided(R, "anchor:"+w[0], "-", "wrapper not found")
			continue
		}
		c.sawFunc(w[0])
		ok, why := errorPropagates(fn, w[1])
		c.check(ok, R, w[0], c.P.Pos(fn.Pos()), "backend error is checked and returned", "the backend's error is not checked-and-returned ("+why+"): a failing store/retrieve is reported as success")
	}
}

// errorPropagates finds the call of method/function `name` in fn whose last result is an error and
// checks the rule above.
func errorPropagates(fn *ssa.Function, name string) (bool, string) {
	errT := types.Universe.Lookup("error").Type()
	var errVal ssa.Value
	for _, b := range fn.Blocks {
		for _, ins := range b.Instrs {
			call, ok := ins.(*ssa.Call)
			if !ok {
				continue
			}
			cc := call.Common()
			cname := ""
			if cc.IsInvoke() {
				cname = cc.Method.Name()
			} else if sc := cc.StaticCallee(); sc != nil {
				cname = sc.Name()
			}
			if cname != name {
				continue
			}
			res := cc.Signature().Results()
			if res.Len() == 0 || !types.Identical(res.At(res.Len()-1).Type(), errT) {
				continue
			}
			if res.Len() == 1 {
				errVal = call
			} else {
				for _, ref := range *call.Referrers() {
					if ex, ok := ref.(*ssa.Extract); ok && ex.Index == res.Len()-1 {
						errVal = ex
					}
				}
			}
		}
	}
	if errVal == nil {
		return false, "the backend call or its error result was not found"
	}
	return errValPropagates(fn, errVal)
}

// errResultOf: the SSA value holding the error (last) result of a call, nil when it has none or
// the result is dropped.
func errResultOf(call *ssa.Call) ssa.Value {
	errT := types.Universe.Lookup("error").Type()
	res := call.Common().Signature().Results()
	if res.Len() == 0 || !types.Identical(res.At(res.Len()-1).Type(), errT) {
		return nil
	}
	if res.Len() == 1 {
		return call
	}
	for _, ref := range *call.Referrers() {
		if ex, ok := ref.(*ssa.Extract); ok && ex.Index == res.Len()-1 {
			return ex
		}
	}
	return nil
}

// errValPropagates: errVal is compared with nil and every return reached from the non-nil branch
// returns a non-nil error; an error handed straight to the caller (return f(...)) also propagates.
func errValPropagates(fn *ssa.Function, errVal ssa.Value) (bool, string) {
	// the branch on errVal != nil
	var region *ssa.BasicBlock
	for _, ref := range *errVal.Referrers() {
		bo, ok := ref.(*ssa.BinOp)
		if !ok || (bo.Op != token.NEQ && bo.Op != token.EQL) {
			continue
		}
		other := bo.Y
		if other == errVal {
			other = bo.X
		}
		if k, isC := other.(*ssa.Const); !isC || !k.IsNil() {
			continue
		}
		for _, r2 := range *bo.Referrers() {
			iff, ok := r2.(*ssa.If)
			if !ok {
				continue
			}
			t := iff.Block().Succs[0]
			if bo.Op == token.EQL {
				t = iff.Block().Succs[1]
			}
			region = t
		}
	}
	if region == nil {
		direct := false
		for _, ref := range *errVal.Referrers() {
			if r, ok := ref.(*ssa.Return); ok && len(r.Results) > 0 && r.Results[len(r.Results)-1] == errVal {
				direct = true
			}
		}
		if direct {
			return true, ""
		}
		return false, "the error is never compared with nil"
	}
	nonNil := func(v ssa.Value) bool {
		for {
			switch x := v.(type) {
			case *ssa.ChangeInterface:
				v = x.X
				continue
			case *ssa.MakeInterface:
				return true
			case *ssa.Call:
				if sc := x.Common().StaticCallee(); sc != nil {
					switch sc.String() {
					case "fmt.Errorf", "errors.New", "errors.Join":
						return true
					}
				}
				return false
			}
			return v == errVal
		}
	}
	// walk from the region entry; phis are resolved by the edge taken
	type state struct {
		b, pred *ssa.BasicBlock
	}
	seen := map[state]bool{}
	bad := ""
	var walk func(b, pred *ssa.BasicBlock, subst map[*ssa.Phi]ssa.Value, depth int)
	walk = func(b, pred *ssa.BasicBlock, subst map[*ssa.Phi]ssa.Value, depth int) {
		if depth > 40 || seen[state{b, pred}] || bad != "" {
			return
		}
		seen[state{b, pred}] = true
		sub := map[*ssa.Phi]ssa.Value{}
		for k, v := range subst {
			sub[k] = v
		}
		for _, ins := range b.Instrs {
			phi, ok := ins.(*ssa.Phi)
			if !ok {
				break
			}
			for i, p := range b.Preds {
				if p == pred {
					v := phi.Edges[i]
					if pv, isPhi := v.(*ssa.Phi); isPhi {
						if r, has := sub[pv]; has {
							v = r
						}
					}
					sub[phi] = v
				}
			}
		}
		switch last := b.Instrs[len(b.Instrs)-1].(type) {
		case *ssa.Return:
			if len(last.Results) == 0 {
				bad = "a return without results"
				return
			}
			v := last.Results[len(last.Results)-1]
			if pv, isPhi := v.(*ssa.Phi); isPhi {
				if r, has := sub[pv]; has {
					v = r
				}
			}
			if !nonNil(v) {
				bad = fmt.Sprintf("a return reached from the failure branch returns %s", v.Name())
			}
		case *ssa.Panic:
		default:
			for _, s := range b.Succs {
				walk(s, b, sub, depth+1)
			}
		}
	}
	var entryPred *ssa.BasicBlock
	if len(region.Preds) > 0 {
		entryPred = region.Preds[0]
	}
	walk(region, entryPred, nil, 0)
	if bad != "" {
		return false, bad
	}
	return true, ""
}

func runC20(c *Ctx) {
	c.assume("rename(2) within one directory is atomic with respect to process death, and a killed process does not tear an already renamed file")
	c.notDecided("kernel and file-system behaviour; durability across power loss (fsync) is not part of the statement")
	oneEntryPerDocument(c)
	const R1 = "no-inplace-write"
	c.rule(R1, "no call that opens a file for writing (os.WriteFile, os.Create, os.OpenFile, os.Truncate) in pkg/storage receives the final entry path")
	calls := storageFsCalls(c, R1)
	n := 0
	for _, fc := range calls {
		if !opensForWriting[fc.name] {
			continue
		}
		n++
		for _, pc := range fc.paths {
			c.check(pc.kind != "final" && pc.kind != "other", R1, fc.d.name+"#"+shortCallee(fc.name), c.P.Pos(fc.call.Pos()), "not the final entry",
				fmt.Sprintf("%s opens %s for writing in place: a process that dies between the truncation and the end of the write leaves an empty or partial entry under the document's name (and has destroyed the previous version)", fc.name, pc.desc))
		}
	}
	if n == 0 {
		c.ok(R1, storeFn, "-", "pkg/storage opens no file for writing by path; entries are created through os.CreateTemp")
	}

	const R3 = "reads-final-entry-only"
	c.rule(R3, "every file-reading call in pkg/storage reads the final entry path (never a temporary or a name found by listing the directory)")
	nr := 0
	for _, fc := range calls {
		if fc.name != "os.ReadFile" && fc.name != "os.Open" {
			continue
		}
		nr++
		for _, pc := range fc.paths {
			c.check(pc.kind == "final", R3, fc.d.name+"#"+shortCallee(fc.name), c.P.Pos(fc.call.Pos()), "reads the final entry",
				fmt.Sprintf("%s reads %s: only the renamed final entry is guaranteed complete; temporaries of an interrupted store can hold a decodable prefix", fc.name, pc.desc))
		}
	}
	for _, pkf := range c.P.pkg("pkg/storage").Syntax {
		for _, cs := range callsIn(c.P.pkg("pkg/storage"), pkf) {
			switch cs.callee.FullName() {
			case "os.ReadDir", "path/filepath.Glob", "path/filepath.Walk", "path/filepath.WalkDir", "io/ioutil.ReadDir":
				c.bad(R3, "storage#"+shortCallee(cs.callee.FullName()), c.P.Pos(cs.call.Pos()), "pkg/storage enumerates the directory: entries must be addressed by their digest name only")
			}
		}
	}
	if nr == 0 {
		c.undecided(R3, retrieveFn, "-", "no file-reading call found in pkg/storage")
	}

	const R2 = "replace-protocol"
	c.rule(R2, "in Store: os.CreateTemp(directory, separator-free pattern) → Write on that file with its error checked → Close with its error checked → os.Rename(temp, final), in this order on the success path; nothing else touches the final path except existence tests")
	entryNeverRemoved(c, calls)
	// "nothing else touches the final path": the final name is the new name of the rename, the
	// subject of existence tests, and what Retrieve reads — a hard link or symlink onto it makes the
	// temporary's half-written inode visible under the entry's name
	for i, fc := range calls {
		for j, pc := range fc.paths {
			if pc.kind != "final" {
				continue
			}
			okUse := false
			switch fc.name {
			case "os.Rename":
				okUse = j == 1
			case "os.Stat", "os.Lstat", "os.ReadFile", "os.Open", "sigs.k8s.io/release-utils/util.Exists":
				okUse = true
			case "os.Remove", "os.RemoveAll", "os.Truncate", "os.WriteFile", "os.Create", "os.OpenFile":
				okUse = true // judged by entry-never-removed / no-inplace-write
			}
			c.check(okUse, R2, fmt.Sprintf("%s#final-path→%s@%d", fc.d.name, shortCallee(fc.name), i), c.P.Pos(fc.call.Pos()), "the final path is only renamed onto, tested and read",
				fmt.Sprintf("%s is applied to the final entry path (argument %d): the entry's name is bound to a file by something other than the closing rename, so a crash can expose an incomplete file under it", fc.name, j))
		}
	}
	sd := c.decl(R2, storeFn)
	if sd == nil {
		return
	}
	theProgram = c.P
	d, _, _ := protocolSite(c, sd, func(pd *declInfo, cs callSite) bool { return cs.callee.FullName() == "os.CreateTemp" })
	if d == nil {
		d = sd
	}
	// the steps after the creation may live in a helper that is handed the open temporary: the
	// protocol is then judged in the function that renames, with the creation vouched for by the
	// provenance of the file it is given (classifyPath follows the parameter to CreateTemp)
	helperForm := false
	if rd, _, _ := protocolSite(c, sd, func(pd *declInfo, cs callSite) bool {
		if cs.callee.FullName() != "os.Rename" || len(cs.call.Args) != 2 {
			return false
		}
		pdefs := singleDefs(pd.pkg, pd.fd.Body)
		return classifyPath(pd, cs.call.Args[0], pdefs, 0).kind == "temp" && classifyPath(pd, cs.call.Args[1], pdefs, 0).kind == "final"
	}); rd != nil && rd.obj != d.obj {
		d = rd
		helperForm = true
	}
	defs := singleDefs(d.pkg, d.fd.Body)
	var create, write, closeC, rename *ast.CallExpr
	var tmpObj types.Object
	for _, cs := range callsIn(d.pkg, d.fd.Body) {
		switch cs.callee.FullName() {
		case "os.CreateTemp":
			if len(cs.call.Args) == 2 && classifyPath(d, cs.call.Args[0], defs, 0).kind == "dir" {
				create = cs.call
			}
		case "(*os.File).Write", "(*os.File).WriteString":
			write = cs.call
		case "(*os.File).Close":
			// the checked Close: inside an if-init or assigned
			chain := enclosing(d.fd.Body, cs.call)
			for _, n := range chain {
				if as, ok := n.(*ast.AssignStmt); ok && len(as.Rhs) == 1 && as.Rhs[0] == ast.Expr(cs.call) {
					closeC = cs.call
				}
			}
		case "os.Rename":
			if len(cs.call.Args) == 2 && classifyPath(d, cs.call.Args[0], defs, 0).kind == "temp" && classifyPath(d, cs.call.Args[1], defs, 0).kind == "final" {
				rename = cs.call
			}
		}
	}
	pos := c.P.Pos(d.fd.Pos())
	doneBasic := false
	if helperForm && create == nil && write != nil && rename != nil {
		// the file the helper writes and renames is its *os.File parameter, created by the caller
		if sel, ok := write.Fun.(*ast.SelectorExpr); ok {
			tmpObj = objOf(d.pkg, sel.X)
		}
		if tmpObj != nil && closeC != nil {
			onTmp := func(ce *ast.CallExpr) bool {
				sel, ok := ce.Fun.(*ast.SelectorExpr)
				return ok && objOf(d.pkg, sel.X) == tmpObj
			}
			// Rename's source is tmp.Name() of that same parameter (classified "temp" above)
			srcOK := false
			if nc, ok := chase(d.pkg, defs, rename.Args[0]).(*ast.CallExpr); ok {
				if sel, ok := nc.Fun.(*ast.SelectorExpr); ok && objOf(d.pkg, sel.X) == tmpObj {
					srcOK = true
				}
			}
			c.check(onTmp(write) && onTmp(closeC) && srcOK, R2, storeFn+"#same-file", c.P.Pos(write.Pos()), "Write, Close and Rename act on the temporary file handed in", "Write/Close/Rename do not act on one and the same temporary file")
			c.check(write.Pos() < closeC.Pos() && closeC.Pos() < rename.Pos(), R2, storeFn+"#order", c.P.Pos(rename.Pos()),
				"CreateTemp (caller) → Write → Close → Rename", "the steps are not in the order Write → Close → Rename: the entry can become visible before its contents are complete")
			create = rename // the creation is vouched for by the provenance of the parameter
			doneBasic = true
		}
	}
	if create == nil || write == nil || closeC == nil || rename == nil {
		c.bad(R2, storeFn+"#steps", pos, fmt.Sprintf("replace protocol incomplete: CreateTemp-in-directory=%v, Write=%v, checked Close=%v, Rename(temp→final)=%v", create != nil, write != nil, closeC != nil, rename != nil))
		return
	}
	if !doneBasic {
		// find the temp file variable
		ast.Inspect(d.fd.Body, func(n ast.Node) bool {
			if as, ok := n.(*ast.AssignStmt); ok && len(as.Rhs) == 1 && as.Rhs[0] == ast.Expr(create) && len(as.Lhs) >= 1 {
				tmpObj = objOf(d.pkg, as.Lhs[0])
			}
			return true
		})
		onTmp := func(ce *ast.CallExpr) bool {
			sel, ok := ce.Fun.(*ast.SelectorExpr)
			return ok && objOf(d.pkg, sel.X) == tmpObj && tmpObj != nil
		}
		c.check(onTmp(write) && onTmp(closeC), R2, storeFn+"#same-file", c.P.Pos(write.Pos()), "Write and Close act on the temporary file", "Write/Close do not act on the file returned by CreateTemp")
		c.check(create.Pos() < write.Pos() && write.Pos() < closeC.Pos() && closeC.Pos() < rename.Pos(), R2, storeFn+"#order", c.P.Pos(rename.Pos()),
			"CreateTemp → Write → Close → Rename", "the steps are not in the order CreateTemp → Write → Close → Rename: the entry can become visible before its contents are complete")
	}
	// the Write's error decides: a short or failed write must leave before the rename publishes it
	wChecked := false
	for _, n := range enclosing(d.fd.Body, write) {
		ifs, ok := n.(*ast.IfStmt)
		if !ok || ifs.Init == nil {
			continue
		}
		as, ok := ifs.Init.(*ast.AssignStmt)
		if !ok || len(as.Rhs) != 1 || as.Rhs[0] != ast.Expr(write) || len(as.Lhs) != 2 {
			continue
		}
		errObj := objOf(d.pkg, as.Lhs[1])
		if be, ok := ifs.Cond.(*ast.BinaryExpr); ok && be.Op == token.NEQ && objOf(d.pkg, be.X) == errObj && errObj != nil && isNilIdent(d.pkg, be.Y) && terminates(ifs.Body) {
			wChecked = true
		}
	}
	if !wChecked {
		// `n, err := tmp.Write(out)` followed by `if err != nil { return … }`
		ast.Inspect(d.fd.Body, func(n ast.Node) bool {
			as, ok := n.(*ast.AssignStmt)
			if !ok || len(as.Rhs) != 1 || as.Rhs[0] != ast.Expr(write) || len(as.Lhs) != 2 {
				return true
			}
			errObj := objOf(d.pkg, as.Lhs[1])
			if errObj == nil {
				return true
			}
			ast.Inspect(d.fd.Body, func(m ast.Node) bool {
				ifs, ok := m.(*ast.IfStmt)
				if !ok || ifs.Pos() < as.End() || ifs.Pos() > rename.Pos() {
					return true
				}
				if be, ok := ifs.Cond.(*ast.BinaryExpr); ok && be.Op == token.NEQ && objOf(d.pkg, be.X) == errObj && isNilIdent(d.pkg, be.Y) && terminates(ifs.Body) {
					wChecked = true
				}
				return true
			})
			return true
		})
	}
	c.check(wChecked, R2, storeFn+"#write-checked", c.P.Pos(write.Pos()), "a failed or short Write exits before the rename", "the error of the Write on the temporary file is not tested before the rename: a partially written temporary can be published as the entry")
	// (Removing the temporary on failure exits is housekeeping, not part of the crash-atomicity
	// statement: a left-over temporary is never read — see reads-final-entry-only — so no obligation
	// is attached to it.)
}

// storeSuccessPublishes: C19 round trip, necessary condition on Store — a nil error is only ever
// returned after the entry was made visible under its final name. A success return that does not
// pass through the publishing call (a "nothing changed" shortcut, a skipped write) acknowledges a
// store that did not happen.
func storeSuccessPublishes(c *Ctx) {
	const R = "store-success-publishes"
	c.rule(R, "every return of Store (and of the helper that publishes the entry) whose error may be nil is dominated by the call that renames/creates the final entry; returns before it carry an error constructed by fmt.Errorf/errors.New or an error variable inside its `!= nil` branch")
	d := c.decl(R, storeFn)
	if d == nil {
		return
	}
	theProgram = c.P
	pf, pcall, publishAt := protocolSite(c, d, func(pd *declInfo, cs callSite) bool {
		switch cs.callee.FullName() {
		case "os.WriteFile", "os.Rename", "os.Create", "os.OpenFile", "os.Link":
			pdefs := singleDefs(pd.pkg, pd.fd.Body)
			for _, a := range cs.call.Args {
				if classifyPath(pd, a, pdefs, 0).kind == "final" {
					return true
				}
			}
		}
		return false
	})
	if pcall == nil {
		c.undecided(R, storeFn+"#publish", c.P.Pos(d.fd.Pos()), "the call that creates the final entry was not found in Store or a helper it calls")
		return
	}
	check := func(fd *declInfo, publish ast.Node) {
		n := 0
		pchain := enclosing(fd.fd.Body, publish)
		// the innermost block that holds the publishing statement
		var pblock *ast.BlockStmt
		for _, y := range pchain {
			if b, ok := y.(*ast.BlockStmt); ok {
				pblock = b
			}
		}
		ast.Inspect(fd.fd.Body, func(node ast.Node) bool {
			if _, isLit := node.(*ast.FuncLit); isLit {
				return false
			}
			rs, ok := node.(*ast.ReturnStmt)
			if !ok || len(rs.Results) == 0 {
				return true
			}
			n++
			res := rs.Results[len(rs.Results)-1]
			construct := fmt.Sprintf("%s#return@%d", fd.name, n)
			pos := c.P.Pos(rs.Pos())
			// after the publishing call, in a block that contains it?
			after := false
			if rs.Pos() > publish.End() || (rs.Pos() > publish.Pos() && rs.End() <= enclosingStmtEnd(pchain)) {
				for _, y := range enclosing(fd.fd.Body, rs) {
					if y == ast.Node(pblock) {
						after = true
					}
				}
			}
			// the return *is* the delegation to the publishing helper
			if ce, isCall := res.(*ast.CallExpr); isCall && ast.Node(ce) == publish {
				c.ok(R, construct, pos, "returns the publishing helper's result")
				return true
			}
			if after {
				c.ok(R, construct, pos, "after the entry was published")
				return true
			}
			// before publication: the error must be known non-nil
			nonNil := false
			switch x := res.(type) {
			case *ast.CallExpr:
				if f, _ := typeutil.Callee(fd.pkg.TypesInfo, x).(*types.Func); f != nil {
					switch f.FullName() {
					case "fmt.Errorf", "errors.New", "errors.Join":
						nonNil = true
					}
				}
			case *ast.Ident:
				if x.Name != "nil" {
					for _, fa := range pathFactsGeneric(fd, rs, x) {
						nonNil = nonNil || fa
					}
				}
			}
			c.check(nonNil, R, construct, pos, "failure return (non-nil error) before publication",
				fmt.Sprintf("Store can return %s — possibly a nil error — on a path that never reaches the call publishing the entry (%s): a store is acknowledged although nothing was written under the final name", exprText(c.P.Fset, res), c.P.Pos(pcall.Pos())))
			return true
		})
	}
	check(d, publishAt)
	if pf != nil && pf.obj != d.obj {
		check(pf, pcall)
	}
	c.floor(R, 5, "failure returns and the final success return of Store")
}

func enclosingStmtEnd(chain []ast.Node) token.Pos {
	// end of the innermost statement containing the publishing call (e.g. the if whose init calls Rename)
	for i := len(chain) - 1; i >= 0; i-- {
		if s, ok := chain[i].(ast.Stmt); ok {
			if _, isExpr := s.(*ast.ExprStmt); isExpr {
				continue
			}
			if _, isBlock := s.(*ast.BlockStmt); isBlock {
				continue
			}
			return s.End()
		}
	}
	return token.NoPos
}

// retrieveReadsWholeEntry: the bytes handed to the decoder are the whole final entry.
func retrieveReadsWholeEntry(c *Ctx) {
	const R = "retrieve-reads-whole-entry"
	c.rule(R, "the byte slice Retrieve hands to proto.Unmarshal is the unmodified result of os.ReadFile(final entry) or io.ReadAll over the file opened at the final entry (optionally through bufio.NewReader): no size limit, partial read or re-slicing sits between the file and the decoder")
	d := c.decl(R, retrieveFn)
	if d == nil {
		return
	}
	defs := singleDefs(d.pkg, d.fd.Body)
	n := 0
	for _, cs := range callsIn(d.pkg, d.fd.Body) {
		full := cs.callee.FullName()
		if !strings.HasSuffix(full, "proto.Unmarshal") && !strings.HasSuffix(full, ".UnmarshalOptions).Unmarshal") {
			continue
		}
		if len(cs.call.Args) == 0 {
			continue
		}
		n++
		construct := fmt.Sprintf("%s#decoder-input@%d", retrieveFn, n)
		// … and decodes all of it: an UnmarshalOptions value that discards unknown fields (or merges
		// into a used message) returns less than what Store wrote
		if strings.HasSuffix(full, ".UnmarshalOptions).Unmarshal") {
			lossy := ""
			if sel, isSel := cs.call.Fun.(*ast.SelectorExpr); isSel {
				opt := chase(d.pkg, defs, ast.Unparen(sel.X))
				cl, isLit := ast.Unparen(opt).(*ast.CompositeLit)
				if !isLit {
					lossy = "the decoding options are not a literal at the call (" + types.ExprString(sel.X) + ")"
				} else {
					for _, el := range cl.Elts {
						kv, isKV := el.(*ast.KeyValueExpr)
						if !isKV {
							lossy = "positional options literal"
							continue
						}
						k, _ := kv.Key.(*ast.Ident)
						if k == nil {
							continue
						}
						switch k.Name {
						case "DiscardUnknown", "Merge":
							if v, isC := constOf(d.pkg, kv.Value); !isC || v.c.ExactString() != "false" {
								lossy = k.Name + " is set"
							}
						}
					}
				}
			}
			c.check(lossy == "", R, fmt.Sprintf("%s#decoder-options@%d", retrieveFn, n), c.P.Pos(cs.call.Pos()), "the decoder keeps every field of the entry",
				fmt.Sprintf("Retrieve decodes with options that drop part of the entry (%s): Store marshals unknown fields, Retrieve discards them, so the retrieved document is not equal to the stored one", lossy))
		}
		ok, why := wholeFile(d, defs, cs.call.Args[0], 0)
		pos := c.P.Pos(cs.call.Pos())
		switch ok {
		case 1:
			c.ok(R, construct, pos, why)
		case -1:
			c.bad(R, construct, pos, "the decoder does not see the whole entry: "+why+" — a document stored successfully cannot be retrieved (or comes back without its trailing fields)")
		default:
			c.undecided(R, construct, pos, "cannot tell whether the decoder input is the whole entry: "+why)
		}
	}
	if n == 0 {
		c.undecided(R, retrieveFn+"#decoder-input", c.P.Pos(d.fd.Pos()), "no proto.Unmarshal call found in Retrieve")
	}
}

// wholeFile: 1 = the expression is the complete content of a file, -1 = provably cut, 0 = unknown.
func wholeFile(d *declInfo, defs map[types.Object]ast.Expr, e ast.Expr, depth int) (int, string) {
	if depth > 6 {
		return 0, "derivation too deep"
	}
	e = chase(d.pkg, defs, e)
	switch x := e.(type) {
	case *ast.ParenExpr:
		return wholeFile(d, defs, x.X, depth+1)
	case *ast.SliceExpr:
		return -1, "the data is re-sliced (" + types.ExprString(x) + ")"
	case *ast.CallExpr:
		f, _ := typeutil.Callee(d.pkg.TypesInfo, x).(*types.Func)
		if f == nil {
			return 0, "dynamic call " + types.ExprString(x.Fun)
		}
		switch f.FullName() {
		case "os.ReadFile", "io/ioutil.ReadFile":
			return 1, "os.ReadFile reads the whole entry"
		case "io.ReadAll", "io/ioutil.ReadAll":
			if len(x.Args) == 1 {
				return wholeReader(d, defs, x.Args[0], depth+1)
			}
		case "(*bytes.Buffer).Bytes":
			return 0, "bytes.Buffer content (fill not followed)"
		}
		return 0, "result of " + f.FullName()
	}
	return 0, "expression " + types.ExprString(e)
}

func wholeReader(d *declInfo, defs map[types.Object]ast.Expr, e ast.Expr, depth int) (int, string) {
	if depth > 6 {
		return 0, "derivation too deep"
	}
	e = chase(d.pkg, defs, e)
	switch x := e.(type) {
	case *ast.ParenExpr:
		return wholeReader(d, defs, x.X, depth+1)
	case *ast.UnaryExpr:
		if cl, ok := x.X.(*ast.CompositeLit); ok {
			if t := d.pkg.TypesInfo.TypeOf(cl); t != nil && strings.HasSuffix(t.String(), "io.LimitedReader") {
				return -1, "the file is read through an io.LimitedReader"
			}
		}
	case *ast.CallExpr:
		f, _ := typeutil.Callee(d.pkg.TypesInfo, x).(*types.Func)
		if f == nil {
			return 0, "dynamic call"
		}
		switch f.FullName() {
		case "os.Open":
			return 1, "io.ReadAll over the opened entry"
		case "bufio.NewReader", "bufio.NewReaderSize":
			if len(x.Args) >= 1 {
				return wholeReader(d, defs, x.Args[0], depth+1)
			}
		case "io.LimitReader":
			return -1, "the file is read through io.LimitReader (" + types.ExprString(x) + ")"
		case "io.NewSectionReader":
			return -1, "the file is read through an io.SectionReader"
		}
		return 0, "reader produced by " + f.FullName()
	}
	return 0, "reader " + types.ExprString(e)
}

// entryNeverRemoved: "an existing entry is neither replaced nor damaged" (and C20's "the complete
// previously stored document"): the storage code deletes temporaries only. A final entry leaves
// the directory solely by being renamed over.
func entryNeverRemoved(c *Ctx, calls []fsCall) {
	const R = "entry-never-removed"
	c.rule(R, "every os.Remove / os.RemoveAll / os.Truncate in pkg/storage receives the name of a temporary created by the same function, never the final entry path or the directory")
	n := 0
	for _, fc := range calls {
		switch fc.name {
		case "os.Remove", "os.RemoveAll", "os.Truncate":
		default:
			continue
		}
		if len(fc.paths) == 0 {
			continue
		}
		n++
		construct := fmt.Sprintf("%s#%s@%d", fc.d.name, shortCallee(fc.name), n)
		c.check(fc.paths[0].kind == "temp", R, construct, c.P.Pos(fc.call.Pos()), "removes a temporary",
			fmt.Sprintf("%s is applied to %s: a stored entry (or the directory) is deleted by the storage code itself — a refused or failed store damages what was there", fc.name, fc.paths[0].desc))
	}
	if n == 0 {
		c.okTrivial(R, "none", "-", "the storage code removes nothing")
	}
}


// oneEntryPerDocument: the replace protocol makes one rename the moment a document changes. A
// document spread over several entries (Store calling Store for a part, Retrieve assembling the
// result from a second entry) changes in several moments: a crash between them leaves one part new
// and the other old, and Retrieve returns the mixture without an error.
func oneEntryPerDocument(c *Ctx) {
	const R = "one-entry-per-document"
	c.rule(R, "neither Store nor Retrieve of the filesystem backend reaches a call of Store or Retrieve (itself or the other) on the static call paths inside pkg/storage: a document is one entry, published by one rename and read from one file")
	for _, name := range []string{storeFn, retrieveFn} {
		d := c.decl(R, name)
		if d == nil {
			continue
		}
		bad := ""
		var pos token.Pos
		for _, dd := range pkgFilter(c.reachDecls(R, name), "storage.") {
			for _, cs := range callsIn(dd.pkg, dd.fd.Body) {
				cn := objName(cs.callee)
				if cn == storeFn || cn == retrieveFn {
					bad, pos = dd.name+" calls "+cn, cs.call.Pos()
				}
			}
		}
		c.check(bad == "", R, name, c.P.Pos(pos), "one entry, one rename, one read",
			fmt.Sprintf("%s: %s — the document is kept in more than one entry, each replaced on its own: a crash between the replacements leaves entries of different versions, and the retrieved document mixes them", name, bad))
	}
}
