package main

import (
	"fmt"
	"go/ast"
	"go/constant"
	"go/token"
	"go/types"
	"sort"
	"strings"

	"golang.org/x/tools/go/packages"
	"golang.org/x/tools/go/types/typeutil"
)

func init() {
	register("C06", "Format detection — structural conditions: (D1) SniffReader registers, before any other use of the stream, a deferred rewind Seek(0, start) on its parameter, so every exit rewinds; SniffFile delegates to it; (D2) the declaration is decoded by encoding/json into a struct and the JSON branch, folded over all combinations of declaration values, returns a format whose constant agrees with the declaration (family, encoding, version) or the empty format with an error; the Format accessors agree with the constants; (D3) for every format the writer registers and the reader can read, the sniffer maps the declaration that serializer writes to the registry key; (D4) no unguarded dereference in the sniffer; (D5) the detected format selects the parser through the single dispatch site. Does not decide the negative clause for the line-based fallback on arbitrary bytes.", runC06)
}

type registration struct {
	key   *types.Const
	ctor  string
	args  []value
	pos   token.Pos
	where string
}

// registrations extracts (format key, constructor, constant arguments) from the writer's and the
// reader's registries.
func registrations(c *Ctx, rule string) (wr, rd []registration) {
	// every store of a *constant* format key with a driver constructor into a package-level
	// container of the package (sync.Map.Store(K, V) or M[K] = V), wherever it is written: in an
	// init function, a once.Do closure, or a named function handed to once.Do
	extract := func(pkgRel string) []registration {
		pk := c.P.pkg(pkgRel)
		if pk == nil {
			c.undecided(rule, "anchor:"+pkgRel, "-", "package not loaded")
			return nil
		}
		isPkgVar := func(e ast.Expr) bool {
			id, ok := e.(*ast.Ident)
			if !ok {
				return false
			}
			pv, isVar := pk.TypesInfo.Uses[id].(*types.Var)
			return isVar && pv.Pkg() != nil && pv.Parent() == pv.Pkg().Scope()
		}
		var out []registration
		for _, f := range pk.Syntax {
			for _, dd := range f.Decls {
				fd, ok := dd.(*ast.FuncDecl)
				if !ok || fd.Body == nil {
					continue
				}
				obj, _ := pk.TypesInfo.Defs[fd.Name].(*types.Func)
				fname := objName(obj)
				ast.Inspect(fd.Body, func(n ast.Node) bool {
					var k, v ast.Expr
					switch x := n.(type) {
					case *ast.CallExpr:
						// a two-argument method of the package-level registry object: sync.Map.Store(K, V),
						// or the setter of a hand-written registry type (reg.set(K, V))
						if sel, ok := x.Fun.(*ast.SelectorExpr); ok && len(x.Args) == 2 && isPkgVar(sel.X) {
							if sel.Sel.Name == "Store" {
								k, v = x.Args[0], x.Args[1]
							} else if t := pk.TypesInfo.TypeOf(x.Args[0]); t != nil && strings.HasSuffix(t.String(), "formats.Format") {
								if _, isCall := x.Args[1].(*ast.CallExpr); isCall {
									k, v = x.Args[0], x.Args[1]
								}
							}
						}
					case *ast.AssignStmt:
						if len(x.Lhs) == 1 && len(x.Rhs) == 1 {
							if ix, ok := x.Lhs[0].(*ast.IndexExpr); ok && isPkgVar(ix.X) {
								k, v = ix.Index, x.Rhs[0]
							}
						}
					}
					if k == nil {
						return true
					}
					var kc *types.Const
					switch x := k.(type) {
					case *ast.SelectorExpr:
						kc, _ = pk.TypesInfo.Uses[x.Sel].(*types.Const)
					case *ast.Ident:
						kc, _ = pk.TypesInfo.Uses[x].(*types.Const)
					}
					ce, isCall := v.(*ast.CallExpr)
					// a registration inside `for _, k := range []Format{K1, K2, …}`: one row per element,
					// the constructor arguments folded with k bound to the element
					if kc == nil && isCall {
						// the key mentions the value variable of an enclosing range over a constant list
						// (a literal, or an init-only package-level table): k, or k.format
						var kbase ast.Expr = k
						if sel, isSel := k.(*ast.SelectorExpr); isSel {
							kbase = sel.X
						}
						if kid, isId := kbase.(*ast.Ident); isId {
							kobj := pk.TypesInfo.Uses[kid]
							for _, y := range enclosing(fd.Body, n) {
								rs, isRange := y.(*ast.RangeStmt)
								if !isRange || rs.Value == nil || kobj == nil || pk.TypesInfo.Defs[rs.Value.(*ast.Ident)] != kobj {
									continue
								}
								ev := &evaluator{p: c.P}
								list := ev.expr(&frame{pkg: pk, env: map[types.Object]value{}}, rs.X)
								if list.k != vList {
									continue
								}
								fn, _ := typeutil.Callee(pk.TypesInfo, ce).(*types.Func)
								for _, elv := range list.list {
									fr := &frame{pkg: pk, env: map[types.Object]value{kobj: elv}}
									kv := ev.expr(fr, k)
									if kv.k != vConst || !kv.isStr() {
										continue
									}
									ec := formatConstByValue(c, kv.str())
									if ec == nil {
										continue
									}
									r := registration{key: ec, pos: n.Pos(), where: fname}
									if fn != nil {
										r.ctor = fn.Name()
									}
									for _, a := range ce.Args {
										if av := ev.expr(fr, a); av.k == vConst {
											r.args = append(r.args, av)
										}
									}
									out = append(out, r)
								}
							}
						}
						return true
					}
					if kc == nil || !isCall || !strings.HasSuffix(kc.Type().String(), "formats.Format") {
						return true // dynamic registration (RegisterSerializer(format, s)): not a table row
					}
					fn, _ := typeutil.Callee(pk.TypesInfo, ce).(*types.Func)
					r := registration{key: kc, pos: n.Pos(), where: fname}
					if fn != nil {
						r.ctor = fn.Name()
					}
					for _, a := range ce.Args {
						if cv, ok := constOf(pk, a); ok {
							r.args = append(r.args, cv)
						}
					}
					out = append(out, r)
					return true
				})
			}
		}
		// the table written as one literal: map[formats.Format]Driver{K: NewX(…), …}, wherever it
		// sits (a package-level initialiser, an init function, a snapshot published atomically)
		for _, f := range pk.Syntax {
			for _, dd := range f.Decls {
				where := "package-level"
				if fd, isFn := dd.(*ast.FuncDecl); isFn {
					if obj, _ := pk.TypesInfo.Defs[fd.Name].(*types.Func); obj != nil {
						where = objName(obj)
					}
				}
				ast.Inspect(dd, func(n ast.Node) bool {
					cl, isLit := n.(*ast.CompositeLit)
					if !isLit {
						return true
					}
					t := pk.TypesInfo.TypeOf(cl)
					if t == nil {
						return true
					}
					m, isMap := t.Underlying().(*types.Map)
					if !isMap || !strings.HasSuffix(m.Key().String(), "formats.Format") {
						return true
					}
					for _, el := range cl.Elts {
						kv, isKV := el.(*ast.KeyValueExpr)
						if !isKV {
							continue
						}
						var kc *types.Const
						switch x := kv.Key.(type) {
						case *ast.SelectorExpr:
							kc, _ = pk.TypesInfo.Uses[x.Sel].(*types.Const)
						case *ast.Ident:
							kc, _ = pk.TypesInfo.Uses[x].(*types.Const)
						}
						ce, isCall := kv.Value.(*ast.CallExpr)
						if kc == nil || !isCall {
							continue
						}
						fn, _ := typeutil.Callee(pk.TypesInfo, ce).(*types.Func)
						r := registration{key: kc, pos: kv.Pos(), where: where}
						if fn != nil {
							r.ctor = fn.Name()
						}
						for _, a := range ce.Args {
							if cv, ok := constOf(pk, a); ok {
								r.args = append(r.args, cv)
							}
						}
						out = append(out, r)
					}
					return true
				})
			}
		}
		if len(out) == 0 {
			c.undecided(rule, pkgRel+"#registrations", "-", "no constant-key driver registration found in the package")
		}
		return out
	}
	return extract("pkg/writer"), extract("pkg/reader")
}

func registryAgreement(c *Ctx) (wr, rd []registration) {
	const R = "registry-agreement"
	c.rule(R, "for every registration K ↦ NewCDX(v, enc) the key constant contains the cyclonedx family token, `+enc` and ends in `;version=v`, and ParseVersion(v)/ParseEncoding(enc) succeed; K ↦ NewSPDX23() has the spdx token, `+json` and version 2.3; the reader and the writer register the same keys")
	wr, rd = registrations(c, R)
	parseV, pvPkg := c.P.FuncDecl("cyclonedx.ParseVersion")
	parseE, _ := c.P.FuncDecl("cyclonedx.ParseEncoding")
	check := func(r registration) {
		k := constVal(r.key).str()
		construct := r.where + "#" + r.key.Name()
		switch r.ctor {
		case "NewCDX":
			if len(r.args) != 2 || !r.args[0].isStr() || !r.args[1].isStr() {
				c.undecided(R, construct, c.P.Pos(r.pos), "NewCDX with non-constant arguments")
				return
			}
			v, enc := r.args[0].str(), r.args[1].str()
			ok := strings.Contains(k, "cyclonedx") && strings.Contains(k, "+"+enc) && strings.HasSuffix(k, ";version="+v)
			if parseV != nil && parseE != nil {
				ev := &evaluator{p: c.P}
				pv := ev.evalFunc(parseV, pvPkg, nil, []value{cstr(v)})
				pe := ev.evalFunc(parseE, pvPkg, nil, []value{cstr(enc)})
				if len(pv) == 2 && len(pe) == 2 {
					ok = ok && pv[1].k == vNil && pe[1].k == vNil
					// the library constant the version maps to is named after v
					if pv[0].k == vConst {
						if svT := c.P.namedType("github.com/"+cdxLib, "SpecVersion"); svT != nil {
							want := "SpecVersion" + strings.ReplaceAll(v, ".", "_")
							match := false
							for _, kc := range enumConsts(svT) {
								if kc.Name() == want && constant.Compare(kc.Val(), token.EQL, pv[0].c) {
									match = true
								}
							}
							ok = ok && match
						}
					}
				} else {
					c.undecided(R, construct, c.P.Pos(r.pos), "ParseVersion/ParseEncoding not foldable")
					return
				}
			}
			c.check(ok, R, construct, c.P.Pos(r.pos), fmt.Sprintf("%s ↦ NewCDX(%q, %q)", r.key.Name(), v, enc),
				fmt.Sprintf("format key %s = %q is registered with NewCDX(%q, %q): the driver does not speak the version/encoding the key announces (or ParseVersion/ParseEncoding reject it)", r.key.Name(), k, v, enc))
		case "NewSPDX23":
			ok := strings.Contains(k, "spdx") && strings.Contains(k, "+json") && strings.HasSuffix(k, ";version=2.3")
			c.check(ok, R, construct, c.P.Pos(r.pos), r.key.Name()+" ↦ NewSPDX23()", fmt.Sprintf("format key %s = %q is registered with the SPDX 2.3 JSON driver", r.key.Name(), k))
		default:
			c.undecided(R, construct, c.P.Pos(r.pos), "unknown driver constructor "+r.ctor)
		}
	}
	wk, rk := map[string]bool{}, map[string]bool{}
	for _, r := range wr {
		check(r)
		wk[r.key.Name()] = true
	}
	for _, r := range rd {
		check(r)
		rk[r.key.Name()] = true
	}
	var diff []string
	for k := range wk {
		if !rk[k] {
			diff = append(diff, k+" (writer only)")
		}
	}
	for k := range rk {
		if !wk[k] {
			diff = append(diff, k+" (reader only)")
		}
	}
	sort.Strings(diff)
	c.check(len(diff) == 0, R, "reader-writer-same-keys", "-", "reader and writer register the same formats", fmt.Sprintf("registries differ: %v", diff))
	c.floor(R, 14, "seven writer and seven reader registrations")
	return wr, rd
}

// sniffTable folds the JSON branch of SniffReader for one declaration.
type sniffer struct {
	p      *Program
	d      *declInfo
	recObj types.Object
	block  []ast.Stmt
	fields map[string]string // json tag -> Go field
}

func findSniffer(c *Ctx, rule string) *sniffer {
	d := c.decl(rule, "formats.(*Sniffer).SniffReader")
	if d == nil {
		return nil
	}
	s := &sniffer{p: c.P, d: d, fields: map[string]string{}}
	// the struct handed to (*json.Decoder).Decode / json.Unmarshal
	ast.Inspect(d.fd.Body, func(n ast.Node) bool {
		ce, ok := n.(*ast.CallExpr)
		if !ok {
			return true
		}
		f, _ := typeutil.Callee(d.pkg.TypesInfo, ce).(*types.Func)
		if f == nil {
			return true
		}
		var arg ast.Expr
		switch f.FullName() {
		case "(*encoding/json.Decoder).Decode":
			if len(ce.Args) == 1 {
				arg = ce.Args[0]
			}
		case "encoding/json.Unmarshal":
			if len(ce.Args) == 2 {
				arg = ce.Args[1]
			}
		}
		for {
			if pe, ok := arg.(*ast.ParenExpr); ok {
				arg = pe.X
				continue
			}
			break
		}
		if u, ok := arg.(*ast.UnaryExpr); ok && u.Op == token.AND {
			if o := objOf(d.pkg, u.X); o != nil {
				if st, ok := o.Type().Underlying().(*types.Struct); ok {
					s.recObj = o
					for i := 0; i < st.NumFields(); i++ {
						tag := st.Tag(i)
						if j := strings.Index(tag, `json:"`); j >= 0 {
							t := tag[j+6:]
							if k := strings.IndexAny(t, `",`); k >= 0 {
								s.fields[t[:k]] = st.Field(i).Name()
							}
						}
					}
				}
			}
		}
		return true
	})
	if s.recObj == nil {
		c.bad(rule, d.name+"#json-decoding", c.P.Pos(d.fd.Pos()), "the top-level declaration is not decoded with encoding/json into a struct (no Decode(&struct) / Unmarshal(…, &struct) call): detection then depends on member order, whitespace or escapes of the input")
		return nil
	}
	// no other assignment to the struct or its fields
	bad := false
	ast.Inspect(d.fd.Body, func(n ast.Node) bool {
		as, ok := n.(*ast.AssignStmt)
		if !ok {
			return true
		}
		for _, l := range as.Lhs {
			if baseObj(d, l) == s.recObj {
				bad = true
				c.bad(rule, d.name+"#json-decoding", c.P.Pos(as.Pos()), fmt.Sprintf("the declaration struct %s is also filled by hand (%s): the JSON branch no longer depends on encoding/json's layout-independent decoding only", s.recObj.Name(), types.ExprString(l)))
			}
		}
		return true
	})
	if !bad {
		c.ok(rule, d.name+"#json-decoding", c.P.Pos(d.fd.Pos()), "declaration decoded by encoding/json into "+s.recObj.Name()+" and not modified afterwards")
	}
	// the block: the top-level if whose body switches on the struct's fields
	for _, st := range d.fd.Body.List {
		ifs, ok := st.(*ast.IfStmt)
		if !ok {
			continue
		}
		uses := len(mentions(d.pkg, ifs.Body, s.recObj)) > 0
		if !uses {
			// the struct may only appear as the receiver/argument of a helper: spec.jsonFormat()
			ast.Inspect(ifs.Body, func(m ast.Node) bool {
				if id, ok := m.(*ast.Ident); ok && objOf(d.pkg, id) == s.recObj {
					uses = true
				}
				return !uses
			})
		}
		if uses {
			s.block = ifs.Body.List
		}
	}
	if s.block == nil {
		c.undecided(rule, d.name+"#json-branch", c.P.Pos(d.fd.Pos()), "JSON branch not found")
		return nil
	}
	return s
}

func (s *sniffer) eval(p *Program, decl map[string]string) []value {
	ev := &evaluator{p: p}
	fr := &frame{pkg: s.d.pkg, env: map[types.Object]value{}}
	m := map[string]value{}
	for tag, goName := range s.fields {
		m[goName] = cstr(decl[tag])
	}
	fr.env[s.recObj] = rec(m)
	fl, vals := ev.block(fr, s.block)
	if fl != flowReturn {
		why := "falls through"
		if len(vals) > 0 {
			why = vals[0].why
		}
		return []value{unknown("%s", why)}
	}
	return vals
}

func (s *sniffer) literals() (spec, spdx []string) {
	seen := map[string]bool{}
	// keys of package-level map tables indexed by a declaration field
	ev := &evaluator{p: theProgramFor(s)}
	for _, st := range s.block {
		ast.Inspect(st, func(n ast.Node) bool {
			ix, ok := n.(*ast.IndexExpr)
			if !ok {
				return true
			}
			f := selectorField(s.d.pkg, ix.Index)
			id, isID := ix.X.(*ast.Ident)
			if f == nil || !isID {
				return true
			}
			pv, isVar := s.d.pkg.TypesInfo.Uses[id].(*types.Var)
			if !isVar || pv.Pkg() == nil || pv.Parent() != pv.Pkg().Scope() {
				return true
			}
			tbl := ev.packageTable(pv)
			if tbl.k != vMap {
				return true
			}
			for _, k := range tbl.mkey {
				if !k.isStr() || seen[f.Name()+k.str()] {
					continue
				}
				seen[f.Name()+k.str()] = true
				if f.Name() == s.fields["specVersion"] {
					spec = append(spec, k.str())
				} else if f.Name() == s.fields["spdxVersion"] {
					spdx = append(spdx, k.str())
				}
			}
			return true
		})
	}
	// switches of helpers the block delegates to: the tag is a parameter bound to a declaration field
	for _, st := range s.block {
		for _, cs := range callsIn(s.d.pkg, st) {
			if cs.callee.Pkg() == nil || !strings.HasPrefix(cs.callee.Pkg().Path(), modPath+"/") {
				continue
			}
			fd, pk := ev.p.FuncDecl(objName(cs.callee))
			if fd == nil || fd.Body == nil {
				continue
			}
			bound := map[types.Object]*types.Var{}
			i := 0
			for _, fl := range fd.Type.Params.List {
				for _, nm := range fl.Names {
					if i < len(cs.call.Args) {
						if f := selectorField(s.d.pkg, cs.call.Args[i]); f != nil {
							bound[pk.TypesInfo.Defs[nm]] = f
						}
					}
					i++
				}
			}
			// a method on the declaration struct switches on its own fields
			var recvObj types.Object
			if fd.Recv != nil && len(fd.Recv.List) == 1 && len(fd.Recv.List[0].Names) == 1 {
				recvObj = pk.TypesInfo.Defs[fd.Recv.List[0].Names[0]]
			}
			for _, sw := range findSwitches(fd.Body) {
				if sw.Tag == nil {
					continue
				}
				var f *types.Var
				switch tg := sw.Tag.(type) {
				case *ast.Ident:
					f = bound[pk.TypesInfo.Uses[tg]]
				case *ast.SelectorExpr:
					if id, isID := tg.X.(*ast.Ident); isID && recvObj != nil && pk.TypesInfo.Uses[id] == recvObj {
						f = selectorField(pk, tg)
					}
				}
				if f == nil {
					continue
				}
				for _, cc := range sw.Body.List {
					for _, e := range cc.(*ast.CaseClause).List {
						if v, ok := constOf(pk, e); ok && v.isStr() && !seen[f.Name()+v.str()] {
							seen[f.Name()+v.str()] = true
							if f.Name() == s.fields["specVersion"] {
								spec = append(spec, v.str())
							} else if f.Name() == s.fields["spdxVersion"] {
								spdx = append(spdx, v.str())
							}
						}
					}
				}
			}
		}
	}
	for _, st := range s.block {
		for _, sw := range findSwitches(st) {
			if sw.Tag == nil {
				continue
			}
			f := selectorField(s.d.pkg, sw.Tag)
			if f == nil {
				continue
			}
			for _, cc := range sw.Body.List {
				for _, e := range cc.(*ast.CaseClause).List {
					if v, ok := constOf(s.d.pkg, e); ok && v.isStr() && !seen[f.Name()+v.str()] {
						seen[f.Name()+v.str()] = true
						if f.Name() == s.fields["specVersion"] {
							spec = append(spec, v.str())
						} else if f.Name() == s.fields["spdxVersion"] {
							spdx = append(spdx, v.str())
						}
					}
				}
			}
		}
	}
	return
}

func runC06(c *Ctx) {
	c.notDecided("the negative clause for the line-based fallback on non-JSON bytes; independence from indentation and re-encoding inside encoding/json")
	c.assume("encoding/json decodes the same JSON value to the same struct regardless of whitespace, member order and string escapes")
	c.assume("cyclonedx-go writes bomFormat \"CycloneDX\" and the specVersion string of the SpecVersion constant it is asked to encode; tools-golang writes the SPDXVersion field verbatim")
	deferredRewind(c)
	snifferStreamUses(c)
	snifferDecodesValues(c)
	searchOffsetBounded(c, "search-offset-bounded", "pkg/formats")

	const R = "declaration-agreement"
	c.rule(R, "for every combination of bomFormat / specVersion / spdxVersion values (case literals plus near misses) the JSON branch returns either the empty format with a non-nil error, or a format constant that contains the declaration's family token and `+json` and ends in `;version=<declared version>`, with a nil error")
	s := findSniffer(c, R)
	pk := c.P.pkg("pkg/formats")
	cdxTok, _ := pk.Types.Scope().Lookup("CDXFORMAT").(*types.Const)
	spdxTok, _ := pk.Types.Scope().Lookup("SPDXFORMAT").(*types.Const)
	if s != nil && cdxTok != nil && spdxTok != nil {
		specL, spdxL := s.literals()
		specs := append(append([]string{}, specL...), "", "9.9", "1.4 ")
		spdxs := append(append([]string{}, spdxL...), "", "SPDX-9.9", "2.3")
		n := 0
		for _, bf := range []string{"CycloneDX", "cyclonedx", "CYCLONEDX", "", "SPDX", "CycloneDX "} {
			for _, sv := range specs {
				for _, xv := range spdxs {
					decl := map[string]string{"bomFormat": bf, "specVersion": sv, "spdxVersion": xv}
					r := s.eval(c.P, decl)
					construct := fmt.Sprintf("sniff#bomFormat=%q,specVersion=%q,spdxVersion=%q", bf, sv, xv)
					if len(r) != 2 || r[0].k != vConst || (r[1].k != vNil && r[1].k != vErr) {
						c.undecided(R, construct, c.P.Pos(s.d.fd.Pos()), fmt.Sprintf("JSON branch not foldable: %v", r))
						continue
					}
					n++
					got := r[0].str()
					family, ver := constVal(spdxTok).str(), strings.TrimPrefix(xv, "SPDX-")
					declared := strings.HasPrefix(xv, "SPDX-")
					if strings.EqualFold(bf, constVal(cdxTok).str()) {
						family, ver, declared = constVal(cdxTok).str(), sv, sv != ""
					}
					switch {
					case got == "":
						c.check(r[1].k == vErr, R, construct, c.P.Pos(s.d.fd.Pos()), "no format, error", "the empty format is returned without an error")
					default:
						ok := r[1].k == vNil && declared && strings.Contains(got, family) && strings.Contains(got, "+json") && strings.HasSuffix(got, ";version="+ver)
						c.check(ok, R, construct, c.P.Pos(s.d.fd.Pos()), "→ "+got,
							fmt.Sprintf("a document declaring bomFormat=%q specVersion=%q spdxVersion=%q is reported as %q: the reported format does not say what the declaration says", bf, sv, xv, got))
					}
				}
			}
		}
		c.floor(R, 50, "six bomFormat values × declared versions and near misses")
		_ = n
	}

	detectionResult(c)
	sniffFileWholeStream(c)
	formatAccessors(c)
	wr, rd := registryAgreement(c)
	writerSnifferAgreement(c, s, wr, rd)
	renderEncodesRegisteredVersion(c)
	scratchStateByValue(c)

	// D4 no panic in the sniffer
	const RG = "absent-part-guard"
	c.rule(RG, guardRuleText)
	saved := untrustedStructPkgs
	untrustedStructPkgs = nil
	e := newNilEngine(c)
	for _, d := range c.reachDecls(RG, "formats.(*Sniffer).SniffReader", "formats.(*Sniffer).SniffFile") {
		e.analyse(d)
	}
	e.emit(RG)
	untrustedStructPkgs = saved
	noExitRule(c, []string{"formats.(*Sniffer).SniffReader", "formats.(*Sniffer).SniffFile"})
	nilMapWriteRule(c, []string{"formats.(*Sniffer).SniffReader", "formats.(*Sniffer).SniffFile"})
	// detection depends on the stream only: the sniffer keeps nothing on itself between calls
	{
		const RS = "detector-keeps-no-state"
		c.rule(RS, "SniffReader and SniffFile (and what they call) write no memory reachable from their receiver: what one stream left behind cannot influence the next detection")
		o2 := newOrigins(c.P)
		for _, n := range []string{"formats.(*Sniffer).SniffReader", "formats.(*Sniffer).SniffFile"} {
			fn := c.P.Func(n)
			if fn == nil {
				c.undecided(RS, "anchor:"+n, "-", "method not found")
				continue
			}
			var w []mutation
			if ss := o2.sums[fn]; ss != nil {
				for _, m := range ss.muts {
					if m.param == 0 {
						w = append(w, m)
					}
				}
			}
			if len(w) > 0 {
				c.bad(RS, n, c.P.Pos(w[0].pos), describeMuts(c, n, "receiver", w))
			} else {
				c.ok(RS, n, c.P.Pos(fn.Pos()), "the receiver is only read")
			}
		}
	}
	singleDispatch(c)
	o := newOrigins(c.P)
	infos := stateDiscipline(c, "package-state", []string{"pkg/formats"}, o)
	hiddenState(c, "no-hidden-state", []string{"formats.(*Sniffer).SniffReader"}, infos, o)
}

// deferredRewind: C06-D1.
func deferredRewind(c *Ctx) {
	const R = "deferred-rewind"
	c.rule(R, "SniffReader's first use of its stream parameter is a defer whose function calls Seek(0, io.SeekStart) on that parameter; SniffFile returns SniffReader's result")
	d := c.decl(R, "formats.(*Sniffer).SniffReader")
	if d == nil {
		return
	}
	var param types.Object
	if len(d.fd.Type.Params.List) == 1 && len(d.fd.Type.Params.List[0].Names) == 1 {
		param = d.pkg.TypesInfo.Defs[d.fd.Type.Params.List[0].Names[0]]
	}
	if param == nil {
		c.undecided(R, d.name+"#param", c.P.Pos(d.fd.Pos()), "stream parameter not found")
		return
	}
	var deferPos token.Pos
	okSeek := false
	for _, st := range d.fd.Body.List {
		ds, ok := st.(*ast.DeferStmt)
		if !ok {
			continue
		}
		for _, cs := range callsIn(d.pkg, ds) {
			if cs.callee.Name() != "Seek" || len(cs.call.Args) != 2 {
				continue
			}
			sel, ok := cs.call.Fun.(*ast.SelectorExpr)
			if !ok || objOf(d.pkg, sel.X) != param {
				continue
			}
			a0, ok0 := constOf(d.pkg, cs.call.Args[0])
			a1, ok1 := constOf(d.pkg, cs.call.Args[1])
			if ok0 && ok1 && a0.isInt() && a0.int() == 0 && a1.isInt() && a1.int() == 0 {
				okSeek = true
				deferPos = ds.Pos()
			}
		}
		// `defer rewind(f)`: a named function of the module handed the stream
		if !okSeek {
			if g, _ := typeutil.Callee(d.pkg.TypesInfo, ds.Call).(*types.Func); g != nil && g.Pkg() != nil && strings.HasPrefix(g.Pkg().Path(), modPath+"/") {
				if gfd, gpk := c.P.FuncDecl(objName(g)); gfd != nil && gfd.Body != nil {
					for ai, a := range ds.Call.Args {
						if objOf(d.pkg, a) != param {
							continue
						}
						var gp types.Object
						k := 0
						for _, fl := range gfd.Type.Params.List {
							for _, nm := range fl.Names {
								if k == ai {
									gp = gpk.TypesInfo.Defs[nm]
								}
								k++
							}
						}
						for _, cs := range callsIn(gpk, gfd.Body) {
							if cs.callee.Name() != "Seek" || len(cs.call.Args) != 2 {
								continue
							}
							sel, ok := cs.call.Fun.(*ast.SelectorExpr)
							if !ok || gp == nil || objOf(gpk, sel.X) != gp {
								continue
							}
							a0, ok0 := constOf(gpk, cs.call.Args[0])
							a1, ok1 := constOf(gpk, cs.call.Args[1])
							if ok0 && ok1 && a0.isInt() && a0.int() == 0 && a1.isInt() && a1.int() == 0 {
								okSeek = true
								deferPos = ds.Pos()
							}
						}
					}
				}
			}
		}
		break // only a defer that is unconditional and first counts
	}
	// first other use of the parameter
	var firstUse token.Pos
	ast.Inspect(d.fd.Body, func(n ast.Node) bool {
		if ds, ok := n.(*ast.DeferStmt); ok && ds.Pos() == deferPos {
			return false
		}
		if id, ok := n.(*ast.Ident); ok && objOf(d.pkg, id) == param {
			if !firstUse.IsValid() || id.Pos() < firstUse {
				firstUse = id.Pos()
			}
		}
		return true
	})
	c.check(okSeek && (!firstUse.IsValid() || deferPos < firstUse), R, d.name+"#defer-seek-first", c.P.Pos(d.fd.Pos()),
		"a deferred Seek(0, start) on the stream is registered before the stream is used",
		"no unconditional `defer … f.Seek(0, io.SeekStart)` on the stream parameter precedes the first use of the stream: some exit leaves the stream positioned after the sniffed bytes and the parse that follows sees a truncated document")
	// SniffFile delegates
	if df := c.decl(R, "formats.(*Sniffer).SniffFile"); df != nil {
		del := false
		ast.Inspect(df.fd.Body, func(n ast.Node) bool {
			if rs, ok := n.(*ast.ReturnStmt); ok && len(rs.Results) == 1 {
				if ce, ok := rs.Results[0].(*ast.CallExpr); ok {
					if f, _ := typeutil.Callee(df.pkg.TypesInfo, ce).(*types.Func); f != nil && f.Name() == "SniffReader" {
						del = true
					}
				}
			}
			return true
		})
		c.check(del, R, df.name+"#delegates", c.P.Pos(df.fd.Pos()), "SniffFile returns SniffReader's result unchanged", "SniffFile does not return SniffReader's result unchanged")
	}
}

// formatAccessors folds Type/Version/Major/Minor/Encoding over every Format constant.
func formatAccessors(c *Ctx) {
	const R = "accessor-agreement"
	c.rule(R, "for every Format constant K = <uri>+<enc>;version=<maj>.<min>: Version(K) = maj.min, Major(K) = maj, Minor(K) = min, Encoding(K) = enc, Type(K) = the family token contained in <uri>")
	pk := c.P.pkg("pkg/formats")
	ft := c.P.namedType(modPath+"/pkg/formats", "Format")
	if ft == nil {
		c.undecided(R, "anchor:formats.Format", "-", "type not found")
		return
	}
	accessor := func(name string) (*ast.FuncDecl, *packages.Package) {
		for _, n := range []string{"formats.(*Format)." + name, "formats.Format." + name} {
			if fd, p := c.P.FuncDecl(n); fd != nil {
				return fd, p
			}
		}
		return nil, nil
	}
	_ = pk
	for _, k := range enumConsts(ft) {
		s := constVal(k).str()
		if s == "" {
			continue
		}
		i := strings.Index(s, ";version=")
		j := strings.Index(s, "+")
		if i < 0 || j < 0 || j > i {
			continue // family tokens such as "cyclonedx" typed as Format
		}
		ver := s[i+len(";version="):]
		enc := s[j+1 : i]
		mm := strings.Split(ver, ".")
		family := ""
		for _, tok := range []string{"spdx", "cyclonedx"} {
			if strings.Contains(s[:j], tok) {
				family = tok
			}
		}
		want := map[string]string{"Version": ver, "Encoding": enc, "Type": family}
		if len(mm) == 2 {
			want["Major"], want["Minor"] = mm[0], mm[1]
		}
		for acc, w := range want {
			fd, p := accessor(acc)
			construct := fmt.Sprintf("%s(%s)", acc, k.Name())
			if fd == nil {
				c.undecided(R, construct, "-", "accessor not found")
				continue
			}
			ev := &evaluator{p: c.P}
			recv := constVal(k)
			r := ev.evalFunc(fd, p, &recv, nil)
			if len(r) != 1 || !r[0].isStr() {
				c.undecided(R, construct, c.P.Pos(fd.Pos()), fmt.Sprintf("accessor not foldable: %v", r))
				continue
			}
			c.check(r[0].str() == w, R, construct, c.P.Pos(fd.Pos()), "= "+w, fmt.Sprintf("%s of %q is %q, but the constant says %q", acc, s, r[0].str(), w))
		}
	}
	c.floor(R, 40, "ten versioned format constants × accessors")
}

// writerSnifferAgreement: C06-D3 (second half).
func writerSnifferAgreement(c *Ctx, s *sniffer, wr, rd []registration) {
	const R = "writer-sniffer-agreement"
	c.rule(R, "for every format registered by both the writer and the reader whose family/version the sniffer's JSON branch knows, the sniffer maps the declaration that serializer writes (CycloneDX + the version given to NewCDX; the SPDXVersion constant written by SPDX23.Serialize) to exactly that registry key")
	if s == nil {
		return
	}
	readable := map[string]bool{}
	for _, r := range rd {
		readable[r.key.Name()] = true
	}
	// what SPDX23.Serialize writes as its declaration
	spdxDecl := ""
	if d := c.decl(R, spdxSer); d != nil {
		for _, fi := range fieldInits(d.pkg, d.fd.Body) {
			if fi.field.Name() == "SPDXVersion" {
				if v, ok := constOf(d.pkg, fi.value); ok && v.isStr() {
					spdxDecl = v.str()
				}
			}
		}
	}
	n := 0
	for _, r := range wr {
		if !readable[r.key.Name()] {
			continue
		}
		var decl map[string]string
		switch r.ctor {
		case "NewCDX":
			// the property names the domain: CycloneDX 1.3, 1.4 and 1.5 (older versions are written
			// and registered but are outside the detection guarantee)
			if len(r.args) < 1 || !map[string]bool{"1.3": true, "1.4": true, "1.5": true}[r.args[0].str()] {
				continue
			}
			decl = map[string]string{"bomFormat": "CycloneDX", "specVersion": r.args[0].str()}
		case "NewSPDX23":
			if spdxDecl == "" {
				c.undecided(R, r.key.Name(), c.P.Pos(r.pos), "the SPDXVersion written by the serializer is not a constant")
				continue
			}
			decl = map[string]string{"spdxVersion": spdxDecl}
		default:
			continue
		}
		n++
		got := s.eval(c.P, decl)
		ok := len(got) == 2 && got[0].k == vConst && got[0].str() == constVal(r.key).str() && got[1].k == vNil
		c.check(ok, R, r.key.Name(), c.P.Pos(r.pos), fmt.Sprintf("declaration %v → %s", decl, r.key.Name()),
			fmt.Sprintf("the writer's %s output declares %v, which the sniffer reports as %v, not %s", r.key.Name(), decl, got, r.key.Name()))
	}
	c.check(n >= 4, R, "domain", "-", fmt.Sprintf("%d formats both written and detected", n), fmt.Sprintf("only %d formats are both written, readable and detectable; SPDX 2.3 and CycloneDX 1.3/1.4/1.5 expected", n))
}

// singleDispatch: C05-D5 / C06-D5.
func singleDispatch(c *Ctx) {
	const R = "single-dispatch"
	c.rule(R, "ParseStreamWithOptions has exactly one Unserialize call; the driver comes from GetFormatUnserializer(format) where format is the per-call format or, when that is empty, the detected one")
	d := c.decl(R, "reader.(*Reader).ParseStreamWithOptions")
	if d == nil {
		return
	}
	nU := 0
	var getArg ast.Expr
	for _, cs := range callsIn(d.pkg, d.fd.Body) {
		if cs.callee.Name() == "Unserialize" {
			nU++
		}
		if cs.callee.Name() == "GetFormatUnserializer" && len(cs.call.Args) == 1 {
			getArg = cs.call.Args[0]
		}
	}
	okFmt := false
	if getArg != nil {
		fo := objOf(d.pkg, getArg)
		fromOpt, fromDetect := false, false
		ast.Inspect(d.fd.Body, func(n ast.Node) bool {
			as, ok := n.(*ast.AssignStmt)
			if !ok || len(as.Lhs) != len(as.Rhs) {
				return true
			}
			for i, l := range as.Lhs {
				if objOf(d.pkg, l) != fo || fo == nil {
					continue
				}
				if sel, ok := as.Rhs[i].(*ast.SelectorExpr); ok && sel.Sel.Name == "Format" {
					fromOpt = true
				}
				if id, ok := as.Rhs[i].(*ast.Ident); ok {
					// f, err := r.detectFormat(...); format = f
					if def, ok := singleDefs(d.pkg, d.fd.Body)[objOf(d.pkg, id)]; ok {
						if ce, ok := def.(*ast.CallExpr); ok {
							if fn, _ := typeutil.Callee(d.pkg.TypesInfo, ce).(*types.Func); fn != nil && strings.HasSuffix(objName(fn), ".detectFormat") {
								fromDetect = true
							}
						}
					}
				}
			}
			return true
		})
		okFmt = fromOpt && fromDetect
		// the choice may live in a helper split off this function: format, err := r.resolveFormat(f, o)
		if !okFmt && fo != nil {
			ast.Inspect(d.fd.Body, func(n ast.Node) bool {
				as, ok := n.(*ast.AssignStmt)
				if !ok || len(as.Rhs) != 1 || len(as.Lhs) == 0 || objOf(d.pkg, as.Lhs[0]) != fo {
					return true
				}
				ce, isCall := as.Rhs[0].(*ast.CallExpr)
				if !isCall {
					return true
				}
				g, _ := typeutil.Callee(d.pkg.TypesInfo, ce).(*types.Func)
				if g == nil || g.Pkg() == nil || !strings.HasPrefix(g.Pkg().Path(), modPath+"/") {
					return true
				}
				gfd, gpk := c.P.FuncDecl(objName(g))
				if gfd == nil || gfd.Body == nil {
					return true
				}
				hOpt, hDetect := false, false
				gdefs := singleDefs(gpk, gfd.Body)
				ast.Inspect(gfd.Body, func(m ast.Node) bool {
					rs, isRet := m.(*ast.ReturnStmt)
					if !isRet || len(rs.Results) == 0 {
						return true
					}
					r0 := rs.Results[0]
					if sel, isSel := r0.(*ast.SelectorExpr); isSel && sel.Sel.Name == "Format" {
						hOpt = true
					}
					if id, isId := r0.(*ast.Ident); isId {
						def := gdefs[objOf(gpk, id)]
						if sel, isSel := def.(*ast.SelectorExpr); isSel && sel.Sel.Name == "Format" {
							hOpt = true
						}
						if def == nil {
							// bound by a tuple assignment
							ast.Inspect(gfd.Body, func(k ast.Node) bool {
								if a2, ok := k.(*ast.AssignStmt); ok && len(a2.Rhs) == 1 && len(a2.Lhs) > 1 && objOf(gpk, a2.Lhs[0]) == objOf(gpk, id) {
									def = a2.Rhs[0]
								}
								return true
							})
						}
						if dc, isC := def.(*ast.CallExpr); isC {
							if fn, _ := typeutil.Callee(gpk.TypesInfo, dc).(*types.Func); fn != nil && strings.HasSuffix(objName(fn), ".detectFormat") {
								hDetect = true
							}
						}
					}
					return true
				})
				if hOpt && hDetect {
					okFmt = true
				}
				return true
			})
		}
	}
	c.check(nU == 1 && okFmt, R, d.name, c.P.Pos(d.fd.Pos()), "one dispatch site fed by the stated or the detected format",
		fmt.Sprintf("dispatch is not a single Unserialize call on GetFormatUnserializer(stated-or-detected format) (Unserialize calls: %d, format provenance ok: %v): auto-detected and explicit parsing can diverge", nU, okFmt))
}

func theProgramFor(s *sniffer) *Program { return s.p }

// detectionResult: "reports a format only when … and otherwise returns an error": no return of the
// detector pairs a nil error with a format that may be empty.
func detectionResult(c *Ctx) {
	const R = "detection-result"
	c.rule(R, "every return of SniffReader (and of a helper whose results it returns directly) with a nil error returns a format that cannot be empty: a non-empty constant, or a variable on the positive side of a comparison with the empty format")
	var check func(name string, depth int)
	seen := map[string]bool{}
	check = func(name string, depth int) {
		if seen[name] || depth > 3 {
			return
		}
		seen[name] = true
		d := c.decl(R, name)
		if d == nil {
			return
		}
		n := 0
		ast.Inspect(d.fd.Body, func(m ast.Node) bool {
			if _, isLit := m.(*ast.FuncLit); isLit {
				return false
			}
			rs, ok := m.(*ast.ReturnStmt)
			if !ok {
				return true
			}
			n++
			construct := fmt.Sprintf("%s#return@%d", name, n)
			pos := c.P.Pos(rs.Pos())
			if len(rs.Results) == 1 {
				if ce, isCall := rs.Results[0].(*ast.CallExpr); isCall {
					if f, _ := typeutil.Callee(d.pkg.TypesInfo, ce).(*types.Func); f != nil && f.Pkg() != nil && strings.HasPrefix(f.Pkg().Path(), modPath+"/") {
						c.ok(R, construct, pos, "delegates to "+objName(f))
						check(objName(f), depth+1)
						return true
					}
				}
				c.undecided(R, construct, pos, "a single expression stands for both results and is not a call into the module")
				return true
			}
			if len(rs.Results) != 2 {
				return true
			}
			if !isNilIdent(d.pkg, rs.Results[1]) {
				c.ok(R, construct, pos, "returns an error")
				return true
			}
			e := rs.Results[0]
			if v, isC := constOf(d.pkg, e); isC && v.isStr() {
				c.check(v.str() != "", R, construct, pos, "non-empty constant format "+v.str(), "the empty format is returned with a nil error: undetectable input is reported as success")
				return true
			}
			id, isId := e.(*ast.Ident)
			guarded := false
			if isId {
				o := objOf(d.pkg, id)
				isEmptyCmp := func(cond ast.Expr, op token.Token) bool {
					for _, cj := range conjuncts(cond) {
						be, ok := cj.(*ast.BinaryExpr)
						if !ok || be.Op != op {
							continue
						}
						x, y := be.X, be.Y
						if objOf(d.pkg, y) == o {
							x, y = y, x
						}
						if objOf(d.pkg, x) != o {
							continue
						}
						if v, isC := constOf(d.pkg, y); isC && v.isStr() && v.str() == "" {
							return true
						}
					}
					return false
				}
				chain := enclosing(d.fd.Body, rs)
				for i, y := range chain {
					switch s := y.(type) {
					case *ast.RangeStmt:
						// the element of an init-only package list of non-empty format constants
						if s.Value != nil && objOf(d.pkg, s.Value) == o {
							if tid, isT := s.X.(*ast.Ident); isT {
								if pv, isVar := d.pkg.TypesInfo.Uses[tid].(*types.Var); isVar && pv.Pkg() != nil && pv.Parent() == pv.Pkg().Scope() {
									tbl := (&evaluator{p: c.P}).packageTable(pv)
									if tbl.k == vList && len(tbl.list) > 0 {
										all := true
										for _, v := range tbl.list {
											all = all && v.isStr() && v.str() != ""
										}
										guarded = guarded || all
									}
								}
							}
						}
					case *ast.IfStmt:
						if i+1 < len(chain) && chain[i+1] == ast.Node(s.Body) && isEmptyCmp(s.Cond, token.NEQ) {
							guarded = true
						}
						// `if v, ok := table[k]; ok { return v, nil }` with an init-only package table whose
						// values are all non-empty constants
						if i+1 < len(chain) && chain[i+1] == ast.Node(s.Body) {
							if as, isAs := s.Init.(*ast.AssignStmt); isAs && len(as.Lhs) == 2 && len(as.Rhs) == 1 && objOf(d.pkg, as.Lhs[0]) == o {
								if ix, isIx := as.Rhs[0].(*ast.IndexExpr); isIx && objOf(d.pkg, s.Cond) == objOf(d.pkg, as.Lhs[1]) {
									if tid, isT := ix.X.(*ast.Ident); isT {
										if pv, isVar := d.pkg.TypesInfo.Uses[tid].(*types.Var); isVar && pv.Pkg() != nil && pv.Parent() == pv.Pkg().Scope() {
											tbl := (&evaluator{p: c.P}).packageTable(pv)
											if tbl.k == vMap && len(tbl.list) > 0 {
												all := true
												for _, v := range tbl.list {
													all = all && v.isStr() && v.str() != ""
												}
												guarded = guarded || all
											}
										}
									}
								}
							}
						}
					case *ast.BlockStmt:
						if i+1 >= len(chain) {
							continue
						}
						var okVar types.Object // of `o, ok := table[k]` with a table of non-empty formats
						for _, st := range s.List {
							if st == chain[i+1] {
								break
							}
							if as, isAs := st.(*ast.AssignStmt); isAs && len(as.Lhs) == 2 && len(as.Rhs) == 1 && objOf(d.pkg, as.Lhs[0]) == o {
								okVar = nil
								if ix, isIx := as.Rhs[0].(*ast.IndexExpr); isIx && tableOfNonEmptyFormats(c, d, ix.X, 0) {
									okVar = objOf(d.pkg, as.Lhs[1])
								}
							}
							if ifs, ok := st.(*ast.IfStmt); ok && ifs.Else == nil && terminates(ifs.Body) {
								if be, ok := ifs.Cond.(*ast.BinaryExpr); ok && be.Op == token.EQL && isEmptyCmp(ifs.Cond, token.EQL) {
									guarded = true
								}
								// if !ok { return … } after the lookup
								if u, isNot := ifs.Cond.(*ast.UnaryExpr); isNot && u.Op == token.NOT && okVar != nil && objOf(d.pkg, u.X) == okVar {
									guarded = true
								}
							}
						}
					}
				}
			}
			c.check(guarded, R, construct, pos, "the returned format was compared with the empty format on this path",
				fmt.Sprintf("%s is returned with a nil error and nothing on the path rules out the empty format: input that matches no format is reported as a success with an empty format", exprText(c.P.Fset, e)))
			return true
		})
	}
	check("formats.(*Sniffer).SniffReader", 0)
	c.floor(R, 5, "the returns of SniffReader")
}

// tableOfNonEmptyFormats: e denotes an init-only package-level map whose values are all non-empty
// string constants, or a local that is only ever assigned such tables.
func tableOfNonEmptyFormats(c *Ctx, d *declInfo, e ast.Expr, depth int) bool {
	id, ok := e.(*ast.Ident)
	if !ok || depth > 3 {
		return false
	}
	obj := objOf(d.pkg, id)
	pv, isVar := obj.(*types.Var)
	if !isVar {
		return false
	}
	if pv.Pkg() != nil && pv.Parent() == pv.Pkg().Scope() {
		tbl := (&evaluator{p: c.P}).packageTable(pv)
		if tbl.k != vMap || len(tbl.list) == 0 {
			return false
		}
		for _, v := range tbl.list {
			if !v.isStr() || v.str() == "" {
				return false
			}
		}
		return true
	}
	// a local: every value it is given
	n, all := 0, true
	ast.Inspect(d.fd.Body, func(m ast.Node) bool {
		as, ok := m.(*ast.AssignStmt)
		if !ok || len(as.Lhs) != len(as.Rhs) {
			return true
		}
		for i, l := range as.Lhs {
			if objOf(d.pkg, l) == obj {
				n++
				all = all && tableOfNonEmptyFormats(c, d, as.Rhs[i], depth+1)
			}
		}
		return true
	})
	return n > 0 && all
}

// formatConstByValue finds the formats.Format constant with the given value.
func formatConstByValue(c *Ctx, val string) *types.Const {
	pk := c.P.pkg("pkg/formats")
	if pk == nil {
		return nil
	}
	sc := pk.Types.Scope()
	for _, name := range sc.Names() {
		if k, ok := sc.Lookup(name).(*types.Const); ok && strings.HasSuffix(k.Type().String(), "formats.Format") {
			if v := constVal(k); v.isStr() && v.str() == val {
				return k
			}
		}
	}
	return nil
}
