package main

// E4/E5 — origin (may-share-memory) analysis over go/ssa with per-function summaries.
//
// Every reference-typed SSA value gets a set of *roots* it may point into:
//   ParamTop(j)  the object the j-th parameter (receiver = 0) points to directly
//   ParamDeep(j) memory reachable from that object through at least one load
//   Global(g)    memory of (or reachable from) package-level variable g
//   Site(i)      an allocation made by instruction i in this activation (fresh)
//   Ext          memory handed out by code that is not analysed
// Allocation sites carry a *contents* set: the roots whose references were stored inside them.
// Loads go through contents; parameter and global regions are closed under loads.
// A store whose address points into ParamTop/ParamDeep(j) is a mutation of operand j (shallow /
// deep); into Global(g) a write of g. Summaries (mutations, result origins, what is stored into
// which operand, globals touched) are applied at call sites by substitution and iterated to a
// fixpoint over the whole module.

import (
	"fmt"
	"go/token"
	"go/types"
	"sort"
	"strings"

	"golang.org/x/tools/go/callgraph"
	"golang.org/x/tools/go/callgraph/cha"
	"golang.org/x/tools/go/ssa"
)

type rootKind uint8

const (
	rParamTop  rootKind = iota
	rParamL1            // exactly one load below the parameter's object
	rParamDeep          // two or more loads
	rGlobal
	rSite
	rExt
	rFreshRet // only inside summaries
)

type root struct {
	k  rootKind
	j  int
	v  ssa.Value // *ssa.Global or the allocating instruction's value
	fl int       // for sites: 1+field index of the sub-location, 0 = the whole object
}

func (r root) String() string {
	switch r.k {
	case rParamTop:
		if r.fl > 0 {
			return fmt.Sprintf("P%d.%d", r.j, r.fl-1)
		}
		return fmt.Sprintf("P%d", r.j)
	case rParamL1:
		if r.fl > 0 {
			return fmt.Sprintf("P%d.%d'", r.j, r.fl-1)
		}
		return fmt.Sprintf("P%d'", r.j)
	case rParamDeep:
		return fmt.Sprintf("P%d*", r.j)
	case rGlobal:
		return "G:" + r.v.(*ssa.Global).Name()
	case rSite:
		if r.fl > 0 {
			return fmt.Sprintf("fresh@%s.%d", r.v.Name(), r.fl-1)
		}
		return "fresh@" + r.v.Name()
	case rExt:
		return "ext"
	case rFreshRet:
		return "fresh"
	}
	return "?"
}

type rset map[root]struct{}

func (s rset) add(r root) bool {
	if _, ok := s[r]; ok {
		return false
	}
	s[r] = struct{}{}
	return true
}
func (s rset) addAll(o rset) bool {
	ch := false
	for r := range o {
		if s.add(r) {
			ch = true
		}
	}
	return ch
}
func (s rset) hasParam() bool {
	for r := range s {
		if r.isParam() {
			return true
		}
	}
	return false
}

func (r root) isParam() bool { return r.k == rParamTop || r.k == rParamL1 || r.k == rParamDeep }

// level of a parameter root: number of loads below the parameter's object (2 = two or more)
func (r root) level() int {
	switch r.k {
	case rParamL1:
		return 1
	case rParamDeep:
		return 2
	}
	return 0
}

func paramRoot(j, lvl int) root {
	switch lvl {
	case 0:
		return root{k: rParamTop, j: j}
	case 1:
		return root{k: rParamL1, j: j}
	}
	return root{k: rParamDeep, j: j}
}
func (s rset) String() string {
	var ss []string
	for r := range s {
		ss = append(ss, r.String())
	}
	sort.Strings(ss)
	return "{" + strings.Join(ss, ",") + "}"
}

// mutation of an operand or a global, with a witness.
type mutation struct {
	param int  // operand index, or -1 for a global
	deep  bool // through at least one load
	lvl   int  // 0, 1, 2(+) loads below the operand's object
	fl    int  // 1+field of the operand's object the access went through (levels 0 and 1), 0 = unknown
	glob  *ssa.Global
	pos   token.Pos
	what  string // instruction description
	via   string // call chain from the summarised function down to the store
	app   bool   // append on operand memory (may write the shared backing array)
}

type storeInto struct {
	param int
	lvl   int
	fl    int  // 1+field index when the store went to a field of the operand's object itself
	vals  rset // roots (in callee terms) now referenced directly from that operand memory
	inner rset // what the fresh objects among vals reference in turn
}

type summary struct {
	fn        *ssa.Function
	nparams   int
	muts      []mutation
	ret       []rset // per result
	retFresh  []bool
	retCont   rset // contents of fresh results, over non-site roots
	stores    []storeInto
	globRead  map[*ssa.Global]token.Pos
	globWrite map[*ssa.Global]token.Pos
	// leaks: stores that put a parameter-rooted reference into a fresh object reaching the result
	leaks []leak
	sig   string
}

type leak struct {
	r     root
	pos   token.Pos
	field string // destination field name if known
	what  string
}

type origins struct {
	p    *Program
	sums map[*ssa.Function]*summary
	cg   *callgraph.Graph
	// per-function detailed states of the last round, for rules that need value-level facts
	states map[*ssa.Function]*fstate
}

func isRefType(t types.Type) bool {
	return isRefTypeRec(t, 0)
}

func isRefTypeRec(t types.Type, depth int) bool {
	if depth > 6 {
		return true
	}
	switch u := t.Underlying().(type) {
	case *types.Pointer, *types.Slice, *types.Map, *types.Chan, *types.Signature, *types.Interface:
		return true
	case *types.Basic:
		return u.Kind() == types.UnsafePointer
	case *types.Struct:
		for i := 0; i < u.NumFields(); i++ {
			if isRefTypeRec(u.Field(i).Type(), depth+1) {
				return true
			}
		}
	case *types.Array:
		return isRefTypeRec(u.Elem(), depth+1)
	case *types.Tuple:
		for i := 0; i < u.Len(); i++ {
			if isRefTypeRec(u.At(i).Type(), depth+1) {
				return true
			}
		}
	case *types.TypeParam:
		return true
	}
	return false
}

func newOrigins(p *Program) *origins {
	o := &origins{p: p, sums: map[*ssa.Function]*summary{}, states: map[*ssa.Function]*fstate{}}
	o.cg = cha.CallGraph(p.SSA)
	// top-level module functions (anonymous ones are analysed inside their parents)
	var tops []*ssa.Function
	for _, fn := range p.Funcs {
		if fn.Parent() == nil {
			tops = append(tops, fn)
		}
	}
	for round := 0; round < 12; round++ {
		changed := false
		for _, fn := range tops {
			st := o.analyze(fn)
			ns := st.summarize()
			if old := o.sums[fn]; old == nil || old.sig != ns.sig {
				changed = true
			}
			o.sums[fn] = ns
			o.states[fn] = st
		}
		if !changed {
			break
		}
	}
	return o
}

// fstate is the per-function analysis state.
type fstate struct {
	o        *origins
	fn       *ssa.Function
	pts      map[ssa.Value]rset
	tuple    map[ssa.Value][]rset // per-index origins of tuple-valued calls
	contents map[root]rset
	pcont    map[root]rset // what was stored into operand memory during this activation
	witness  map[[2]root]leak
	muts     []mutation
	mutSeen  map[string]bool
	stores   map[[3]int]rset // (param, level, 1+field) -> vals
	siteFl   map[ssa.Value]map[int]bool
	globRead map[*ssa.Global]token.Pos
	globWr   map[*ssa.Global]token.Pos
	rets     []rset
	changed  bool
	params   map[*ssa.Parameter]int
}

func (o *origins) analyze(fn *ssa.Function) *fstate {
	st := &fstate{o: o, fn: fn, pts: map[ssa.Value]rset{}, tuple: map[ssa.Value][]rset{}, contents: map[root]rset{},
		pcont: map[root]rset{}, witness: map[[2]root]leak{}, mutSeen: map[string]bool{}, stores: map[[3]int]rset{}, siteFl: map[ssa.Value]map[int]bool{},
		globRead: map[*ssa.Global]token.Pos{}, globWr: map[*ssa.Global]token.Pos{}, params: map[*ssa.Parameter]int{}}
	for i, p := range fn.Params {
		st.params[p] = i
	}
	n := fn.Signature.Results().Len()
	st.rets = make([]rset, n)
	for i := range st.rets {
		st.rets[i] = rset{}
	}
	var all []*ssa.Function
	var collect func(f *ssa.Function)
	collect = func(f *ssa.Function) {
		all = append(all, f)
		for _, a := range f.AnonFuncs {
			collect(a)
		}
	}
	collect(fn)
	for iter := 0; iter < 40; iter++ {
		st.changed = false
		for _, f := range all {
			for _, b := range f.Blocks {
				for _, ins := range b.Instrs {
					st.step(f, ins)
				}
			}
		}
		if !st.changed {
			break
		}
	}
	return st
}

func (st *fstate) get(v ssa.Value) rset {
	if v == nil {
		return nil
	}
	if s, ok := st.pts[v]; ok {
		return s
	}
	switch x := v.(type) {
	case *ssa.Parameter:
		s := rset{}
		if j, ok := st.params[x]; ok {
			if isRefType(x.Type()) {
				switch x.Type().Underlying().(type) {
				case *types.Struct, *types.Array:
					s.add(root{k: rParamL1, j: j})
				default:
					s.add(root{k: rParamTop, j: j})
				}
			}
		} else if isRefType(x.Type()) {
			s.add(root{k: rExt}) // parameter of an anonymous function called by unanalysed code
		}
		st.pts[v] = s
		return s
	case *ssa.Global:
		s := rset{}
		s.add(root{k: rGlobal, v: x})
		st.pts[v] = s
		return s
	case *ssa.FreeVar:
		s := rset{}
		st.pts[v] = s
		return s
	}
	return nil
}

func (st *fstate) set(v ssa.Value, s rset) {
	if len(s) == 0 {
		return
	}
	cur, ok := st.pts[v]
	if !ok {
		cur = rset{}
		st.pts[v] = cur
	}
	if cur.addAll(s) {
		st.changed = true
	}
}

// load returns the roots referenced from memory of the given roots.
func (st *fstate) load(rs rset) rset {
	out := rset{}
	for r := range rs {
		switch r.k {
		case rParamTop:
			out.add(root{k: rParamL1, j: r.j, fl: r.fl})
			out.addAll(st.pcont[r])
			if r.fl > 0 {
				out.addAll(st.pcont[root{k: rParamTop, j: r.j}])
			}
		case rParamL1:
			out.add(root{k: rParamDeep, j: r.j})
			out.addAll(st.pcont[r])
			if r.fl > 0 {
				out.addAll(st.pcont[root{k: rParamL1, j: r.j}])
			}
		case rParamDeep:
			out.add(r)
			out.addAll(st.pcont[r])
		case rGlobal, rExt:
			out.add(r)
		case rSite:
			if r.fl > 0 {
				out.addAll(st.contents[r])
				out.addAll(st.contents[root{k: rSite, v: r.v}])
			} else {
				out.addAll(st.contents[r])
				for fl := range st.siteFl[r.v] {
					out.addAll(st.contents[root{k: rSite, v: r.v, fl: fl}])
				}
			}
		}
	}
	return out
}

// loadPlus is one or more loads (closure).
func (st *fstate) loadPlus(rs rset) rset {
	out := st.load(rs)
	for i := 0; i < 8; i++ {
		n := st.load(out)
		if !out.addAll(n) {
			break
		}
	}
	return out
}

func (st *fstate) closure(rs rset) rset {
	out := rset{}
	out.addAll(rs)
	out.addAll(st.loadPlus(rs))
	return out
}

func (st *fstate) site(v ssa.Value) root { return root{k: rSite, v: v} }

func (st *fstate) addContents(site root, vals rset, w leak) {
	if len(vals) == 0 {
		return
	}
	c, ok := st.contents[site]
	if !ok {
		c = rset{}
		st.contents[site] = c
	}
	if site.fl > 0 {
		if st.siteFl[site.v] == nil {
			st.siteFl[site.v] = map[int]bool{}
		}
		st.siteFl[site.v][site.fl] = true
	}
	for r := range vals {
		if c.add(r) {
			st.changed = true
			if r.isParam() || r.k == rGlobal {
				k := [2]root{site, r}
				if _, ok := st.witness[k]; !ok {
					w.r = r
					st.witness[k] = w
				}
			}
		}
	}
}

func (st *fstate) recordMut(m mutation) {
	key := fmt.Sprintf("%d/%d/%d/%v/%v/%d/%s", m.param, m.lvl, m.fl, m.glob, m.app, m.pos, m.via)
	if st.mutSeen[key] {
		return
	}
	st.mutSeen[key] = true
	st.muts = append(st.muts, m)
	st.changed = true
}

// writeTo handles a store of vals into memory of targets.
func (st *fstate) writeTo(targets rset, vals rset, pos token.Pos, what, via, field string, isAppend bool) {
	st.writeToF(targets, vals, pos, what, via, field, isAppend, 0)
}

func (st *fstate) writeToF(targets rset, vals rset, pos token.Pos, what, via, field string, isAppend bool, flOf int) {
	for r := range targets {
		switch r.k {
		case rSite:
			if !isAppend {
				st.addContents(r, vals, leak{pos: pos, field: field, what: what})
			}
		case rParamTop, rParamL1, rParamDeep:
			st.recordMut(mutation{param: r.j, deep: r.level() > 0, lvl: r.level(), fl: r.fl, pos: pos, what: what, via: via, app: isAppend})
			if len(vals) > 0 && !isAppend {
				pc, ok := st.pcont[r]
				if !ok {
					pc = rset{}
					st.pcont[r] = pc
				}
				if pc.addAll(vals) {
					st.changed = true
				}
				k := [3]int{r.j, r.level(), r.fl}
				_ = flOf
				sv, ok := st.stores[k]
				if !ok {
					sv = rset{}
					st.stores[k] = sv
				}
				sv.addAll(vals)
			}
		case rGlobal:
			g := r.v.(*ssa.Global)
			if _, ok := st.globWr[g]; !ok {
				st.globWr[g] = pos
				st.changed = true
			}
			st.recordMut(mutation{param: -1, glob: g, pos: pos, what: what, via: via, app: isAppend})
		}
	}
}

func fieldNameOf(addr ssa.Value) string {
	switch a := addr.(type) {
	case *ssa.FieldAddr:
		t := a.X.Type()
		if p, ok := t.Underlying().(*types.Pointer); ok {
			t = p.Elem()
		}
		if s, ok := t.Underlying().(*types.Struct); ok && a.Field < s.NumFields() {
			return s.Field(a.Field).Name()
		}
	case *ssa.IndexAddr:
		return fieldNameOf(a.X)
	case *ssa.UnOp:
		return fieldNameOf(a.X)
	}
	return ""
}

func (st *fstate) refVal(v ssa.Value) rset {
	if v == nil || !isRefType(v.Type()) {
		return nil
	}
	return st.get(v)
}

func (st *fstate) step(f *ssa.Function, ins ssa.Instruction) {
	switch x := ins.(type) {
	case *ssa.Alloc:
		st.set(x, rset{st.site(x): {}})
	case *ssa.MakeSlice:
		st.set(x, rset{st.site(x): {}})
	case *ssa.MakeMap:
		st.set(x, rset{st.site(x): {}})
	case *ssa.MakeChan:
		st.set(x, rset{st.site(x): {}})
	case *ssa.MakeInterface:
		st.set(x, st.refVal(x.X))
	case *ssa.ChangeType:
		st.set(x, st.refVal(x.X))
	case *ssa.ChangeInterface:
		st.set(x, st.refVal(x.X))
	case *ssa.SliceToArrayPointer:
		st.set(x, st.refVal(x.X))
	case *ssa.Convert:
		if isRefType(x.Type()) {
			if isRefType(x.X.Type()) {
				st.set(x, st.get(x.X))
			} else {
				st.set(x, rset{st.site(x): {}}) // []byte(s)
			}
		}
	case *ssa.FieldAddr:
		out := rset{}
		for r := range st.get(x.X) {
			if r.k == rSite && r.fl == 0 {
				out.add(root{k: rSite, v: r.v, fl: x.Field + 1})
			} else if r.k == rParamTop && r.fl == 0 {
				out.add(root{k: rParamTop, j: r.j, fl: x.Field + 1})
			} else {
				out.add(r)
			}
		}
		st.set(x, out)
	case *ssa.IndexAddr:
		st.set(x, st.get(x.X))
	case *ssa.Field:
		if isRefType(x.Type()) {
			st.set(x, st.get(x.X))
		}
	case *ssa.Index:
		if isRefType(x.Type()) {
			st.set(x, st.get(x.X))
		}
	case *ssa.Slice:
		st.set(x, st.get(x.X))
	case *ssa.UnOp:
		switch x.Op {
		case token.MUL:
			src := st.get(x.X)
			for r := range src {
				if r.k == rGlobal {
					g := r.v.(*ssa.Global)
					if _, ok := st.globRead[g]; !ok {
						st.globRead[g] = x.Pos()
						st.changed = true
					}
				}
			}
			if isRefType(x.Type()) {
				st.set(x, st.load(src))
			}
		case token.ARROW:
			if isRefType(x.Type()) {
				st.set(x, rset{root{k: rExt}: {}})
			}
		}
	case *ssa.Lookup:
		if _, isMap := x.X.Type().Underlying().(*types.Map); isMap && isRefType(x.Type()) {
			l := st.load(st.get(x.X))
			st.set(x, l)
			st.tuple[x] = []rset{l, nil}
		}
	case *ssa.Range:
		st.set(x, st.get(x.X))
	case *ssa.Next:
		l := st.load(st.get(x.Iter))
		st.set(x, l)
		st.tuple[x] = []rset{nil, l, l}
	case *ssa.TypeAssert:
		s := st.get(x.X)
		st.set(x, s)
		st.tuple[x] = []rset{s, nil}
	case *ssa.Phi:
		for _, e := range x.Edges {
			st.set(x, st.refVal(e))
		}
	case *ssa.Select:
		if isRefType(x.Type()) {
			st.set(x, rset{root{k: rExt}: {}})
		}
	case *ssa.Extract:
		if !isRefType(x.Type()) {
			return
		}
		if t, ok := st.tuple[x.Tuple]; ok && x.Index < len(t) {
			st.set(x, t[x.Index])
		} else {
			st.set(x, st.get(x.Tuple))
		}
	case *ssa.MakeClosure:
		site := st.site(x)
		st.set(x, rset{site: {}})
		fn := x.Fn.(*ssa.Function)
		for i, b := range x.Bindings {
			bs := st.get(b) // bindings are addresses of captured variables (or values)
			st.addContents(site, bs, leak{pos: x.Pos(), what: "closure capture"})
			if i < len(fn.FreeVars) {
				st.set(fn.FreeVars[i], bs)
			}
		}
	case *ssa.Store:
		targets := st.get(x.Addr)
		vals := st.refVal(x.Val)
		pos := x.Pos()
		if !pos.IsValid() {
			pos = x.Val.Pos()
		}
		if !pos.IsValid() {
			pos = x.Addr.Pos()
		}
		flOf := 0
		if fa, ok := x.Addr.(*ssa.FieldAddr); ok {
			flOf = fa.Field + 1
		}
		st.writeToF(targets, vals, pos, "store to "+describeAddr(x.Addr), "", fieldNameOf(x.Addr), false, flOf)
	case *ssa.MapUpdate:
		targets := st.get(x.Map)
		vals := rset{}
		vals.addAll(st.refVal(x.Key))
		vals.addAll(st.refVal(x.Value))
		st.writeTo(targets, vals, x.Pos(), "map update of "+describeAddr(x.Map), "", fieldNameOf(x.Map), false)
	case *ssa.Return:
		for i, r := range x.Results {
			if i < len(st.rets) && f == st.fn {
				if st.rets[i].addAll(st.refVal(r)) {
					st.changed = true
				}
			}
		}
	case *ssa.Call:
		st.call(x, x.Common(), x)
	case *ssa.Defer:
		st.call(x, x.Common(), nil)
	case *ssa.Go:
		st.call(x, x.Common(), nil)
	}
}

func describeAddr(a ssa.Value) string {
	switch x := a.(type) {
	case *ssa.FieldAddr:
		return describeAddr(x.X) + "." + fieldNameOf(x)
	case *ssa.IndexAddr:
		return describeAddr(x.X) + "[i]"
	case *ssa.UnOp:
		if x.Op == token.MUL {
			return describeAddr(x.X)
		}
	case *ssa.Parameter:
		return x.Name()
	case *ssa.Global:
		return x.Pkg.Pkg.Name() + "." + x.Name()
	case *ssa.Alloc:
		if x.Comment != "" {
			return x.Comment
		}
		return "new " + x.Type().String()
	case *ssa.Lookup:
		return describeAddr(x.X) + "[k]"
	case *ssa.Extract:
		return describeAddr(x.Tuple)
	case *ssa.Call:
		if c := x.Common().StaticCallee(); c != nil {
			return c.Name() + "(…)"
		}
	case *ssa.Phi:
		return "φ"
	case *ssa.Slice:
		return describeAddr(x.X)
	case *ssa.FreeVar:
		return x.Name()
	case *ssa.Next:
		return "range-element"
	}
	return a.Name()
}

// externals that write through an argument: name -> indices of mutated arguments
var extMutators = map[string][]int{
	"sort.Strings": {0}, "sort.Ints": {0}, "sort.Float64s": {0}, "sort.Slice": {0}, "sort.SliceStable": {0},
	"sort.Sort": {0}, "sort.Stable": {0},
	"slices.Sort": {0}, "slices.SortFunc": {0}, "slices.SortStableFunc": {0}, "slices.Reverse": {0},
	// in-place editors: they compact, shift or overwrite the elements of the slice they are given
	"slices.Delete": {0}, "slices.DeleteFunc": {0}, "slices.Compact": {0}, "slices.CompactFunc": {0},
	"slices.Insert": {0}, "slices.Replace": {0}, "maps.DeleteFunc": {0}, "maps.Copy": {0},
	"google.golang.org/protobuf/proto.Merge": {0}, "google.golang.org/protobuf/proto.Reset": {0},
	"google.golang.org/protobuf/proto.Unmarshal": {1}, "encoding/json.Unmarshal": {1},
	"(*encoding/json.Decoder).Decode": {1},
}

// externals whose result is freshly allocated; true = the result's contents still reference the
// argument's elements (a cloned []*T holds the same pointers)
var extFresh = map[string]bool{
	"slices.Clone": true, "maps.Clone": true,
	"google.golang.org/protobuf/types/known/timestamppb.New": false,
	"google.golang.org/protobuf/types/known/timestamppb.Now": false,
	"google.golang.org/protobuf/proto.Clone":                 false,
	"strings.Split":                                          false, "strings.Fields": false, "fmt.Sprintf": false, "fmt.Errorf": false, "errors.New": false,
	"strings.Repeat": false, "context.WithValue": true, "context.Background": false,
	"github.com/CycloneDX/cyclonedx-go.NewBOM": false, "github.com/CycloneDX/cyclonedx-go.NewBOMEncoder": true,
	"github.com/CycloneDX/cyclonedx-go.NewBOMDecoder": true, "encoding/json.NewDecoder": true, "encoding/json.NewEncoder": true,
	"bufio.NewScanner": true, "os.Open": false, "os.Create": false, "os.ReadFile": false,
	"google.golang.org/protobuf/proto.Marshal": false, "crypto/sha256.Sum256": false,
	"github.com/google/uuid.New": false, "github.com/google/uuid.NewString": false,
	"time.Now": false, "(time.Time).UTC": false, "(time.Time).Format": false, "time.Parse": false,
	"(*google.golang.org/protobuf/types/known/timestamppb.Timestamp).AsTime": false,
	"regexp.MustCompile": false,
}

func (st *fstate) call(ins ssa.Instruction, cc *ssa.CallCommon, res ssa.Value) {
	pos := ins.Pos()
	// argument list with receiver first
	var args []ssa.Value
	if cc.IsInvoke() {
		args = append(args, cc.Value)
	}
	args = append(args, cc.Args...)
	setRes := func(s rset) {
		if res != nil && isRefType(res.Type()) {
			st.set(res, s)
		}
	}
	if b, ok := cc.Value.(*ssa.Builtin); ok {
		switch b.Name() {
		case "append":
			if len(args) == 0 {
				return
			}
			base := st.get(args[0])
			site := st.site(res)
			out := rset{site: {}}
			out.addAll(base)
			// new backing array holds the old elements and the new ones
			vals := rset{}
			elemRef := true
			if sl, ok := args[0].Type().Underlying().(*types.Slice); ok {
				elemRef = isRefType(sl.Elem())
			}
			if elemRef {
				vals.addAll(st.load(base))
			}
			if len(args) > 1 && isRefType(args[1].Type()) {
				// variadic slice argument: its elements
				if sl, ok := args[1].Type().Underlying().(*types.Slice); ok && isRefType(sl.Elem()) {
					vals.addAll(st.load(st.get(args[1])))
				}
			}
			fld := ""
			st.addContents(site, vals, leak{pos: pos, what: "append", field: fld})
			// the new elements are also written into the old backing array when capacity allows
			newVals := rset{}
			if len(args) > 1 {
				if sl, ok := args[1].Type().Underlying().(*types.Slice); ok && isRefType(sl.Elem()) {
					newVals.addAll(st.load(st.get(args[1])))
				}
			}
			for r := range base {
				if r.k == rSite {
					st.addContents(r, newVals, leak{pos: pos, what: "append"})
				}
			}
			// appending to operand memory may write the operand's backing array
			hasNew := len(args) > 1
			if hasNew {
				st.writeTo(base, nil, pos, "append to "+describeAddr(args[0]), "", fieldNameOf(args[0]), true)
			}
			setRes(out)
		case "copy":
			if len(args) == 2 {
				st.writeTo(st.get(args[0]), st.load(st.get(args[1])), pos, "copy into "+describeAddr(args[0]), "", "", false)
			}
		case "delete", "clear":
			if len(args) >= 1 {
				st.writeTo(st.get(args[0]), nil, pos, b.Name()+" on "+describeAddr(args[0]), "", "", false)
			}
		case "recover":
			setRes(rset{root{k: rExt}: {}})
		}
		return
	}
	// resolve callees
	var callees []*ssa.Function
	if sc := cc.StaticCallee(); sc != nil {
		callees = append(callees, sc)
	} else if mc, ok := cc.Value.(*ssa.MakeClosure); ok {
		callees = append(callees, mc.Fn.(*ssa.Function))
	} else if n := st.o.cg.Nodes[ins.Parent()]; n != nil {
		for _, e := range n.Out {
			if e.Site == ins && e.Callee != nil && e.Callee.Func != nil {
				callees = append(callees, e.Callee.Func)
			}
		}
	}
	handled := false
	for _, callee := range callees {
		if callee == nil {
			continue
		}
		// a method expression or method value used as a function ((*Edge).Copy handed to a generic
		// helper) reaches here as a synthetic wrapper: judge the method it forwards to
		if callee.Synthetic != "" && callee.Blocks != nil && (strings.Contains(callee.Synthetic, "thunk") || strings.Contains(callee.Synthetic, "wrapper")) {
			for _, b := range callee.Blocks {
				for _, in2 := range b.Instrs {
					if call, ok := in2.(*ssa.Call); ok {
						if sc := call.Common().StaticCallee(); sc != nil && len(call.Common().Args) == len(args)+len(callee.FreeVars) {
							if len(callee.FreeVars) == 0 {
								callee = sc
							}
						}
					}
				}
			}
		}
		// anonymous function of this same top-level function: bind parameters, body is inlined
		if callee.Parent() != nil && topOf(callee) == st.fn {
			for i, p := range callee.Params {
				if i < len(args) {
					st.set(p, st.refVal(args[i]))
				}
			}
			handled = true
			continue
		}
		tgt := callee
		if o := callee.Origin(); o != nil {
			// an instantiation of a generic function: its own body has the calls through the type
			// parameter resolved statically; fall back to the generic body only when the instance
			// was not built
			if callee.Blocks == nil || st.o.sums[callee] == nil {
				tgt = o
			}
		}
		if st.o.p.inModule(tgt) && tgt.Blocks != nil {
			if tgt.Parent() != nil {
				continue
			}
			if cc.StaticCallee() == nil && strings.Contains(fnPkgPath(tgt), "fakes") {
				continue // counterfeiter doubles are never installed by the library itself
			}
			handled = true
			if s := st.o.sums[tgt]; s != nil {
				st.applySummary(s, args, pos, res, fnName(tgt))
			}
			continue
		}
	}
	if handled {
		return
	}
	// external (or unresolved) callee
	name := ""
	if sc := cc.StaticCallee(); sc != nil {
		name = sc.String()
		if o := sc.Origin(); o != nil {
			name = o.String()
		}
	} else if cc.IsInvoke() {
		name = "(" + cc.Value.Type().String() + ")." + cc.Method.Name()
	}
	// a package-level object handed to an external callee (e.g. the receiver of (*sync.Map).Load) is read
	for _, a := range args {
		for r := range st.get(a) {
			if r.k == rGlobal {
				g := r.v.(*ssa.Global)
				if _, ok := st.globRead[g]; !ok {
					st.globRead[g] = pos
					st.changed = true
				}
			}
		}
	}
	if idx, ok := extMutators[name]; ok {
		for _, i := range idx {
			if i < len(args) {
				st.writeTo(st.get(args[i]), nil, pos, "call "+name+" on "+describeAddr(args[i]), "", fieldNameOf(args[i]), false)
			}
		}
	}
	if res == nil || !isRefType(res.Type()) {
		return
	}
	if shares, ok := extFresh[name]; ok {
		site := st.site(res)
		if shares {
			for _, a := range args {
				if isRefType(a.Type()) {
					// element type decides whether the clone still holds references
					holds := true
					switch u := a.Type().Underlying().(type) {
					case *types.Slice:
						holds = isRefType(u.Elem())
					case *types.Map:
						holds = isRefType(u.Elem()) || isRefType(u.Key())
					}
					if holds {
						if name == "slices.Clone" || name == "maps.Clone" {
							st.addContents(site, st.load(st.get(a)), leak{pos: pos, what: name + " keeps element references"})
						} else {
							st.addContents(site, st.get(a), leak{pos: pos, what: name + " wraps its argument"})
						}
					}
				}
			}
		}
		setRes(rset{site: {}})
		return
	}
	// default: the result may alias anything reachable from the arguments
	out := rset{root{k: rExt}: {}}
	for _, a := range args {
		if isRefType(a.Type()) {
			out.addAll(st.closure(st.get(a)))
		}
	}
	if res != nil {
		if tup, ok := res.Type().(*types.Tuple); ok {
			t := make([]rset, tup.Len())
			for i := range t {
				if isRefType(tup.At(i).Type()) {
					if _, isErr := tup.At(i).Type().Underlying().(*types.Interface); isErr && tup.At(i).Type().String() == "error" {
						t[i] = rset{root{k: rExt}: {}}
					} else {
						t[i] = out
					}
				}
			}
			st.tuple[res] = t
		}
	}
	setRes(out)
}

func topOf(f *ssa.Function) *ssa.Function {
	for f.Parent() != nil {
		f = f.Parent()
	}
	return f
}

// argLevel maps "lvl loads below operand j (through field fl-1 of its object)" into the caller.
func (st *fstate) argLevel(args []ssa.Value, j, lvl, fl int) rset {
	if j >= len(args) {
		return nil
	}
	base := st.refVal(args[j])
	if fl > 0 && lvl <= 1 {
		nb := rset{}
		for r := range base {
			switch {
			case r.k == rSite && r.fl == 0:
				nb.add(root{k: rSite, v: r.v, fl: fl})
			case r.k == rParamTop && r.fl == 0:
				nb.add(root{k: rParamTop, j: r.j, fl: fl})
			default:
				nb.add(r)
			}
		}
		base = nb
	}
	switch lvl {
	case 0:
		return base
	case 1:
		return st.load(base)
	}
	return st.loadPlus(st.load(base))
}

func (st *fstate) mapRoots(s *summary, args []ssa.Value, rs rset, callSite root) rset {
	out := rset{}
	for r := range rs {
		switch r.k {
		case rParamTop, rParamL1, rParamDeep:
			out.addAll(st.argLevel(args, r.j, r.level(), r.fl))
		case rGlobal, rExt:
			out.add(r)
		case rFreshRet:
			out.add(callSite)
		}
	}
	return out
}

func (st *fstate) applySummary(s *summary, args []ssa.Value, pos token.Pos, res ssa.Value, name string) {
	var callSite root
	if res != nil {
		callSite = st.site(res)
	} else {
		callSite = root{k: rExt}
	}
	for _, m := range s.muts {
		via := name
		if m.via != "" {
			via = name + " → " + m.via
		}
		if m.param < 0 {
			g := m.glob
			if _, ok := st.globWr[g]; !ok {
				st.globWr[g] = pos
				st.changed = true
			}
			st.recordMut(mutation{param: -1, glob: g, pos: m.pos, what: m.what, via: via, app: m.app})
			continue
		}
		if m.param >= len(args) {
			continue
		}
		targets := st.argLevel(args, m.param, m.lvl, m.fl)
		for r := range targets {
			switch r.k {
			case rParamTop, rParamL1, rParamDeep:
				st.recordMut(mutation{param: r.j, deep: r.level() > 0, lvl: r.level(), fl: r.fl, pos: m.pos, what: m.what, via: via, app: m.app})
			case rGlobal:
				g := r.v.(*ssa.Global)
				if _, ok := st.globWr[g]; !ok {
					st.globWr[g] = pos
					st.changed = true
				}
				st.recordMut(mutation{param: -1, glob: g, pos: m.pos, what: m.what, via: via, app: m.app})
			}
		}
	}
	for _, so := range s.stores {
		if so.param >= len(args) {
			continue
		}
		targets := st.argLevel(args, so.param, so.lvl, so.fl)
		vals := st.mapRoots(s, args, so.vals, callSite)
		if len(so.inner) > 0 && callSite.k == rSite {
			st.addContents(callSite, st.mapRoots(s, args, so.inner, callSite), leak{pos: pos, what: "object created by " + name + " references its operand"})
		}
		for r := range targets {
			switch r.k {
			case rSite:
				st.addContents(r, vals, leak{pos: pos, what: "call " + name + " stores argument references into it"})
			case rParamTop, rParamL1, rParamDeep:
				pc, ok := st.pcont[r]
				if !ok {
					pc = rset{}
					st.pcont[r] = pc
				}
				if pc.addAll(vals) {
					st.changed = true
				}
				k := [3]int{r.j, r.level(), r.fl}
				sv, ok := st.stores[k]
				if !ok {
					sv = rset{}
					st.stores[k] = sv
				}
				sv.addAll(vals)
			}
		}
	}
	for g, p := range s.globRead {
		if _, ok := st.globRead[g]; !ok {
			st.globRead[g] = p
			st.changed = true
		}
	}
	for g, p := range s.globWrite {
		if _, ok := st.globWr[g]; !ok {
			st.globWr[g] = p
			st.changed = true
		}
	}
	if res == nil {
		return
	}
	cont := st.mapRoots(s, args, s.retCont, callSite)
	if len(cont) > 0 {
		st.addContents(callSite, cont, leak{pos: pos, what: "result of " + name + " still references its operand"})
	}
	if len(s.ret) == 1 {
		if isRefType(res.Type()) {
			st.set(res, st.mapRoots(s, args, s.ret[0], callSite))
		}
		return
	}
	t := make([]rset, len(s.ret))
	all := rset{}
	for i := range s.ret {
		t[i] = st.mapRoots(s, args, s.ret[i], callSite)
		all.addAll(t[i])
	}
	st.tuple[res] = t
	if isRefType(res.Type()) {
		st.set(res, all)
	}
}

// summarize projects the state onto the function's interface.
func (st *fstate) summarize() *summary {
	s := &summary{fn: st.fn, nparams: len(st.fn.Params), globRead: st.globRead, globWrite: st.globWr, retCont: rset{}}
	s.muts = append(s.muts, st.muts...)
	sort.Slice(s.muts, func(i, j int) bool {
		a, b := s.muts[i], s.muts[j]
		if a.pos != b.pos {
			return a.pos < b.pos
		}
		return a.via < b.via
	})
	for k, v := range st.stores {
		so := storeInto{param: k[0], lvl: k[1], fl: k[2], vals: rset{}, inner: rset{}}
		for r := range v {
			if r.k == rSite {
				so.vals.add(root{k: rFreshRet})
				for c := range st.loadPlus(rset{r: {}}) {
					if c.k != rSite {
						so.inner.add(c)
					}
				}
			} else {
				so.vals.add(r)
			}
		}
		s.stores = append(s.stores, so)
	}
	sort.Slice(s.stores, func(i, j int) bool {
		a, b := s.stores[i], s.stores[j]
		if a.param != b.param {
			return a.param < b.param
		}
		if a.lvl != b.lvl {
			return a.lvl < b.lvl
		}
		return a.fl < b.fl
	})
	s.ret = make([]rset, len(st.rets))
	s.retFresh = make([]bool, len(st.rets))
	seenLeak := map[string]bool{}
	for i, rs := range st.rets {
		out := rset{}
		for r := range rs {
			if r.k == rSite {
				out.add(root{k: rFreshRet})
				s.retFresh[i] = true
				// contents of everything reachable from this site
				reach := st.closure(rset{r: {}})
				for c := range reach {
					if c.k != rSite {
						s.retCont.add(c)
					}
				}
				// witnesses: stores that put a parameter root into a site reachable from the result
				for c := range reach {
					if c.k != rSite {
						continue
					}
					for k, w := range st.witness {
						if siteEq(k[0], c) && (k[1].isParam() || k[1].k == rGlobal) {
							id := fmt.Sprintf("%v/%d/%s", k[1], w.pos, w.field)
							if !seenLeak[id] {
								seenLeak[id] = true
								s.leaks = append(s.leaks, w)
							}
						}
					}
				}
				for k, w := range st.witness {
					if siteEq(k[0], r) {
						id := fmt.Sprintf("%v/%d/%s", k[1], w.pos, w.field)
						if !seenLeak[id] {
							seenLeak[id] = true
							s.leaks = append(s.leaks, w)
						}
					}
				}
			} else {
				out.add(r)
			}
		}
		s.ret[i] = out
	}
	sort.Slice(s.leaks, func(i, j int) bool {
		if s.leaks[i].pos != s.leaks[j].pos {
			return s.leaks[i].pos < s.leaks[j].pos
		}
		return s.leaks[i].r.String() < s.leaks[j].r.String()
	})
	// signature for fixpoint detection
	var sb strings.Builder
	for _, m := range s.muts {
		fmt.Fprintf(&sb, "m%d/%d/%d/%v/%v/%d;", m.param, m.lvl, m.fl, m.glob != nil, m.app, m.pos)
	}
	for _, so := range s.stores {
		fmt.Fprintf(&sb, "s%d/%d/%d/%s/%s;", so.param, so.lvl, so.fl, so.vals, so.inner)
	}
	for i, r := range s.ret {
		fmt.Fprintf(&sb, "r%d%s;", i, r)
	}
	fmt.Fprintf(&sb, "c%s;", s.retCont)
	var gs []string
	for g := range s.globRead {
		gs = append(gs, "R"+g.Name())
	}
	for g := range s.globWrite {
		gs = append(gs, "W"+g.Name())
	}
	sort.Strings(gs)
	sb.WriteString(strings.Join(gs, ","))
	fmt.Fprintf(&sb, "L%d", len(s.leaks))
	s.sig = sb.String()
	return s
}

// dump prints the per-instruction origins of one function (development aid: PROTOLINT_DEBUG_FN).
func (o *origins) dump(name string) {
	for fn, st := range o.states {
		if fnName(fn) != name {
			continue
		}
		fmt.Printf("=== %s\n", name)
		var all []*ssa.Function
		var collect func(f *ssa.Function)
		collect = func(f *ssa.Function) {
			all = append(all, f)
			for _, a := range f.AnonFuncs {
				collect(a)
			}
		}
		collect(fn)
		for _, f := range all {
			for _, b := range f.Blocks {
				for _, ins := range b.Instrs {
					if v, ok := ins.(ssa.Value); ok {
						fmt.Printf("  %s = %s   pts=%s", v.Name(), ins, st.pts[v])
						if c, ok := st.contents[root{k: rSite, v: v}]; ok {
							fmt.Printf("  contents=%s", c)
						}
						fmt.Println()
					} else {
						fmt.Printf("  %s\n", ins)
					}
				}
			}
		}
		s := o.sums[fn]
		for _, m := range s.muts {
			fmt.Printf("  MUT param=%d deep=%v app=%v %s via=%s @%s\n", m.param, m.deep, m.app, m.what, m.via, o.p.Pos(m.pos))
		}
		for i, r := range s.ret {
			fmt.Printf("  RET%d %s fresh=%v\n", i, r, s.retFresh[i])
		}
		fmt.Printf("  RETCONT %s\n", s.retCont)
		for _, so := range s.stores {
			fmt.Printf("  STORE into P%d lvl=%d fl=%d vals=%s inner=%s\n", so.param, so.lvl, so.fl, so.vals, so.inner)
		}
		for _, l := range s.leaks {
			fmt.Printf("  LEAK %s field=%s %s @%s\n", l.r, l.field, l.what, o.p.Pos(l.pos))
		}
	}
}

func siteEq(a, b root) bool { return a.k == rSite && b.k == rSite && a.v == b.v }
