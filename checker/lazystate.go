package main

// lazy-state-initialised-before-access (C17): package-level state that is filled on first use by
// `once.Do(func() { … })` has one initialiser function. Every other function that touches that
// state must have run the initialiser first — on every path, before the access. A registration
// that skips it is overwritten when the initialiser runs later (the defaults are stored over it),
// and a lookup that skips it sees an empty registry: the result depends on which call came first,
// which no sequential order of the calls explains.

import (
	"fmt"
	"sort"

	"golang.org/x/tools/go/ssa"
)

func lazyStateInitialisedFirst(c *Ctx) {
	const R = "lazy-state-initialised-before-access"
	c.rule(R, "for every function F that runs (*sync.Once).Do on a package-level Once with a closure touching package-level variables S: every other function of the module that refers to a variable of S calls F in a block that dominates the reference (SSA dominator tree), package initialisers excepted")
	type lazy struct {
		init  *ssa.Function
		body  *ssa.Function // the function handed to Do
		state map[*ssa.Global]bool
	}
	var lazies []lazy
	for _, fn := range c.P.Funcs {
		if fn.Parent() != nil {
			continue
		}
		for _, b := range fn.Blocks {
			for _, ins := range b.Instrs {
				call, ok := ins.(*ssa.Call)
				if !ok {
					continue
				}
				sc := call.Common().StaticCallee()
				if sc == nil || sc.String() != "(*sync.Once).Do" || len(call.Common().Args) != 2 {
					continue
				}
				onceG, isG := call.Common().Args[0].(*ssa.Global)
				if !isG || !c.P.inModuleGlobal(onceG) {
					continue
				}
				var closure *ssa.Function
				switch a := call.Common().Args[1].(type) {
				case *ssa.MakeClosure:
					closure, _ = a.Fn.(*ssa.Function)
				case *ssa.Function:
					closure = a
				}
				if closure == nil {
					continue
				}
				st := map[*ssa.Global]bool{}
				for _, cb := range closure.Blocks {
					for _, ci := range cb.Instrs {
						for _, op := range ci.Operands(nil) {
							if g, isGl := (*op).(*ssa.Global); isGl && g != onceG && c.P.inModuleGlobal(g) {
								st[g] = true
							}
						}
					}
				}
				if len(st) > 0 {
					lazies = append(lazies, lazy{fn, closure, st})
				}
			}
		}
	}
	n := 0
	for _, lz := range lazies {
		for _, fn := range c.P.Funcs {
			if fn == lz.init || fn == lz.body || isInitFn(fn) || len(fn.Blocks) == 0 {
				continue
			}
			// closures of the initialiser itself
			inInit := false
			for p := fn.Parent(); p != nil; p = p.Parent() {
				if p == lz.init || p == lz.body {
					inInit = true
				}
			}
			if inInit {
				continue
			}
			// blocks that call the initialiser, with the position of the call inside the block
			callAt := map[*ssa.BasicBlock]int{}
			for _, b := range fn.Blocks {
				for i, ins := range b.Instrs {
					if call, ok := ins.(*ssa.Call); ok && call.Common().StaticCallee() == lz.init {
						if _, seen := callAt[b]; !seen {
							callAt[b] = i
						}
					}
				}
			}
			bad := map[string]ssa.Instruction{}
			touched := map[string]bool{}
			for _, b := range fn.Blocks {
				for i, ins := range b.Instrs {
					for _, op := range ins.Operands(nil) {
						g, isG := (*op).(*ssa.Global)
						if !isG || !lz.state[g] {
							continue
						}
						touched[globalName(g)] = true
						ok := false
						for cb, ci := range callAt {
							if cb == b && ci < i {
								ok = true
							} else if cb != b && cb.Dominates(b) {
								ok = true
							}
						}
						if !ok {
							if _, seen := bad[globalName(g)]; !seen {
								bad[globalName(g)] = ins
							}
						}
					}
				}
			}
			var names []string
			for g := range touched {
				names = append(names, g)
			}
			sort.Strings(names)
			for _, g := range names {
				n++
				key := fnName(fn) + "#" + g
				if ins, isBad := bad[g]; isBad {
					c.bad(R, key, c.P.Pos(ins.Pos()), fmt.Sprintf("%s uses %s without having called %s first: %s is filled on first use by that function, so an entry stored here before the first use is overwritten when the defaults are loaded later (and a removal is undone); the registry's content then depends on which call happened to come first", fnName(fn), g, fnName(lz.init), g))
				} else {
					c.ok(R, key, c.P.Pos(fn.Pos()), "calls "+fnName(lz.init)+" before touching "+g)
				}
			}
		}
	}
	if n == 0 {
		c.okTrivial(R, "module", "-", "no lazily initialised package state outside its initialiser")
	}
}
