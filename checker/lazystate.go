package main

// lazy-state-initialised-before-access (C17): package-level state that is filled on first use by
// `once.Do(func() { … })` has one initialiser function. Every other function that touches that
// state must have run the initialiser first — on every path, before the access. A registration
// that skips it is overwritten when the initialiser runs later (the defaults are stored over it),
// and a lookup that skips it sees an empty registry: the result depends on which call came first,
// which no sequential order of the calls explains.

import (
	"fmt"
	"go/ast"
	"go/types"
	"sort"
	"strings"

	"golang.org/x/tools/go/types/typeutil"

	"golang.org/x/tools/go/ssa"
)

func lazyStateInitialisedFirst(c *Ctx) {
	const R = "lazy-state-initialised-before-access"
	c.rule(R, "for every function F that runs (*sync.Once).Do on a package-level Once with a closure touching package-level variables S: every other function of the module that refers to a variable of S calls F in a block that dominates the reference (SSA dominator tree), package initialisers excepted")
	type lazy struct {
		init  *ssa.Function
		body  *ssa.Function // the function handed to Do
		state map[*ssa.Global]bool
	}
	var lazies []lazy
	for _, fn := range c.P.Funcs {
		if fn.Parent() != nil {
			continue
		}
		for _, b := range fn.Blocks {
			for _, ins := range b.Instrs {
				call, ok := ins.(*ssa.Call)
				if !ok {
					continue
				}
				sc := call.Common().StaticCallee()
				if sc == nil || sc.String() != "(*sync.Once).Do" || len(call.Common().Args) != 2 {
					continue
				}
				onceG, isG := call.Common().Args[0].(*ssa.Global)
				if !isG || !c.P.inModuleGlobal(onceG) {
					continue
				}
				var closure *ssa.Function
				switch a := call.Common().Args[1].(type) {
				case *ssa.MakeClosure:
					closure, _ = a.Fn.(*ssa.Function)
				case *ssa.Function:
					closure = a
				}
				if closure == nil {
					continue
				}
				st := map[*ssa.Global]bool{}
				for _, cb := range closure.Blocks {
					for _, ci := range cb.Instrs {
						for _, op := range ci.Operands(nil) {
							if g, isGl := (*op).(*ssa.Global); isGl && g != onceG && c.P.inModuleGlobal(g) {
								st[g] = true
							}
						}
					}
				}
				if len(st) > 0 {
					lazies = append(lazies, lazy{fn, closure, st})
				}
			}
		}
	}
	n := 0
	for _, lz := range lazies {
		for _, fn := range c.P.Funcs {
			if fn == lz.init || fn == lz.body || isInitFn(fn) || len(fn.Blocks) == 0 {
				continue
			}
			// closures of the initialiser itself
			inInit := false
			for p := fn.Parent(); p != nil; p = p.Parent() {
				if p == lz.init || p == lz.body {
					inInit = true
				}
			}
			if inInit {
				continue
			}
			// blocks that call the initialiser, with the position of the call inside the block
			callAt := map[*ssa.BasicBlock]int{}
			for _, b := range fn.Blocks {
				for i, ins := range b.Instrs {
					if call, ok := ins.(*ssa.Call); ok && call.Common().StaticCallee() == lz.init {
						if _, seen := callAt[b]; !seen {
							callAt[b] = i
						}
					}
				}
			}
			bad := map[string]ssa.Instruction{}
			touched := map[string]bool{}
			for _, b := range fn.Blocks {
				for i, ins := range b.Instrs {
					for _, op := range ins.Operands(nil) {
						g, isG := (*op).(*ssa.Global)
						if !isG || !lz.state[g] {
							continue
						}
						touched[globalName(g)] = true
						ok := false
						for cb, ci := range callAt {
							if cb == b && ci < i {
								ok = true
							} else if cb != b && cb.Dominates(b) {
								ok = true
							}
						}
						if !ok {
							if _, seen := bad[globalName(g)]; !seen {
								bad[globalName(g)] = ins
							}
						}
					}
				}
			}
			var names []string
			for g := range touched {
				names = append(names, g)
			}
			sort.Strings(names)
			for _, g := range names {
				n++
				key := fnName(fn) + "#" + g
				if ins, isBad := bad[g]; isBad {
					c.bad(R, key, c.P.Pos(ins.Pos()), fmt.Sprintf("%s uses %s without having called %s first: %s is filled on first use by that function, so an entry stored here before the first use is overwritten when the defaults are loaded later (and a removal is undone); the registry's content then depends on which call happened to come first", fnName(fn), g, fnName(lz.init), g))
				} else {
					c.ok(R, key, c.P.Pos(fn.Pos()), "calls "+fnName(lz.init)+" before touching "+g)
				}
			}
		}
	}
	if n == 0 {
		c.okTrivial(R, "module", "-", "no lazily initialised package state outside its initialiser")
	}
}

// oneRegistryLookupPerOperation (C17): a write (or parse) resolves its driver once. An operation
// that looks the registry up again between its phases can be handed a different driver — or none —
// by a registration that lands in between: the document serialized by one driver is rendered by
// another, which no sequential order of the calls produces.
func oneRegistryLookupPerOperation(c *Ctx) {
	const R = "one-registry-lookup-per-operation"
	c.rule(R, "WriteStreamWithOptions reaches GetFormatSerializer, and ParseStreamWithOptions reaches GetFormatUnserializer, through exactly one call site on the static call paths of the module (counted transitively), and that site is not inside a loop")
	for _, p := range [][2]string{
		{"writer.(*Writer).WriteStreamWithOptions", "writer.GetFormatSerializer"},
		{"reader.(*Reader).ParseStreamWithOptions", "reader.GetFormatUnserializer"},
	} {
		d := c.decl(R, p[0])
		if d == nil {
			continue
		}
		// number of lookups a call of fn performs (max over... the sum over its static call sites)
		memo := map[string]int{}
		var count func(dd *declInfo, depth int) int
		count = func(dd *declInfo, depth int) int {
			if v, ok := memo[dd.name]; ok {
				return v
			}
			if depth > 6 {
				return 0
			}
			memo[dd.name] = 0
			n := 0
			for _, cs := range callsIn(dd.pkg, dd.fd.Body) {
				name := objName(cs.callee)
				if name == p[1] {
					n++
					continue
				}
				if cs.callee.Pkg() == nil || !strings.HasPrefix(cs.callee.Pkg().Path(), modPath+"/") {
					continue
				}
				fd, pk := c.P.FuncDecl(name)
				if fd == nil || fd.Body == nil {
					continue
				}
				n += count(&declInfo{fd: fd, pkg: pk, obj: cs.callee, name: name}, depth+1)
			}
			memo[dd.name] = n
			return n
		}
		n := count(d, 0)
		c.check(n == 1, R, p[0], c.P.Pos(d.fd.Pos()), "one lookup of the driver per operation",
			fmt.Sprintf("%s reaches %s through %d call sites: the driver is resolved more than once (or never) during one operation, so a registration or removal between the phases changes the driver in mid-operation", p[0], p[1], n))
	}
}

// writerTouchesOnlyCallersFile (C17): two concurrent WriteFile calls share nothing but the
// directory. A scratch file whose name is not unique per call (process id, fixed suffix) is a
// shared resource without a lock: the calls truncate and rename each other's file. Intermediate
// files come from os.CreateTemp; every other file-system call of pkg/writer names the caller's path.
func writerTouchesOnlyCallersFile(c *Ctx) {
	const R = "writer-files-are-per-call"
	c.rule(R, "in pkg/writer the path handed to os.Create, os.OpenFile, os.WriteFile, os.Rename or os.Remove is a string parameter of the enclosing function or the name of a file obtained from os.CreateTemp in that function; no path is put together from process-wide values")
	pk := c.P.pkg("pkg/writer")
	if pk == nil {
		c.undecided(R, "anchor:pkg/writer", "-", "package not found")
		return
	}
	n := 0
	for _, file := range pk.Syntax {
		for _, dd := range file.Decls {
			fd, ok := dd.(*ast.FuncDecl)
			if !ok || fd.Body == nil {
				continue
			}
			obj, _ := pk.TypesInfo.Defs[fd.Name].(*types.Func)
			if obj == nil {
				continue
			}
			d := &declInfo{fd: fd, pkg: pk, obj: obj, name: objName(obj)}
			params := map[types.Object]bool{}
			for _, fl := range fd.Type.Params.List {
				for _, nm := range fl.Names {
					params[pk.TypesInfo.Defs[nm]] = true
				}
			}
			// names of temp files: t.Name() where t comes from os.CreateTemp
			temps := map[types.Object]bool{}
			defs := singleDefs(pk, fd.Body)
			for o, def := range defs {
				if ce, isCall := ast.Unparen(def).(*ast.CallExpr); isCall {
					if f, _ := typeutil.Callee(pk.TypesInfo, ce).(*types.Func); f != nil && f.FullName() == "os.CreateTemp" {
						temps[o] = true
					}
				}
			}
			k := 0
			for _, cs := range callsIn(pk, fd.Body) {
				switch cs.callee.FullName() {
				case "os.Create", "os.OpenFile", "os.WriteFile", "os.Rename", "os.Remove", "os.RemoveAll":
				default:
					continue
				}
				nargs := 1
				if cs.callee.Name() == "Rename" {
					nargs = 2
				}
				for ai := 0; ai < nargs && ai < len(cs.call.Args); ai++ {
					k++
					n++
					a := chase(pk, defs, cs.call.Args[ai])
					okPath := false
					if o := objOf(pk, a); o != nil && params[o] {
						okPath = true
					}
					if ce, isCall := ast.Unparen(a).(*ast.CallExpr); isCall {
						if sel, isSel := ce.Fun.(*ast.SelectorExpr); isSel && sel.Sel.Name == "Name" && temps[objOf(pk, sel.X)] {
							okPath = true
						}
					}
					c.check(okPath, R, fmt.Sprintf("%s#%s@%d", d.name, cs.callee.Name(), k), c.P.Pos(cs.call.Pos()), "the caller's path or a per-call temporary",
						fmt.Sprintf("%s hands %s the path %s, which is neither the caller's path nor the name of an os.CreateTemp file: concurrent calls writing into the same directory share that file and overwrite or rename each other's data", d.name, cs.callee.FullName(), exprText(c.P.Fset, cs.call.Args[ai])))
				}
			}
		}
	}
	c.floor(R, 1, "os.Create in WriteFileWithOptions")
}
