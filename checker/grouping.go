package main

// Grouping indexes. A conversion that first groups the elements of a source collection in a local
// index (idx[key] = append(idx[key], element)) and then converts the groups converts every
// element only if every group is visited. Visiting the groups by ranging over the index (or over
// its keys, or over the source collection again) is total; visiting them under keys that come from
// somewhere else — a work list seeded with the root elements, another collection — converts only
// the groups those keys happen to name, and the other elements are silently dropped.

import (
	"fmt"
	"go/ast"
	"go/token"
	"go/types"
)

func (c *Ctx) groupedSourceConsumed(rule string, ds []*declInfo) {
	for _, d := range ds {
		if d.fd.Body == nil {
			continue
		}
		info := d.pkg.TypesInfo
		type fill struct {
			loop *ast.RangeStmt
			src  string
		}
		fills := map[types.Object]fill{}
		// 1. local maps filled with the elements of a ranged collection
		ast.Inspect(d.fd.Body, func(n ast.Node) bool {
			rs, ok := n.(*ast.RangeStmt)
			if !ok {
				return true
			}
			var elem types.Object
			if rs.Value != nil {
				elem = objOf(d.pkg, rs.Value)
			}
			var key types.Object
			if rs.Key != nil {
				key = objOf(d.pkg, rs.Key)
			}
			if elem == nil && key == nil {
				return true
			}
			for _, st := range rs.Body.List {
				ast.Inspect(st, func(m ast.Node) bool {
					if _, isLit := m.(*ast.FuncLit); isLit {
						return false
					}
					as, isAs := m.(*ast.AssignStmt)
					if !isAs || len(as.Lhs) != 1 || len(as.Rhs) != 1 {
						return true
					}
					ix, isIx := as.Lhs[0].(*ast.IndexExpr)
					if !isIx {
						return true
					}
					idx := objOf(d.pkg, ix.X)
					if idx == nil || !declaredInside(idx, d.fd.Body) {
						return true
					}
					mt, isMap := idx.Type().Underlying().(*types.Map)
					if !isMap {
						return true
					}
					// the stored value carries the element: a group (slice) or the element itself
					switch mt.Elem().Underlying().(type) {
					case *types.Slice, *types.Pointer:
					default:
						return true
					}
					carries := false
					ast.Inspect(as.Rhs[0], func(x ast.Node) bool {
						if id, isId := x.(*ast.Ident); isId {
							if o := objOf(d.pkg, id); o != nil && (o == elem) {
								carries = true
							}
						}
						if ie, isIE := x.(*ast.IndexExpr); isIE && key != nil && objOf(d.pkg, ie.Index) == key && normText(exprText(c.P.Fset, ie.X)) == normText(exprText(c.P.Fset, rs.X)) {
							carries = true
						}
						return true
					})
					if carries {
						if _, seen := fills[idx]; !seen {
							fills[idx] = fill{rs, normText(exprText(c.P.Fset, rs.X))}
						}
					}
					return true
				})
			}
			return true
		})
		if len(fills) == 0 {
			continue
		}
		// 2. loops over a group taken out of such an index
		groupOf := func(e ast.Expr) (types.Object, ast.Expr) { // idx, key expression
			e = ast.Unparen(e)
			if ix, ok := e.(*ast.IndexExpr); ok {
				if o := objOf(d.pkg, ix.X); o != nil {
					if _, isFill := fills[o]; isFill {
						return o, ix.Index
					}
				}
			}
			return nil, nil
		}
		localGroups := map[types.Object][2]interface{}{} // group local → {idx, key}
		ast.Inspect(d.fd.Body, func(n ast.Node) bool {
			as, ok := n.(*ast.AssignStmt)
			if !ok || len(as.Rhs) != 1 || len(as.Lhs) < 1 {
				return true
			}
			if idx, k := groupOf(as.Rhs[0]); idx != nil {
				if lo := objOf(d.pkg, as.Lhs[0]); lo != nil {
					localGroups[lo] = [2]interface{}{idx, k}
				}
			}
			return true
		})
		seenIdx := map[types.Object]int{}
		ast.Inspect(d.fd.Body, func(n ast.Node) bool {
			rs, ok := n.(*ast.RangeStmt)
			if !ok {
				return true
			}
			idx, k := groupOf(rs.X)
			if idx == nil {
				if lo := objOf(d.pkg, rs.X); lo != nil {
					if g, isG := localGroups[lo]; isG {
						idx, k = g[0].(types.Object), g[1].(ast.Expr)
					}
				}
			}
			if idx == nil || rs.Pos() < fills[idx].loop.End() {
				return true
			}
			// does the loop (or a loop nested in it) convert?
			converts := len(accumulateSteps(d, rs, rs.Body)) > 0
			if !converts {
				return true
			}
			seenIdx[idx]++
			okKey, from := c.groupKeyTotal(d, idx, k, fills[idx].src, rs)
			construct := fmt.Sprintf("%s/group:%s", ownerName(d), types.TypeString(idx.Type(), func(p *types.Package) string { return p.Name() }))
			if seenIdx[idx] > 1 {
				construct += fmt.Sprintf("@%d", seenIdx[idx])
			}
			_ = info
			c.check(okKey, rule, construct, c.P.Pos(rs.Pos()), "every group of the index is visited ("+from+")",
				fmt.Sprintf("the elements of %s are grouped in the local index %s, but the groups are converted only under keys that come from %s: elements whose group no such key names are silently dropped", fills[idx].src, idx.Name(), from))
			return true
		})
	}
}

func declaredInside(o types.Object, body *ast.BlockStmt) bool {
	return o.Pos() >= body.Pos() && o.Pos() <= body.End()
}

// groupKeyTotal: where does the key of a group lookup come from?
func (c *Ctx) groupKeyTotal(d *declInfo, idx types.Object, k ast.Expr, src string, at ast.Node) (bool, string) {
	// the base variable of the key expression (n.Id → n)
	var ko types.Object
	ast.Inspect(k, func(x ast.Node) bool {
		if id, ok := x.(*ast.Ident); ok && ko == nil {
			if o := objOf(d.pkg, id); o != nil {
				if _, isVar := o.(*types.Var); isVar {
					ko = o
				}
			}
		}
		return ko == nil
	})
	if ko == nil {
		return false, "the expression `" + exprText(c.P.Fset, k) + "`"
	}
	// a range variable?
	var res *bool
	var from string
	set := func(b bool, s string) { res = &b; from = s }
	derivedFromIdx := func(o types.Object) bool {
		// keys := helper(idx) / keys = append(keys, k) inside `range idx`
		found := false
		ast.Inspect(d.fd.Body, func(x ast.Node) bool {
			as, ok := x.(*ast.AssignStmt)
			if !ok {
				return true
			}
			for i, l := range as.Lhs {
				if objOf(d.pkg, l) != o {
					continue
				}
				var r ast.Expr
				if len(as.Rhs) == len(as.Lhs) {
					r = as.Rhs[i]
				} else if len(as.Rhs) == 1 {
					r = as.Rhs[0]
				}
				if r == nil {
					continue
				}
				mentions := false
				ast.Inspect(r, func(y ast.Node) bool {
					if id, isId := y.(*ast.Ident); isId && objOf(d.pkg, id) == idx {
						mentions = true
					}
					return true
				})
				if mentions {
					found = true
				}
				// appended inside a range over idx
				for _, en := range enclosing(d.fd.Body, as) {
					if rs, isR := en.(*ast.RangeStmt); isR && objOf(d.pkg, rs.X) == idx {
						found = true
					}
				}
			}
			return true
		})
		return found
	}
	ast.Inspect(d.fd.Body, func(x ast.Node) bool {
		rs, ok := x.(*ast.RangeStmt)
		if !ok || res != nil {
			return res == nil
		}
		if (rs.Key != nil && objOf(d.pkg, rs.Key) == ko) || (rs.Value != nil && objOf(d.pkg, rs.Value) == ko) {
			if rs.Pos() > at.Pos() || rs.End() < at.End() {
				return true // not an enclosing loop
			}
			xo := objOf(d.pkg, rs.X)
			switch {
			case xo == idx:
				set(true, "a range over the index itself")
			case normText(exprText(c.P.Fset, rs.X)) == src:
				set(true, "a range over the grouped collection "+src)
			case xo != nil && derivedFromIdx(xo):
				set(true, "a range over "+xo.Name()+", which is derived from the index")
			default:
				set(false, "a range over "+exprText(c.P.Fset, rs.X))
			}
		}
		return true
	})
	if res != nil {
		return *res, from
	}
	// an ordinary local: every definition
	var defs []string
	ast.Inspect(d.fd.Body, func(x ast.Node) bool {
		as, ok := x.(*ast.AssignStmt)
		if !ok {
			return true
		}
		for i, l := range as.Lhs {
			if objOf(d.pkg, l) == ko && (as.Tok == token.DEFINE || as.Tok == token.ASSIGN) {
				if len(as.Rhs) == len(as.Lhs) {
					defs = append(defs, exprText(c.P.Fset, as.Rhs[i]))
				} else if len(as.Rhs) == 1 {
					defs = append(defs, exprText(c.P.Fset, as.Rhs[0]))
				}
			}
		}
		return true
	})
	if len(defs) > 0 {
		return false, "`" + ko.Name() + " := " + defs[0] + "`"
	}
	return false, "`" + ko.Name() + "`"
}
