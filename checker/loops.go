package main

// E9 (loop part) — conversion-loop totality on the structured syntax tree.
//
// A conversion loop is a `range`/`for` whose body performs an *accumulate step*: an append into
// a variable or field declared outside the loop, a store into an outer map, or a call of a
// mutator method (Add*, Relate*) on an outer object. For such a loop the rule enumerates
//   exits  — `break` resolved to the loop (a break inside an inner switch/select belongs to that
//            statement), and `return` inside the loop body;
//   skips  — every guard under which an element reaches the loop's back edge without the
//            accumulate step: `continue` guards ahead of the step and the path condition
//            (enclosing if/switch clauses) of the step itself.
// Each guard is classified structurally (kind filter, inexpressible value, empty mandatory
// value, nil element, dedupe, index miss, ...) and must be admitted by the loop's entry in the
// allowed-skip table, which carries one reason per class. Exits other than error returns are
// violations unless the table admits them.

import (
	"fmt"
	"go/ast"
	"go/token"
	"go/types"
	"sort"
	"strings"

	"golang.org/x/tools/go/packages"
	"golang.org/x/tools/go/types/typeutil"
)

type loopInfo struct {
	d       *declInfo
	stmt    ast.Stmt // *ast.RangeStmt or *ast.ForStmt
	body    *ast.BlockStmt
	subject string // what is ranged: field name or type
	id      string // function + "/" + subject
	altID   string // function + "/" + subject named without the callers' bindings
	typeID  string // function + "/" + type of the ranged expression
	accs    []accStep
	exits   []loopExit
	guards  []guard
	paths   []skipPath
	nested  bool
	tooMany bool
}

// skipPath is one way through the loop body that reaches the back edge without an accumulate
// step; decisions are the branch conditions taken along it.
type skipPath struct {
	end       string // fallthrough | continue
	endPos    token.Pos
	decisions []guard
}

type accStep struct {
	stmt ast.Stmt
	what string
}

type loopExit struct {
	pos  token.Pos
	kind string // break | return-value | return-error | return-plain | goto
	desc string
}

type guard struct {
	pos   token.Pos
	class string
	desc  string
	via   string // continue | enclosing-if | switch-clause
	holds bool   // the atom, as written, is true on this path
}

// breakTarget resolves an unlabeled/labeled break or continue to its statement.
func branchTarget(root ast.Node, br *ast.BranchStmt, labels map[string]ast.Stmt) ast.Node {
	chain := enclosing(root, br)
	if br.Label != nil {
		return labels[br.Label.Name]
	}
	for i := len(chain) - 2; i >= 0; i-- {
		switch s := chain[i].(type) {
		case *ast.ForStmt, *ast.RangeStmt:
			return s
		case *ast.SwitchStmt, *ast.TypeSwitchStmt, *ast.SelectStmt:
			if br.Tok == token.BREAK {
				return s
			}
		case *ast.FuncLit:
			return nil
		}
	}
	return nil
}

func rangeSubject(d *declInfo, s ast.Stmt) string {
	switch l := s.(type) {
	case *ast.RangeStmt:
		x := l.X
		for {
			switch e := x.(type) {
			case *ast.ParenExpr:
				x = e.X
				continue
			case *ast.StarExpr:
				x = e.X
				continue
			}
			break
		}
		if sel, ok := x.(*ast.SelectorExpr); ok {
			return canonField(sel.Sel.Name)
		}
		if ce, ok := x.(*ast.CallExpr); ok {
			if sel, ok := ce.Fun.(*ast.SelectorExpr); ok {
				// a generated getter ranges the same collection as the field it wraps
				if len(ce.Args) == 0 && strings.HasPrefix(sel.Sel.Name, "Get") && len(sel.Sel.Name) > 3 {
					return strings.TrimPrefix(sel.Sel.Name, "Get")
				}
				return sel.Sel.Name + "()"
			}
		}
		if id, ok := x.(*ast.Ident); ok {
			// a local bound once to a lookup or field (`hs, ok := index[k]`, `xs := n.Items`) ranges
			// the same collection as the expression it was bound to
			if o := objOf(d.pkg, id); o != nil {
				var def ast.Expr
				n := 0
				ast.Inspect(d.fd.Body, func(m ast.Node) bool {
					as, isAs := m.(*ast.AssignStmt)
					if !isAs || len(as.Lhs) == 0 || len(as.Rhs) == 0 {
						return true
					}
					for i, lh := range as.Lhs {
						if objOf(d.pkg, lh) == o {
							n++
							if len(as.Rhs) == len(as.Lhs) {
								def = as.Rhs[i]
							} else if i == 0 {
								def = as.Rhs[0]
							}
						}
					}
					return true
				})
				if n == 1 && def != nil {
					switch dx := def.(type) {
					case *ast.IndexExpr, *ast.SelectorExpr:
						return rangeSubject(d, &ast.RangeStmt{X: def})
					case *ast.StarExpr, *ast.ParenExpr:
						// xs := *p — the collection p points to
						return rangeSubject(d, &ast.RangeStmt{X: def})
					case *ast.Ident:
						if objOf(d.pkg, dx) != o {
							return rangeSubject(d, &ast.RangeStmt{X: def})
						}
					case *ast.CallExpr:
						// xs := recv.helper(…): named after the (canonical) callee, not after the local
						if f, _ := typeutil.Callee(d.pkg.TypesInfo, dx).(*types.Func); f != nil {
							fn := objName(f)
							base := fn[strings.LastIndex(fn, ".")+1:]
							if len(dx.Args) == 0 && strings.HasPrefix(base, "Get") && len(base) > 3 {
								return strings.TrimPrefix(base, "Get")
							}
							return base + "()"
						}
					}
				}
				// a parameter bound, at every call site in the module, to the same collection is named
				// after that collection (buildPackages(nodes) called with bom.NodeList.Nodes ranges "Nodes")
				if bound := paramSubject(d, o); bound != "" {
					return bound
				}
				// parameters and other locals are named by their type: renaming them is not a change
				if t := o.Type(); t != nil {
					return types.TypeString(t, func(p *types.Package) string { return p.Name() })
				}
			}
			return id.Name
		}
		if t := d.pkg.TypesInfo.TypeOf(x); t != nil {
			if tup, isTup := t.(*types.Tuple); isTup && tup.Len() > 0 {
				t = tup.At(0).Type() // comma-ok lookup
			}
			return types.TypeString(t, func(p *types.Package) string { return p.Name() })
		}
	case *ast.ForStmt:
		if l.Cond != nil {
			return "for " + types.ExprString(l.Cond)
		}
		return "for"
	}
	return "?"
}

// declaredOutside reports whether o is declared outside node (and is not a package-level object).
func declaredOutside(o types.Object, node ast.Node) bool {
	if o == nil {
		return false
	}
	return o.Pos() < node.Pos() || o.Pos() > node.End()
}

// baseObj finds the root variable of an lvalue-ish expression: x, x.F, x.F[i], *x, (*x).F
func baseObj(d *declInfo, e ast.Expr) types.Object {
	for {
		switch x := e.(type) {
		case *ast.ParenExpr:
			e = x.X
		case *ast.StarExpr:
			e = x.X
		case *ast.SelectorExpr:
			if si := d.pkg.TypesInfo.Selections[x]; si == nil {
				return nil // qualified identifier
			}
			e = x.X
		case *ast.IndexExpr:
			e = x.X
		case *ast.SliceExpr:
			e = x.X
		case *ast.Ident:
			return objOf(d.pkg, x)
		case *ast.CallExpr:
			// getter chain: x.GetY().F
			if sel, ok := x.Fun.(*ast.SelectorExpr); ok {
				e = sel.X
				continue
			}
			return nil
		default:
			return nil
		}
	}
}

// builtInLoop: the loop-local variable o holds a value constructed in this iteration (composite
// literal, &literal, new/make) — stores into it build the element, they do not accumulate.
func builtInLoop(d *declInfo, o types.Object, loop ast.Node) bool {
	built := false
	other := false // some assignment gives it memory that was not built here (a lookup, a parameter, …)
	defer func() { _ = other }()
	ast.Inspect(loop, func(n ast.Node) bool {
		var lhs []ast.Expr
		var rhs []ast.Expr
		switch s := n.(type) {
		case *ast.AssignStmt:
			lhs, rhs = s.Lhs, s.Rhs
		case *ast.ValueSpec:
			for _, nm := range s.Names {
				lhs = append(lhs, nm)
			}
			rhs = s.Values
			if len(rhs) == 0 {
				for _, nm := range s.Names {
					if d.pkg.TypesInfo.Defs[nm] == o {
						built = true // var x T: zero value built here
					}
				}
			}
		default:
			return true
		}
		if len(lhs) != len(rhs) {
			// v, ok := m[k] / v, err := f(): bound to something that was not built here
			if len(rhs) == 1 {
				for _, l := range lhs {
					if objOf(d.pkg, l) == o {
						other = true
					}
				}
			}
			return true
		}
		for i, l := range lhs {
			if objOf(d.pkg, l) != o {
				continue
			}
			e := rhs[i]
			if u, ok := e.(*ast.UnaryExpr); ok && u.Op == token.AND {
				e = u.X
			}
			switch x := e.(type) {
			case *ast.CompositeLit:
				built = true
			case *ast.CallExpr:
				if id, ok := x.Fun.(*ast.Ident); ok && (id.Name == "new" || id.Name == "make") {
					built = true
				} else {
					other = true
				}
			case *ast.IndexExpr, *ast.SelectorExpr, *ast.Ident, *ast.StarExpr:
				// bound to existing memory: `byType, ok := index[k]` — stores through it reach the
				// outer structure even if another branch builds a fresh value
				if tv, isC := d.pkg.TypesInfo.Types[e]; !(isC && tv.Value != nil) && !tv.IsNil() {
					other = true
				}
			}
		}
		return true
	})
	return built && !other
}

var mutatorPrefixes = []string{"Add", "Relate", "Remove", "Set", "Merge", "Store", "Update", "Augment"}

// accumulateSteps finds the accumulate steps of a loop body (not descending into nested loops'
// own accumulations that target variables declared inside this loop).
func accumulateSteps(d *declInfo, loop ast.Stmt, body *ast.BlockStmt) []accStep {
	var out []accStep
	info := d.pkg.TypesInfo
	ast.Inspect(body, func(n ast.Node) bool {
		if _, ok := n.(*ast.FuncLit); ok {
			return false
		}
		switch s := n.(type) {
		case *ast.AssignStmt:
			for i, l := range s.Lhs {
				o := baseObj(d, l)
				if o == nil {
					continue
				}
				if !declaredOutside(o, loop) {
					// a store through a loop-local reference (x.F = …, x[i] = …) writes memory that
					// outlives the iteration unless x is an element being built in this iteration
					if _, bare := l.(*ast.Ident); bare || builtInLoop(d, o, loop) {
						continue
					}
				}
				if _, isPkg := o.(*types.PkgName); isPkg {
					continue
				}
				// append into outer
				if i < len(s.Rhs) {
					if ce, ok := s.Rhs[i].(*ast.CallExpr); ok {
						if id, ok := ce.Fun.(*ast.Ident); ok && id.Name == "append" {
							out = append(out, accStep{s, "append to " + types.ExprString(l)})
							continue
						}
					}
				}
				// map/slice element store into outer
				if ix, ok := l.(*ast.IndexExpr); ok {
					if t := info.TypeOf(ix.X); t != nil {
						if _, isMap := t.Underlying().(*types.Map); isMap {
							out = append(out, accStep{s, "store into map " + types.ExprString(ix.X)})
							continue
						}
					}
				}
				// any other store into memory declared outside the loop
				if id, isIdent := l.(*ast.Ident); isIdent && id.Name == "_" {
					continue
				}
				if s.Tok == token.DEFINE {
					continue
				}
				out = append(out, accStep{s, "store to " + types.ExprString(l)})
			}
		case *ast.ExprStmt:
			if ce, ok := s.X.(*ast.CallExpr); ok {
				// a helper of the module that writes through one of its parameters (or its receiver):
				// the call is the accumulate step when that argument outlives the iteration
				if what := callWritesOuter(d, loop, ce); what != "" {
					out = append(out, accStep{s, what})
				}
				if sel, ok := ce.Fun.(*ast.SelectorExpr); ok {
					f, _ := typeutil.Callee(info, ce).(*types.Func)
					if f != nil && f.Type().(*types.Signature).Recv() != nil {
						for _, p := range mutatorPrefixes {
							if strings.HasPrefix(sel.Sel.Name, p) {
								if o := baseObj(d, sel.X); o != nil && (declaredOutside(o, loop) || !builtInLoop(d, o, loop)) {
									out = append(out, accStep{s, "call " + types.ExprString(sel)})
								}
							}
						}
					}
				}
			}
		case *ast.IfStmt:
			// `if err := x.Relate...(…); err != nil` — mutator call in the init
			if as, ok := s.Init.(*ast.AssignStmt); ok && len(as.Rhs) == 1 {
				if ce, ok := as.Rhs[0].(*ast.CallExpr); ok {
					if what := callWritesOuter(d, loop, ce); what != "" {
						out = append(out, accStep{s, what})
						return true
					}
					if sel, ok := ce.Fun.(*ast.SelectorExpr); ok {
						for _, p := range mutatorPrefixes {
							if strings.HasPrefix(sel.Sel.Name, p) {
								if o := baseObj(d, sel.X); o != nil && declaredOutside(o, loop) {
									out = append(out, accStep{s, "call " + types.ExprString(sel)})
								}
							}
						}
					}
				}
			}
		}
		return true
	})
	return out
}

// loopsIn enumerates the loops of a declaration with their accumulate steps, exits and guards.
func (c *Ctx) loopsIn(d *declInfo) []*loopInfo {
	var out []*loopInfo
	labels := map[string]ast.Stmt{}
	ast.Inspect(d.fd.Body, func(n ast.Node) bool {
		if ls, ok := n.(*ast.LabeledStmt); ok {
			labels[ls.Label.Name] = ls.Stmt
		}
		return true
	})
	errT := types.Universe.Lookup("error").Type()
	resultsHaveError := false
	if res := d.fd.Type.Results; res != nil && len(res.List) > 0 {
		last := res.List[len(res.List)-1]
		if t := d.pkg.TypesInfo.TypeOf(last.Type); t != nil && types.Identical(t, errT) {
			resultsHaveError = true
		}
	}
	var visit func(n ast.Node, depth int)
	visit = func(root ast.Node, depth int) {
		ast.Inspect(root, func(n ast.Node) bool {
			if n == root {
				return true
			}
			if _, ok := n.(*ast.FuncLit); ok {
				return false
			}
			var body *ast.BlockStmt
			switch l := n.(type) {
			case *ast.RangeStmt:
				body = l.Body
			case *ast.ForStmt:
				body = l.Body
			default:
				return true
			}
			st := n.(ast.Stmt)
			li := &loopInfo{d: d, stmt: st, body: body, subject: rangeSubject(d, st), nested: depth > 0}
			owner := ownerName(d)
			li.id = owner + "/" + li.subject
			// the same loop named without looking at the callers (policy rows may use either name)
			noParamBinding = true
			li.altID = owner + "/" + rangeSubject(d, li.stmt)
			noParamBinding = false
			// … and by the type of what is ranged
			if rs, isRange := li.stmt.(*ast.RangeStmt); isRange {
				if t := d.pkg.TypesInfo.TypeOf(rs.X); t != nil {
					if tup, isTup := t.(*types.Tuple); isTup && tup.Len() > 0 {
						t = tup.At(0).Type()
					}
					// an unexported named container of the module is the container it names
					if nt, isNamed := t.(*types.Named); isNamed && nt.Obj().Pkg() != nil && strings.HasPrefix(nt.Obj().Pkg().Path(), modPath+"/") && !nt.Obj().Exported() {
						switch nt.Underlying().(type) {
						case *types.Map, *types.Slice:
							t = nt.Underlying()
						}
					}
					li.typeID = owner + "/" + types.TypeString(t, func(p *types.Package) string { return p.Name() })
				}
			}
			li.accs = accumulateSteps(d, st, body)
			// exits
			ast.Inspect(body, func(m ast.Node) bool {
				if _, ok := m.(*ast.FuncLit); ok {
					return false
				}
				switch s := m.(type) {
				case *ast.BranchStmt:
					switch s.Tok {
					case token.BREAK:
						if branchTarget(d.fd.Body, s, labels) == n {
							li.exits = append(li.exits, loopExit{s.Pos(), "break", "break out of the loop"})
						}
					case token.GOTO:
						li.exits = append(li.exits, loopExit{s.Pos(), "goto", "goto"})
					}
				case *ast.ReturnStmt:
					kind := "return-plain"
					if len(s.Results) > 0 {
						kind = "return-value"
						if resultsHaveError {
							last := s.Results[len(s.Results)-1]
							if !isNilIdent(d.pkg, last) {
								kind = "return-error"
								// an error that travels with a partly built result is an early exit
								// with a value: a caller that tolerates the error keeps the part
								for _, r := range s.Results[:len(s.Results)-1] {
									if !isZeroValueExpr(d.pkg, r) {
										kind = "return-value"
									}
								}
							}
						}
					}
					li.exits = append(li.exits, loopExit{s.Pos(), kind, "return " + exprList(s.Results)})
				}
				return true
			})
			if len(li.accs) > 0 {
				c.enumSkipPaths(d, li, labels)
			}
			out = append(out, li)
			visit(body, depth+1)
			return false
		})
	}
	visit(d.fd.Body, 0)
	return out
}

func exprList(es []ast.Expr) string {
	var ss []string
	for _, e := range es {
		ss = append(ss, types.ExprString(e))
	}
	return strings.Join(ss, ", ")
}

// guardsOf classifies the conditions between the loop body and stmt.
// For a `continue`, the guard is the condition under which it is reached; for an accumulate
// step, the (negated) guard is the condition under which the step is NOT reached.
func (c *Ctx) guardsOf(d *declInfo, li *loopInfo, stmt ast.Node, via string) []guard {
	var out []guard
	chain := enclosing(li.body, stmt)
	for i, n := range chain {
		if i+1 >= len(chain) {
			break
		}
		switch s := n.(type) {
		case *ast.IfStmt:
			inBody := chain[i+1] == ast.Node(s.Body)
			inElse := s.Else != nil && chain[i+1] == ast.Node(s.Else)
			if !inBody && !inElse {
				continue
			}
			// for a continue: the guard holds (inBody) or fails (inElse) when skipping.
			// for an accumulate step: skipping happens when the guard fails (inBody).
			skipWhenTrue := inBody
			if via == "enclosing" {
				skipWhenTrue = !inBody
			}
			for _, alt := range c.classifyCond(d, li, s, skipWhenTrue) {
				for _, g := range alt {
					g.via = via
					out = append(out, g)
				}
			}
		case *ast.CaseClause:
			// the step sits in one clause of a switch: elements taking other clauses skip it
			if via != "enclosing" {
				continue
			}
			// find the owning switch
			for j := i - 1; j >= 0; j-- {
				if sw, ok := chain[j].(*ast.SwitchStmt); ok {
					tagT := "bool"
					if sw.Tag != nil {
						if t := d.pkg.TypesInfo.TypeOf(sw.Tag); t != nil {
							tagT = types.TypeString(t, func(p *types.Package) string { return p.Name() })
						}
					}
					out = append(out, guard{pos: s.Pos(), class: "switch-filter(" + tagT + ")", desc: "only some clauses of the switch on " + tagT + " accumulate", via: "switch-clause"})
					break
				}
			}
		case *ast.RangeStmt, *ast.ForStmt:
			// an accumulate step inside a nested loop: zero iterations of the inner loop skip it;
			// this is element-wise conversion of a sub-collection, not a skip of the outer element
		}
	}
	// de-duplicate
	seen := map[string]bool{}
	var uniq []guard
	for _, g := range out {
		k := g.class + "@" + fmt.Sprint(g.pos)
		if !seen[k] {
			seen[k] = true
			uniq = append(uniq, g)
		}
	}
	return uniq
}

// classifyCond turns "the condition evaluates to `want`" into a disjunction of conjunctions of
// classified atoms (DNF): each alternative is one way for the element to take that branch, and
// each alternative has to be justified on its own (a skip under `A || B` needs a reason for A
// and a reason for B).
func (c *Ctx) classifyCond(d *declInfo, li *loopInfo, ifs *ast.IfStmt, want bool) [][]guard {
	var dnf func(e ast.Expr, want bool) [][]guard
	cross := func(a, b [][]guard) [][]guard {
		var out [][]guard
		for _, x := range a {
			for _, y := range b {
				out = append(out, append(append([]guard{}, x...), y...))
			}
		}
		return out
	}
	dnf = func(e ast.Expr, want bool) [][]guard {
		switch x := e.(type) {
		case *ast.ParenExpr:
			return dnf(x.X, want)
		case *ast.UnaryExpr:
			if x.Op == token.NOT {
				return dnf(x.X, !want)
			}
		case *ast.BinaryExpr:
			switch x.Op {
			case token.LAND:
				if want {
					return cross(dnf(x.X, true), dnf(x.Y, true))
				}
				return append(dnf(x.X, false), cross(dnf(x.X, true), dnf(x.Y, false))...)
			case token.LOR:
				if want {
					return append(dnf(x.X, true), cross(dnf(x.X, false), dnf(x.Y, true))...)
				}
				return cross(dnf(x.X, false), dnf(x.Y, false))
			}
		}
		cls, desc := c.classifyAtom(d, li, ifs, e, !want)
		return [][]guard{{{pos: e.Pos(), class: cls, desc: desc, holds: want}}}
	}
	alts := dnf(ifs.Cond, want)
	if len(alts) > 16 {
		alts = alts[:16]
	}
	return alts
}

// classifyAtom returns the structural class of one atomic condition. `negated` tells whether
// the atom is false when the element is skipped.
func (c *Ctx) classifyAtom(d *declInfo, li *loopInfo, ifs *ast.IfStmt, a ast.Expr, negated bool) (string, string) {
	// normalise `x != k` to not(`x == k`)
	flip := false
	if be, ok := a.(*ast.BinaryExpr); ok && be.Op == token.NEQ {
		flip = true
	}
	cls, desc := c.classifyAtom0(d, li, ifs, a, negated)
	if strings.HasPrefix(cls, "present-in-index") || strings.HasPrefix(cls, "absent-from-index") || cls == "dedupe" ||
		cls == "placement-dependent" || cls == "unknown-enum-number" || cls == "known-enum-number" {
		return cls, desc // membership classes encode their own polarity
	}
	// classes whose reason holds under `!=` (an error is present) rather than `==`
	if strings.HasSuffix(cls, "\x00NEQ") {
		cls = strings.TrimSuffix(cls, "\x00NEQ")
		flip = !flip
	}
	if _, isCmp := a.(*ast.BinaryExpr); isCmp {
		if be := a.(*ast.BinaryExpr); be.Op != token.EQL && be.Op != token.NEQ {
			flip = false
		}
	}
	if negated != flip {
		return "not:" + cls, desc
	}
	return cls, desc
}

func (c *Ctx) classifyAtom0(d *declInfo, li *loopInfo, ifs *ast.IfStmt, a ast.Expr, negated bool) (string, string) {
	info := d.pkg.TypesInfo
	text := types.ExprString(a)
	if negated {
		text = "!(" + text + ")"
	}
	defs := singleDefs(d.pkg, d.fd.Body)
	// a map[K]bool used as a set: `if seen[k]` / `if !seen[k]`
	if ix := boolSetLookup(d, a); ix != nil {
		return c.classifyMembership(d, li, ix, !negated, text)
	}
	// a slice used as a set: `slices.Contains(seen, k)`
	if ix := sliceSetLookup(d, a); ix != nil {
		return c.classifyMembership(d, li, ix, !negated, text)
	}
	// comma-ok lookup in the if's init: `_, ok := m[k]`
	if id, ok := a.(*ast.Ident); ok {
		as, ok2 := ifs.Init.(*ast.AssignStmt)
		if !(ok2 && len(as.Lhs) == 2 && len(as.Rhs) == 1 && objOf(d.pkg, as.Lhs[1]) == objOf(d.pkg, id)) {
			// `_, ok := m[k]` as a separate statement with a single definition of ok
			ok2 = false
			target := objOf(d.pkg, id)
			n := 0
			ast.Inspect(d.fd.Body, func(m ast.Node) bool {
				if s, isA := m.(*ast.AssignStmt); isA && len(s.Lhs) == 2 && len(s.Rhs) == 1 && objOf(d.pkg, s.Lhs[1]) == target && target != nil {
					if _, isIx := s.Rhs[0].(*ast.IndexExpr); isIx {
						as = s
						n++
					}
				}
				return true
			})
			ok2 = n == 1
		}
		if ok2 && len(as.Lhs) == 2 && len(as.Rhs) == 1 {
			if objOf(d.pkg, as.Lhs[1]) == objOf(d.pkg, id) {
				if ix, ok3 := as.Rhs[0].(*ast.IndexExpr); ok3 {
					return c.classifyMembership(d, li, ix, !negated, text)
				}
			}
		}
		// a boolean local: look through its definition
		if o := objOf(d.pkg, id); o != nil {
			if def, ok := defs[o]; ok {
				if ce, ok := def.(*ast.CallExpr); ok {
					if f, _ := typeutil.Callee(info, ce).(*types.Func); f != nil {
						// the second result of a module converter (v, ok): !ok says the value has no image
						if sig, _ := f.Type().(*types.Signature); sig != nil && sig.Results().Len() == 2 && f.Pkg() != nil && strings.HasPrefix(f.Pkg().Path(), modPath+"/") {
							if b, isB := sig.Results().At(1).Type().Underlying().(*types.Basic); isB && b.Kind() == types.Bool && types.Identical(o.Type().Underlying(), b) {
								if _, firstIsBool := sig.Results().At(0).Type().Underlying().(*types.Basic); !firstIsBool || sig.Results().At(0).Type().Underlying().(*types.Basic).Kind() != types.Bool {
									return "inexpressible(" + objName(f) + ")\x00NEQ", text + " — the converter reports the value is not expressible"
								}
							}
						}
						return "predicate(" + objName(f) + ")", text
					}
				}
			}
		}
	}
	if be, ok := a.(*ast.BinaryExpr); ok {
		x, y := be.X, be.Y
		if _, isC := constOf(d.pkg, x); isC || isNilIdent(d.pkg, x) {
			x, y = y, x
		}
		// x == nil
		if isNilIdent(d.pkg, y) {
			cx := chase(d.pkg, defs, x)
			if t := info.TypeOf(x); t != nil && types.Identical(t, types.Universe.Lookup("error").Type()) {
				// err from a converter
				if ce, ok := cx.(*ast.CallExpr); ok {
					if f, _ := typeutil.Callee(info, ce).(*types.Func); f != nil {
						return "inexpressible(" + objName(f) + ")\x00NEQ", text + " — the converter reports the value is not expressible"
					}
				}
				return "error-check\x00NEQ", text
			}
			if _, ok := cx.(*ast.CallExpr); ok {
				return "lookup-miss", text + " — a lookup returned nothing"
			}
			if f := selectorField(d.pkg, x); f != nil {
				return "nil-field(" + f.Name() + ")", text
			}
			return "nil-element", text
		}
		if v, isC := constOf(d.pkg, y); isC {
			// kind filter: x.Type == Node_FILE
			if f := selectorField(d.pkg, x); f != nil {
				if nt, ok := f.Type().(*types.Named); ok && strings.HasSuffix(nt.Obj().Name(), "NodeType") {
					return "kind-filter", text
				}
				if v.isStr() && v.str() == "" {
					if sel, ok := x.(*ast.SelectorExpr); ok {
						if _, isField := sel.X.(*ast.SelectorExpr); isField {
							// x.A.B == "" : empty nested value
							return "empty(" + f.Name() + ")", text
						}
					}
					return "empty(" + f.Name() + ")", text
				}
			}
			cx := chase(d.pkg, defs, x)
			if ce, ok := cx.(*ast.CallExpr); ok {
				if f, _ := typeutil.Callee(info, ce).(*types.Func); f != nil {
					// a generated getter reads the field: x.GetId() == "" is empty(Id), not a converter
					if gf := generatedGetterField(f); gf != "" && len(ce.Args) == 0 {
						if v.isStr() && v.str() == "" {
							return "empty(" + gf + ")", text
						}
						return "field-value(" + gf + ")", text
					}
					if f.Pkg() != nil && strings.HasPrefix(f.Pkg().Path(), modPath+"/") {
						return "inexpressible(" + objName(f) + ")", text + " — the converter has no image for the value"
					}
					if id, ok := ce.Fun.(*ast.Ident); ok && id.Name == "len" {
						return "len-test", text
					}
					return "predicate(" + f.FullName() + ")", text
				}
				if id, ok := ce.Fun.(*ast.Ident); ok && id.Name == "len" {
					return "len-test", text
				}
			}
			if v.isStr() && v.str() == "" {
				// a local that holds a field's value (or a constant default): empty(F)
				if id, ok := x.(*ast.Ident); ok {
					target := objOf(d.pkg, id)
					var flds []string
					other := false
					ast.Inspect(d.fd.Body, func(n ast.Node) bool {
						as, ok := n.(*ast.AssignStmt)
						if !ok || len(as.Lhs) != len(as.Rhs) {
							return true
						}
						for i, l := range as.Lhs {
							if objOf(d.pkg, l) != target || target == nil {
								continue
							}
							if f := selectorField(d.pkg, as.Rhs[i]); f != nil {
								flds = append(flds, f.Name())
							} else if _, isC := constOf(d.pkg, as.Rhs[i]); !isC {
								other = true
							}
						}
						return true
					})
					if len(flds) == 1 && !other {
						return "empty(" + flds[0] + ")", text
					}
				}
				return "empty-value", text
			}
			if f := selectorField(d.pkg, x); f != nil {
				return "field-test(" + f.Name() + ")", text
			}
		}
		// x != y between variables
		// an edge target compared with the edge's own source: the self-edge test
		if be.Op == token.EQL || be.Op == token.NEQ {
			isFrom := func(e ast.Expr) bool {
				f := selectorField(d.pkg, chase(d.pkg, defs, e))
				return f != nil && f.Name() == "From"
			}
			isElem := func(e ast.Expr) bool {
				if rs, isRange := li.stmt.(*ast.RangeStmt); isRange && rs.Value != nil {
					return objOf(d.pkg, e) != nil && objOf(d.pkg, e) == objOf(d.pkg, rs.Value)
				}
				return false
			}
			if (isFrom(x) && isElem(y)) || (isFrom(y) && isElem(x)) {
				return "self-edge", text
			}
			// the same test on the components: dict[target] == parent (pointer identity)
			isEntryOfElem := func(e ast.Expr) bool {
				ix, ok := chase(d.pkg, defs, e).(*ast.IndexExpr)
				return ok && isElem(ix.Index)
			}
			samePtr := func(a, b ast.Expr) bool {
				ta, tb := info.TypeOf(a), info.TypeOf(b)
				if ta == nil || tb == nil || !types.Identical(ta, tb) {
					return false
				}
				_, isPtr := ta.Underlying().(*types.Pointer)
				return isPtr
			}
			if samePtr(x, y) && (isEntryOfElem(x) || isEntryOfElem(y)) {
				return "self-edge", text
			}
		}
		return "comparison", text
	}
	if ce, ok := a.(*ast.CallExpr); ok {
		if f, _ := typeutil.Callee(info, ce).(*types.Func); f != nil {
			return "predicate(" + objName(f) + ")", text
		}
		// the predicate handed to a generic filter helper: keep(v) — the decision is the caller's
		if id, isId := ce.Fun.(*ast.Ident); isId {
			if pv, isVar := info.Uses[id].(*types.Var); isVar {
				if _, isFn := pv.Type().Underlying().(*types.Signature); isFn && d.fd.Type.Params != nil {
					for _, fl := range d.fd.Type.Params.List {
						for _, nm := range fl.Names {
							if info.Defs[nm] == pv {
								return "caller-predicate", text + " — the function value is a parameter: what is kept is decided where the helper is called"
							}
						}
					}
				}
			}
		}
	}
	if id, ok := a.(*ast.Ident); ok {
		if v, isC := constOf(d.pkg, id); isC {
			return "constant(" + v.c.ExactString() + ")", text
		}
	}
	if v, isC := constOf(d.pkg, a); isC {
		return "constant(" + v.c.ExactString() + ")", text
	}
	return "unclassified", text
}

// ---- the rule ----

type loopPolicy struct {
	// allowed guard classes (prefix match) → reason
	skips map[string]string
	// allowed exits: kind → reason ("break", "return-value", "return-plain")
	exits map[string]string
}

// loopTotality evaluates the rule over the given declarations with the policy table keyed by
// loop id (function "/" subject). Loops without an entry admit no skip and no non-error exit.
func (c *Ctx) loopTotality(rule string, ds []*declInfo, table map[string]loopPolicy, commonSkips map[string]string) {
	n := 0
	c.groupedSourceConsumed(rule, ds)
	for _, d := range ds {
		for _, li := range c.loopsIn(d) {
			if len(li.accs) == 0 {
				continue
			}
			n++
			pol, hasPol := table[li.id]
			if !hasPol {
				pol, hasPol = table[li.altID]
			}
			if !hasPol && li.typeID != "" {
				pol = table[li.typeID]
			}
			pos := c.P.Pos(li.stmt.Pos())
			// exits
			bad := false
			for _, e := range li.exits {
				if e.kind == "return-error" {
					continue
				}
				if why, ok := pol.exits[e.kind]; ok {
					c.info("%s: exit %s admitted: %s", li.id, e.kind, why)
					continue
				}
				bad = true
				c.bad(rule, li.id+"#exit:"+e.kind, c.P.Pos(e.pos), fmt.Sprintf("conversion loop over %s (accumulating: %s) has a truncating exit `%s`: every later element is silently dropped", li.subject, li.accs[0].what, e.desc))
			}
			// skips: a path is admitted when at least one decision on it is of an admitted class
			// (the skip then happens only when that reason holds) and none is forbidden
			if li.tooMany {
				bad = true
				c.undecided(rule, li.id+"#paths", pos, "too many paths through the loop body to enumerate")
			}
			reported := map[string]bool{}
			for _, sp := range li.paths {
				ok := false
				var classes []string
				var first guard
				for i, g := range sp.decisions {
					classes = append(classes, g.class)
					if i == 0 {
						first = g
					}
					if admitted(g.class, pol.skips) || admitted(g.class, commonSkips) {
						ok = true
					}
				}
				for k := range pol.skips {
					if strings.Contains(k, "&") {
						all := true
						for _, part := range strings.Split(k, "&") {
							has := false
							for _, cl := range classes {
								if cl == part || strings.HasPrefix(cl, part+"(") {
									has = true
								}
							}
							all = all && has
						}
						if all {
							ok = true
						}
					}
				}
				for _, g := range sp.decisions {
					if g.class == "placement-dependent" {
						ok = false
						first = g
					}
					// an element recorded as seen and then not accepted shadows every later element
					// with the same key: with repeated keys the outcome depends on the order of the list
					if g.class == "marks-seen" && !admitted("marks-seen", pol.skips) {
						ok = false
						first = g
					}
				}
				if ok {
					continue
				}
				bad = true
				// name the path by the decision adjacent to the skip (or the forbidden one)
				key := "unconditional"
				if len(classes) > 0 {
					key = classes[len(classes)-1]
				}
				for _, cl := range classes {
					if cl == "placement-dependent" || cl == "marks-seen" {
						key = cl
					}
				}
				if reported[key] {
					continue
				}
				reported[key] = true
				where := c.P.Pos(sp.endPos)
				if first.pos.IsValid() {
					where = c.P.Pos(first.pos)
				}
				var descs []string
				for _, g := range sp.decisions {
					descs = append(descs, g.class+": "+g.desc)
				}
				c.bad(rule, li.id+"#skip:"+key, where, fmt.Sprintf("conversion loop over %s (accumulating: %s) lets an element reach the next iteration without being converted, under [%s]; no decision on that path is in the loop's allowed-skip table: the element is silently dropped", li.subject, li.accs[0].what, strings.Join(descs, "; ")))
			}
			// the accumulate step is a helper call: the helper's own exits decide as well
			for _, acc := range li.accs {
				var ce *ast.CallExpr
				switch st := acc.stmt.(type) {
				case *ast.ExprStmt:
					ce, _ = st.X.(*ast.CallExpr)
				case *ast.IfStmt:
					if as, ok := st.Init.(*ast.AssignStmt); ok && len(as.Rhs) == 1 {
						ce, _ = as.Rhs[0].(*ast.CallExpr)
					}
				}
				if ce == nil || !strings.HasPrefix(acc.what, "call ") {
					continue
				}
				f, _ := typeutil.Callee(d.pkg.TypesInfo, ce).(*types.Func)
				if f == nil || f.Pkg() == nil || !strings.HasPrefix(f.Pkg().Path(), modPath+"/") || f == d.obj {
					continue
				}
				guards := calleeWriteGuards(f)
				if len(guards) == 0 {
					continue
				}
				cls := "callee-guard(" + objName(f) + ")"
				if admitted(cls, pol.skips) || admitted(cls, commonSkips) {
					continue
				}
				bad = true
				c.bad(rule, li.id+"#skip:"+cls, c.P.Pos(ce.Pos()), fmt.Sprintf("the loop over %s hands each element to %s, which takes it only when [%s] allows: elements failing that test are silently dropped, and nothing in the loop's allowed-skip table admits it", li.subject, objName(f), strings.Join(guards, "; ")))
			}
			// loop-carried alias: the address of a variable that outlives one iteration is
			// stored into a per-iteration element — every element ends up sharing one buffer
			// … or appended to the list being built: `xs = append(xs, &v)` with v declared outside
			// the loop and rewritten by it — every element is the same pointer
			ast.Inspect(li.body, func(m ast.Node) bool {
				ce, ok := m.(*ast.CallExpr)
				if !ok {
					return true
				}
				if id, isId := ce.Fun.(*ast.Ident); !isId || id.Name != "append" || len(ce.Args) < 2 {
					return true
				}
				for _, a := range ce.Args[1:] {
					u, ok := a.(*ast.UnaryExpr)
					if !ok || u.Op != token.AND {
						continue
					}
					id, ok := u.X.(*ast.Ident)
					if !ok {
						continue
					}
					v := objOf(d.pkg, id)
					if v == nil || !declaredOutside(v, li.stmt) || !isLocal(d, v) {
						continue
					}
					written := false
					ast.Inspect(li.body, func(k ast.Node) bool {
						if as, isAs := k.(*ast.AssignStmt); isAs {
							for _, l := range as.Lhs {
								if baseObj(d, l) == v {
									written = true
								}
							}
						}
						return !written
					})
					if written {
						bad = true
						c.bad("loop-carried-alias", li.id+"#&"+v.Name(), c.P.Pos(ce.Pos()), fmt.Sprintf("inside the loop over %s the address of %s, which is declared outside the loop and rewritten in it, is appended to %s: all appended elements are one pointer and show the last iteration's contents", li.subject, v.Name(), types.ExprString(ce.Args[0])))
					}
				}
				return true
			})
			ast.Inspect(li.body, func(m ast.Node) bool {
				as, ok := m.(*ast.AssignStmt)
				if !ok {
					return true
				}
				for i, r := range as.Rhs {
					u, ok := r.(*ast.UnaryExpr)
					if !ok || u.Op != token.AND || i >= len(as.Lhs) {
						continue
					}
					id, ok := u.X.(*ast.Ident)
					if !ok {
						continue
					}
					v := objOf(d.pkg, id)
					if v == nil || !declaredOutside(v, li.stmt) || !isLocal(d, v) {
						continue
					}
					if _, isSel := as.Lhs[i].(*ast.SelectorExpr); !isSel {
						continue
					}
					// the destination must be per-iteration (declared inside the loop)
					if dst := baseObj(d, as.Lhs[i]); dst != nil && !declaredOutside(dst, li.stmt) {
						bad = true
						c.bad("loop-carried-alias", li.id+"#&"+v.Name(), c.P.Pos(as.Pos()), fmt.Sprintf("inside the loop over %s the address of %s, which is declared outside the loop, is stored into the per-element %s: all elements share one buffer and see the last iteration's contents", li.subject, v.Name(), types.ExprString(as.Lhs[i])))
					}
				}
				return true
			})
			if !bad {
				var cls []string
				seenC := map[string]bool{}
				for _, sp := range li.paths {
					for _, g := range sp.decisions {
						if !seenC[g.class] {
							seenC[g.class] = true
							cls = append(cls, g.class)
						}
					}
				}
				sort.Strings(cls)
				c.ok(rule, li.id, pos, fmt.Sprintf("total: %d accumulate step(s), exits %d (error returns only), skips %v admitted", len(li.accs), len(li.exits), cls))
			}
		}
	}
	_ = n
}

func admitted(class string, m map[string]string) bool {
	for k := range m {
		if class == k || strings.HasPrefix(class, k+"(") || (strings.HasSuffix(k, "*") && strings.HasPrefix(class, strings.TrimSuffix(k, "*"))) {
			return true
		}
	}
	return false
}

// ---- path enumeration over the structured body ----

type pathState struct {
	acc       bool
	decisions []guard
	// the only accumulate step so far sits in a nested loop (it took elements of the sub-collection)
	nestedOnly bool
	// decisions taken after that nested loop
	afterNested []guard
}

const maxPaths = 4096

// enumSkipPaths enumerates the acyclic paths through the loop body and keeps those that reach
// the back edge without an accumulate step.
func (c *Ctx) enumSkipPaths(d *declInfo, li *loopInfo, labels map[string]ast.Stmt) {
	accSet := map[ast.Stmt]bool{}
	for _, a := range li.accs {
		accSet[a.stmt] = true
	}
	// relevant(n): n contains an accumulate step or a branch/return that concerns this loop
	relevant := func(n ast.Node) bool {
		rel := false
		ast.Inspect(n, func(m ast.Node) bool {
			if rel {
				return false
			}
			if _, ok := m.(*ast.FuncLit); ok {
				return false
			}
			switch s := m.(type) {
			case ast.Stmt:
				if accSet[s] {
					rel = true
				}
				switch b := s.(type) {
				case *ast.BranchStmt:
					if t := branchTarget(d.fd.Body, b, labels); t == ast.Node(li.stmt) {
						rel = true
					}
				case *ast.ReturnStmt:
					rel = true
				}
			}
			return true
		})
		return rel
	}
	containsAcc := func(n ast.Node) bool {
		f := false
		ast.Inspect(n, func(m ast.Node) bool {
			if s, ok := m.(ast.Stmt); ok && accSet[s] {
				f = true
			}
			return !f
		})
		return f
	}
	type outcome struct {
		st  pathState
		end string // "" (falls through), continue, exit
		pos token.Pos
	}
	// maps whose membership decides a skip in this loop: `_, ok := M[k]` in an if header or as a
	// statement of the body
	testedMaps := map[string]bool{}
	ast.Inspect(li.body, func(m ast.Node) bool {
		if as, ok := m.(*ast.AssignStmt); ok && len(as.Lhs) == 2 && len(as.Rhs) == 1 {
			if ix, ok := as.Rhs[0].(*ast.IndexExpr); ok {
				if t := d.pkg.TypesInfo.TypeOf(ix.X); t != nil {
					if _, isMap := t.Underlying().(*types.Map); isMap {
						testedMaps[normText(types.ExprString(ix.X))] = true
					}
				}
			}
		}
		return true
	})
	count := 0
	var run func(stmts []ast.Stmt, in pathState) []outcome
	var one func(s ast.Stmt, in pathState) []outcome
	run = func(stmts []ast.Stmt, in pathState) []outcome {
		cur := []outcome{{st: in}}
		for _, s := range stmts {
			var next []outcome
			for _, o := range cur {
				if o.end != "" {
					next = append(next, o)
					continue
				}
				next = append(next, one(s, o.st)...)
			}
			cur = next
			if len(cur) > maxPaths {
				li.tooMany = true
				return cur[:maxPaths]
			}
		}
		return cur
	}
	withDecision := func(in pathState, gs []guard) pathState {
		out := pathState{acc: in.acc, decisions: append(append([]guard{}, in.decisions...), gs...), nestedOnly: in.nestedOnly, afterNested: in.afterNested}
		if in.nestedOnly {
			out.afterNested = append(append([]guard{}, in.afterNested...), gs...)
		}
		return out
	}
	one = func(s ast.Stmt, in pathState) []outcome {
		count++
		if accSet[s] {
			if ifs, ok := s.(*ast.IfStmt); ok {
				// `if err := x.Relate(...); err != nil { return err }`: the call happened
				st := in
				st.acc = true
				st.nestedOnly = false
				var res []outcome
				res = append(res, run(ifs.Body.List, st)...)
				if ifs.Else != nil {
					res = append(res, one(ifs.Else, st)...)
				} else {
					res = append(res, outcome{st: st})
				}
				return res
			}
			st := in
			st.acc = true
			st.nestedOnly = false
			return []outcome{{st: st}}
		}
		switch x := s.(type) {
		case *ast.BlockStmt:
			return run(x.List, in)
		case *ast.LabeledStmt:
			return one(x.Stmt, in)
		case *ast.IfStmt:
			if !relevant(x) {
				return []outcome{{st: in}}
			}
			// `if X == A {…} else if X == B {…} else {…}` is a switch on X written as a chain
			if subj, arms, deflt, isChain := eqChain(d, x); isChain {
				tagT := "?"
				if t := d.pkg.TypesInfo.TypeOf(subj); t != nil {
					tagT = types.TypeString(t, func(p *types.Package) string { return p.Name() })
				}
				var res []outcome
				for _, a := range arms {
					g := guard{pos: a.body.Pos(), class: "switch-case(" + tagT + ":" + exprList([]ast.Expr{a.label}) + ")", desc: "branch " + types.ExprString(a.label) + " of the comparison chain on " + tagT}
					res = append(res, run(a.body.List, withDecision(in, []guard{g}))...)
				}
				g := guard{pos: x.Pos(), class: "switch-default(" + tagT + ")", desc: "no branch of the comparison chain on " + tagT + " matches"}
				if deflt != nil {
					res = append(res, one(deflt, withDecision(in, []guard{g}))...)
				} else {
					res = append(res, outcome{st: withDecision(in, []guard{g})})
				}
				return res
			}
			var res []outcome
			for _, alt := range c.classifyCond(d, li, x, true) {
				res = append(res, run(x.Body.List, withDecision(in, alt))...)
			}
			for _, alt := range c.classifyCond(d, li, x, false) {
				neg := withDecision(in, alt)
				if x.Else != nil {
					res = append(res, one(x.Else, neg)...)
				} else {
					res = append(res, outcome{st: neg})
				}
			}
			return res
		case *ast.SwitchStmt:
			if !relevant(x) {
				return []outcome{{st: in}}
			}
			// a tagless switch over unrelated conditions is an if / else-if chain
			if x.Tag == nil && x.Init == nil {
				if _, _, _, isEq := taglessAsEqChain(d, x); !isEq {
					var chainHead, cur *ast.IfStmt
					var deflt *ast.BlockStmt
					okConv := true
					for _, cc := range x.Body.List {
						cl := cc.(*ast.CaseClause)
						if cl.List == nil {
							deflt = &ast.BlockStmt{Lbrace: cl.Colon, List: cl.Body, Rbrace: cl.End()}
							continue
						}
						var cond ast.Expr
						for _, e := range cl.List {
							if cond == nil {
								cond = e
							} else {
								cond = &ast.BinaryExpr{X: cond, Op: token.LOR, Y: e, OpPos: e.Pos()}
							}
						}
						// a `break` inside a case leaves the switch, which an if-body cannot express
						hasBreak := false
						for _, st := range cl.Body {
							ast.Inspect(st, func(m ast.Node) bool {
								if b, ok := m.(*ast.BranchStmt); ok && b.Tok == token.BREAK && b.Label == nil {
									hasBreak = true
								}
								switch m.(type) {
								case *ast.ForStmt, *ast.RangeStmt, *ast.SwitchStmt, *ast.SelectStmt:
									return false
								}
								return true
							})
						}
						if hasBreak {
							okConv = false
						}
						n := &ast.IfStmt{If: cl.Pos(), Cond: cond, Body: &ast.BlockStmt{Lbrace: cl.Colon, List: cl.Body, Rbrace: cl.End()}}
						if chainHead == nil {
							chainHead = n
						} else {
							cur.Else = n
						}
						cur = n
					}
					if okConv && chainHead != nil {
						if deflt != nil {
							cur.Else = deflt
						}
						return one(chainHead, in)
					}
				}
			}
			tagT := "bool"
			if x.Tag != nil {
				if t := d.pkg.TypesInfo.TypeOf(x.Tag); t != nil {
					tagT = types.TypeString(t, func(p *types.Package) string { return p.Name() })
				}
			}
			// a tagless switch whose cases all compare one subject with constants is the tagged
			// switch on that subject
			taglessLabels := map[*ast.CaseClause]ast.Expr{}
			if x.Tag == nil {
				var subj string
				all := true
				for _, cc := range x.Body.List {
					cl := cc.(*ast.CaseClause)
					if cl.List == nil {
						continue
					}
					if len(cl.List) != 1 {
						all = false
						break
					}
					sx, lbl, ok := eqAtom(d, cl.List[0])
					if !ok || (subj != "" && normText(types.ExprString(sx)) != subj) {
						all = false
						break
					}
					subj = normText(types.ExprString(sx))
					taglessLabels[cl] = lbl
					if t := d.pkg.TypesInfo.TypeOf(sx); t != nil {
						tagT = types.TypeString(t, func(p *types.Package) string { return p.Name() })
					}
				}
				if !all || subj == "" {
					taglessLabels = map[*ast.CaseClause]ast.Expr{}
					tagT = "bool"
				}
			}
			var res []outcome
			hasDefault := false
			for _, cc := range x.Body.List {
				cl := cc.(*ast.CaseClause)
				label := "default"
				if cl.List != nil {
					label = exprList(cl.List)
					if lbl, ok := taglessLabels[cl]; ok {
						label = exprList([]ast.Expr{lbl})
					}
				} else {
					hasDefault = true
				}
				g := guard{pos: cl.Pos(), class: "switch-case(" + tagT + ":" + label + ")", desc: "clause " + label + " of the switch on " + tagT}
				if cl.List == nil {
					g.class = "switch-default(" + tagT + ")"
				}
				for _, o := range run(cl.Body, withDecision(in, []guard{g})) {
					if o.end == "break-switch" {
						o.end = ""
					}
					res = append(res, o)
				}
			}
			if !hasDefault {
				g := guard{pos: x.Pos(), class: "switch-default(" + tagT + ")", desc: "no clause of the switch on " + tagT + " matches"}
				res = append(res, outcome{st: withDecision(in, []guard{g})})
			}
			return res
		case *ast.RangeStmt, *ast.ForStmt:
			st := in
			if containsAcc(x) {
				if !st.acc {
					st.nestedOnly = true
				}
				st.acc = true // element-wise conversion of a sub-collection
			}
			return []outcome{{st: st}}
		case *ast.AssignStmt:
			// a store into a map this loop also tests for membership, on a path that has not
			// (yet) accepted the element: the element is marked as seen before it is examined
			for _, l := range x.Lhs {
				if ix, ok := l.(*ast.IndexExpr); ok && testedMaps[normText(types.ExprString(ix.X))] {
					g := guard{pos: x.Pos(), class: "marks-seen", desc: fmt.Sprintf("%s is recorded in %s before the element is accepted", types.ExprString(ix.Index), types.ExprString(ix.X))}
					return []outcome{{st: withDecision(in, []guard{g})}}
				}
			}
			return []outcome{{st: in}}
		case *ast.BranchStmt:
			t := branchTarget(d.fd.Body, x, labels)
			switch x.Tok {
			case token.CONTINUE:
				if t == ast.Node(li.stmt) {
					return []outcome{{st: in, end: "continue", pos: x.Pos()}}
				}
			case token.BREAK:
				if t == ast.Node(li.stmt) {
					return []outcome{{st: in, end: "exit", pos: x.Pos()}}
				}
				if _, ok := t.(*ast.SwitchStmt); ok {
					return []outcome{{st: in, end: "break-switch", pos: x.Pos()}}
				}
			}
			return []outcome{{st: in}}
		case *ast.ReturnStmt:
			return []outcome{{st: in, end: "exit", pos: x.Pos()}}
		}
		return []outcome{{st: in}}
	}
	// own-level steps: accumulate statements that are not inside a nested loop
	ownSteps := 0
	for _, a := range li.accs {
		nested := false
		for _, en := range enclosing(li.body, a.stmt) {
			if en == ast.Node(a.stmt) {
				continue
			}
			switch en.(type) {
			case *ast.ForStmt, *ast.RangeStmt:
				nested = true
			}
		}
		if !nested {
			ownSteps++
		}
	}
	for _, o := range run(li.body.List, pathState{}) {
		if o.end == "exit" {
			continue
		}
		if o.st.acc {
			// the element's parts were handed on by a nested loop, and a decision taken after that
			// loop then steered around the step that takes the element itself
			if o.st.nestedOnly && ownSteps > 0 && len(o.st.afterNested) > 0 {
				end, pos := o.end, o.pos
				if end == "" {
					end, pos = "fallthrough", li.body.Rbrace
				}
				li.paths = append(li.paths, skipPath{end: end, endPos: pos, decisions: o.st.afterNested})
			}
			continue
		}
		end := o.end
		pos := o.pos
		if end == "" {
			end = "fallthrough"
			pos = li.body.Rbrace
		}
		li.paths = append(li.paths, skipPath{end: end, endPos: pos, decisions: o.st.decisions})
	}
}

// paramsWritten lists the indices of the (non-receiver) parameters of a module function through
// which the function writes: p.F = …, p[i] = …, *p = …, p.F = append(p.F, …), or passing p on to
// another module function that does (two levels).
func paramsWritten(f *types.Func, depth int) []int {
	if theProgram == nil || depth > 2 {
		return nil
	}
	fd, pk := theProgram.FuncDecl(objName(f))
	if fd == nil || fd.Body == nil {
		return nil
	}
	d := &declInfo{fd: fd, pkg: pk, obj: f, name: objName(f)}
	idx := map[types.Object]int{}
	if fd.Recv != nil && len(fd.Recv.List) == 1 && len(fd.Recv.List[0].Names) == 1 {
		idx[pk.TypesInfo.Defs[fd.Recv.List[0].Names[0]]] = -1 // the receiver
	}
	k := 0
	for _, fl := range fd.Type.Params.List {
		for _, n := range fl.Names {
			idx[pk.TypesInfo.Defs[n]] = k
			k++
		}
		if len(fl.Names) == 0 {
			k++
		}
	}
	seen := map[int]bool{}
	ast.Inspect(fd.Body, func(n ast.Node) bool {
		switch s := n.(type) {
		case *ast.FuncLit:
			return false
		case *ast.AssignStmt:
			for _, l := range s.Lhs {
				if _, bare := l.(*ast.Ident); bare {
					continue
				}
				if j, ok := idx[baseObj(d, l)]; ok {
					seen[j] = true
				}
			}
		case *ast.CallExpr:
			if g, _ := typeutil.Callee(pk.TypesInfo, s).(*types.Func); g != nil && g != f && g.Pkg() != nil && strings.HasPrefix(g.Pkg().Path(), modPath+"/") {
				for _, j := range paramsWritten(g, depth+1) {
					if j >= 0 && j < len(s.Args) {
						if jj, ok := idx[baseObj(d, s.Args[j])]; ok {
							seen[jj] = true
						}
					}
					if j == -1 {
						if sel, isSel := s.Fun.(*ast.SelectorExpr); isSel {
							if jj, ok := idx[baseObj(d, sel.X)]; ok {
								seen[jj] = true
							}
						}
					}
				}
			}
		}
		return true
	})
	var out []int
	for j := range seen {
		out = append(out, j)
	}
	sort.Ints(out)
	return out
}

// classifyMembership names a skip decided by the presence (or absence) of ix.Index in the map ix.X.
func (c *Ctx) classifyMembership(d *declInfo, li *loopInfo, ix *ast.IndexExpr, present bool, text string) (string, string) {
	info := d.pkg.TypesInfo
	mexpr := types.ExprString(ix.X)
	kexpr := types.ExprString(ix.Index)
	// does this loop insert into the same map?
	var inserted []string
	ast.Inspect(li.stmt, func(n ast.Node) bool {
		if s, ok := n.(*ast.AssignStmt); ok {
			for _, l := range s.Lhs {
				if lx, ok := l.(*ast.IndexExpr); ok && types.ExprString(lx.X) == mexpr {
					inserted = append(inserted, types.ExprString(lx.Index))
				}
			}
			// a slice used as a set grows by append
			if len(s.Lhs) == 1 && len(s.Rhs) == 1 && types.ExprString(s.Lhs[0]) == mexpr {
				if ce, isCall := s.Rhs[0].(*ast.CallExpr); isCall {
					if id, isId := ce.Fun.(*ast.Ident); isId && id.Name == "append" && len(ce.Args) > 1 && types.ExprString(ce.Args[0]) == mexpr {
						for _, a := range ce.Args[1:] {
							inserted = append(inserted, types.ExprString(a))
						}
					}
				}
			}
		}
		return true
	})
	// … or a helper called from the loop inserts into the same field (the loop was split)
	if sel, isSel := ix.X.(*ast.SelectorExpr); isSel && theProgram != nil {
		field := sel.Sel.Name
		ast.Inspect(li.stmt, func(n ast.Node) bool {
			ce, ok := n.(*ast.CallExpr)
			if !ok {
				return true
			}
			g, _ := typeutil.Callee(info, ce).(*types.Func)
			if g == nil || g.Pkg() == nil || !strings.HasPrefix(g.Pkg().Path(), modPath+"/") {
				return true
			}
			gfd, _ := theProgram.FuncDecl(objName(g))
			if gfd == nil || gfd.Body == nil || gfd == d.fd {
				// (a recursive call repeats this very loop: its inserts are the ones counted above)
				return true
			}
			ast.Inspect(gfd.Body, func(m ast.Node) bool {
				if s, ok := m.(*ast.AssignStmt); ok {
					for _, l := range s.Lhs {
						if lx, ok := l.(*ast.IndexExpr); ok {
							if ls, isS := lx.X.(*ast.SelectorExpr); isS && ls.Sel.Name == field {
								inserted = append(inserted, g.Name()+":"+types.ExprString(lx.Index))
							}
						}
					}
				}
				return true
			})
			return true
		})
	}
	mt := info.TypeOf(ix.X)
	if mt != nil {
		if nt, ok := mt.(*types.Named); ok && strings.HasSuffix(nt.Obj().Name(), "_name") {
			return "unknown-enum-number", text + " — enum number without a generated name"
		}
	}
	var mv types.Object = baseObj(d, ix.X)
	if sel, isSel := ix.X.(*ast.SelectorExpr); isSel && info.Selections[sel] == nil {
		mv = info.Uses[sel.Sel]
	}
	if pv, ok := mv.(*types.Var); ok && pv.Parent() != nil && pv.Pkg() != nil && pv.Parent() == pv.Pkg().Scope() {
		if strings.HasSuffix(pv.Name(), "_name") || strings.HasSuffix(pv.Name(), "_value") {
			if present {
				return "known-enum-number", text
			}
			return "unknown-enum-number", text + " — enum number without a generated name"
		}
	}
	// which index is it? (nodes / roots / edges of an operand, or a set filled by hand)
	qual := ""
	if io := originOfIndex(d, mv); io.kind != "" && io.kind != "set-of" {
		qual = "(" + io.kind + ")"
	}
	if present {
		if len(inserted) == 0 {
			return "present-in-index" + qual, fmt.Sprintf("skips when %s is a key of %s (index not grown by this loop)", kexpr, mexpr)
		}
		same := true
		for _, k := range inserted {
			same = same && k == kexpr
		}
		if same {
			// keyed by the element itself (the ranged value), not by one of its attributes?
			if rs, isRange := li.stmt.(*ast.RangeStmt); isRange && rs.Value != nil && types.ExprString(rs.Value) == kexpr {
				return "dedupe(identity)", fmt.Sprintf("skips when the element %s itself was already inserted into %s by this loop", kexpr, mexpr)
			}
			return "dedupe", fmt.Sprintf("skips when %s was already inserted into %s by this loop (test and insert use the same key)", kexpr, mexpr)
		}
		return "placement-dependent", fmt.Sprintf("skips when %s is a key of %s while this loop inserts %v: the outcome depends on the order of the list", kexpr, mexpr, inserted)
	}
	return "absent-from-index" + qual, fmt.Sprintf("skips when %s is not a key of %s", kexpr, mexpr)
}

// boolSetLookup: e is m[k] on a map[K]bool used as a set — every store into m in the function
// assigns the constant true, so m[k] is exactly "k is a member".
func boolSetLookup(d *declInfo, e ast.Expr) *ast.IndexExpr {
	ix, ok := e.(*ast.IndexExpr)
	if !ok {
		return nil
	}
	if setHasExprs[ix] {
		return ix // a named set's has(k), inlined: membership whatever the value type
	}
	mt := d.pkg.TypesInfo.TypeOf(ix.X)
	if mt == nil {
		return nil
	}
	m, isMap := mt.Underlying().(*types.Map)
	if !isMap {
		return nil
	}
	if b, isB := m.Elem().Underlying().(*types.Basic); !isB || b.Kind() != types.Bool {
		return nil
	}
	mtext := normText(types.ExprString(ix.X))
	okSet := true
	ast.Inspect(d.fd.Body, func(n ast.Node) bool {
		as, isAs := n.(*ast.AssignStmt)
		if !isAs || len(as.Lhs) != len(as.Rhs) {
			return true
		}
		for i, l := range as.Lhs {
			if lx, isIx := l.(*ast.IndexExpr); isIx && normText(types.ExprString(lx.X)) == mtext {
				if v, isC := constOf(d.pkg, as.Rhs[i]); !isC || v.c.String() != "true" {
					okSet = false
				}
			}
		}
		return true
	})
	if !okSet {
		return nil
	}
	return ix
}

type chainArm struct {
	label ast.Expr
	body  *ast.BlockStmt
}

// eqAtom: e is `X == C` (or `C == X`) with C a compile-time constant.
func eqAtom(d *declInfo, e ast.Expr) (subject, label ast.Expr, ok bool) {
	for {
		if p, isP := e.(*ast.ParenExpr); isP {
			e = p.X
			continue
		}
		break
	}
	be, isB := e.(*ast.BinaryExpr)
	if !isB || be.Op != token.EQL {
		return nil, nil, false
	}
	if _, isC := constOf(d.pkg, be.Y); isC {
		if _, both := constOf(d.pkg, be.X); !both {
			return be.X, be.Y, true
		}
	}
	if _, isC := constOf(d.pkg, be.X); isC {
		return be.Y, be.X, true
	}
	return nil, nil, false
}

// eqChain recognises `if X == A {…} else if X == B {…} [else {…}]` with at least two arms, no
// init statements, one subject.
func eqChain(d *declInfo, ifs *ast.IfStmt) (subject ast.Expr, arms []chainArm, deflt ast.Stmt, ok bool) {
	cur := ifs
	subj := ""
	for {
		if cur.Init != nil {
			return nil, nil, nil, false
		}
		sx, lbl, isEq := eqAtom(d, cur.Cond)
		if !isEq {
			return nil, nil, nil, false
		}
		t := normText(types.ExprString(sx))
		if subj != "" && t != subj {
			return nil, nil, nil, false
		}
		subj = t
		subject = sx
		arms = append(arms, chainArm{lbl, cur.Body})
		switch e := cur.Else.(type) {
		case *ast.IfStmt:
			cur = e
			continue
		case nil:
		default:
			deflt = e
		}
		break
	}
	if len(arms) < 2 {
		return nil, nil, nil, false
	}
	return subject, arms, deflt, true
}

type moduleCall struct {
	d    *declInfo
	call *ast.CallExpr
}

var moduleCallsCache map[*types.Func][]moduleCall
var moduleCallsFor *Program

// moduleCalls indexes every statically resolved call of a module function, by callee.
func moduleCalls() map[*types.Func][]moduleCall {
	if moduleCallsCache != nil && moduleCallsFor == theProgram {
		return moduleCallsCache
	}
	moduleCallsCache = map[*types.Func][]moduleCall{}
	moduleCallsFor = theProgram
	if theProgram == nil {
		return moduleCallsCache
	}
	var paths []string
	for path := range theProgram.Pkgs {
		paths = append(paths, path)
	}
	sort.Strings(paths)
	for _, path := range paths {
		pk := theProgram.Pkgs[path]
		if !strings.HasPrefix(path, modPath+"/") || strings.Contains(path, "fakes") {
			continue
		}
		for _, f := range pk.Syntax {
			for _, dd := range f.Decls {
				fd, ok := dd.(*ast.FuncDecl)
				if !ok || fd.Body == nil {
					continue
				}
				obj, _ := pk.TypesInfo.Defs[fd.Name].(*types.Func)
				if obj == nil {
					continue
				}
				cd := &declInfo{fd: fd, pkg: pk, obj: obj, name: objName(obj)}
				ast.Inspect(fd.Body, func(n ast.Node) bool {
					ce, ok := n.(*ast.CallExpr)
					if !ok {
						return true
					}
					if g, _ := typeutil.Callee(pk.TypesInfo, ce).(*types.Func); g != nil {
						if o := g.Origin(); o != nil {
							g = o
						}
						moduleCallsCache[g] = append(moduleCallsCache[g], moduleCall{cd, ce})
					}
					return true
				})
			}
		}
	}
	return moduleCallsCache
}

var paramSubjectBusy = map[types.Object]bool{}

// paramSubject: o is a parameter of d; if every call of d in the module passes a collection
// with one and the same subject, that subject.
var noParamBinding bool

func paramSubject(d *declInfo, o types.Object) string {
	if noParamBinding {
		return ""
	}
	if d.obj == nil || d.fd.Type.Params == nil || paramSubjectBusy[o] {
		return ""
	}
	idx, k := -1, 0
	for _, fl := range d.fd.Type.Params.List {
		for _, n := range fl.Names {
			if d.pkg.TypesInfo.Defs[n] == o {
				idx = k
			}
			k++
		}
		if len(fl.Names) == 0 {
			k++
		}
	}
	if idx < 0 {
		return ""
	}
	paramSubjectBusy[o] = true
	defer delete(paramSubjectBusy, o)
	subj := ""
	for _, mc := range moduleCalls()[d.obj] {
		if idx >= len(mc.call.Args) {
			return ""
		}
		a := mc.call.Args[idx]
		// only collections that have a name of their own: a field, a getter, a helper's result
		switch a.(type) {
		case *ast.SelectorExpr, *ast.CallExpr, *ast.Ident:
		default:
			return ""
		}
		sj := rangeSubject(mc.d, &ast.RangeStmt{X: a})
		if t := mc.d.pkg.TypesInfo.TypeOf(a); t != nil && sj == types.TypeString(t, func(p *types.Package) string { return p.Name() }) {
			return "" // the caller has no better name either
		}
		if subj != "" && sj != subj {
			return ""
		}
		subj = sj
	}
	return subj
}

// sliceSetLookup: e is slices.Contains(S, k) — membership of k in a slice used as a set; returned
// as the index expression S[k] so that it is classified like a map lookup.
func sliceSetLookup(d *declInfo, e ast.Expr) *ast.IndexExpr {
	ce, ok := e.(*ast.CallExpr)
	if !ok || len(ce.Args) != 2 {
		return nil
	}
	f, _ := typeutil.Callee(d.pkg.TypesInfo, ce).(*types.Func)
	if f == nil || f.FullName() != "slices.Contains" {
		return nil
	}
	return &ast.IndexExpr{X: ce.Args[0], Index: ce.Args[1], Lbrack: ce.Lparen, Rbrack: ce.Rparen}
}

// callWritesOuter: ce calls a module function that writes through a parameter or its receiver,
// and the corresponding argument is memory that outlives the iteration.
func callWritesOuter(d *declInfo, loop ast.Node, ce *ast.CallExpr) string {
	f, _ := typeutil.Callee(d.pkg.TypesInfo, ce).(*types.Func)
	if f == nil || f.Pkg() == nil || !strings.HasPrefix(f.Pkg().Path(), modPath+"/") {
		return ""
	}
	for _, j := range paramsWritten(f, 0) {
		var arg ast.Expr
		if j == -1 {
			if sel, isSel := ce.Fun.(*ast.SelectorExpr); isSel {
				arg = sel.X
			}
		} else if j < len(ce.Args) {
			arg = ce.Args[j]
		}
		if arg == nil {
			continue
		}
		if o := baseObj(d, arg); o != nil && (declaredOutside(o, loop) || !builtInLoop(d, o, loop)) {
			return "call " + f.Name() + " (writes through " + types.ExprString(arg) + ")"
		}
	}
	return ""
}

// taglessAsEqChain: every case of the tagless switch compares one and the same subject with a constant.
func taglessAsEqChain(d *declInfo, x *ast.SwitchStmt) (string, []ast.Expr, bool, bool) {
	subj := ""
	var labels []ast.Expr
	hasDefault := false
	n := 0
	for _, cc := range x.Body.List {
		cl := cc.(*ast.CaseClause)
		if cl.List == nil {
			hasDefault = true
			continue
		}
		if len(cl.List) != 1 {
			return "", nil, false, false
		}
		sx, lbl, ok := eqAtom(d, cl.List[0])
		if !ok || (subj != "" && normText(types.ExprString(sx)) != subj) {
			return "", nil, false, false
		}
		subj = normText(types.ExprString(sx))
		labels = append(labels, lbl)
		n++
	}
	return subj, labels, hasDefault, n >= 2
}

// generatedGetterField: for a protobuf-generated getter (method GetF on a struct with field F, no
// parameters, one result) the name of the field; "" otherwise.
func generatedGetterField(f *types.Func) string {
	sig, _ := f.Type().(*types.Signature)
	if sig == nil || sig.Recv() == nil || sig.Params().Len() != 0 || sig.Results().Len() != 1 || !strings.HasPrefix(f.Name(), "Get") {
		return ""
	}
	t := sig.Recv().Type()
	if p, ok := t.(*types.Pointer); ok {
		t = p.Elem()
	}
	st, ok := t.Underlying().(*types.Struct)
	if !ok {
		return ""
	}
	want := strings.TrimPrefix(f.Name(), "Get")
	for i := 0; i < st.NumFields(); i++ {
		if st.Field(i).Name() == want && types.Identical(st.Field(i).Type(), sig.Results().At(0).Type()) {
			return want
		}
	}
	return ""
}

// isZeroValueExpr: nil, a zero constant, or an empty composite literal / &T{}.
func isZeroValueExpr(pkg *packages.Package, e ast.Expr) bool {
	if isNilIdent(pkg, e) {
		return true
	}
	if v, ok := constOf(pkg, e); ok {
		switch {
		case v.isStr():
			return v.str() == ""
		case v.isInt():
			return v.int() == 0
		}
		return v.c.ExactString() == "false" || v.c.ExactString() == "0"
	}
	switch x := e.(type) {
	case *ast.ParenExpr:
		return isZeroValueExpr(pkg, x.X)
	case *ast.CompositeLit:
		return len(x.Elts) == 0
	case *ast.UnaryExpr:
		if cl, ok := x.X.(*ast.CompositeLit); ok && x.Op == token.AND {
			return len(cl.Elts) == 0
		}
	}
	return false
}
