package main

import (
	"fmt"
	"go/ast"
	"go/types"

	"golang.org/x/tools/go/types/typeutil"
)

// unionRules: C09-D2 (no self-merge), D3 (operand coverage), D5 (which precedence where).
func unionRules(c *Ctx) {
	selfMerge(c)
	const R = "operand-coverage"
	c.rule(R, "Union and Add consume, by an unconditional top-level statement (range loop, copy helper or clone), each of the argument's Nodes, Edges and RootElements — and Union also the receiver's — before their normal exit; no other non-nil exit exists")
	for _, spec := range []struct {
		fn       string
		operands []int // 0 receiver, 1 argument
	}{{"sbom.(*NodeList).Union", []int{0, 1}}, {"sbom.(*NodeList).Add", []int{1}}} {
		d := c.decl(R, spec.fn)
		if d == nil {
			continue
		}
		recv, par := recvAndParam(d)
		objs := []types.Object{recv, par}
		for _, oi := range spec.operands {
			o := objs[oi]
			for _, field := range []string{"Nodes", "Edges", "RootElements"} {
				construct := fmt.Sprintf("%s#%s.%s", spec.fn, o.Name(), field)
				found := false
				for _, st := range d.fd.Body.List {
					// top-level statement that mentions o.field, not nested in a condition
					if _, isIf := st.(*ast.IfStmt); isIf {
						continue
					}
					var probe ast.Node = st
					if rs, ok := st.(*ast.RangeStmt); ok {
						probe = rs.X
					}
					if mentions(d.pkg, probe, o)[field] {
						found = true
					}
				}
				c.check(found, R, construct, c.P.Pos(d.fd.Pos()), "consumed by an unconditional top-level statement",
					fmt.Sprintf("%s has no unconditional top-level statement that consumes %s.%s: part of that operand never reaches the result", spec.fn, o.Name(), field))
			}
		}
	}
	c.floor(R, 9, "six collections for Union, three for Add")
	// the loops that consume the operands drop or skip an element only for a stated reason
	// (already present *as the same kind of thing*: a root among the roots, a node among the nodes)
	const RL = "loop-totality"
	c.rule(RL, loopRuleText)
	lds := pkgFilter(c.reachDecls(RL, "sbom.(*NodeList).Add", "sbom.(*NodeList).Union"), "sbom.(*NodeList).", "sbom.(*Edge).AddDestinationById",
		// the copies Union merges into: an attribute the copy loses is an attribute the union loses
		"sbom.(*Node).Copy", "sbom.(*Edge).Copy", "sbom.(*Person).Copy", "sbom.(*ExternalReference).Copy", "sbom.copy")
	c.loopTotality(RL, lds, loopPolicies, commonSkips)
	normaliserRule(c, "sbom.(*NodeList).Union", false)
	normaliserRule(c, "sbom.(*NodeList).Add", true)
	lookupCriterionRule(c, "sbom.(*NodeList).GetEdgeByType")
	lookupReturnsElement(c, "sbom.(*NodeList).GetEdgeByType")
	mergeAppendsOnlyAbsent(c, "sbom.(*NodeList).Union", "sbom.(*NodeList).Add")

	const RP = "merge-callee"
	c.rule(RP, "Union merges an existing node with Update, Add with Augment, and in both the argument of the merge call derives from the argument list's node, the receiver of the call from the result/receiver side")
	for _, spec := range [][2]string{{"sbom.(*NodeList).Union", "Update"}, {"sbom.(*NodeList).Add", "Augment"}} {
		d := c.decl(RP, spec[0])
		if d == nil {
			continue
		}
		_, par := recvAndParam(d)
		var merges []*ast.CallExpr
		other := ""
		for _, cs := range callsIn(d.pkg, d.fd.Body) {
			n := objName(cs.callee)
			if n == "sbom.(*Node).Update" || n == "sbom.(*Node).Augment" {
				if cs.callee.Name() == spec[1] {
					merges = append(merges, cs.call)
				} else {
					other = cs.callee.Name()
				}
			}
		}
		if other != "" {
			c.bad(RP, spec[0]+"#callee", c.P.Pos(d.fd.Pos()), fmt.Sprintf("%s merges with %s; the documented precedence needs %s", spec[0], other, spec[1]))
			continue
		}
		if len(merges) != 1 {
			c.undecided(RP, spec[0]+"#callee", c.P.Pos(d.fd.Pos()), fmt.Sprintf("expected exactly one %s call, found %d", spec[1], len(merges)))
			continue
		}
		m := merges[0]
		// argument derives from the argument list: mentions par.Nodes directly or a range variable over it
		rv := rangeSources(d, par)
		fromArg := mentions(d.pkg, m.Args[0], par)["Nodes"]
		ast.Inspect(m.Args[0], func(n ast.Node) bool {
			if id, ok := n.(*ast.Ident); ok {
				if f, ok := rv[objOf(d.pkg, id)]; ok && f == "Nodes" {
					fromArg = true
				}
			}
			return true
		})
		recvFromArg := false
		if sel, ok := m.Fun.(*ast.SelectorExpr); ok {
			recvFromArg = mentions(d.pkg, sel.X, par)["Nodes"]
			if id, ok := sel.X.(*ast.Ident); ok {
				if f, ok := rv[objOf(d.pkg, id)]; ok && f == "Nodes" {
					recvFromArg = true
				}
			}
		}
		c.check(fromArg && !recvFromArg, RP, spec[0]+"#"+spec[1], c.P.Pos(m.Pos()),
			"the merge call's argument is the argument list's node",
			fmt.Sprintf("the %s call in %s does not take the argument list's node as its parameter (or takes it as receiver): the precedence is reversed or the argument's attributes are never used", spec[1], spec[0]))
	}
}

// selfMerge: at no call x.Update(y) / x.Augment(y) / x.Equal(y) / x.Diff(y) are x and y the same
// object by construction (same access path, or y bound to the lookup that x repeats).
func selfMerge(c *Ctx) {
	const R = "self-merge"
	c.rule(R, "at every call of Update, Augment, Equal or Diff in the module, receiver and argument are not the same object by construction (same access path after looking through single-definition locals and comma-ok lookups)")
	n := 0
	for _, pk := range c.P.Pkgs {
		if pk.Types == nil || pk.PkgPath != modPath+"/pkg/sbom" {
			continue
		}
		for _, f := range pk.Syntax {
			for _, dd := range f.Decls {
				fd, ok := dd.(*ast.FuncDecl)
				if !ok || fd.Body == nil {
					continue
				}
				obj, _ := pk.TypesInfo.Defs[fd.Name].(*types.Func)
				d := &declInfo{fd, pk, obj, objName(obj)}
				// locals bound by `v, ok := M[K]` map to the text "M[K]"
				alias := map[types.Object]string{}
				ast.Inspect(fd.Body, func(m ast.Node) bool {
					if as, ok := m.(*ast.AssignStmt); ok && len(as.Lhs) == 2 && len(as.Rhs) == 1 {
						if ix, ok := as.Rhs[0].(*ast.IndexExpr); ok {
							if o := objOf(pk, as.Lhs[0]); o != nil {
								alias[o] = types.ExprString(ix)
							}
						}
					}
					return true
				})
				text := func(e ast.Expr) string {
					if id, ok := e.(*ast.Ident); ok {
						if t, ok := alias[objOf(pk, id)]; ok {
							return t
						}
					}
					return types.ExprString(e)
				}
				ast.Inspect(fd.Body, func(m ast.Node) bool {
					ce, ok := m.(*ast.CallExpr)
					if !ok || len(ce.Args) != 1 {
						return true
					}
					callee, _ := typeutil.Callee(pk.TypesInfo, ce).(*types.Func)
					if callee == nil {
						return true
					}
					switch callee.Name() {
					case "Update", "Augment", "Equal", "Diff":
					default:
						return true
					}
					sel, ok := ce.Fun.(*ast.SelectorExpr)
					if !ok {
						return true
					}
					n++
					c.CallSites++
					a, b := text(sel.X), text(ce.Args[0])
					construct := fmt.Sprintf("%s#%s@%d", d.name, callee.Name(), n)
					c.check(a != b, R, construct, c.P.Pos(ce.Pos()), a+" vs "+b,
						fmt.Sprintf("%s is called on %s with %s as its argument, which denotes the same object: the other operand's attributes are never used", callee.Name(), a, b))
					return true
				})
			}
		}
	}
	c.floor(R, 3, "Update in Union and Intersect, Augment in Add")
}
