package main

import (
	"encoding/json"
	"fmt"
	"os"
	"path/filepath"
	"sort"
	"strings"
	"time"
)

const (
	stDischarged = "discharged"
	stViolated   = "violated"
	stUndecided  = "undecided"
)

// Obligation is one rule instance. Key = rule ":" construct; constructs name program entities,
// never positions.
type Obligation struct {
	Rule       string `json:"rule"`
	Key        string `json:"key"`
	Status     string `json:"status"`
	Pos        string `json:"pos,omitempty"`
	Msg        string `json:"msg,omitempty"`
	NonTrivial bool   `json:"nontrivial,omitempty"`
}

// Floor is a vacuity guard: rule family must have at least Min instances.
type Floor struct {
	Rule string
	Min  int
	Why  string
}

// Ctx accumulates everything one property run produces.
type Ctx struct {
	Prop        string
	Tier        string
	P           *Program
	Obls        []*Obligation
	seen        map[string]*Obligation
	Floors      []Floor
	RuleTexts   map[string]string
	Assumptions []string
	NotDecided  []string
	FuncsSeen   map[string]bool
	CallSites   int
	Info        []string
}

func newCtx(prop, tier string, p *Program) *Ctx {
	return &Ctx{Prop: prop, Tier: tier, P: p, seen: map[string]*Obligation{},
		RuleTexts: map[string]string{}, FuncsSeen: map[string]bool{}}
}

func (c *Ctx) rule(name, text string) { c.RuleTexts[name] = text }

func (c *Ctx) floor(rule string, min int, why string) {
	c.Floors = append(c.Floors, Floor{rule, min, why})
}

func (c *Ctx) assume(s string)     { c.Assumptions = append(c.Assumptions, s) }
func (c *Ctx) notDecided(s string) { c.NotDecided = append(c.NotDecided, s) }
func (c *Ctx) info(f string, a ...any) {
	c.Info = append(c.Info, fmt.Sprintf(f, a...))
}
func (c *Ctx) sawFunc(name string) { c.FuncsSeen[name] = true }

func (c *Ctx) add(rule, construct, status, pos, msg string, nontrivial bool) *Obligation {
	key := rule + ":" + construct
	if o, ok := c.seen[key]; ok {
		// The same construct may be examined twice (e.g. two paths); the worst verdict wins.
		if rank(status) > rank(o.Status) {
			o.Status, o.Pos, o.Msg = status, pos, msg
		}
		return o
	}
	o := &Obligation{Rule: rule, Key: key, Status: status, Pos: pos, Msg: msg, NonTrivial: nontrivial}
	c.seen[key] = o
	c.Obls = append(c.Obls, o)
	return o
}

func rank(s string) int {
	switch s {
	case stViolated:
		return 2
	case stUndecided:
		return 1
	}
	return 0
}

func (c *Ctx) ok(rule, construct, pos, msg string) {
	c.add(rule, construct, stDischarged, pos, msg, true)
}
func (c *Ctx) okTrivial(rule, construct, pos, msg string) {
	c.add(rule, construct, stDischarged, pos, msg, false)
}
func (c *Ctx) bad(rule, construct, pos, msg string) {
	c.add(rule, construct, stViolated, pos, msg, true)
}
func (c *Ctx) undecided(rule, construct, pos, msg string) {
	c.add(rule, construct, stUndecided, pos, msg, true)
}

// check is a convenience: discharged when cond holds, violated otherwise.
func (c *Ctx) check(cond bool, rule, construct, pos, okMsg, badMsg string) {
	if cond {
		c.ok(rule, construct, pos, okMsg)
	} else {
		c.bad(rule, construct, pos, badMsg)
	}
}

// ---- known findings ----

type Finding struct {
	Property string `json:"property"`
	Key      string `json:"key"`
	Status   string `json:"status"` // known | fixed
	Commit   string `json:"commit,omitempty"`
	What     string `json:"what"`
}

func loadFindings(path string) ([]Finding, error) {
	b, err := os.ReadFile(path)
	if err != nil {
		if os.IsNotExist(err) {
			return nil, nil
		}
		return nil, err
	}
	var fs []Finding
	if err := json.Unmarshal(b, &fs); err != nil {
		return nil, fmt.Errorf("%s: %w", path, err)
	}
	return fs, nil
}

// ---- finishing: floors, known findings, evidence, exit code ----

type evidence struct {
	PropertyID  string         `json:"property_id"`
	Tier        string         `json:"tier"`
	Seed        int            `json:"seed"`
	Level       string         `json:"level"`
	Coverage    map[string]any `json:"coverage"`
	Assumptions []string       `json:"assumptions"`
	WallS       float64        `json:"wall_s"`
	Violations  int            `json:"violations"`
}

func (c *Ctx) finish(verifDir string, seed int, start time.Time, explanation string, extra map[string]any) int {
	// vacuity floors
	count := map[string]int{}
	for _, o := range c.Obls {
		count[o.Rule]++
	}
	for _, f := range c.Floors {
		if count[f.Rule] < f.Min {
			c.undecided("vacuity", f.Rule, "-", fmt.Sprintf(
				"rule %q matched %d instances, fewer than the confirmed floor %d (%s): the code outgrew the rule or an anchor vanished",
				f.Rule, count[f.Rule], f.Min, f.Why))
		}
	}
	sort.SliceStable(c.Obls, func(i, j int) bool { return c.Obls[i].Key < c.Obls[j].Key })

	findings, err := loadFindings(filepath.Join(verifDir, "known_findings.json"))
	if err != nil {
		fmt.Fprintf(os.Stderr, "known findings: %v\n", err)
		return 2
	}
	known := map[string]Finding{}
	for _, f := range findings {
		if f.Property == c.Prop && f.Status == "known" {
			known[f.Key] = f
		}
	}

	evDir := filepath.Join(verifDir, "evidence")
	_ = os.MkdirAll(evDir, 0o755)
	vdir := filepath.Join(evDir, c.Prop+".violations")
	_ = os.RemoveAll(vdir)

	var nDis, nViol, nUnd, nKnown, nNT int
	var bads []*Obligation
	var knownLines []string
	for _, o := range c.Obls {
		if o.NonTrivial {
			nNT++
		}
		switch o.Status {
		case stDischarged:
			nDis++
		case stViolated:
			if f, ok := known[o.Key]; ok {
				nKnown++
				knownLines = append(knownLines, fmt.Sprintf("KNOWN-FINDING: property=%s %s [%s at %s]", c.Prop, f.What, o.Key, o.Pos))
				continue
			}
			nViol++
			bads = append(bads, o)
		case stUndecided:
			nUnd++
			bads = append(bads, o)
		}
	}
	for _, l := range knownLines {
		fmt.Println(l)
	}
	var replay []string
	if len(bads) > 0 {
		_ = os.MkdirAll(vdir, 0o755)
		for i, o := range bads {
			path := filepath.Join(vdir, fmt.Sprintf("%d.json", i+1))
			kind := "violation"
			if o.Status == stUndecided {
				kind = "undecided"
			}
			b, _ := json.MarshalIndent(map[string]any{
				"property": c.Prop, "kind": kind, "rule": o.Rule, "key": o.Key, "pos": o.Pos,
				"message": o.Msg, "rule_text": c.RuleTexts[o.Rule],
				"rederive": fmt.Sprintf("/verif/bin/protolint -property %s -only '%s'", c.Prop, o.Key),
			}, "", " ")
			_ = os.WriteFile(path, b, 0o644)
			replay = append(replay, path)
			fmt.Printf("%s: [%s] %s: %s\n    %s\n", o.Pos, kind, o.Rule, o.Key, o.Msg)
			fmt.Printf("VIOLATION property=%s replay=%s\n", c.Prop, path)
		}
	}

	// samples: all bad ones, plus up to 12 discharged spread over rules
	var samples []any
	for _, o := range bads {
		samples = append(samples, o)
	}
	perRule := map[string]int{}
	for _, o := range c.Obls {
		if o.Status == stDischarged && perRule[o.Rule] < 2 && len(samples) < 40 {
			perRule[o.Rule]++
			samples = append(samples, o)
		}
	}
	perRuleCount := map[string]map[string]int{}
	for _, o := range c.Obls {
		if perRuleCount[o.Rule] == nil {
			perRuleCount[o.Rule] = map[string]int{}
		}
		perRuleCount[o.Rule][o.Status]++
	}
	var fl []string
	for f := range c.FuncsSeen {
		fl = append(fl, f)
	}
	sort.Strings(fl)
	var ruleTexts []string
	var rnames []string
	for r := range c.RuleTexts {
		rnames = append(rnames, r)
	}
	sort.Strings(rnames)
	for _, r := range rnames {
		ruleTexts = append(ruleTexts, r+": "+c.RuleTexts[r])
	}
	cov := map[string]any{
		"explanation":         explanation,
		"obligations":         len(c.Obls),
		"discharged":          nDis,
		"violated":            nViol,
		"undecided":           nUnd,
		"known_findings":      nKnown,
		"evaluations":         len(c.Obls),
		"distinct_nontrivial": nNT,
		"rule": "one obligation per (rule, program construct) enumerated from the type-checked source of /repo on this run; " +
			"distinct by key; non-trivial = the rule had to classify code (a table row composed, a store's origin classified, a guard searched, a path enumerated) rather than merely note an absent pattern. Rules: " + strings.Join(ruleTexts, " | "),
		"samples":            samples,
		"per_rule":           perRuleCount,
		"functions_analysed": fl,
		"call_sites":         c.CallSites,
		"not_decided":        c.NotDecided,
		"info":               c.Info,
		"checker_cmd":        fmt.Sprintf("/verif/bin/protolint -repo %s -property %s -tier %s", c.P.Dir, c.Prop, c.Tier),
		"trusted_base": []string{"go/types type checker", "golang.org/x/tools v0.29.0 go/packages, go/ssa, go/cfg, callgraph/vta",
			"third-party libraries (tools-golang, cyclonedx-go, protobuf, encoding/json) are loaded for types and constants only and are not analysed"},
		"exhaustive":              true,
		"packages":                len(c.P.Pkgs),
		"module_functions_loaded": len(c.P.Funcs),
	}
	for k, v := range extra {
		cov[k] = v
	}
	ev := evidence{PropertyID: c.Prop, Tier: c.Tier, Seed: seed, Level: "other", Coverage: cov,
		Assumptions: append([]string{}, c.Assumptions...), WallS: time.Since(start).Seconds(), Violations: nViol + nUnd}
	b, _ := json.MarshalIndent(ev, "", " ")
	if err := os.WriteFile(filepath.Join(evDir, c.Prop+".json"), b, 0o644); err != nil {
		fmt.Fprintf(os.Stderr, "writing evidence: %v\n", err)
		return 2
	}
	fmt.Printf("%s %s: %d obligations, %d discharged, %d violated, %d undecided, %d known findings, %d functions, %.1fs\n",
		c.Prop, c.Tier, len(c.Obls), nDis, nViol, nUnd, nKnown, len(fl), time.Since(start).Seconds())
	if len(bads) > 0 {
		return 1
	}
	return 0
}
