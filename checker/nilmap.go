package main

// map-write-initialised — a store into a map (`m[k] = v`) panics when m is nil. For every
// ssa.MapUpdate in a module function reachable from the entry points the map operand must be
// provably allocated: a make/composite literal, a parameter whose every call-graph caller passes
// an allocated map, a call whose callee returns an allocated map on every return, a local whose
// every store is allocated, or a struct field that every construction of the struct in the module
// initialises (or that the function establishes itself: `if x.f == nil { x.f = make(...) }`).

import (
	"fmt"
	"go/token"
	"go/types"
	"sort"

	"golang.org/x/tools/go/ssa"
)

type nilMapEngine struct {
	c        *Ctx
	reach    map[*ssa.Function]*ssa.Function
	inprog   map[ssa.Value]bool
	retProg  map[string]bool
	fieldMem map[string]fieldVerdict
}

type fieldVerdict struct {
	ok  bool
	why string
}

func nilMapWriteRule(c *Ctx, entries []string) {
	const R = "map-write-initialised"
	c.rule(R, "every map store m[k]=v reachable from the entry points writes a provably allocated map: make/literal, a parameter every caller fills with an allocated map, the result of a function returning an allocated map on every return, a local whose every store is allocated, or a struct field every construction in the module initialises (or the function establishes under an `== nil` test)")
	roots := c.rootsOf(R, entries)
	pred, order := c.reachSSA(roots)
	e := &nilMapEngine{c: c, reach: pred, inprog: map[ssa.Value]bool{}, retProg: map[string]bool{}, fieldMem: map[string]fieldVerdict{}}
	n := 0
	perFn := map[string]int{}
	for _, f := range order {
		fns := []*ssa.Function{f}
		for _, fn := range fns {
			for _, b := range fn.Blocks {
				for _, ins := range b.Instrs {
					mu, ok := ins.(*ssa.MapUpdate)
					if !ok {
						continue
					}
					if _, isMap := mu.Map.Type().Underlying().(*types.Map); !isMap {
						continue
					}
					n++
					c.CallSites++
					name := fnName(fn)
					key := fmt.Sprintf("%s#%s", name, describeMapOperand(mu.Map))
					perFn[key]++
					if perFn[key] > 1 {
						key = fmt.Sprintf("%s.%d", key, perFn[key])
					}
					okk, why := e.allocated(mu.Map, mu, 0)
					if okk {
						c.ok(R, key, c.P.Pos(mu.Pos()), why)
					} else {
						c.bad(R, key, c.P.Pos(mu.Pos()), fmt.Sprintf("map store on a map that may be nil: %s (reachable via %s)", why, chainTo(pred, f)))
					}
				}
			}
		}
	}
	c.info("map-write-initialised: %d map stores in %d reachable functions", n, len(order))
}

// describeMapOperand names the map by its source-level shape, not by position.
func describeMapOperand(v ssa.Value) string {
	switch x := v.(type) {
	case *ssa.Parameter:
		return "param:" + x.Name()
	case *ssa.MakeMap:
		return "make"
	case *ssa.Const:
		return "nil"
	case *ssa.Phi:
		if x.Comment != "" {
			return "var:" + x.Comment
		}
		return "phi"
	case *ssa.UnOp:
		if x.Op == token.MUL {
			return nmDescribeAddr(x.X)
		}
	case *ssa.Call:
		return "call:" + shortCallee(calleeFullName(x.Common()))
	case *ssa.Extract:
		return describeMapOperand(x.Tuple)
	case *ssa.ChangeType:
		return describeMapOperand(x.X)
	case *ssa.Lookup:
		return "lookup"
	case *ssa.FreeVar:
		return "free:" + x.Name()
	}
	return fmt.Sprintf("%T", v)
}

func nmDescribeAddr(a ssa.Value) string {
	switch x := a.(type) {
	case *ssa.FieldAddr:
		st := derefStruct(x.X.Type())
		if st != nil {
			return "field:" + typeShort(x.X.Type()) + "." + st.Field(x.Field).Name()
		}
	case *ssa.Alloc:
		if x.Comment != "" {
			return "var:" + x.Comment
		}
		return "local"
	case *ssa.Global:
		return "global:" + globalName(x)
	case *ssa.FreeVar:
		return "free:" + x.Name()
	case *ssa.IndexAddr:
		return "elem"
	}
	return fmt.Sprintf("addr:%T", a)
}

func derefStruct(t types.Type) *types.Struct {
	if p, ok := t.Underlying().(*types.Pointer); ok {
		t = p.Elem()
	}
	s, _ := t.Underlying().(*types.Struct)
	return s
}

func typeShort(t types.Type) string {
	if p, ok := t.Underlying().(*types.Pointer); ok {
		t = p.Elem()
	}
	if n, ok := t.(*types.Named); ok {
		if n.Obj().Pkg() != nil {
			return n.Obj().Pkg().Name() + "." + n.Obj().Name()
		}
		return n.Obj().Name()
	}
	return t.String()
}

// allocated: is v provably a non-nil map where `at` executes?
func (e *nilMapEngine) allocated(v ssa.Value, at ssa.Instruction, depth int) (bool, string) {
	if depth > 12 {
		return false, "derivation too deep"
	}
	if e.inprog[v] {
		return true, "cycle (assumed for the fixpoint)"
	}
	e.inprog[v] = true
	defer delete(e.inprog, v)
	switch x := v.(type) {
	case *ssa.MakeMap:
		return true, "allocated by make/literal"
	case *ssa.Const:
		if x.IsNil() {
			return false, "the map is the nil zero value (declared without make)"
		}
	case *ssa.ChangeType:
		return e.allocated(x.X, at, depth+1)
	case *ssa.Phi:
		for _, ed := range x.Edges {
			if ok, why := e.allocated(ed, at, depth+1); !ok {
				return false, why
			}
		}
		return true, "allocated on every incoming path"
	case *ssa.Parameter:
		return e.paramAllocated(x, depth)
	case *ssa.FreeVar:
		return e.freeVarAllocated(x, depth)
	case *ssa.Call:
		return e.resultAllocated(x.Common(), 0, depth)
	case *ssa.Extract:
		if call, ok := x.Tuple.(*ssa.Call); ok {
			return e.resultAllocated(call.Common(), x.Index, depth)
		}
		if lk, ok := x.Tuple.(*ssa.Lookup); ok && x.Index == 0 {
			return e.elementAllocated(lk, at, depth)
		}
	case *ssa.Lookup:
		return e.elementAllocated(x, at, depth)
	case *ssa.UnOp:
		if x.Op != token.MUL {
			break
		}
		if nonNilByBranch(x, at) {
			return true, "inside a branch that tested the map against nil"
		}
		switch a := x.X.(type) {
		case *ssa.Alloc:
			return e.cellAllocated(a, depth)
		case *ssa.FieldAddr:
			if establishedBefore(a, x) {
				return true, "the function allocates the field when it finds it nil"
			}
			if ok, why, decided := e.fieldByFlow(a, x, depth); decided {
				return ok, why
			}
			return e.fieldAllocated(a, depth)
		case *ssa.Global:
			return e.globalAllocated(a, depth)
		case *ssa.FreeVar:
			return e.freeVarAllocated(a, depth)
		}
	}
	return false, fmt.Sprintf("no allocation derivable for %s", describeMapOperand(v))
}

// nonNilByBranch: the load's block is dominated by the true branch of `v != nil` (or the false
// branch of `v == nil`) on the same loaded value.
func nonNilByBranch(v ssa.Value, at ssa.Instruction) bool {
	blk := at.Block()
	for _, b := range blk.Parent().Blocks {
		if len(b.Instrs) == 0 {
			continue
		}
		iff, ok := b.Instrs[len(b.Instrs)-1].(*ssa.If)
		if !ok {
			continue
		}
		bo, ok := iff.Cond.(*ssa.BinOp)
		if !ok || (bo.Op != token.NEQ && bo.Op != token.EQL) {
			continue
		}
		var other ssa.Value
		if nmSameValue(bo.X, v) {
			other = bo.Y
		} else if nmSameValue(bo.Y, v) {
			other = bo.X
		} else {
			continue
		}
		if c, ok := other.(*ssa.Const); !ok || !c.IsNil() {
			continue
		}
		succ := b.Succs[0]
		if bo.Op == token.EQL {
			succ = b.Succs[1]
		}
		if len(succ.Preds) == 1 && succ.Dominates(blk) {
			return true
		}
	}
	return false
}

// sameValue: identical SSA value, or two loads of the same address path with no way to tell them
// apart structurally (field of the same base).
func nmSameValue(a, b ssa.Value) bool {
	if a == b {
		return true
	}
	ua, ok1 := a.(*ssa.UnOp)
	ub, ok2 := b.(*ssa.UnOp)
	if ok1 && ok2 && ua.Op == token.MUL && ub.Op == token.MUL {
		return nmSameAddr(ua.X, ub.X)
	}
	ca, ok1 := a.(*ssa.Const)
	cb, ok2 := b.(*ssa.Const)
	if ok1 && ok2 {
		return ca.Value != nil && cb.Value != nil && ca.Value.ExactString() == cb.Value.ExactString() && types.Identical(ca.Type(), cb.Type())
	}
	return false
}

func nmSameAddr(a, b ssa.Value) bool {
	if a == b {
		return true
	}
	ia, ok1 := a.(*ssa.IndexAddr)
	ib, ok2 := b.(*ssa.IndexAddr)
	if ok1 && ok2 {
		return nmSameValue(ia.X, ib.X) && nmSameValue(ia.Index, ib.Index)
	}
	fa, ok1 := a.(*ssa.FieldAddr)
	fb, ok2 := b.(*ssa.FieldAddr)
	if ok1 && ok2 && fa.Field == fb.Field {
		return nmSameValue(fa.X, fb.X) || nmSameAddr(fa.X, fb.X)
	}
	return false
}

// establishedBefore: some block dominating the load ends in `if load(field) == nil` whose true
// successor stores an allocated map into the same field and falls through.
func establishedBefore(fa *ssa.FieldAddr, load *ssa.UnOp) bool {
	blk := load.Block()
	for _, b := range blk.Parent().Blocks {
		if !b.Dominates(blk) || len(b.Instrs) == 0 {
			continue
		}
		iff, ok := b.Instrs[len(b.Instrs)-1].(*ssa.If)
		if !ok {
			continue
		}
		bo, ok := iff.Cond.(*ssa.BinOp)
		if !ok || bo.Op != token.EQL {
			continue
		}
		var tested ssa.Value
		if c, ok := bo.Y.(*ssa.Const); ok && c.IsNil() {
			tested = bo.X
		} else if c, ok := bo.X.(*ssa.Const); ok && c.IsNil() {
			tested = bo.Y
		}
		tl, ok := tested.(*ssa.UnOp)
		if !ok || tl.Op != token.MUL || !nmSameAddr(tl.X, fa) {
			continue
		}
		for _, ins := range b.Succs[0].Instrs {
			if st, ok := ins.(*ssa.Store); ok && nmSameAddr(st.Addr, fa) {
				if _, isMake := st.Val.(*ssa.MakeMap); isMake {
					return true
				}
			}
		}
	}
	return false
}

func (e *nilMapEngine) paramAllocated(p *ssa.Parameter, depth int) (bool, string) {
	fn := p.Parent()
	idx := -1
	for i, q := range fn.Params {
		if q == p {
			idx = i
		}
	}
	if idx < 0 {
		return false, "parameter not found"
	}
	node := e.c.callGraph().Nodes[fn]
	if node == nil || len(node.In) == 0 {
		return false, fmt.Sprintf("parameter %s of %s has no caller in the module (a caller may pass nil)", p.Name(), fnName(fn))
	}
	seen := 0
	for _, in := range node.In {
		caller := in.Caller.Func
		if caller == nil || !e.c.P.inModule(caller) {
			continue
		}
		if _, reachable := e.reach[caller]; !reachable {
			if o := caller.Origin(); o == nil || e.reach[o] == nil {
				// callers outside the explored region (tests are not loaded; other entry points are)
				if _, isRoot := e.reach[caller]; !isRoot {
					continue
				}
			}
		}
		args := in.Site.Common().Args
		ai := idx
		if in.Site.Common().IsInvoke() {
			ai = idx - 1 // receiver is not in Args for invoke-mode calls
		}
		if ai < 0 || ai >= len(args) {
			return false, fmt.Sprintf("cannot line up argument %d at %s", idx, e.c.P.Pos(in.Site.Pos()))
		}
		seen++
		if ok, why := e.allocated(args[ai], in.Site, depth+1); !ok {
			return false, fmt.Sprintf("caller %s passes a map that may be nil (%s)", fnName(caller), why)
		}
	}
	if seen == 0 {
		return false, fmt.Sprintf("parameter %s of %s: no reachable caller", p.Name(), fnName(fn))
	}
	return true, fmt.Sprintf("every one of %d reachable callers passes an allocated map", seen)
}

func (e *nilMapEngine) freeVarAllocated(fv *ssa.FreeVar, depth int) (bool, string) {
	fn := fv.Parent()
	idx := -1
	for i, q := range fn.FreeVars {
		if q == fv {
			idx = i
		}
	}
	parent := fn.Parent()
	if parent == nil || idx < 0 {
		return false, "free variable without an enclosing function"
	}
	for _, b := range parent.Blocks {
		for _, ins := range b.Instrs {
			mc, ok := ins.(*ssa.MakeClosure)
			if !ok || mc.Fn != fn {
				continue
			}
			bind := mc.Bindings[idx]
			// bindings are addresses of captured variables
			if a, ok := bind.(*ssa.Alloc); ok {
				return e.cellAllocated(a, depth+1)
			}
			return e.allocated(bind, mc, depth+1)
		}
	}
	return false, "closure creation not found"
}

// cellAllocated: every store into a local cell is an allocated map, and there is one.
func (e *nilMapEngine) cellAllocated(a *ssa.Alloc, depth int) (bool, string) {
	stores := 0
	for _, ref := range *a.Referrers() {
		switch r := ref.(type) {
		case *ssa.Store:
			if r.Addr != a {
				return false, "the local's address escapes"
			}
			stores++
			if ok, why := e.allocated(r.Val, r, depth+1); !ok {
				return false, why
			}
		case *ssa.UnOp, *ssa.DebugRef, *ssa.MakeClosure:
		default:
			return false, fmt.Sprintf("the local's address is used by %T", ref)
		}
	}
	// closures may store as well
	if stores == 0 {
		return false, "the local is declared without a value and never assigned (nil map)"
	}
	return true, "every assignment of the local is an allocated map"
}

func (e *nilMapEngine) globalAllocated(g *ssa.Global, depth int) (bool, string) {
	stores := 0
	for _, acc := range globalAccesses(e.c.P, g) {
		st, isStore := acc.ins.(*ssa.Store)
		if acc.write && isStore && st.Addr == ssa.Value(g) {
			stores++
			if ok, why := e.allocated(st.Val, st, depth+1); !ok {
				return false, fmt.Sprintf("package variable %s is assigned a map that may be nil: %s", globalName(g), why)
			}
		}
	}
	if stores == 0 {
		return false, fmt.Sprintf("package variable %s is never assigned an allocated map", globalName(g))
	}
	return true, fmt.Sprintf("package variable %s is only ever assigned allocated maps", globalName(g))
}

// resultAllocated: a static callee returns an allocated map at result index idx on every return.
func (e *nilMapEngine) resultAllocated(cc *ssa.CallCommon, idx int, depth int) (bool, string) {
	callee := cc.StaticCallee()
	if callee == nil || callee.Blocks == nil {
		return false, "result of a call that cannot be resolved statically"
	}
	key := fmt.Sprintf("%s/%d", fnName(callee), idx)
	if e.retProg[key] {
		return true, "recursive"
	}
	e.retProg[key] = true
	defer delete(e.retProg, key)
	rets := 0
	for _, b := range callee.Blocks {
		for _, ins := range b.Instrs {
			r, ok := ins.(*ssa.Return)
			if !ok || idx >= len(r.Results) {
				continue
			}
			rets++
			if ok, why := e.allocated(r.Results[idx], r, depth+1); !ok {
				return false, fmt.Sprintf("%s may return a nil map (%s)", fnName(callee), why)
			}
		}
	}
	if rets == 0 {
		return false, "callee has no return"
	}
	return true, fmt.Sprintf("%s returns an allocated map on every return", fnName(callee))
}

// fieldAllocated: type-level argument — every construction of the struct in the module gives the
// field an allocated map, and every store into the field anywhere in the module is allocated.
func (e *nilMapEngine) fieldAllocated(fa *ssa.FieldAddr, depth int) (bool, string) {
	st := derefStruct(fa.X.Type())
	if st == nil {
		return false, "field of an unknown struct"
	}
	tname := typeShort(fa.X.Type())
	key := fmt.Sprintf("%s.%s", tname, st.Field(fa.Field).Name())
	if v, ok := e.fieldMem[key]; ok {
		return v.ok, v.why
	}
	e.fieldMem[key] = fieldVerdict{true, "in progress"}
	ok, why := e.fieldAllocated1(fa, st, key, depth)
	e.fieldMem[key] = fieldVerdict{ok, why}
	return ok, why
}

func (e *nilMapEngine) fieldAllocated1(fa *ssa.FieldAddr, st *types.Struct, key string, depth int) (bool, string) {
	target := types.Unalias(ptrElem(fa.X.Type()))
	constructions, stores := 0, 0
	fns := append([]*ssa.Function(nil), e.c.P.Funcs...)
	sort.Slice(fns, func(i, j int) bool { return fnName(fns[i]) < fnName(fns[j]) })
	for _, fn := range fns {
		for _, b := range fn.Blocks {
			for _, ins := range b.Instrs {
				switch x := ins.(type) {
				case *ssa.Alloc:
					if !types.Identical(types.Unalias(ptrElem(x.Type())), target) {
						continue
					}
					// a construction: the field must be stored with an allocated map before use;
					// approximated by "some store to this alloc's field with an allocated map in fn"
					constructions++
					found := false
					for _, ref := range *x.Referrers() {
						f2, ok := ref.(*ssa.FieldAddr)
						if !ok || f2.Field != fa.Field {
							continue
						}
						for _, r2 := range *f2.Referrers() {
							if s, ok := r2.(*ssa.Store); ok && s.Addr == f2 {
								if okk, _ := e.allocated(s.Val, s, depth+1); okk {
									found = true
								}
							}
						}
					}
					if !found {
						return false, fmt.Sprintf("%s is constructed in %s without allocating %s", typeShort(fa.X.Type()), fnName(fn), key)
					}
				case *ssa.Store:
					f2, ok := x.Addr.(*ssa.FieldAddr)
					if !ok || f2.Field != fa.Field || !types.Identical(types.Unalias(ptrElem(f2.X.Type())), target) {
						continue
					}
					stores++
					if okk, why := e.allocated(x.Val, x, depth+1); !okk {
						return false, fmt.Sprintf("%s is assigned a map that may be nil in %s (%s)", key, fnName(fn), why)
					}
				}
			}
		}
	}
	if constructions == 0 {
		return false, fmt.Sprintf("no construction of %s found in the module (values come from outside)", typeShort(fa.X.Type()))
	}
	return true, fmt.Sprintf("all %d constructions of the struct allocate %s; all %d stores keep it allocated", constructions, key, stores)
}

func ptrElem(t types.Type) types.Type {
	if p, ok := t.Underlying().(*types.Pointer); ok {
		return p.Elem()
	}
	return t
}

// fieldByFlow decides a field load from the function's own stores: the base is built here (a
// composite literal or a constructor call) or the field is assigned here; then every store the
// function makes into that field must be allocated and one of them must dominate the load.
func (e *nilMapEngine) fieldByFlow(fa *ssa.FieldAddr, load *ssa.UnOp, depth int) (ok bool, why string, decided bool) {
	fn := load.Parent()
	dominating := false
	for _, b := range fn.Blocks {
		for _, ins := range b.Instrs {
			st, isStore := ins.(*ssa.Store)
			if !isStore || !nmSameAddr(st.Addr, fa) {
				continue
			}
			if okk, w := e.allocated(st.Val, st, depth+1); !okk {
				return false, "the field is assigned a map that may be nil in this function: " + w, true
			}
			if b == load.Block() {
				for _, j := range b.Instrs {
					if j == ins {
						dominating = true
						break
					}
					if j == ssa.Instruction(load) {
						break
					}
				}
			} else if b.Dominates(load.Block()) {
				dominating = true
			}
		}
	}
	if dominating {
		return true, "the function assigns an allocated map to the field before the store", true
	}
	// a struct parameter passed by value is spilled into a local: `t0 = local T; *t0 = param` — the
	// field then is whatever the callers put into the struct they pass
	if al, isAlloc := fa.X.(*ssa.Alloc); isAlloc {
		for _, ref := range *al.Referrers() {
			st, isStore := ref.(*ssa.Store)
			if !isStore || st.Addr != ssa.Value(al) {
				continue
			}
			if prm, isParam := st.Val.(*ssa.Parameter); isParam {
				okAll, why := e.paramStructFieldAllocated(prm, fa.Field, depth)
				return okAll, why, true
			}
		}
	}
	// base handed in by the callers: every caller must pass an object whose field is allocated
	if prm, isParam := fa.X.(*ssa.Parameter); isParam {
		// a type-level invariant (every construction of the struct allocates the field) settles it
		// whoever the callers are
		if okT, whyT := e.fieldAllocated(fa, depth); okT {
			return true, whyT, true
		}
		okAll, why := e.paramObjFieldAllocated(prm, fa.Field, depth)
		return okAll, why, true
	}
	// base produced by a module constructor whose every return initialises the field
	base := fa.X
	if call, isCall := base.(*ssa.Call); isCall {
		callee := call.Common().StaticCallee()
		if callee != nil && callee.Blocks != nil {
			rets := 0
			for _, b := range callee.Blocks {
				for _, ins := range b.Instrs {
					r, isRet := ins.(*ssa.Return)
					if !isRet || len(r.Results) == 0 {
						continue
					}
					rets++
					al, isAlloc := r.Results[0].(*ssa.Alloc)
					if !isAlloc {
						return false, "", false
					}
					found := false
					for _, ref := range *al.Referrers() {
						f2, isFA := ref.(*ssa.FieldAddr)
						if !isFA || f2.Field != fa.Field {
							continue
						}
						for _, r2 := range *f2.Referrers() {
							if s, isSt := r2.(*ssa.Store); isSt && s.Addr == f2 {
								if okk, _ := e.allocated(s.Val, s, depth+1); okk {
									found = true
								} else {
									return false, fmt.Sprintf("%s assigns a possibly nil map to the field", fnName(callee)), true
								}
							}
						}
					}
					if !found {
						return false, fmt.Sprintf("%s builds the value without allocating the field", fnName(callee)), true
					}
				}
			}
			if rets > 0 {
				return true, fmt.Sprintf("%s allocates the field in the value it returns", fnName(callee)), true
			}
		}
	}
	return false, "", false
}

// elementAllocated: the map is an element of a map of maps. A lookup of an absent key yields nil,
// so the function must establish the element: a dominating `if _, ok := M[K]; !ok { M[K] = make }`
// on the same map and key, and every other store into M must be allocated.
func (e *nilMapEngine) elementAllocated(lk *ssa.Lookup, at ssa.Instruction, depth int) (bool, string) {
	fn := lk.Parent()
	blk := lk.Block()
	established := false
	for _, b := range fn.Blocks {
		for _, ins := range b.Instrs {
			mu, ok := ins.(*ssa.MapUpdate)
			if !ok || !nmSameValue(mu.Map, lk.X) {
				continue
			}
			if okk, why := e.allocated(mu.Value, mu, depth+1); !okk {
				return false, "an element of the outer map is assigned a map that may be nil: " + why
			}
			if !nmSameValue(mu.Key, lk.Index) {
				continue
			}
			// the store sits in a branch of a presence test on the same key that dominates the use
			for _, p := range b.Preds {
				if len(p.Instrs) == 0 {
					continue
				}
				iff, ok := p.Instrs[len(p.Instrs)-1].(*ssa.If)
				if !ok {
					continue
				}
				ex, ok := iff.Cond.(*ssa.Extract)
				if !ok || ex.Index != 1 {
					continue
				}
				tl, ok := ex.Tuple.(*ssa.Lookup)
				if !ok || !tl.CommaOk || !nmSameValue(tl.X, lk.X) || !nmSameValue(tl.Index, lk.Index) {
					continue
				}
				if p.Dominates(blk) && p.Succs[1] == b {
					established = true
				}
			}
		}
	}
	if established {
		return true, "the element is created under a presence test on the same key before the store"
	}
	return false, "element of a map of maps with no dominating presence test that creates it"
}

// objFieldAllocated: v is a pointer to a struct; is its field `field` an allocated map at this point?
func (e *nilMapEngine) objFieldAllocated(v ssa.Value, field int, depth int) (bool, string) {
	if depth > 10 {
		return false, "derivation too deep"
	}
	switch x := v.(type) {
	case *ssa.Alloc:
		for _, ref := range *x.Referrers() {
			f2, ok := ref.(*ssa.FieldAddr)
			if !ok || f2.Field != field {
				continue
			}
			for _, r2 := range *f2.Referrers() {
				if s, ok := r2.(*ssa.Store); ok && s.Addr == f2 {
					if okk, _ := e.allocated(s.Val, s, depth+1); okk {
						return true, "the object is built with the field allocated"
					}
				}
			}
		}
		return false, "the object is built without allocating the field"
	case *ssa.Phi:
		for _, ed := range x.Edges {
			if ok, why := e.objFieldAllocated(ed, field, depth+1); !ok {
				return false, why
			}
		}
		return true, "allocated on every incoming path"
	case *ssa.Parameter:
		return e.paramObjFieldAllocated(x, field, depth+1)
	case *ssa.Call:
		callee := x.Common().StaticCallee()
		if callee == nil || callee.Blocks == nil {
			return false, "object returned by a call that cannot be resolved"
		}
		rets := 0
		for _, b := range callee.Blocks {
			for _, ins := range b.Instrs {
				if r, ok := ins.(*ssa.Return); ok && len(r.Results) > 0 {
					rets++
					if okk, why := e.objFieldAllocated(r.Results[0], field, depth+1); !okk {
						return false, fnName(callee) + ": " + why
					}
				}
			}
		}
		return rets > 0, fmt.Sprintf("%s allocates the field in the value it returns", fnName(callee))
	}
	return false, fmt.Sprintf("object of unknown origin (%T)", v)
}

func (e *nilMapEngine) paramObjFieldAllocated(p *ssa.Parameter, field int, depth int) (bool, string) {
	fn := p.Parent()
	idx := -1
	for i, q := range fn.Params {
		if q == p {
			idx = i
		}
	}
	node := e.c.callGraph().Nodes[fn]
	if idx < 0 || node == nil {
		return false, "parameter without callers"
	}
	seen := 0
	for _, in := range node.In {
		caller := in.Caller.Func
		if caller == nil || !e.c.P.inModule(caller) {
			continue
		}
		if _, reachable := e.reach[caller]; !reachable {
			continue
		}
		args := in.Site.Common().Args
		ai := idx
		if in.Site.Common().IsInvoke() {
			ai = idx - 1
		}
		if ai < 0 || ai >= len(args) {
			return false, "cannot line up the argument"
		}
		seen++
		if ok, why := e.objFieldAllocated(args[ai], field, depth+1); !ok {
			return false, fmt.Sprintf("caller %s: %s", fnName(caller), why)
		}
	}
	if seen == 0 {
		return false, fmt.Sprintf("parameter %s of %s has no reachable caller", p.Name(), fnName(fn))
	}
	return true, fmt.Sprintf("every one of %d callers passes an object whose field is allocated", seen)
}

// paramStructFieldAllocated: p is a struct passed by value; every caller must pass a struct whose
// field is an allocated map (a composite literal with the field set, or a copy of such a value).
func (e *nilMapEngine) paramStructFieldAllocated(p *ssa.Parameter, field int, depth int) (bool, string) {
	fn := p.Parent()
	idx := -1
	for i, q := range fn.Params {
		if q == p {
			idx = i
		}
	}
	node := e.c.callGraph().Nodes[fn]
	if idx < 0 || node == nil {
		return false, "parameter without callers"
	}
	seen := 0
	for _, in := range node.In {
		caller := in.Caller.Func
		if caller == nil || !e.c.P.inModule(caller) {
			continue
		}
		if _, reachable := e.reach[caller]; !reachable {
			continue
		}
		args := in.Site.Common().Args
		ai := idx
		if in.Site.Common().IsInvoke() {
			ai = idx - 1
		}
		if ai < 0 || ai >= len(args) {
			return false, "cannot line up the argument"
		}
		seen++
		ok, why := false, "the struct argument is not a literal built by the caller"
		switch a := args[ai].(type) {
		case *ssa.UnOp:
			if al, isAlloc := a.X.(*ssa.Alloc); isAlloc && a.Op == token.MUL {
				ok, why = e.objFieldAllocated(al, field, depth+1)
			}
		case *ssa.Parameter:
			ok, why = e.paramStructFieldAllocated(a, field, depth+1)
		}
		if !ok {
			return false, fmt.Sprintf("caller %s: %s", fnName(caller), why)
		}
	}
	if seen == 0 {
		return false, fmt.Sprintf("parameter %s of %s has no reachable caller", p.Name(), fnName(fn))
	}
	return true, fmt.Sprintf("every one of %d callers passes a struct whose field is allocated", seen)
}
