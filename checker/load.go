package main

import (
	"fmt"
	"go/ast"
	"go/token"
	"go/types"
	"os"
	"path/filepath"
	"sort"
	"strings"

	"golang.org/x/tools/go/packages"
	"golang.org/x/tools/go/ssa"
	"golang.org/x/tools/go/ssa/ssautil"
)

const modPath = "github.com/protobom/protobom"

// anchorPkgs must be present in every load; a missing one is an environment fault.
var anchorPkgs = []string{
	"pkg/sbom", "pkg/reader", "pkg/writer", "pkg/formats", "pkg/storage",
	"pkg/native/serializers", "pkg/native/unserializers", "pkg/native",
	"pkg/formats/cyclonedx", "pkg/formats/spdx", "pkg/native/serializers/beta",
}

// Program is the type-checked, SSA-built view of /repo's current working tree.
type Program struct {
	InlinedAccessors int
	Dir              string
	Fset             *token.FileSet
	Pkgs             map[string]*packages.Package // by import path
	SSA              *ssa.Program
	SPkgs            map[string]*ssa.Package
	// module functions (including anonymous and methods), sorted by position
	Funcs []*ssa.Function
}

func loadProgram(dir string, overlay map[string][]byte) (*Program, error) {
	env := append(os.Environ(),
		"GOFLAGS=-mod=mod", "GOPROXY=off", "GOSUMDB=off", "GOTOOLCHAIN=local", "GOWORK=off")
	cfg := &packages.Config{
		Dir:     dir,
		Mode:    packages.LoadSyntax | packages.NeedModule,
		Tests:   false,
		Env:     env,
		Overlay: overlay,
	}
	pkgs, err := packages.Load(cfg, "./...")
	if err != nil {
		return nil, fmt.Errorf("packages.Load: %w", err)
	}
	if len(pkgs) == 0 {
		return nil, fmt.Errorf("no packages loaded from %s", dir)
	}
	nerr := 0
	packages.Visit(pkgs, nil, func(p *packages.Package) {
		for _, e := range p.Errors {
			fmt.Fprintf(os.Stderr, "load error: %s: %v\n", p.PkgPath, e)
			nerr++
		}
	})
	if nerr > 0 {
		return nil, fmt.Errorf("%d package errors (the tree does not type-check)", nerr)
	}
	p := &Program{Dir: dir, Pkgs: map[string]*packages.Package{}, SPkgs: map[string]*ssa.Package{}}
	for _, pk := range pkgs {
		p.Pkgs[pk.PkgPath] = pk
		p.Fset = pk.Fset
	}
	for _, a := range anchorPkgs {
		if p.Pkgs[modPath+"/"+a] == nil {
			return nil, fmt.Errorf("anchor package %s missing from load", a)
		}
	}
	prog, spkgs := ssautil.Packages(pkgs, ssa.InstantiateGenerics)
	for i, sp := range spkgs {
		if sp == nil {
			return nil, fmt.Errorf("no SSA package for %s", pkgs[i].PkgPath)
		}
		p.SPkgs[pkgs[i].PkgPath] = sp
	}
	prog.Build()
	p.SSA = prog
	for fn := range ssautil.AllFunctions(prog) {
		if fn.Pkg == nil && fn.Origin() == nil && fn.Parent() == nil {
			continue
		}
		if p.inModule(fn) && fn.Blocks != nil {
			p.Funcs = append(p.Funcs, fn)
		}
	}
	sort.Slice(p.Funcs, func(i, j int) bool {
		if p.Funcs[i].Pos() != p.Funcs[j].Pos() {
			return p.Funcs[i].Pos() < p.Funcs[j].Pos()
		}
		return p.Funcs[i].String() < p.Funcs[j].String()
	})
	// the SSA form is built from the program as written; the syntax-tree rules read named-set
	// accessors as the map operations they perform (inline.go)
	p.InlinedAccessors = inlineSetAccessors(p)
	return p, nil
}

func (p *Program) inModule(fn *ssa.Function) bool {
	for f := fn; f != nil; f = f.Parent() {
		if f.Pkg != nil {
			return strings.HasPrefix(f.Pkg.Pkg.Path(), modPath+"/")
		}
		if o := f.Origin(); o != nil && o.Pkg != nil {
			return strings.HasPrefix(o.Pkg.Pkg.Path(), modPath+"/")
		}
	}
	return false
}

func fnPkgPath(fn *ssa.Function) string {
	for f := fn; f != nil; f = f.Parent() {
		if f.Pkg != nil {
			return f.Pkg.Pkg.Path()
		}
		if o := f.Origin(); o != nil && o.Pkg != nil {
			return o.Pkg.Pkg.Path()
		}
	}
	if fn.Object() != nil && fn.Object().Pkg() != nil {
		return fn.Object().Pkg().Path()
	}
	return ""
}

// Pos renders a position relative to the repository root.
func (p *Program) Pos(pos token.Pos) string {
	if !pos.IsValid() {
		return "-"
	}
	ps := p.Fset.Position(pos)
	rel, err := filepath.Rel(p.Dir, ps.Filename)
	if err != nil || strings.HasPrefix(rel, "..") {
		rel = ps.Filename
	}
	return fmt.Sprintf("%s:%d", rel, ps.Line)
}

func (p *Program) pkg(rel string) *packages.Package { return p.Pkgs[modPath+"/"+rel] }

// shortPkg gives "sbom" for ".../pkg/sbom".
func shortPkg(path string) string {
	if i := strings.LastIndex(path, "/"); i >= 0 {
		return path[i+1:]
	}
	return path
}

// fnName renders a stable, position-free name: sbom.(*NodeList).Union, serializers.buildFiles,
// writer.WithFormat$1.
func fnName(fn *ssa.Function) string {
	if fn == nil {
		return "<nil>"
	}
	if fn.Parent() != nil {
		// anonymous: parent name + $n
		n := fn.Name()
		if i := strings.LastIndex(n, "$"); i >= 0 {
			return fnName(fn.Parent()) + n[i:]
		}
		return fnName(fn.Parent()) + "$" + n
	}
	pk := shortPkg(fnPkgPath(fn))
	if recv := fn.Signature.Recv(); recv != nil {
		t := recv.Type()
		star := ""
		if pt, ok := t.(*types.Pointer); ok {
			t = pt.Elem()
			star = "*"
		}
		name := "?"
		if nt, ok := t.(*types.Named); ok {
			name = nt.Obj().Name()
		}
		if star != "" {
			return canonical(fmt.Sprintf("%s.(*%s).%s", pk, name, fn.Name()))
		}
		return canonical(fmt.Sprintf("%s.%s.%s", pk, name, fn.Name()))
	}
	return canonical(pk + "." + fn.Name())
}

// objName renders a types.Func the same way fnName renders its SSA function.
func objName(f *types.Func) string {
	if f == nil {
		return "<nil>"
	}
	pk := ""
	if f.Pkg() != nil {
		pk = shortPkg(f.Pkg().Path())
	}
	sig := f.Type().(*types.Signature)
	if recv := sig.Recv(); recv != nil {
		t := recv.Type()
		star := ""
		if pt, ok := t.(*types.Pointer); ok {
			t = pt.Elem()
			star = "*"
		}
		name := "?"
		switch nt := t.(type) {
		case *types.Named:
			name = nt.Obj().Name()
		case *types.Interface:
			name = "interface"
		}
		if star != "" {
			return canonical(fmt.Sprintf("%s.(*%s).%s", pk, name, f.Name()))
		}
		return canonical(fmt.Sprintf("%s.%s.%s", pk, name, f.Name()))
	}
	return canonical(pk + "." + f.Name())
}

// Func finds a module function by its stable name (see fnName). nil if absent.
func (p *Program) Func(name string) *ssa.Function {
	for _, fn := range p.Funcs {
		if fnName(fn) == name {
			return fn
		}
	}
	return nil
}

// FuncDecl finds the syntax of a top-level function or method by stable name.
func (p *Program) FuncDecl(name string) (*ast.FuncDecl, *packages.Package) {
	for _, pk := range p.Pkgs {
		if !strings.HasPrefix(pk.PkgPath, modPath+"/") {
			continue
		}
		for _, f := range pk.Syntax {
			for _, d := range f.Decls {
				fd, ok := d.(*ast.FuncDecl)
				if !ok {
					continue
				}
				obj, _ := pk.TypesInfo.Defs[fd.Name].(*types.Func)
				if obj != nil && objName(obj) == name {
					return fd, pk
				}
			}
		}
	}
	return nil, nil
}

// pkgOf returns the loaded package that declares fn.
func (p *Program) pkgOf(fn *ssa.Function) *packages.Package {
	return p.Pkgs[fnPkgPath(fn)]
}

// namedType looks up a named type in a loaded package or in one of its imports.
func (p *Program) namedType(pkgPath, name string) *types.Named {
	var tp *types.Package
	if pk := p.Pkgs[pkgPath]; pk != nil {
		tp = pk.Types
	} else {
		for _, pk := range p.Pkgs {
			if ip := pk.Imports[pkgPath]; ip != nil && ip.Types != nil {
				tp = ip.Types
				break
			}
		}
	}
	if tp == nil {
		return nil
	}
	o := tp.Scope().Lookup(name)
	if o == nil {
		return nil
	}
	nt, _ := o.Type().(*types.Named)
	return nt
}

// structFields lists exported fields of a named struct type.
func exportedFields(nt *types.Named) []*types.Var {
	st, ok := nt.Underlying().(*types.Struct)
	if !ok {
		return nil
	}
	var out []*types.Var
	for i := 0; i < st.NumFields(); i++ {
		f := st.Field(i)
		if f.Exported() {
			out = append(out, f)
		}
	}
	return out
}
