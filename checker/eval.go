package main

// E1 — finite-table extraction by constant folding over the syntax tree.
//
// A "table function" is a function whose result is determined by comparing its inputs with
// compile-time constants: switch/return, switch/assign, if-chains, one normalising call from a
// fixed list, one-level delegation to another table function. evalFunc folds such a body for
// one concrete constant input using the compiler's own constant values (types.Info). Anything
// outside this vocabulary yields an unknown value, which the rules report as *undecided*.

import (
	"fmt"
	"go/ast"
	"go/constant"
	"go/token"
	"go/types"
	"strings"

	"golang.org/x/tools/go/packages"
	"golang.org/x/tools/go/types/typeutil"
)

type vkind int

const (
	vUnknown vkind = iota
	vConst         // constant.Value (bool, string, int)
	vNil           // nil (pointer, error, slice)
	vErr           // some non-nil error
	vRec           // record: struct with (some) known fields
	vList          // composite literal of constants, e.g. []Purpose{K}
	vMap           // map literal with constant keys
)

type value struct {
	k    vkind
	c    constant.Value
	rec  map[string]value
	list []value
	mkey []value // vMap: keys, parallel to list (values)
	zero *value  // vMap: zero value of the element type
	why  string  // for unknown: what could not be folded
}

func unknown(format string, a ...any) value {
	return value{k: vUnknown, why: fmt.Sprintf(format, a...)}
}
func cstr(s string) value          { return value{k: vConst, c: constant.MakeString(s)} }
func cint(i int64) value           { return value{k: vConst, c: constant.MakeInt64(i)} }
func cbool(b bool) value           { return value{k: vConst, c: constant.MakeBool(b)} }
func rec(m map[string]value) value { return value{k: vRec, rec: m} }

func (v value) String() string {
	switch v.k {
	case vConst:
		return v.c.ExactString()
	case vNil:
		return "nil"
	case vErr:
		return "<error>"
	case vRec:
		return fmt.Sprintf("rec%v", v.rec)
	case vList:
		var ss []string
		for _, e := range v.list {
			ss = append(ss, e.String())
		}
		return "[" + strings.Join(ss, ",") + "]"
	}
	return "?(" + v.why + ")"
}

func (v value) isStr() bool { return v.k == vConst && v.c.Kind() == constant.String }
func (v value) str() string { return constant.StringVal(v.c) }
func (v value) isInt() bool { return v.k == vConst && v.c.Kind() == constant.Int }
func (v value) int() int64  { i, _ := constant.Int64Val(v.c); return i }

func sameValue(a, b value) bool {
	if a.k != b.k {
		return false
	}
	switch a.k {
	case vConst:
		if a.c.Kind() != b.c.Kind() {
			return false
		}
		return constant.Compare(a.c, token.EQL, b.c)
	case vNil, vErr:
		return true
	case vList:
		if len(a.list) != len(b.list) {
			return false
		}
		for i := range a.list {
			if !sameValue(a.list[i], b.list[i]) {
				return false
			}
		}
		return true
	}
	return false
}

type evaluator struct {
	p     *Program
	depth int
	steps int
}

type frame struct {
	pkg *packages.Package
	env map[types.Object]value
	// fieldOverride: any selector x.F with F in the map evaluates to the bound value, whatever x
	// is (used to fold a predicate over one field of an element that is otherwise unknown);
	// fieldStores records the values assigned to such fields
	fieldOverride map[string]value
	fieldStores   map[string]value
}

type flow int

const (
	flowNext flow = iota
	flowReturn
	flowBreak
	flowContinue
	flowStuck // could not fold control flow
)

// evalFunc folds the module function fd (declared in pkg) on the given receiver/argument values.
// The result has one value per declared result.
func (ev *evaluator) evalFunc(fd *ast.FuncDecl, pkg *packages.Package, recv *value, args []value) []value {
	if ev.depth > 6 {
		return []value{unknown("delegation too deep")}
	}
	ev.depth++
	defer func() { ev.depth-- }()
	fr := &frame{pkg: pkg, env: map[types.Object]value{}}
	if fd.Recv != nil && len(fd.Recv.List) == 1 && len(fd.Recv.List[0].Names) == 1 && recv != nil {
		if o := pkg.TypesInfo.Defs[fd.Recv.List[0].Names[0]]; o != nil {
			fr.env[o] = *recv
		}
	}
	i := 0
	for _, f := range fd.Type.Params.List {
		for _, n := range f.Names {
			if i < len(args) {
				if o := pkg.TypesInfo.Defs[n]; o != nil {
					fr.env[o] = args[i]
				}
			}
			i++
		}
		if len(f.Names) == 0 {
			i++
		}
	}
	nres := 0
	var named []types.Object
	if fd.Type.Results != nil {
		for _, f := range fd.Type.Results.List {
			if len(f.Names) == 0 {
				nres++
			}
			for _, n := range f.Names {
				nres++
				o := pkg.TypesInfo.Defs[n]
				named = append(named, o)
				fr.env[o] = zeroValue(o.Type())
			}
		}
	}
	fl, vals := ev.block(fr, fd.Body.List)
	if fl == flowReturn {
		if len(vals) == 0 && len(named) > 0 {
			for _, o := range named {
				vals = append(vals, fr.env[o])
			}
		}
		for len(vals) < nres {
			vals = append(vals, unknown("missing result"))
		}
		return vals
	}
	out := make([]value, nres)
	for i := range out {
		why := "control flow not folded"
		if len(vals) > 0 {
			why = vals[0].why
		}
		out[i] = unknown("%s", why)
	}
	return out
}

func zeroValue(t types.Type) value {
	switch u := t.Underlying().(type) {
	case *types.Basic:
		switch {
		case u.Info()&types.IsString != 0:
			return cstr("")
		case u.Info()&types.IsInteger != 0:
			return cint(0)
		case u.Info()&types.IsBoolean != 0:
			return cbool(false)
		}
	case *types.Pointer, *types.Slice, *types.Map, *types.Interface:
		return value{k: vNil}
	}
	return unknown("zero of %s", t)
}

func (ev *evaluator) block(fr *frame, stmts []ast.Stmt) (flow, []value) {
	for _, s := range stmts {
		fl, v := ev.stmt(fr, s)
		if fl != flowNext {
			return fl, v
		}
	}
	return flowNext, nil
}

func stuck(format string, a ...any) (flow, []value) {
	return flowStuck, []value{unknown(format, a...)}
}

func (ev *evaluator) stmt(fr *frame, s ast.Stmt) (flow, []value) {
	ev.steps++
	if ev.steps > 200000 {
		return stuck("step budget exceeded")
	}
	info := fr.pkg.TypesInfo
	switch s := s.(type) {
	case *ast.ReturnStmt:
		var vals []value
		if len(s.Results) == 1 {
			// `return f(…)` forwards every result of f
			if ce, ok := s.Results[0].(*ast.CallExpr); ok {
				if tv, isT := info.Types[ce.Fun]; !(isT && tv.IsType()) {
					if rs := ev.call(fr, ce); len(rs) > 1 {
						return flowReturn, rs
					}
				}
			}
		}
		for _, r := range s.Results {
			vals = append(vals, ev.expr(fr, r))
		}
		return flowReturn, vals
	case *ast.BlockStmt:
		return ev.block(fr, s.List)
	case *ast.EmptyStmt:
		return flowNext, nil
	case *ast.ExprStmt:
		// calls for effect (logging) do not influence a table's result
		return flowNext, nil
	case *ast.DeclStmt:
		gd, ok := s.Decl.(*ast.GenDecl)
		if !ok {
			return stuck("decl")
		}
		for _, sp := range gd.Specs {
			vs, ok := sp.(*ast.ValueSpec)
			if !ok {
				continue
			}
			for i, n := range vs.Names {
				o := info.Defs[n]
				if o == nil {
					continue
				}
				if i < len(vs.Values) {
					fr.env[o] = ev.expr(fr, vs.Values[i])
				} else {
					fr.env[o] = zeroValue(o.Type())
				}
			}
		}
		return flowNext, nil
	case *ast.AssignStmt:
		if len(s.Lhs) != len(s.Rhs) {
			// comma-ok lookup in a folded map table: v, ok := table[k]
			if len(s.Lhs) == 2 && len(s.Rhs) == 1 {
				if ix, ok := s.Rhs[0].(*ast.IndexExpr); ok {
					m := ev.expr(fr, ix.X)
					k := ev.expr(fr, ix.Index)
					if m.k == vMap && k.k == vConst {
						v, found := mapLookup(m, k)
						ev.assign(fr, s.Lhs[0], v)
						ev.assign(fr, s.Lhs[1], cbool(found))
						return flowNext, nil
					}
				}
			}
			// tuple assignment from a call
			if len(s.Rhs) == 1 {
				if call, ok := s.Rhs[0].(*ast.CallExpr); ok {
					vals := ev.call(fr, call)
					for i, l := range s.Lhs {
						v := unknown("tuple arity")
						if i < len(vals) {
							v = vals[i]
						}
						ev.assign(fr, l, v)
					}
					return flowNext, nil
				}
			}
			for _, l := range s.Lhs {
				ev.assign(fr, l, unknown("tuple assignment"))
			}
			return flowNext, nil
		}
		if s.Tok != token.ASSIGN && s.Tok != token.DEFINE {
			for _, l := range s.Lhs {
				ev.assign(fr, l, unknown("compound assignment"))
			}
			return flowNext, nil
		}
		vals := make([]value, len(s.Rhs))
		for i, r := range s.Rhs {
			vals[i] = ev.expr(fr, r)
		}
		for i, l := range s.Lhs {
			ev.assign(fr, l, vals[i])
		}
		return flowNext, nil
	case *ast.IfStmt:
		if s.Init != nil {
			if fl, v := ev.stmt(fr, s.Init); fl != flowNext {
				return fl, v
			}
		}
		c := ev.expr(fr, s.Cond)
		if c.k != vConst || c.c.Kind() != constant.Bool {
			return stuck("if condition not constant: %s (%s)", types.ExprString(s.Cond), c.why)
		}
		if constant.BoolVal(c.c) {
			return ev.block(fr, s.Body.List)
		}
		if s.Else != nil {
			return ev.stmt(fr, s.Else)
		}
		return flowNext, nil
	case *ast.SwitchStmt:
		if s.Init != nil {
			if fl, v := ev.stmt(fr, s.Init); fl != flowNext {
				return fl, v
			}
		}
		var tag value
		if s.Tag != nil {
			tag = ev.expr(fr, s.Tag)
			if tag.k != vConst {
				return stuck("switch tag not constant: %s (%s)", types.ExprString(s.Tag), tag.why)
			}
		}
		var deflt *ast.CaseClause
		for _, cc := range s.Body.List {
			cl := cc.(*ast.CaseClause)
			if cl.List == nil {
				deflt = cl
				continue
			}
			for _, e := range cl.List {
				cv := ev.expr(fr, e)
				if cv.k != vConst {
					return stuck("case expression not constant: %s", types.ExprString(e))
				}
				match := false
				if s.Tag == nil {
					match = cv.c.Kind() == constant.Bool && constant.BoolVal(cv.c)
				} else {
					match = sameValue(tag, cv)
				}
				if match {
					return ev.caseBody(fr, cl)
				}
			}
		}
		if deflt != nil {
			return ev.caseBody(fr, deflt)
		}
		return flowNext, nil
	case *ast.BranchStmt:
		switch s.Tok {
		case token.BREAK:
			if s.Label == nil {
				return flowBreak, nil
			}
		case token.CONTINUE:
			if s.Label == nil {
				return flowContinue, nil
			}
		}
		return stuck("branch %s", s.Tok)
	case *ast.RangeStmt:
		// `for _, x := range []string{"2.2","2.3"} { ... }` over a constant list
		lst := ev.expr(fr, s.X)
		if lst.k != vList {
			return stuck("range over non-constant collection")
		}
		for i, e := range lst.list {
			if s.Key != nil {
				ev.assign(fr, s.Key, cint(int64(i)))
			}
			if s.Value != nil {
				ev.assign(fr, s.Value, e)
			}
			fl, v := ev.block(fr, s.Body.List)
			switch fl {
			case flowReturn, flowStuck:
				return fl, v
			case flowBreak:
				return flowNext, nil
			}
		}
		return flowNext, nil
	}
	return stuck("statement %T not in the table vocabulary", s)
}

func (ev *evaluator) caseBody(fr *frame, cl *ast.CaseClause) (flow, []value) {
	fl, v := ev.block(fr, cl.Body)
	if fl == flowBreak {
		return flowNext, nil
	}
	return fl, v
}

func (ev *evaluator) assign(fr *frame, lhs ast.Expr, v value) {
	info := fr.pkg.TypesInfo
	switch l := lhs.(type) {
	case *ast.Ident:
		if l.Name == "_" {
			return
		}
		o := info.Defs[l]
		if o == nil {
			o = info.Uses[l]
		}
		if o != nil {
			fr.env[o] = v
		}
	case *ast.SelectorExpr:
		if _, over := fr.fieldOverride[l.Sel.Name]; over {
			if fr.fieldStores == nil {
				fr.fieldStores = map[string]value{}
			}
			fr.fieldStores[l.Sel.Name] = v
			fr.fieldOverride[l.Sel.Name] = v
			return
		}
		// x.F = v on a record-valued local
		if id, ok := l.X.(*ast.Ident); ok {
			o := info.Uses[id]
			if o == nil {
				return
			}
			cur := fr.env[o]
			if cur.k == vRec {
				cur.rec[l.Sel.Name] = v
			}
		}
	}
}

func (ev *evaluator) expr(fr *frame, e ast.Expr) value {
	info := fr.pkg.TypesInfo
	if tv, ok := info.Types[e]; ok && tv.Value != nil {
		return value{k: vConst, c: tv.Value}
	}
	switch e := e.(type) {
	case *ast.ParenExpr:
		return ev.expr(fr, e.X)
	case *ast.Ident:
		if e.Name == "nil" {
			if _, ok := info.Uses[e].(*types.Nil); ok {
				return value{k: vNil}
			}
		}
		o := info.Uses[e]
		if o == nil {
			o = info.Defs[e]
		}
		if v, ok := fr.env[o]; ok {
			return v
		}
		if pv, ok := o.(*types.Var); ok && pv.Pkg() != nil && pv.Parent() == pv.Pkg().Scope() {
			return ev.packageTable(pv)
		}
		return unknown("free variable %s", e.Name)
	case *ast.SelectorExpr:
		if v, over := fr.fieldOverride[e.Sel.Name]; over {
			return v
		}
		// field of a record
		x := ev.expr(fr, e.X)
		if x.k == vRec {
			if f, ok := x.rec[e.Sel.Name]; ok {
				return f
			}
			return unknown("field %s not bound", e.Sel.Name)
		}
		return unknown("selector %s", types.ExprString(e))
	case *ast.StarExpr:
		return ev.expr(fr, e.X) // pointers to constants are modelled by the constant
	case *ast.UnaryExpr:
		x := ev.expr(fr, e.X)
		switch e.Op {
		case token.AND:
			return x
		case token.NOT:
			if x.k == vConst && x.c.Kind() == constant.Bool {
				return cbool(!constant.BoolVal(x.c))
			}
		case token.SUB:
			if x.isInt() {
				return value{k: vConst, c: constant.UnaryOp(token.SUB, x.c, 0)}
			}
		}
		return unknown("unary %s", e.Op)
	case *ast.BinaryExpr:
		switch e.Op {
		case token.LAND:
			l := ev.expr(fr, e.X)
			if l.k == vConst && l.c.Kind() == constant.Bool && !constant.BoolVal(l.c) {
				return cbool(false)
			}
			r := ev.expr(fr, e.Y)
			if l.k == vConst && r.k == vConst && l.c.Kind() == constant.Bool && r.c.Kind() == constant.Bool {
				return cbool(constant.BoolVal(l.c) && constant.BoolVal(r.c))
			}
			if r.k == vConst && r.c.Kind() == constant.Bool && !constant.BoolVal(r.c) {
				return cbool(false)
			}
			return unknown("&& operand: %s%s", l.why, r.why)
		case token.LOR:
			l := ev.expr(fr, e.X)
			if l.k == vConst && l.c.Kind() == constant.Bool && constant.BoolVal(l.c) {
				return cbool(true)
			}
			r := ev.expr(fr, e.Y)
			if l.k == vConst && r.k == vConst && l.c.Kind() == constant.Bool && r.c.Kind() == constant.Bool {
				return cbool(constant.BoolVal(l.c) || constant.BoolVal(r.c))
			}
			if r.k == vConst && r.c.Kind() == constant.Bool && constant.BoolVal(r.c) {
				return cbool(true)
			}
			return unknown("|| operand: %s%s", l.why, r.why)
		}
		l, r := ev.expr(fr, e.X), ev.expr(fr, e.Y)
		switch e.Op {
		case token.EQL, token.NEQ:
			if (l.k == vNil || l.k == vErr) && (r.k == vNil || r.k == vErr) {
				eq := l.k == r.k && l.k == vNil
				if l.k == vErr && r.k == vErr {
					return unknown("error comparison")
				}
				return cbool(eq == (e.Op == token.EQL))
			}
			// a record (pointer to struct) is never nil
			if (l.k == vRec && r.k == vNil) || (l.k == vNil && r.k == vRec) {
				return cbool(e.Op == token.NEQ)
			}
			if (l.k == vConst && r.k == vNil) || (l.k == vNil && r.k == vConst) {
				return cbool(e.Op == token.NEQ) // pointer-to-constant model
			}
		}
		if l.k == vConst && r.k == vConst {
			switch e.Op {
			case token.EQL, token.NEQ, token.LSS, token.LEQ, token.GTR, token.GEQ:
				if l.c.Kind() != r.c.Kind() {
					return unknown("comparison of different kinds")
				}
				return cbool(constant.Compare(l.c, e.Op, r.c))
			case token.ADD, token.SUB, token.MUL, token.AND, token.OR:
				if l.c.Kind() == r.c.Kind() {
					return value{k: vConst, c: constant.BinaryOp(l.c, e.Op, r.c)}
				}
			}
		}
		return unknown("binary %s on %s, %s", e.Op, l, r)
	case *ast.CallExpr:
		vals := ev.call(fr, e)
		if len(vals) == 1 {
			return vals[0]
		}
		return unknown("multi-value call in single-value context")
	case *ast.CompositeLit:
		t := info.TypeOf(e)
		if t == nil {
			return unknown("composite")
		}
		switch t.Underlying().(type) {
		case *types.Slice, *types.Array:
			var out []value
			for _, el := range e.Elts {
				if kv, ok := el.(*ast.KeyValueExpr); ok {
					el = kv.Value
				}
				out = append(out, ev.expr(fr, el))
			}
			return value{k: vList, list: out}
		case *types.Map:
			// a map literal nested in a folded table
			mt := t.Underlying().(*types.Map)
			z := zeroValue(mt.Elem())
			out := value{k: vMap, zero: &z}
			for _, el := range e.Elts {
				kv, ok := el.(*ast.KeyValueExpr)
				if !ok {
					return unknown("map literal with a non-keyed element")
				}
				k := ev.expr(fr, kv.Key)
				if k.k != vConst {
					return unknown("non-constant key in a map literal")
				}
				out.mkey = append(out.mkey, k)
				out.list = append(out.list, ev.expr(fr, kv.Value))
			}
			return out
		case *types.Struct:
			m := map[string]value{}
			st := t.Underlying().(*types.Struct)
			for i, el := range e.Elts {
				if kv, ok := el.(*ast.KeyValueExpr); ok {
					if id, ok := kv.Key.(*ast.Ident); ok {
						m[id.Name] = ev.expr(fr, kv.Value)
					}
				} else if i < st.NumFields() {
					// positional form: T{a, b}
					m[st.Field(i).Name()] = ev.expr(fr, el)
				}
			}
			// fields not mentioned hold their zero value
			for i := 0; i < st.NumFields(); i++ {
				if _, has := m[st.Field(i).Name()]; !has {
					m[st.Field(i).Name()] = zeroValue(st.Field(i).Type())
				}
			}
			return rec(m)
		}
		return unknown("composite literal of %s", t)
	case *ast.IndexExpr:
		x := ev.expr(fr, e.X)
		i := ev.expr(fr, e.Index)
		if x.k == vMap && i.k == vConst {
			v, _ := mapLookup(x, i)
			return v
		}
		if x.k == vList && i.isInt() {
			if int(i.int()) < len(x.list) && i.int() >= 0 {
				return x.list[i.int()]
			}
			return unknown("index %d out of range of a %d-element table (would panic)", i.int(), len(x.list))
		}
		if x.isStr() && i.isInt() {
			return unknown("string index")
		}
		return unknown("index")
	case *ast.SliceExpr:
		// s[lo:hi] on a constant string
		x := ev.expr(fr, e.X)
		if x.isStr() && !e.Slice3 {
			lo, hi := int64(0), int64(len(x.str()))
			if e.Low != nil {
				v := ev.expr(fr, e.Low)
				if !v.isInt() {
					return unknown("slice bound")
				}
				lo = v.int()
			}
			if e.High != nil {
				v := ev.expr(fr, e.High)
				if !v.isInt() {
					return unknown("slice bound")
				}
				hi = v.int()
			}
			if lo < 0 || hi > int64(len(x.str())) || lo > hi {
				return unknown("slice bounds out of range (would panic)")
			}
			return cstr(x.str()[lo:hi])
		}
		return unknown("slice expression")
	}
	return unknown("expression %T", e)
}

// call folds conversions, the fixed list of normalising library calls, and delegation to other
// module table functions.
func (ev *evaluator) call(fr *frame, e *ast.CallExpr) []value {
	info := fr.pkg.TypesInfo
	// conversion T(x)
	if tv, ok := info.Types[e.Fun]; ok && tv.IsType() && len(e.Args) == 1 {
		x := ev.expr(fr, e.Args[0])
		if x.k != vConst {
			return []value{x}
		}
		dst := tv.Type.Underlying()
		if b, ok := dst.(*types.Basic); ok {
			switch {
			case b.Info()&types.IsString != 0 && x.c.Kind() == constant.String:
				return []value{x}
			case b.Info()&types.IsInteger != 0 && x.c.Kind() == constant.Int:
				return []value{x}
			}
		}
		return []value{unknown("conversion to %s", tv.Type)}
	}
	callee := typeutil.Callee(info, e)
	fn, _ := callee.(*types.Func)
	if fn == nil {
		if b, ok := callee.(*types.Builtin); ok && b.Name() == "len" && len(e.Args) == 1 {
			x := ev.expr(fr, e.Args[0])
			switch {
			case x.isStr():
				return []value{cint(int64(len(x.str())))}
			case x.k == vList:
				return []value{cint(int64(len(x.list)))}
			}
		}
		return []value{unknown("call of non-function %s", types.ExprString(e.Fun))}
	}
	full := fn.FullName()
	argv := func(i int) value {
		if i < len(e.Args) {
			return ev.expr(fr, e.Args[i])
		}
		return unknown("missing arg")
	}
	str1 := func(f func(string) string) []value {
		a := argv(0)
		if a.isStr() {
			return []value{cstr(f(a.str()))}
		}
		return []value{unknown("%s of non-constant (%s)", full, a.why)}
	}
	switch full {
	case "strings.ToUpper":
		return str1(strings.ToUpper)
	case "strings.ToLower":
		return str1(strings.ToLower)
	case "strings.TrimSpace":
		return str1(strings.TrimSpace)
	case "strings.TrimPrefix", "strings.TrimSuffix", "strings.TrimLeft", "strings.TrimRight", "strings.Trim":
		a, b := argv(0), argv(1)
		if a.isStr() && b.isStr() {
			switch full {
			case "strings.TrimPrefix":
				return []value{cstr(strings.TrimPrefix(a.str(), b.str()))}
			case "strings.TrimSuffix":
				return []value{cstr(strings.TrimSuffix(a.str(), b.str()))}
			case "strings.TrimLeft":
				return []value{cstr(strings.TrimLeft(a.str(), b.str()))}
			case "strings.TrimRight":
				return []value{cstr(strings.TrimRight(a.str(), b.str()))}
			default:
				return []value{cstr(strings.Trim(a.str(), b.str()))}
			}
		}
		return []value{unknown("%s of non-constants", full)}
	case "strings.Index", "strings.LastIndex", "strings.Count":
		a, b := argv(0), argv(1)
		if a.isStr() && b.isStr() {
			switch full {
			case "strings.Index":
				return []value{cint(int64(strings.Index(a.str(), b.str())))}
			case "strings.LastIndex":
				return []value{cint(int64(strings.LastIndex(a.str(), b.str())))}
			default:
				return []value{cint(int64(strings.Count(a.str(), b.str())))}
			}
		}
		return []value{unknown("%s of non-constants", full)}
	case "strings.Cut":
		a, b := argv(0), argv(1)
		if a.isStr() && b.isStr() {
			x, y, ok := strings.Cut(a.str(), b.str())
			return []value{cstr(x), cstr(y), cbool(ok)}
		}
		return []value{unknown("Cut of non-constants"), unknown("Cut of non-constants"), unknown("Cut of non-constants")}
	case "strings.CutPrefix", "strings.CutSuffix":
		a, b := argv(0), argv(1)
		if a.isStr() && b.isStr() {
			var x string
			var ok bool
			if full == "strings.CutPrefix" {
				x, ok = strings.CutPrefix(a.str(), b.str())
			} else {
				x, ok = strings.CutSuffix(a.str(), b.str())
			}
			return []value{cstr(x), cbool(ok)}
		}
		return []value{unknown("%s of non-constants", full), unknown("%s of non-constants", full)}
	case "strings.SplitN":
		a, b, n := argv(0), argv(1), argv(2)
		if a.isStr() && b.isStr() && n.isInt() {
			var out []value
			for _, p := range strings.SplitN(a.str(), b.str(), int(n.int())) {
				out = append(out, cstr(p))
			}
			return []value{{k: vList, list: out}}
		}
		return []value{unknown("SplitN of non-constants")}
	case "strings.EqualFold":
		a, b := argv(0), argv(1)
		if a.isStr() && b.isStr() {
			return []value{cbool(strings.EqualFold(a.str(), b.str()))}
		}
		return []value{unknown("EqualFold of non-constants")}
	case "strings.Contains", "strings.HasPrefix", "strings.HasSuffix":
		a, b := argv(0), argv(1)
		if a.isStr() && b.isStr() {
			switch full {
			case "strings.Contains":
				return []value{cbool(strings.Contains(a.str(), b.str()))}
			case "strings.HasPrefix":
				return []value{cbool(strings.HasPrefix(a.str(), b.str()))}
			default:
				return []value{cbool(strings.HasSuffix(a.str(), b.str()))}
			}
		}
		return []value{unknown("%s of non-constants", full)}
	case "strings.Split":
		a, b := argv(0), argv(1)
		if a.isStr() && b.isStr() {
			var out []value
			for _, p := range strings.Split(a.str(), b.str()) {
				out = append(out, cstr(p))
			}
			return []value{{k: vList, list: out}}
		}
		return []value{unknown("Split of non-constants")}
	case "fmt.Errorf", "errors.New":
		return []value{{k: vErr}}
	case "fmt.Sprintf":
		f := argv(0)
		if f.isStr() {
			var args []any
			okAll := true
			for i := 1; i < len(e.Args); i++ {
				a := argv(i)
				switch {
				case a.isStr():
					args = append(args, a.str())
				case a.isInt():
					args = append(args, a.int())
				default:
					okAll = false
				}
			}
			if okAll {
				return []value{cstr(fmt.Sprintf(f.str(), args...))}
			}
		}
		return []value{unknown("Sprintf of non-constants")}
	}
	// generated protobuf Enum(): pointer to the constant itself
	if fn.Name() == "Enum" && fn.Type().(*types.Signature).Recv() != nil {
		if sel, ok := e.Fun.(*ast.SelectorExpr); ok {
			return []value{ev.expr(fr, sel.X)}
		}
	}
	// delegation to a module function
	if fn.Pkg() != nil && strings.HasPrefix(fn.Pkg().Path(), modPath+"/") {
		fd, pk := ev.p.FuncDecl(objName(fn))
		if fd != nil && fd.Body != nil {
			var recv *value
			if sel, ok := e.Fun.(*ast.SelectorExpr); ok && fn.Type().(*types.Signature).Recv() != nil {
				rv := ev.expr(fr, sel.X)
				recv = &rv
			}
			var args []value
			for i := range e.Args {
				args = append(args, argv(i))
			}
			return ev.evalFunc(fd, pk, recv, args)
		}
	}
	n := fn.Type().(*types.Signature).Results().Len()
	out := make([]value, n)
	for i := range out {
		out[i] = unknown("call to %s", full)
	}
	if n == 0 {
		return []value{unknown("call to %s", full)}
	}
	return out
}

// ---- enum domains ----

// enumConsts lists every package-level constant of the named type, in declaration value order.
func enumConsts(nt *types.Named) []*types.Const {
	var out []*types.Const
	sc := nt.Obj().Pkg().Scope()
	for _, name := range sc.Names() {
		if c, ok := sc.Lookup(name).(*types.Const); ok && types.Identical(c.Type(), nt) {
			out = append(out, c)
		}
	}
	// stable order by value then name
	for i := 1; i < len(out); i++ {
		for j := i; j > 0; j-- {
			a, b := out[j-1], out[j]
			less := false
			if a.Val().Kind() == constant.Int && b.Val().Kind() == constant.Int {
				less = constant.Compare(b.Val(), token.LSS, a.Val())
			} else {
				less = b.Name() < a.Name()
			}
			if !less {
				break
			}
			out[j-1], out[j] = b, a
		}
	}
	return out
}

func constVal(c *types.Const) value { return value{k: vConst, c: c.Val()} }

// packageTable folds a package-level variable that is initialised with a composite literal of
// constants (array, slice) and never assigned anywhere else in its package: a lookup table.
func (ev *evaluator) packageTable(pv *types.Var) value {
	pk := ev.p.Pkgs[pv.Pkg().Path()]
	if pk == nil {
		return unknown("package-level variable %s of an unloaded package", pv.Name())
	}
	var init ast.Expr
	assigned := false
	for _, f := range pk.Syntax {
		ast.Inspect(f, func(n ast.Node) bool {
			switch s := n.(type) {
			case *ast.ValueSpec:
				for i, nm := range s.Names {
					if pk.TypesInfo.Defs[nm] == pv && i < len(s.Values) {
						init = s.Values[i]
					}
				}
			case *ast.AssignStmt:
				for _, l := range s.Lhs {
					base := l
					for {
						if ix, ok := base.(*ast.IndexExpr); ok {
							base = ix.X
							continue
						}
						break
					}
					if id, ok := base.(*ast.Ident); ok && pk.TypesInfo.Uses[id] == pv {
						assigned = true
					}
				}
			}
			return true
		})
	}
	cl, ok := init.(*ast.CompositeLit)
	if !ok || assigned {
		return unknown("package-level variable %s is not an init-only literal table", pv.Name())
	}
	var elemT types.Type
	fr := &frame{pkg: pk, env: map[types.Object]value{}}
	switch u := pv.Type().Underlying().(type) {
	case *types.Array:
		elemT = u.Elem()
	case *types.Slice:
		elemT = u.Elem()
	case *types.Map:
		z := zeroValue(u.Elem())
		out := value{k: vMap, zero: &z}
		for _, el := range cl.Elts {
			kv, ok := el.(*ast.KeyValueExpr)
			if !ok {
				return unknown("map table %s has a non-keyed element", pv.Name())
			}
			k := ev.expr(fr, kv.Key)
			v := ev.expr(fr, kv.Value)
			if k.k != vConst {
				return unknown("non-constant key in table %s", pv.Name())
			}
			out.mkey = append(out.mkey, k)
			out.list = append(out.list, v)
		}
		return out
	default:
		return unknown("package-level variable %s is not an array, slice or map table", pv.Name())
	}
	var out []value
	next := 0
	for _, el := range cl.Elts {
		idx := next
		val := el
		if kv, ok := el.(*ast.KeyValueExpr); ok {
			k := ev.expr(fr, kv.Key)
			if !k.isInt() {
				return unknown("non-constant key in table %s", pv.Name())
			}
			idx = int(k.int())
			val = kv.Value
		}
		for len(out) <= idx {
			out = append(out, zeroValue(elemT))
		}
		out[idx] = ev.expr(fr, val)
		next = idx + 1
	}
	return value{k: vList, list: out}
}

func mapLookup(m value, k value) (value, bool) {
	for i, mk := range m.mkey {
		if sameValue(mk, k) {
			return m.list[i], true
		}
	}
	if m.zero != nil {
		return *m.zero, false
	}
	return unknown("missing key"), false
}
