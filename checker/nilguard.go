package main

// E6 — absent-part guard analysis on the structured syntax tree, keyed by access path.
//
// For every function in scope the body is walked with an environment of facts about access
// paths (bom.Metadata, lc.License, dt.Name, a range variable as a root):
//   nonnil(P), isnil(P), len(P) >= k, typeis(P, T)
// established by if-conditions (with polarity, &&/|| short-circuit), early exits
// (`if P == nil { return }`), and comma-ok forms, and killed by assignment to P or a prefix.
// A *panicking operation* — field selection or method call through a pointer, `*P`, `range *P`,
// constant index, single-value type assertion, a call passing P to a function that
// dereferences that parameter — on an operand that is *possibly absent* needs a fact.
// Possibly-absent sources are decided by type and provenance, not by name: pointer/interface
// fields of decoded structs (protobuf messages, cyclonedx-go, tools-golang), elements of their
// []*T lists, results of module functions that may return nil, pointer parameters of the
// public entry points, and locals declared without a value.

import (
	"fmt"
	"go/ast"
	"go/token"
	"go/types"
	"sort"
	"strings"

	"golang.org/x/tools/go/types/typeutil"
)

// struct packages whose pointer parts may be absent; set per property by the engine's user
var untrustedStructPkgs = []string{}

var decodedNativePkgs = []string{
	"github.com/CycloneDX/cyclonedx-go",
	"github.com/spdx/tools-golang/",
}

var protobomMessagePkgs = []string{
	modPath + "/pkg/sbom",
	"google.golang.org/protobuf/types/known/",
}

// getterPkgs: packages with generated nil-safe GetX() accessors
var getterPkgs = []string{modPath + "/pkg/sbom", "google.golang.org/protobuf/types/known/"}

// library facts: decoded lists whose elements are never nil, with the reason
var nonNilElementLists = map[string]string{
	"Document.Relationships": "tools-golang v0.5.5 spdx/v2/v2_3/document.go UnmarshalJSON removes null relationships",
}

// packages whose pointer-receiver methods are nil-safe by construction (generated getters and
// well-known-type helpers check the receiver)
var nilSafeMethodPkgs = []string{
	"google.golang.org/protobuf/types/known/",
}

func inPkgs(path string, list []string) bool {
	for _, p := range list {
		if path == p || strings.HasPrefix(path, p) {
			return true
		}
	}
	return false
}

type facts struct {
	lower  map[string]bool // index expression known >= 0
	upper  map[string]bool // "idx<table": index known < len(table)
	nonnil map[string]bool
	isnil  map[string]bool
	minlen map[string]int
	typeis map[string]bool
	maybe  map[string]string // path (a field) last assigned from a call that may return nil → why
}

func newFacts() *facts {
	return &facts{map[string]bool{}, map[string]bool{}, map[string]bool{}, map[string]bool{}, map[string]int{}, map[string]bool{}, map[string]string{}}
}

func (f *facts) clone() *facts {
	n := newFacts()
	for k, v := range f.nonnil {
		n.nonnil[k] = v
	}
	for k, v := range f.isnil {
		n.isnil[k] = v
	}
	for k, v := range f.minlen {
		n.minlen[k] = v
	}
	for k, v := range f.typeis {
		n.typeis[k] = v
	}
	for k, v := range f.lower {
		n.lower[k] = v
	}
	for k, v := range f.upper {
		n.upper[k] = v
	}
	for k, v := range f.maybe {
		n.maybe[k] = v
	}
	return n
}

// meet keeps what holds on both sides.
func meet(a, b *facts) *facts {
	n := newFacts()
	for k := range a.nonnil {
		if b.nonnil[k] {
			n.nonnil[k] = true
		}
	}
	for k := range a.isnil {
		if b.isnil[k] {
			n.isnil[k] = true
		}
	}
	for k, v := range a.minlen {
		if w, ok := b.minlen[k]; ok {
			if w < v {
				v = w
			}
			n.minlen[k] = v
		}
	}
	for k := range a.typeis {
		if b.typeis[k] {
			n.typeis[k] = true
		}
	}
	for k := range a.lower {
		if b.lower[k] {
			n.lower[k] = true
		}
	}
	for k := range a.upper {
		if b.upper[k] {
			n.upper[k] = true
		}
	}
	for k, v := range a.maybe {
		n.maybe[k] = v
	}
	for k, v := range b.maybe {
		n.maybe[k] = v
	}
	return n
}

func (f *facts) kill(path string) {
	for _, m := range []map[string]bool{f.nonnil, f.isnil, f.typeis} {
		for k := range m {
			if k == path || strings.HasPrefix(k, path+".") || strings.HasPrefix(k, path+"[") || strings.HasPrefix(k, "*"+path) {
				delete(m, k)
			}
		}
	}
	for k := range f.minlen {
		if k == path || strings.HasPrefix(k, path+".") || strings.HasPrefix(k, path+"[") {
			delete(f.minlen, k)
		}
	}
	for k := range f.maybe {
		if k == path || strings.HasPrefix(k, path+".") || strings.HasPrefix(k, path+"[") {
			delete(f.maybe, k)
		}
	}
}

// nilSummary of a module function.
type nilSummary struct {
	requires     map[int]string  // parameter index (receiver = 0 for methods) → description of the unguarded dereference
	mayReturnNil map[int]bool    // result index → may be nil while the error result (if any) is nil
	nilUnlessOK  map[int]bool    // result index → nil only in returns whose trailing bool result is the constant false
	uncondNil    map[int]bool    // result index → some nil return is not explained by a nil parameter
	nilIfParam   map[int]map[int]bool // result index → parameters whose being nil explains the nil returns
	retFields    map[string]bool // fields of result 0 that are non-nil on every return (constructors)
	retSeen      bool
	done         bool
}

type derefReport struct {
	fn   string
	path string
	pos  token.Pos
	kind string
	msg  string
	ok   bool
}

type nilEngine struct {
	// nodeCollections: also treat stores of a possibly-nil *sbom.Node into a node collection
	// (AddNode/AddRootNode argument, append to a []*Node, store into a map[...]*Node) as
	// operations that need a fact, and single-value lookups in such maps as possibly-nil sources.
	nodeCollections bool
	// errLinked: the first result of an external call with results (T, error) is the zero value
	// when the error is non-nil; it is usable only on the err == nil side
	errLinked bool
	c               *Ctx
	sums            map[*types.Func]*nilSummary
	decls           map[*types.Func]*declInfo
	reports         map[string]*derefReport // key fn#kind:path
	entry           map[string]bool         // entry-point functions: pointer parameters are sources
	trusted         map[string]bool         // "fn#param" pairs that are trusted non-nil (with reason elsewhere)
}

func newNilEngine(c *Ctx) *nilEngine {
	e := &nilEngine{c: c, sums: map[*types.Func]*nilSummary{}, decls: map[*types.Func]*declInfo{}, reports: map[string]*derefReport{},
		entry: map[string]bool{}, trusted: map[string]bool{}}
	for _, pk := range c.P.Pkgs {
		if !strings.HasPrefix(pk.PkgPath, modPath+"/") {
			continue
		}
		for _, f := range pk.Syntax {
			for _, d := range f.Decls {
				fd, ok := d.(*ast.FuncDecl)
				if !ok || fd.Body == nil {
					continue
				}
				obj, _ := pk.TypesInfo.Defs[fd.Name].(*types.Func)
				if obj != nil {
					e.decls[obj] = &declInfo{fd, pk, obj, objName(obj)}
				}
			}
		}
	}
	return e
}

// summary computes (memoised, recursion-safe) the nil summary of a module function.
func (e *nilEngine) summary(f *types.Func) *nilSummary {
	if o := f.Origin(); o != nil {
		f = o
	}
	if s, ok := e.sums[f]; ok {
		return s
	}
	s := &nilSummary{requires: map[int]string{}, mayReturnNil: map[int]bool{}, nilUnlessOK: map[int]bool{}}
	e.sums[f] = s
	d := e.decls[f]
	if d == nil {
		s.done = true
		return s
	}
	w := &nilWalker{e: e, d: d, sum: s, record: false}
	w.run()
	s.done = true
	return s
}

// analyse walks a function in reporting mode.
func (e *nilEngine) analyse(d *declInfo) {
	if strings.HasSuffix(e.c.P.Fset.Position(d.fd.Pos()).Filename, ".pb.go") {
		return // generated code: nil-safe getters and registration tables
	}
	s := e.summary(d.obj)
	w := &nilWalker{e: e, d: d, sum: s, record: true}
	w.run()
}

type nilWalker struct {
	e         *nilEngine
	d         *declInfo
	sum       *nilSummary
	record    bool
	params    map[types.Object]int // parameter objects → index (receiver 0)
	defs      map[types.Object]ast.Expr
	nodefs    map[types.Object]bool // `var x *T` without value
	multi     map[types.Object][]ast.Expr
	rangeV    map[types.Object]ast.Expr // range value variable → ranged expression
	resErr    int                       // index of the error result or -1
	nres      int
	named     []types.Object
	onReturn  func(rs *ast.ReturnStmt, f *facts)
	okLookups map[types.Object][]string // ok variable of `v, ok := m[k]` → paths known non-nil when ok
	errLinks  map[types.Object][]string // err variable of `v, err := ext(…)` → paths known non-nil when err == nil
}

// definedNonNil: e is a local whose every definition is a non-nil construction.
func (w *nilWalker) definedNonNil(e ast.Expr, f *facts) bool {
	id, ok := e.(*ast.Ident)
	if !ok {
		return false
	}
	o := objOf(w.d.pkg, id)
	if o == nil {
		return false
	}
	defs := w.multi[o]
	if len(defs) == 0 {
		return false
	}
	for _, d := range defs {
		switch x := d.(type) {
		case *ast.UnaryExpr:
			if x.Op != token.AND {
				return false
			}
		case *ast.CompositeLit:
		case *ast.CallExpr:
			if ab, _ := w.absent(x, 0); ab {
				return false
			}
			if fn, _ := typeutil.Callee(w.d.pkg.TypesInfo, x).(*types.Func); fn != nil {
				if fn.Pkg() != nil && strings.HasPrefix(fn.Pkg().Path(), modPath+"/") {
					if w.e.summary(fn).mayReturnNil[0] {
						return false
					}
				}
			}
		default:
			return false
		}
	}
	return true
}

func (w *nilWalker) run() {
	d := w.d
	info := d.pkg.TypesInfo
	w.params = map[types.Object]int{}
	idx := 0
	if d.fd.Recv != nil {
		for _, f := range d.fd.Recv.List {
			for _, n := range f.Names {
				w.params[info.Defs[n]] = 0
			}
		}
		idx = 1
	}
	for _, f := range d.fd.Type.Params.List {
		if len(f.Names) == 0 {
			idx++
		}
		for _, n := range f.Names {
			w.params[info.Defs[n]] = idx
			idx++
		}
	}
	w.resErr = -1
	if res := d.fd.Type.Results; res != nil {
		i := 0
		for _, f := range res.List {
			n := len(f.Names)
			if n == 0 {
				n = 1
			}
			for k := 0; k < n; k++ {
				if t := info.TypeOf(f.Type); t != nil && t.String() == "error" {
					w.resErr = i
				}
				if k < len(f.Names) {
					w.named = append(w.named, info.Defs[f.Names[k]])
				}
				i++
			}
		}
		w.nres = i
	}
	w.defs = singleDefs(d.pkg, d.fd.Body)
	w.nodefs = map[types.Object]bool{}
	w.multi = map[types.Object][]ast.Expr{}
	w.rangeV = map[types.Object]ast.Expr{}
	ast.Inspect(d.fd.Body, func(n ast.Node) bool {
		switch s := n.(type) {
		case *ast.ValueSpec:
			if len(s.Values) == 0 {
				for _, nm := range s.Names {
					if o := info.Defs[nm]; o != nil {
						w.nodefs[o] = true
					}
				}
			}
		case *ast.AssignStmt:
			if len(s.Lhs) == len(s.Rhs) {
				for i, l := range s.Lhs {
					if o := objOf(d.pkg, l); o != nil {
						w.multi[o] = append(w.multi[o], s.Rhs[i])
					}
				}
			} else if len(s.Rhs) == 1 {
				for _, l := range s.Lhs {
					if o := objOf(d.pkg, l); o != nil {
						w.multi[o] = append(w.multi[o], s.Rhs[0])
					}
				}
			}
		case *ast.RangeStmt:
			if o := objOf(d.pkg, s.Value); o != nil {
				w.rangeV[o] = s.X
			}
		}
		return true
	})
	w.block(d.fd.Body.List, newFacts())
}

// ---- paths ----

func (w *nilWalker) path(e ast.Expr) string {
	return w.pathDepth(e, 0)
}

func (w *nilWalker) pathDepth(e ast.Expr, depth int) string {
	if depth > 6 {
		return ""
	}
	info := w.d.pkg.TypesInfo
	switch x := e.(type) {
	case *ast.ParenExpr:
		return w.pathDepth(x.X, depth)
	case *ast.Ident:
		o := objOf(w.d.pkg, x)
		if o == nil {
			return ""
		}
		if _, isVar := o.(*types.Var); !isVar {
			return ""
		}
		// alias of a single-definition local
		if def, ok := w.defs[o]; ok {
			if p := w.pathDepth(def, depth+1); p != "" && !strings.Contains(p, "()") {
				return p
			}
		}
		return x.Name
	case *ast.SelectorExpr:
		if si := info.Selections[x]; si != nil && si.Kind() == types.FieldVal {
			if b := w.pathDepth(x.X, depth); b != "" {
				return b + "." + x.Sel.Name
			}
			return ""
		}
		if info.Selections[x] == nil {
			// qualified identifier pkg.Var
			if o, ok := info.Uses[x.Sel].(*types.Var); ok {
				return o.Pkg().Name() + "." + o.Name()
			}
		}
		return ""
	case *ast.CallExpr:
		// generated getter: X.GetF() denotes the same part as X.F
		if sel, ok := x.Fun.(*ast.SelectorExpr); ok && len(x.Args) == 0 && strings.HasPrefix(sel.Sel.Name, "Get") {
			if f, _ := typeutil.Callee(info, x).(*types.Func); f != nil && f.Pkg() != nil && inPkgs(f.Pkg().Path(), getterPkgs) {
				if b := w.pathDepth(sel.X, depth); b != "" {
					return b + "." + strings.TrimPrefix(sel.Sel.Name, "Get")
				}
			}
		}
		return ""
	case *ast.StarExpr:
		if b := w.pathDepth(x.X, depth); b != "" {
			return "*" + b
		}
	case *ast.IndexExpr:
		if b := w.pathDepth(x.X, depth); b != "" {
			return b + "[" + types.ExprString(x.Index) + "]"
		}
	case *ast.UnaryExpr:
		if x.Op == token.AND {
			return "" // address-of is never nil
		}
	}
	return ""
}

// ---- possibly-absent classification ----

func isPtrLike(t types.Type) bool {
	if t == nil {
		return false
	}
	switch t.Underlying().(type) {
	case *types.Pointer, *types.Interface:
		return true
	}
	return false
}

func namedPkg(t types.Type) string {
	if p, ok := t.(*types.Pointer); ok {
		t = p.Elem()
	}
	if nt, ok := t.(*types.Named); ok && nt.Obj().Pkg() != nil {
		return nt.Obj().Pkg().Path()
	}
	return ""
}

// absent says whether expression e may evaluate to nil, and why.
func (w *nilWalker) absent(e ast.Expr, depth int) (bool, string) {
	if depth > 5 {
		return false, ""
	}
	info := w.d.pkg.TypesInfo
	switch x := e.(type) {
	case *ast.ParenExpr:
		return w.absent(x.X, depth)
	case *ast.Ident:
		if x.Name == "nil" {
			return true, "nil literal"
		}
		o := objOf(w.d.pkg, x)
		if o == nil {
			return false, ""
		}
		if j, isParam := w.params[o]; isParam {
			if w.d.fd.Recv != nil && j == 0 {
				return false, "" // receivers: callers are checked through the summary
			}
			if w.e.entry[w.d.name] && !w.e.trusted[w.d.name+"#"+o.Name()] {
				return true, "parameter " + o.Name() + " of the public entry point " + w.d.name
			}
			return false, ""
		}
		if w.nodefs[o] {
			return true, "declared without a value (nil)"
		}
		if rx, ok := w.rangeV[o]; ok {
			if t := info.TypeOf(rx); t != nil {
				var elem types.Type
				switch u := t.Underlying().(type) {
				case *types.Slice:
					elem = u.Elem()
				case *types.Array:
					elem = u.Elem()
				case *types.Map:
					elem = u.Elem()
				case *types.Pointer:
					if a, ok := u.Elem().Underlying().(*types.Array); ok {
						elem = a.Elem()
					}
				}
				if elem != nil && isPtrLike(elem) && inPkgs(namedPkg(elem), untrustedStructPkgs) {
					// only lists that come from decoded data: fields of untrusted structs
					if w.fromUntrustedField(rx) {
						return true, "element of the decoded list " + types.ExprString(rx)
					}
				}
			}
			return false, ""
		}
		defs := w.multi[o]
		for _, dexp := range defs {
			if ok, why := w.absent(dexp, depth+1); ok {
				return true, why
			}
		}
		return false, ""
	case *ast.SelectorExpr:
		si := info.Selections[x]
		if si != nil && si.Kind() == types.FieldVal {
			ft := si.Obj().Type()
			if !isPtrLike(ft) {
				return false, ""
			}
			recvT := si.Recv()
			if inPkgs(namedPkg(recvT), untrustedStructPkgs) {
				return true, "optional part " + x.Sel.Name + " of a decoded " + shortType(recvT)
			}
		}
		return false, ""
	case *ast.CallExpr:
		f, _ := typeutil.Callee(info, x).(*types.Func)
		if f == nil {
			return false, ""
		}
		// getter of an untrusted struct: same as the field
		if sel, ok := x.Fun.(*ast.SelectorExpr); ok && len(x.Args) == 0 && strings.HasPrefix(sel.Sel.Name, "Get") &&
			f.Pkg() != nil && inPkgs(f.Pkg().Path(), getterPkgs) {
			if isPtrLike(info.TypeOf(x)) && inPkgs(f.Pkg().Path(), untrustedStructPkgs) {
				return true, "optional part returned by " + sel.Sel.Name + "()"
			}
			return false, ""
		}
		if w.e.errLinked && (f.Pkg() == nil || !strings.HasPrefix(f.Pkg().Path(), modPath+"/")) {
			if sig, _ := f.Type().(*types.Signature); sig != nil && sig.Results().Len() == 2 && sig.Results().At(1).Type().String() == "error" && isPtrLike(sig.Results().At(0).Type()) {
				return true, "the result of " + f.FullName() + " is nil when the call fails"
			}
		}
		if f.Pkg() != nil && strings.HasPrefix(f.Pkg().Path(), modPath+"/") {
			if s := w.e.summary(f); s.mayReturnNil[0] {
				return true, objName(f) + " may return nil"
			}
			if s := w.e.summary(f); s.nilUnlessOK[0] && !s.mayReturnNil[0] {
				return true, objName(f) + " returns nil together with ok == false"
			}
		}
		return false, ""
	case *ast.IndexExpr:
		t := info.TypeOf(x)
		if w.e.nodeCollections && isNodePtr(t) {
			if mt := info.TypeOf(x.X); mt != nil {
				if _, isMap := mt.Underlying().(*types.Map); isMap {
					return true, "single-value lookup in the map " + types.ExprString(x.X) + ": a missing key yields nil"
				}
			}
		}
		if !isPtrLike(t) || !inPkgs(namedPkg(t), untrustedStructPkgs) {
			return false, ""
		}
		if st := info.TypeOf(x.X); st != nil {
			if _, isSlice := st.Underlying().(*types.Slice); isSlice && w.fromUntrustedField(x.X) {
				return true, "element of the decoded list " + types.ExprString(x.X)
			}
		}
		return false, ""
	case *ast.TypeAssertExpr:
		return w.absent(x.X, depth+1)
	}
	return false, ""
}

func shortType(t types.Type) string {
	return types.TypeString(t, func(p *types.Package) string { return p.Name() })
}

// fromUntrustedField: the expression is (a deref of) a field of an untrusted struct.
func (w *nilWalker) fromUntrustedField(e ast.Expr) bool {
	info := w.d.pkg.TypesInfo
	switch x := e.(type) {
	case *ast.ParenExpr:
		return w.fromUntrustedField(x.X)
	case *ast.StarExpr:
		return w.fromUntrustedField(x.X)
	case *ast.SelectorExpr:
		if si := info.Selections[x]; si != nil && si.Kind() == types.FieldVal {
			rt := si.Recv()
			if pt, ok := rt.(*types.Pointer); ok {
				rt = pt.Elem()
			}
			if nt, ok := rt.(*types.Named); ok {
				if _, exempt := nonNilElementLists[nt.Obj().Name()+"."+x.Sel.Name]; exempt {
					return false
				}
			}
			return inPkgs(namedPkg(si.Recv()), untrustedStructPkgs)
		}
	case *ast.CallExpr:
		if sel, ok := x.Fun.(*ast.SelectorExpr); ok && strings.HasPrefix(sel.Sel.Name, "Get") {
			if f, _ := typeutil.Callee(info, x).(*types.Func); f != nil && f.Pkg() != nil && inPkgs(f.Pkg().Path(), untrustedStructPkgs) {
				return true
			}
		}
	case *ast.Ident:
		if o := objOf(w.d.pkg, x); o != nil {
			if def, ok := w.defs[o]; ok {
				return w.fromUntrustedField(def)
			}
			if _, isParam := w.params[o]; isParam {
				// a []*T parameter of an internal helper: elements come from the caller's document
				if t := o.Type(); t != nil {
					if sl, ok := t.Underlying().(*types.Slice); ok {
						return inPkgs(namedPkg(sl.Elem()), untrustedStructPkgs)
					}
				}
				return false
			}
		}
	}
	return false
}

// ---- reporting ----

func (w *nilWalker) need(e ast.Expr, f *facts, kind string, pos token.Pos) {
	ab, why := w.absent(e, 0)
	p := w.path(e)
	// a parameter of an internal function: record the requirement instead
	if id, ok := e.(*ast.Ident); ok {
		if o := objOf(w.d.pkg, id); o != nil {
			if j, isParam := w.params[o]; isParam && !ab {
				if !(p != "" && f.nonnil[p]) && isPtrLike(o.Type()) {
					if _, seen := w.sum.requires[j]; !seen {
						w.sum.requires[j] = fmt.Sprintf("%s of %s at %s", kind, id.Name, w.e.c.P.Pos(pos))
					}
				}
				return
			}
		}
	}
	if !ab && p != "" {
		if reason, isMaybe := f.maybe[p]; isMaybe && !f.nonnil[p] {
			ab, why = true, reason
		}
	}
	if !ab {
		return
	}
	guarded := p != "" && f.nonnil[p]
	if !w.record {
		return
	}
	if p == "" {
		p = types.ExprString(e)
	}
	key := w.d.name + "#" + p
	r := w.e.reports[key]
	if r == nil {
		r = &derefReport{fn: w.d.name, path: p, pos: pos, kind: kind, ok: true}
		w.e.reports[key] = r
	}
	if !guarded && r.ok {
		r.ok = false
		r.pos = pos
		r.kind = kind
		r.msg = fmt.Sprintf("%s of %s, which may be absent (%s), is not dominated by a nil check of %s", kind, types.ExprString(e), why, p)
	}
}

func (w *nilWalker) needLen(e ast.Expr, k int, f *facts, pos token.Pos) {
	p := w.path(e)
	if p == "" {
		// a constant index applied directly to a call result or literal: no length test can sit
		// in between, so only a library guarantee can cover it
		switch x := e.(type) {
		case *ast.ParenExpr:
			w.needLen(x.X, k, f, pos)
		case *ast.CompositeLit:
			if k >= len(x.Elts) && w.record {
				key := w.d.name + "#len:literal"
				w.e.reports[key] = &derefReport{fn: w.d.name, path: "len:literal", pos: pos, kind: "constant index", ok: false,
					msg: fmt.Sprintf("%s[%d] indexes a literal of %d elements", types.ExprString(e), k, len(x.Elts))}
			}
		case *ast.CallExpr:
			fn, _ := typeutil.Callee(w.d.pkg.TypesInfo, x).(*types.Func)
			guaranteed := 0
			name := types.ExprString(x.Fun)
			if fn != nil {
				name = fn.FullName()
				switch name {
				case "strings.Split", "strings.SplitN", "strings.SplitAfter", "strings.SplitAfterN":
					if len(x.Args) >= 2 {
						if v, ok := constOf(w.d.pkg, x.Args[1]); ok && v.isStr() && v.str() != "" {
							guaranteed = 1
						}
					}
				}
			}
			if !w.record {
				return
			}
			key := w.d.name + "#len:" + name + "()"
			r := w.e.reports[key]
			if r == nil {
				r = &derefReport{fn: w.d.name, path: "len:" + name + "()", pos: pos, kind: "constant index", ok: true}
				w.e.reports[key] = r
			}
			if k >= guaranteed && r.ok {
				r.ok = false
				r.pos = pos
				r.msg = fmt.Sprintf("%s[%d]: the result of %s is indexed with a constant although it is only guaranteed to hold %d element(s); input without the expected separator panics with index out of range", types.ExprString(e), k, name, guaranteed)
			}
		}
		return
	}
	if strings.Contains(p, "[") {
		return
	}
	// library fact: strings.Split with a non-empty separator returns at least one element
	if id, ok := e.(*ast.Ident); ok {
		if def, ok := w.defs[objOf(w.d.pkg, id)]; ok {
			if ce, ok := def.(*ast.CallExpr); ok {
				if fn, _ := typeutil.Callee(w.d.pkg.TypesInfo, ce).(*types.Func); fn != nil && fn.FullName() == "strings.Split" && len(ce.Args) == 2 {
					if v, ok := constOf(w.d.pkg, ce.Args[1]); ok && v.isStr() && v.str() != "" && k == 0 {
						return
					}
				}
			}
		}
	}
	if !w.record {
		return
	}
	key := w.d.name + "#len:" + p
	r := w.e.reports[key]
	if r == nil {
		r = &derefReport{fn: w.d.name, path: "len:" + p, pos: pos, kind: "constant index", ok: true}
		w.e.reports[key] = r
	}
	if f.minlen[p] < k+1 && r.ok {
		r.ok = false
		r.pos = pos
		r.msg = fmt.Sprintf("%s[%d] is not dominated by a length check establishing len(%s) > %d", types.ExprString(e), k, p, k)
	}
}

// ---- statements ----

// block walks statements; returns the facts after the block and whether it always exits.
func (w *nilWalker) block(stmts []ast.Stmt, f *facts) (*facts, bool) {
	for _, s := range stmts {
		var term bool
		f, term = w.stmt(s, f)
		if term {
			return f, true
		}
	}
	return f, false
}

func (w *nilWalker) isExitCall(e ast.Expr) bool {
	ce, ok := e.(*ast.CallExpr)
	if !ok {
		return false
	}
	if id, ok := ce.Fun.(*ast.Ident); ok && id.Name == "panic" {
		return true
	}
	if f, _ := typeutil.Callee(w.d.pkg.TypesInfo, ce).(*types.Func); f != nil {
		n := f.FullName()
		if strings.HasPrefix(n, "os.Exit") || strings.Contains(n, ".Fatal") || strings.Contains(n, ".Panic") {
			return true
		}
	}
	return false
}

func (w *nilWalker) stmt(s ast.Stmt, f *facts) (*facts, bool) {
	info := w.d.pkg.TypesInfo
	switch x := s.(type) {
	case *ast.ReturnStmt:
		for _, r := range x.Results {
			w.expr(r, f)
		}
		w.returns(x, f)
		if w.onReturn != nil {
			w.onReturn(x, f)
		}
		return f, true
	case *ast.BranchStmt:
		return f, true
	case *ast.BlockStmt:
		return w.block(x.List, f)
	case *ast.LabeledStmt:
		return w.stmt(x.Stmt, f)
	case *ast.ExprStmt:
		w.expr(x.X, f)
		if w.isExitCall(x.X) {
			return f, true
		}
		return f, false
	case *ast.DeclStmt:
		if gd, ok := x.Decl.(*ast.GenDecl); ok {
			for _, sp := range gd.Specs {
				if vs, ok := sp.(*ast.ValueSpec); ok {
					for _, v := range vs.Values {
						w.expr(v, f)
					}
					for i, nm := range vs.Names {
						f = f.clone()
						f.kill(nm.Name)
						if i < len(vs.Values) {
							w.learnAssign(nm, vs.Values[i], f)
						} else if o := info.Defs[nm]; o != nil && isPtrLike(o.Type()) {
							f.isnil[nm.Name] = true
						}
					}
				}
			}
		}
		return f, false
	case *ast.AssignStmt:
		for _, r := range x.Rhs {
			w.expr(r, f)
		}
		for _, l := range x.Lhs {
			w.lhs(l, f)
		}
		if w.e.nodeCollections && len(x.Lhs) == len(x.Rhs) {
			for i, l := range x.Lhs {
				ix, isIx := l.(*ast.IndexExpr)
				if !isIx {
					continue
				}
				if mt := info.TypeOf(ix.X); mt != nil {
					if m, isMap := mt.Underlying().(*types.Map); isMap && isNodePtr(m.Elem()) {
						w.need(x.Rhs[i], f, "storing it in the node index "+types.ExprString(ix.X)+" (whose entries end up in a node list and are dereferenced without a check)", x.Rhs[i].Pos())
					}
				}
			}
		}
		if w.e.errLinked && len(x.Lhs) == 2 && len(x.Rhs) == 1 {
			if ce, isCall := x.Rhs[0].(*ast.CallExpr); isCall {
				if fn, _ := typeutil.Callee(info, ce).(*types.Func); fn != nil && (fn.Pkg() == nil || !strings.HasPrefix(fn.Pkg().Path(), modPath+"/")) {
					if eo := objOf(w.d.pkg, x.Lhs[1]); eo != nil && eo.Type().String() == "error" {
						if p := w.rawPath(x.Lhs[0]); p != "" && p != "_" {
							if w.errLinks == nil {
								w.errLinks = map[types.Object][]string{}
							}
							w.errLinks[eo] = []string{p}
						}
					}
				}
			}
		}
		if len(x.Lhs) == 2 && len(x.Rhs) == 1 {
			// v, ok := f(…) with f returning nil only next to ok == false
			if ce, isCall := x.Rhs[0].(*ast.CallExpr); isCall {
				if fn, _ := typeutil.Callee(info, ce).(*types.Func); fn != nil && fn.Pkg() != nil && strings.HasPrefix(fn.Pkg().Path(), modPath+"/") && w.e.summary(fn).nilUnlessOK[0] {
					if okObj := objOf(w.d.pkg, x.Lhs[1]); okObj != nil {
						if w.okLookups == nil {
							w.okLookups = map[types.Object][]string{}
						}
						if p := w.rawPath(x.Lhs[0]); p != "" && p != "_" {
							w.okLookups[okObj] = []string{p}
						}
					}
				}
			}
			if ix, isIx := x.Rhs[0].(*ast.IndexExpr); isIx {
				if okObj := objOf(w.d.pkg, x.Lhs[1]); okObj != nil {
					if w.okLookups == nil {
						w.okLookups = map[types.Object][]string{}
					}
					var ps []string
					if p := w.rawPath(x.Lhs[0]); p != "" && p != "_" {
						ps = append(ps, p)
					}
					if p := w.path(ix); p != "" {
						ps = append(ps, p)
					}
					w.okLookups[okObj] = ps
				}
			}
		}
		f = f.clone()
		for i, l := range x.Lhs {
			if p := w.rawPath(l); p != "" {
				f.kill(p)
			}
			if len(x.Lhs) == len(x.Rhs) {
				w.learnAssign(l, x.Rhs[i], f)
			}
		}
		// comma-ok type assertion: v, ok := x.(T)
		return f, false
	case *ast.IncDecStmt:
		w.expr(x.X, f)
		return f, false
	case *ast.GoStmt:
		w.expr(x.Call, f)
		return f, false
	case *ast.DeferStmt:
		w.expr(x.Call, f)
		return f, false
	case *ast.SendStmt:
		w.expr(x.Chan, f)
		w.expr(x.Value, f)
		return f, false
	case *ast.IfStmt:
		if x.Init != nil {
			f, _ = w.stmt(x.Init, f)
		}
		ft, ff := w.cond(x.Cond, f)
		// `if v, ok := m[k]; ok`: v and m[k] are present (non-nil by registration discipline)
		if as, ok := x.Init.(*ast.AssignStmt); ok && len(as.Lhs) == 2 && len(as.Rhs) == 1 {
			if ix, isIx := as.Rhs[0].(*ast.IndexExpr); isIx {
				okObj := objOf(w.d.pkg, as.Lhs[1])
				set := func(ff *facts) {
					if p := w.rawPath(as.Lhs[0]); p != "" && p != "_" {
						ff.nonnil[p] = true
					}
					if p := w.path(ix); p != "" {
						ff.nonnil[p] = true
					}
				}
				if id, isID := x.Cond.(*ast.Ident); isID && objOf(w.d.pkg, id) == okObj {
					set(ft)
				}
				if u, isNot := x.Cond.(*ast.UnaryExpr); isNot && u.Op == token.NOT {
					if id, isID := u.X.(*ast.Ident); isID && objOf(w.d.pkg, id) == okObj {
						set(ff)
					}
				}
			}
		}
		// `if v, ok := e.(T); ok` / `!ok` and `if _, ok := m[k]; ok`
		if as, ok := x.Init.(*ast.AssignStmt); ok && len(as.Lhs) == 2 && len(as.Rhs) == 1 {
			if ta, isTA := as.Rhs[0].(*ast.TypeAssertExpr); isTA {
				okObj := objOf(w.d.pkg, as.Lhs[1])
				key := w.path(ta.X) + "::" + types.ExprString(ta.Type)
				if id, isID := x.Cond.(*ast.Ident); isID && objOf(w.d.pkg, id) == okObj {
					ft.typeis[key] = true
				}
				if u, isNot := x.Cond.(*ast.UnaryExpr); isNot && u.Op == token.NOT {
					if id, isID := u.X.(*ast.Ident); isID && objOf(w.d.pkg, id) == okObj {
						ff.typeis[key] = true
					}
				}
			}
		}
		at, tt := w.block(x.Body.List, ft)
		var ae *facts
		te := false
		if x.Else != nil {
			ae, te = w.stmt(x.Else, ff)
		} else {
			ae = ff
		}
		switch {
		case tt && te:
			return meet(at, ae), true
		case tt:
			return ae, false
		case te:
			return at, false
		}
		return meet(at, ae), false
	case *ast.SwitchStmt:
		if x.Init != nil {
			f, _ = w.stmt(x.Init, f)
		}
		if x.Tag != nil {
			w.expr(x.Tag, f)
		}
		var outs []*facts
		allTerm := true
		hasDefault := false
		// Clauses are tried in source order; the default clause (wherever it is written) runs when
		// every case failed. A case of a tagged switch is the comparison `tag == e`; the facts of the
		// failed comparisons carry over to the later clauses and to default, exactly as in an
		// if / else-if chain.
		cur := f
		clauseFacts := map[*ast.CaseClause]*facts{}
		for _, cc := range x.Body.List {
			cl := cc.(*ast.CaseClause)
			if cl.List == nil {
				hasDefault = true
				continue
			}
			var cf *facts
			for _, e := range cl.List {
				w.expr(e, cur)
				var test ast.Expr = e
				if x.Tag != nil {
					test = &ast.BinaryExpr{X: x.Tag, Op: token.EQL, Y: e, OpPos: e.Pos()}
				}
				tf, ff := w.cond(test, cur)
				if cf == nil {
					cf = tf
				} else {
					cf = meet(cf, tf)
				}
				cur = ff
			}
			clauseFacts[cl] = cf
		}
		for _, cc := range x.Body.List {
			cl := cc.(*ast.CaseClause)
			cf := cur
			if cl.List != nil {
				cf = clauseFacts[cl]
			}
			o, t := w.block(cl.Body, cf)
			if !t {
				allTerm = false
				outs = append(outs, o)
			}
		}
		f = cur
		if !hasDefault {
			allTerm = false
			outs = append(outs, f)
		}
		if allTerm {
			return f, true
		}
		res := outs[0]
		for _, o := range outs[1:] {
			res = meet(res, o)
		}
		return res, false
	case *ast.TypeSwitchStmt:
		if x.Init != nil {
			f, _ = w.stmt(x.Init, f)
		}
		for _, cc := range x.Body.List {
			w.block(cc.(*ast.CaseClause).Body, f)
		}
		return f, false
	case *ast.ForStmt:
		if x.Init != nil {
			f, _ = w.stmt(x.Init, f)
		}
		lf := w.loopEntry(x.Body, f)
		if x.Cond != nil {
			lf, _ = w.cond(x.Cond, lf)
		}
		w.block(x.Body.List, lf)
		if x.Post != nil {
			w.stmt(x.Post, lf)
		}
		return w.loopEntry(x.Body, f), false
	case *ast.RangeStmt:
		w.expr(x.X, f)
		if st, ok := x.X.(*ast.StarExpr); ok {
			w.need(st.X, f, "range over *", x.Pos())
		}
		lf := w.loopEntry(x.Body, f)
		for _, e := range []ast.Expr{x.Key, x.Value} {
			if id, ok := e.(*ast.Ident); ok {
				lf.kill(id.Name)
			}
		}
		w.block(x.Body.List, lf)
		return w.loopEntry(x.Body, f), false
	case *ast.SelectStmt:
		for _, cc := range x.Body.List {
			w.block(cc.(*ast.CommClause).Body, f)
		}
		return f, false
	}
	return f, false
}

// loopEntry drops facts about anything assigned inside the loop body.
func (w *nilWalker) loopEntry(body *ast.BlockStmt, f *facts) *facts {
	n := f.clone()
	ast.Inspect(body, func(m ast.Node) bool {
		switch s := m.(type) {
		case *ast.AssignStmt:
			for _, l := range s.Lhs {
				if p := w.rawPath(l); p != "" {
					n.kill(p)
				}
			}
		case *ast.IncDecStmt:
			if p := w.rawPath(s.X); p != "" {
				n.kill(p)
			}
		}
		return true
	})
	return n
}

// rawPath is path without alias resolution (for kills of the variable itself).
func (w *nilWalker) rawPath(e ast.Expr) string {
	switch x := e.(type) {
	case *ast.Ident:
		return x.Name
	case *ast.ParenExpr:
		return w.rawPath(x.X)
	}
	return w.path(e)
}

func (w *nilWalker) learnAssign(l ast.Expr, r ast.Expr, f *facts) {
	p := w.rawPath(l)
	if p == "" {
		return
	}
	info := w.d.pkg.TypesInfo
	t := info.TypeOf(l)
	// slices: length facts from literals and appends
	if t != nil {
		if _, isSlice := t.Underlying().(*types.Slice); isSlice {
			switch x := r.(type) {
			case *ast.CompositeLit:
				f.minlen[p] = len(x.Elts)
				for i := range x.Elts {
					f.nonnil[fmt.Sprintf("%s[%d]", p, i)] = true
				}
			case *ast.CallExpr:
				if id, ok := x.Fun.(*ast.Ident); ok && id.Name == "append" && len(x.Args) >= 1 && !x.Ellipsis.IsValid() {
					base := 0
					if bp := w.rawPath(x.Args[0]); bp == p {
						base = f.minlen[p]
					}
					f.minlen[p] = base + len(x.Args) - 1
				}
			}
			return
		}
	}
	if t != nil && !isPtrLike(t) {
		return
	}
	lit := r
	if u, ok := r.(*ast.UnaryExpr); ok && u.Op == token.AND {
		f.nonnil[p] = true
		lit = u.X
	}
	switch x := lit.(type) {
	case *ast.CompositeLit:
		f.nonnil[p] = true
		w.learnLiteralFields(p, x, f)
	case *ast.CallExpr:
		if id, ok := x.Fun.(*ast.Ident); ok && (id.Name == "new" || id.Name == "make") {
			f.nonnil[p] = true
			return
		}
		if ab, why := w.absent(r, 0); ab {
			// a field that receives the result of a call that may return nil: the field may be
			// nil from here on — unless the callee returns nil only for a nil argument and the
			// arguments are known to be present
			if _, isField := l.(*ast.SelectorExpr); isField {
				if fn, _ := typeutil.Callee(info, x).(*types.Func); fn != nil && fn.Pkg() != nil && strings.HasPrefix(fn.Pkg().Path(), modPath+"/") {
					sum := w.e.summary(fn)
					if sum.mayReturnNil[0] && !sum.uncondNil[0] && len(sum.nilIfParam[0]) > 0 {
						all := true
						sig := fn.Type().(*types.Signature)
						off := 0
						if sig.Recv() != nil {
							off = 1
						}
						for j := range sum.nilIfParam[0] {
							var arg ast.Expr
							if j-off >= 0 && j-off < len(x.Args) {
								arg = x.Args[j-off]
							} else if sel, isSel := x.Fun.(*ast.SelectorExpr); isSel && j == 0 && off == 1 {
								arg = sel.X
							}
							if arg == nil {
								all = false
								continue
							}
							// like everywhere in this analysis only a *known* possibly-absent argument
							// counts; an argument of unknown provenance is the caller's responsibility
							if ap := w.path(arg); !(ap != "" && f.nonnil[ap]) && !w.definedNonNil(arg, f) {
								if ab, _ := w.absent(arg, 0); ab {
									all = false
								}
							}
						}
						if all {
							f.nonnil[p] = true
							return
						}
					}
					if sum.mayReturnNil[0] {
						f.maybe[p] = why
					}
				}
			}
		} else {
			if fn, _ := typeutil.Callee(info, x).(*types.Func); fn != nil {
				sig := fn.Type().(*types.Signature)
				if sig.Results().Len() == 1 && !strings.HasPrefix(fn.Name(), "Get") {
					f.nonnil[p] = true // constructors and converters that never return nil
				}
				if fn.Pkg() != nil && strings.HasPrefix(fn.Pkg().Path(), modPath+"/") {
					for fld := range w.e.summary(fn).retFields {
						f.nonnil[p+"."+fld] = true
					}
				}
			}
		}
	case *ast.Ident:
		if x.Name == "nil" {
			f.isnil[p] = true
		} else if rp := w.path(x); rp != "" && f.nonnil[rp] {
			f.nonnil[p] = true
		}
	default:
		if rp := w.path(r); rp != "" && f.nonnil[rp] {
			f.nonnil[p] = true
		}
	}
}

// learnLiteralFields records which pointer fields a struct literal sets to non-nil values.
func (w *nilWalker) learnLiteralFields(p string, cl *ast.CompositeLit, f *facts) {
	for fld := range w.literalNonNilFields(cl, f) {
		f.nonnil[p+"."+fld] = true
	}
}

func (w *nilWalker) literalNonNilFields(cl *ast.CompositeLit, f *facts) map[string]bool {
	out := map[string]bool{}
	for _, el := range cl.Elts {
		kv, ok := el.(*ast.KeyValueExpr)
		if !ok {
			continue
		}
		id, ok := kv.Key.(*ast.Ident)
		if !ok {
			continue
		}
		switch v := kv.Value.(type) {
		case *ast.UnaryExpr:
			if v.Op == token.AND {
				out[id.Name] = true
			}
		case *ast.CompositeLit:
			out[id.Name] = true
		case *ast.CallExpr:
			if fid, ok := v.Fun.(*ast.Ident); ok && (fid.Name == "new" || fid.Name == "make") {
				out[id.Name] = true
			}
		case *ast.Ident:
			if rp := w.path(v); rp != "" && f != nil && f.nonnil[rp] {
				out[id.Name] = true
			}
		}
	}
	return out
}

// cond evaluates a condition for its dereferences and returns facts when true / when false.
func (w *nilWalker) cond(e ast.Expr, f *facts) (*facts, *facts) {
	switch x := e.(type) {
	case *ast.ParenExpr:
		return w.cond(x.X, f)
	case *ast.UnaryExpr:
		if x.Op == token.NOT {
			t, fl := w.cond(x.X, f)
			return fl, t
		}
	case *ast.BinaryExpr:
		switch x.Op {
		case token.LAND:
			lt, lf := w.cond(x.X, f)
			rt, rf := w.cond(x.Y, lt)
			return rt, meet(lf, rf)
		case token.LOR:
			lt, lf := w.cond(x.X, f)
			rt, rf := w.cond(x.Y, lf)
			return meet(lt, rt), rf
		case token.EQL, token.NEQ:
			w.expr(x.X, f)
			w.expr(x.Y, f)
			a, b := x.X, x.Y
			if isNilIdent(w.d.pkg, a) {
				a, b = b, a
			}
			if isNilIdent(w.d.pkg, b) {
				if p := w.path(a); p != "" {
					nn, nl := f.clone(), f.clone()
					nn.nonnil[p] = true
					delete(nn.isnil, p)
					nl.isnil[p] = true
					delete(nl.nonnil, p)
					// err == nil: the value that came with the error is usable
					if id, isId := a.(*ast.Ident); isId {
						for _, lp := range w.errLinks[objOf(w.d.pkg, id)] {
							nl.nonnil[lp] = true
						}
					}
					// a non-nil slice/pointer says nothing about length
					if x.Op == token.NEQ {
						return nn, nl
					}
					return nl, nn
				}
				return f, f
			}
			// len(P) == k / != k
			if t, fl, ok := w.lenCond(x, f); ok {
				return t, fl
			}
			return f, f
		case token.GTR, token.GEQ, token.LSS, token.LEQ:
			w.expr(x.X, f)
			w.expr(x.Y, f)
			if t, fl, ok := w.lenCond(x, f); ok {
				return t, fl
			}
			if t, fl, ok := w.boundCond(x, f); ok {
				return t, fl
			}
			return f, f
		}
	}
	// strings.HasPrefix(P, "lit") / HasSuffix: on the true side P is at least as long as the literal;
	// P != "" / P == "": at least one byte
	if ce, ok := e.(*ast.CallExpr); ok && len(ce.Args) == 2 {
		if fn, _ := typeutil.Callee(w.d.pkg.TypesInfo, ce).(*types.Func); fn != nil && (fn.FullName() == "strings.HasPrefix" || fn.FullName() == "strings.HasSuffix") {
			w.expr(ce.Args[0], f)
			if v, isC := constOf(w.d.pkg, ce.Args[1]); isC && v.isStr() {
				if p := w.path(ce.Args[0]); p != "" {
					t := f.clone()
					if t.minlen[p] < len(v.str()) {
						t.minlen[p] = len(v.str())
					}
					return t, f
				}
			}
			return f, f
		}
	}
	if id, ok := e.(*ast.Ident); ok {
		if ps, ok := w.okLookups[objOf(w.d.pkg, id)]; ok {
			t := f.clone()
			for _, p := range ps {
				t.nonnil[p] = true
			}
			return t, f
		}
	}
	w.expr(e, f)
	return f, f
}

// lenCond understands comparisons of len(P) (or a local l := len(P)) with a constant.
func (w *nilWalker) lenCond(x *ast.BinaryExpr, f *facts) (*facts, *facts, bool) {
	a, b, op := x.X, x.Y, x.Op
	if _, isC := constOf(w.d.pkg, a); isC {
		a, b = b, a
		switch op {
		case token.GTR:
			op = token.LSS
		case token.LSS:
			op = token.GTR
		case token.GEQ:
			op = token.LEQ
		case token.LEQ:
			op = token.GEQ
		}
	}
	kv, isC := constOf(w.d.pkg, b)
	if !isC || !kv.isInt() {
		return nil, nil, false
	}
	k := int(kv.int())
	lenArg := func(e ast.Expr) ast.Expr {
		if id, ok := e.(*ast.Ident); ok {
			if def, ok := w.defs[objOf(w.d.pkg, id)]; ok {
				e = def
			}
		}
		if ce, ok := e.(*ast.CallExpr); ok && len(ce.Args) == 1 {
			if id, ok := ce.Fun.(*ast.Ident); ok && id.Name == "len" {
				return ce.Args[0]
			}
		}
		return nil
	}
	arg := lenArg(a)
	if arg == nil {
		return nil, nil, false
	}
	p := w.path(arg)
	if p == "" {
		return nil, nil, false
	}
	t, fl := f.clone(), f.clone()
	setMin := func(ff *facts, m int) {
		if ff.minlen[p] < m {
			ff.minlen[p] = m
		}
	}
	switch op {
	case token.GTR: // len > k
		setMin(t, k+1)
	case token.GEQ: // len >= k
		setMin(t, k)
	case token.LSS: // len < k : false branch len >= k
		setMin(fl, k)
	case token.LEQ: // len <= k : false branch len >= k+1
		setMin(fl, k+1)
	case token.EQL:
		setMin(t, k)
		if k == 0 {
			setMin(fl, 1)
		}
	case token.NEQ:
		setMin(fl, k)
		if k == 0 {
			setMin(t, 1)
		}
	}
	return t, fl, true
}

// lhs checks dereferences on the left side of an assignment.
func (w *nilWalker) lhs(e ast.Expr, f *facts) {
	switch x := e.(type) {
	case *ast.SelectorExpr:
		w.selector(x, f, "store to a field")
		w.expr(x.X, f)
	case *ast.IndexExpr:
		w.expr(x.X, f)
		w.expr(x.Index, f)
	case *ast.StarExpr:
		w.need(x.X, f, "store through *", x.Pos())
		w.expr(x.X, f)
	case *ast.ParenExpr:
		w.lhs(x.X, f)
	}
}

func (w *nilWalker) selector(x *ast.SelectorExpr, f *facts, kind string) {
	info := w.d.pkg.TypesInfo
	si := info.Selections[x]
	if si == nil {
		return
	}
	xt := info.TypeOf(x.X)
	if xt == nil {
		return
	}
	switch si.Kind() {
	case types.FieldVal:
		if _, isPtr := xt.Underlying().(*types.Pointer); isPtr {
			w.need(x.X, f, kind, x.Pos())
		}
	case types.MethodVal:
		fn := si.Obj().(*types.Func)
		if _, isIface := xt.Underlying().(*types.Interface); isIface {
			w.need(x.X, f, "method call on an interface value", x.Pos())
			return
		}
		if _, isPtr := xt.Underlying().(*types.Pointer); !isPtr {
			return
		}
		sig := fn.Type().(*types.Signature)
		if sig.Recv() == nil {
			return
		}
		if _, ptrRecv := sig.Recv().Type().(*types.Pointer); !ptrRecv {
			w.need(x.X, f, "method call with a value receiver (implicit dereference)", x.Pos())
			return
		}
		if fn.Pkg() != nil && strings.HasPrefix(fn.Pkg().Path(), modPath+"/") {
			if why, req := w.e.summary(fn).requires[0]; req {
				w.need(x.X, f, "call of "+objName(fn)+" (which dereferences its receiver: "+why+")", x.Pos())
			}
			return
		}
		if fn.Pkg() != nil && inPkgs(fn.Pkg().Path(), nilSafeMethodPkgs) {
			return
		}
		// generated protobuf methods on messages of third-party packages are not used here; any other
		// external pointer-receiver method is assumed to dereference its receiver
		w.need(x.X, f, "call of external method "+fn.FullName(), x.Pos())
	}
}

// expr visits an expression in evaluation order, checking dereferences.
func (w *nilWalker) expr(e ast.Expr, f *facts) {
	if e == nil {
		return
	}
	info := w.d.pkg.TypesInfo
	switch x := e.(type) {
	case *ast.ParenExpr:
		w.expr(x.X, f)
	case *ast.SelectorExpr:
		w.selector(x, f, "field access")
		w.expr(x.X, f)
	case *ast.StarExpr:
		w.need(x.X, f, "dereference", x.Pos())
		w.expr(x.X, f)
	case *ast.UnaryExpr:
		if x.Op == token.AND {
			// &x.F computes an address: x must still be non-nil; &T{} is fine
			if cl, ok := x.X.(*ast.CompositeLit); ok {
				w.expr(cl, f)
				return
			}
		}
		w.expr(x.X, f)
	case *ast.BinaryExpr:
		if x.Op == token.LAND || x.Op == token.LOR {
			w.cond(x, f)
			return
		}
		w.expr(x.X, f)
		w.expr(x.Y, f)
	case *ast.IndexExpr:
		w.expr(x.X, f)
		w.expr(x.Index, f)
		w.tableIndex(x, f)
		if t := info.TypeOf(x.X); t != nil {
			_, isSlice := t.Underlying().(*types.Slice)
			if b, isB := t.Underlying().(*types.Basic); isB && b.Info()&types.IsString != 0 {
				if _, isConst := constOf(w.d.pkg, x.X); !isConst {
					isSlice = true
				}
			}
			if isSlice {
				if v, ok := constOf(w.d.pkg, x.Index); ok && v.isInt() {
					w.needLen(x.X, int(v.int()), f, x.Pos())
				}
			}
		}
	case *ast.SliceExpr:
		w.expr(x.X, f)
		w.expr(x.Low, f)
		w.expr(x.High, f)
		// s[:k] / s[k:] with a constant k > 0 needs len(s) >= k as much as s[k-1] does
		if t := info.TypeOf(x.X); t != nil {
			_, sliceable := t.Underlying().(*types.Slice)
			if b, isB := t.Underlying().(*types.Basic); isB && b.Info()&types.IsString != 0 {
				sliceable = true
			}
			if _, isConst := constOf(w.d.pkg, x.X); sliceable && !isConst {
				k := 0
				for _, bnd := range []ast.Expr{x.Low, x.High, x.Max} {
					if bnd == nil {
						continue
					}
					if v, ok := constOf(w.d.pkg, bnd); ok && v.isInt() && int(v.int()) > k {
						k = int(v.int())
					}
				}
				if k > 0 {
					w.needLen(x.X, k-1, f, x.Pos())
				}
			}
		}
	case *ast.TypeAssertExpr:
		w.expr(x.X, f)
		if x.Type != nil {
			// single-value form panics on mismatch; the two-value form is handled at the assignment
			w.assertion(x, f)
		}
	case *ast.CallExpr:
		w.call(x, f)
	case *ast.CompositeLit:
		for _, el := range x.Elts {
			if kv, ok := el.(*ast.KeyValueExpr); ok {
				w.expr(kv.Value, f)
			} else {
				w.expr(el, f)
			}
		}
	case *ast.FuncLit:
		sub := &nilWalker{e: w.e, d: w.d, sum: w.sum, record: w.record, params: w.params, defs: w.defs, nodefs: w.nodefs,
			multi: w.multi, rangeV: w.rangeV, resErr: -1}
		sub.block(x.Body.List, f.clone())
	case *ast.KeyValueExpr:
		w.expr(x.Value, f)
	}
}

// assertion: x.(T) in single-value context.
func (w *nilWalker) assertion(x *ast.TypeAssertExpr, f *facts) {
	// is this the RHS of a two-value assignment? then it cannot panic
	chain := enclosing(w.d.fd.Body, x)
	if len(chain) >= 2 {
		switch p := chain[len(chain)-2].(type) {
		case *ast.AssignStmt:
			if len(p.Lhs) == 2 && len(p.Rhs) == 1 && p.Rhs[0] == ast.Expr(x) {
				return
			}
		case *ast.ValueSpec:
			if len(p.Names) == 2 && len(p.Values) == 1 {
				return
			}
		case *ast.TypeSwitchStmt:
			return
		}
	}
	if !w.record {
		return
	}
	p := w.path(x.X)
	key := w.d.name + "#assert:" + p + "::" + types.ExprString(x.Type)
	r := w.e.reports[key]
	if r == nil {
		r = &derefReport{fn: w.d.name, path: "assert:" + p + "::" + types.ExprString(x.Type), pos: x.Pos(), kind: "type assertion", ok: true}
		w.e.reports[key] = r
	}
	// only values whose dynamic type is not fixed by construction need a guard
	dyn := false
	if id, ok := x.X.(*ast.Ident); ok {
		if o := objOf(w.d.pkg, id); o != nil {
			if _, isParam := w.params[o]; isParam {
				dyn = true
			}
		}
	}
	if ce, ok := x.X.(*ast.CallExpr); ok {
		_ = ce
		dyn = true
	}
	// an error value: its dynamic type is whatever the failing callee chose
	if t := w.d.pkg.TypesInfo.TypeOf(x.X); t != nil && isErrorType(t) {
		dyn = true
	}
	if dyn && !f.typeis[p+"::"+types.ExprString(x.Type)] && r.ok {
		r.ok = false
		r.msg = fmt.Sprintf("single-value type assertion %s panics when the dynamic type differs and is not dominated by a comma-ok test of the same assertion", types.ExprString(x))
	}
}

func (w *nilWalker) call(x *ast.CallExpr, f *facts) {
	info := w.d.pkg.TypesInfo
	w.expr(x.Fun, f)
	for _, a := range x.Args {
		w.expr(a, f)
	}
	fn, _ := typeutil.Callee(info, x).(*types.Func)
	if w.e.nodeCollections {
		if id, isId := x.Fun.(*ast.Ident); isId && id.Name == "append" && fn == nil && !x.Ellipsis.IsValid() && len(x.Args) > 1 {
			if st := info.TypeOf(x.Args[0]); st != nil {
				if sl, isSl := st.Underlying().(*types.Slice); isSl && isNodePtr(sl.Elem()) {
					for _, a := range x.Args[1:] {
						w.need(a, f, "appending it to the node list "+types.ExprString(x.Args[0])+" (whose elements are dereferenced without a check by indexNodes/cleanEdges)", a.Pos())
					}
				}
			}
		}
		if fn != nil && len(x.Args) == 1 {
			switch objName(fn) {
			case "sbom.(*NodeList).AddNode", "sbom.(*NodeList).AddRootNode":
				w.need(x.Args[0], f, "adding it to a node list (whose elements are dereferenced without a check by indexNodes/cleanEdges)", x.Args[0].Pos())
			}
		}
	}
	if fn == nil || fn.Pkg() == nil || !strings.HasPrefix(fn.Pkg().Path(), modPath+"/") {
		return
	}
	s := w.e.summary(fn)
	sig := fn.Type().(*types.Signature)
	off := 0
	if sig.Recv() != nil {
		off = 1
	}
	for i, a := range x.Args {
		j := i + off
		if sig.Variadic() && i >= sig.Params().Len()-1 {
			break
		}
		if why, req := s.requires[j]; req {
			w.need(a, f, "passing it to "+objName(fn)+" (which dereferences that parameter: "+why+")", a.Pos())
		}
	}
}

// returns records nil-result facts for the summary and checks result discipline when enabled.
func (w *nilWalker) returns(x *ast.ReturnStmt, f *facts) {
	if w.nres == 0 {
		return
	}
	results := x.Results
	if len(results) == 0 {
		return // named results: not modelled
	}
	// constructor facts: fields of result 0 that this return sets to non-nil values
	if len(results) >= 1 && !isNilIdent(w.d.pkg, results[0]) {
		fields := map[string]bool{}
		e0 := results[0]
		if u, ok := e0.(*ast.UnaryExpr); ok && u.Op == token.AND {
			e0 = u.X
		}
		if cl, ok := e0.(*ast.CompositeLit); ok {
			fields = w.literalNonNilFields(cl, f)
		} else if p := w.rawPath(e0); p != "" {
			for k := range f.nonnil {
				if strings.HasPrefix(k, p+".") && !strings.Contains(strings.TrimPrefix(k, p+"."), ".") {
					fields[strings.TrimPrefix(k, p+".")] = true
				}
			}
		}
		if !w.sum.retSeen {
			w.sum.retSeen = true
			w.sum.retFields = fields
		} else {
			for k := range w.sum.retFields {
				if !fields[k] {
					delete(w.sum.retFields, k)
				}
			}
		}
	}
	if len(results) != w.nres {
		return
	}
	errNil := true
	if w.resErr >= 0 {
		er := results[w.resErr]
		errNil = isNilIdent(w.d.pkg, er)
		if !errNil {
			if p := w.path(er); p != "" && f.isnil[p] {
				errNil = true
			}
			// an identifier error with no fact may be nil
			if id, ok := er.(*ast.Ident); ok && !f.nonnil[id.Name] && !errNil {
				if _, isCall := er.(*ast.CallExpr); !isCall {
					errNil = !f.nonnil[w.path(er)]
				}
			}
		}
	}
	for i, r := range results {
		if i == w.resErr {
			continue
		}
		t := w.d.pkg.TypesInfo.TypeOf(r)
		if !isPtrLike(t) && !isNilIdent(w.d.pkg, r) {
			continue
		}
		mayNil := isNilIdent(w.d.pkg, r)
		if !mayNil {
			if p := w.path(r); p != "" && f.nonnil[p] {
				mayNil = false
			} else if ab, _ := w.absent(r, 0); ab {
				mayNil = true
			}
		}
		if mayNil && errNil {
			// (nil, false) of a (v, ok) function: nil only when the caller is told so
			if w.resErr < 0 && len(results) >= 2 {
				last := results[len(results)-1]
				if lt := w.d.pkg.TypesInfo.TypeOf(last); lt != nil {
					if b, isB := lt.Underlying().(*types.Basic); isB && b.Kind() == types.Bool {
						if v, isC := constOf(w.d.pkg, last); isC && v.c.ExactString() == "false" {
							if w.sum.nilUnlessOK == nil {
								w.sum.nilUnlessOK = map[int]bool{}
							}
							w.sum.nilUnlessOK[i] = true
							continue
						}
					}
				}
			}
			w.sum.mayReturnNil[i] = true
			// … because a parameter is nil, or whatever the arguments?
			explained := false
			if isNilIdent(w.d.pkg, r) {
				for o, j := range w.params {
					if f.isnil[o.Name()] {
						if w.sum.nilIfParam == nil {
							w.sum.nilIfParam = map[int]map[int]bool{}
						}
						if w.sum.nilIfParam[i] == nil {
							w.sum.nilIfParam[i] = map[int]bool{}
						}
						w.sum.nilIfParam[i][j] = true
						explained = true
					}
				}
			}
			if !explained {
				if w.sum.uncondNil == nil {
					w.sum.uncondNil = map[int]bool{}
				}
				w.sum.uncondNil[i] = true
			}
		}
	}
}

// emit turns the collected reports of the analysed functions into obligations.
func (e *nilEngine) emit(rule string) {
	var keys []string
	for k := range e.reports {
		keys = append(keys, k)
	}
	sort.Strings(keys)
	for _, k := range keys {
		r := e.reports[k]
		construct := r.fn + "#" + r.path
		if r.ok {
			e.c.ok(rule, construct, e.c.P.Pos(r.pos), r.kind+" is dominated by a guard on "+r.path)
		} else {
			e.c.bad(rule, construct, e.c.P.Pos(r.pos), r.msg)
		}
	}
}

// stripConv removes integer conversions around an index expression.
func (w *nilWalker) stripConv(e ast.Expr) ast.Expr {
	for {
		switch x := e.(type) {
		case *ast.ParenExpr:
			e = x.X
			continue
		case *ast.CallExpr:
			if tv, ok := w.d.pkg.TypesInfo.Types[x.Fun]; ok && tv.IsType() && len(x.Args) == 1 {
				e = x.Args[0]
				continue
			}
		}
		return e
	}
}

// boundCond learns index bounds: i < len(T), i >= len(T), i < 0, i >= 0 (and mirrored forms).
func (w *nilWalker) boundCond(x *ast.BinaryExpr, f *facts) (*facts, *facts, bool) {
	a, b, op := x.X, x.Y, x.Op
	ia := types.ExprString(w.stripConv(a))
	t, fl := f.clone(), f.clone()
	// comparison with the constant 0
	if v, ok := constOf(w.d.pkg, b); ok && v.isInt() && v.int() == 0 {
		switch op {
		case token.GEQ:
			t.lower[ia] = true
		case token.LSS:
			fl.lower[ia] = true
		case token.GTR:
			t.lower[ia] = true
		default:
			return nil, nil, false
		}
		return t, fl, true
	}
	// comparison with len(T)
	if ce, ok := b.(*ast.CallExpr); ok && len(ce.Args) == 1 {
		if id, ok := ce.Fun.(*ast.Ident); ok && id.Name == "len" {
			key := ia + "<" + types.ExprString(ce.Args[0])
			switch op {
			case token.LSS:
				t.upper[key] = true
			case token.GEQ:
				fl.upper[key] = true
			default:
				return nil, nil, false
			}
			return t, fl, true
		}
	}
	return nil, nil, false
}

// tableIndex: a non-constant index into a package-level array/slice needs both bounds, unless
// the index is unsigned (lower bound) or the loop index of a range over the same table.
func (w *nilWalker) tableIndex(x *ast.IndexExpr, f *facts) {
	info := w.d.pkg.TypesInfo
	var tv *types.Var
	switch b := x.X.(type) {
	case *ast.Ident:
		tv, _ = info.Uses[b].(*types.Var)
	case *ast.SelectorExpr:
		if info.Selections[b] == nil {
			tv, _ = info.Uses[b.Sel].(*types.Var)
		}
	}
	if tv == nil || tv.Pkg() == nil || tv.Parent() != tv.Pkg().Scope() {
		return
	}
	switch tv.Type().Underlying().(type) {
	case *types.Array, *types.Slice:
	default:
		return
	}
	if _, isConst := constOf(w.d.pkg, x.Index); isConst {
		return
	}
	if !w.record || strings.HasSuffix(w.e.c.P.Fset.Position(x.Pos()).Filename, ".pb.go") {
		return
	}
	idx := w.stripConv(x.Index)
	is := types.ExprString(idx)
	// range index over the same table
	if o := objOf(w.d.pkg, idx); o != nil {
		for _, y := range enclosing(w.d.fd.Body, x) {
			if rs, ok := y.(*ast.RangeStmt); ok && objOf(w.d.pkg, rs.Key) == o && types.ExprString(rs.X) == types.ExprString(x.X) {
				return
			}
		}
	}
	lowerOK := f.lower[is]
	if t := info.TypeOf(idx); t != nil {
		if b, ok := t.Underlying().(*types.Basic); ok && b.Info()&types.IsUnsigned != 0 {
			lowerOK = true
		}
	}
	upperOK := f.upper[is+"<"+types.ExprString(x.X)]
	key := w.d.name + "#index:" + types.ExprString(x.X) + "[" + is + "]"
	r := w.e.reports[key]
	if r == nil {
		r = &derefReport{fn: w.d.name, path: "index:" + types.ExprString(x.X) + "[" + is + "]", pos: x.Pos(), kind: "table index", ok: true}
		w.e.reports[key] = r
	}
	if !(lowerOK && upperOK) && r.ok {
		r.ok = false
		r.msg = fmt.Sprintf("%s indexes the package-level table %s with %s, which is not bounded on both sides (lower bound known: %v, upper bound known: %v): an enum number outside the table, e.g. a negative one decoded from protobuf, panics with index out of range", types.ExprString(x), types.ExprString(x.X), is, lowerOK, upperOK)
	}
}

// isNodePtr: *sbom.Node
func isNodePtr(t types.Type) bool {
	if t == nil {
		return false
	}
	p, ok := t.Underlying().(*types.Pointer)
	if !ok {
		return false
	}
	n, ok := p.Elem().(*types.Named)
	return ok && n.Obj().Name() == "Node" && n.Obj().Pkg() != nil && strings.HasSuffix(n.Obj().Pkg().Path(), "/pkg/sbom")
}
