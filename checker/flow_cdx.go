package main

import (
	"fmt"
	"sort"
	"go/ast"
	"go/types"
	"strings"
)

var cdxNodeAttrs = []string{"Id", "Name", "Version", "Description", "Copyright", "Type", "PrimaryPurpose", "Hashes", "Identifiers", "Licenses", "ExternalReferences"}

// cdxFlow: C02-D2.
func cdxFlow(c *Ctx) {
	const R = "round-trip-path"
	c.rule(R, "for every attribute the statement lists there is a CycloneDX component field g such that nodeToComponent stores the attribute into g and componentToNode fills the attribute from g; the same for the fields of an external reference and for the document-level serial number, version and lifecycles")
	wr := c.decl(R, "serializers.(*CDX).nodeToComponent")
	rd := c.decl(R, "unserializers.(*CDX).componentToNode")
	if wr == nil || rd == nil {
		return
	}
	n := paramOfType(wr, "Node")
	comp := paramOfType(rd, "Component")
	if n == nil || comp == nil {
		c.undecided(R, "cdx-component#anchor", "-", "converter parameters not found")
		return
	}
	w := converterFlow(wr, n, map[string]bool{"Component": true})
	r := readerFlow(rd, comp, map[string]bool{"Node": true}, nil)
	roundTripPaths(c, R, "cdx-component", cdxNodeAttrs, w, r)
	attributeIndependence(c, "cdx-component", cdxNodeAttrs, w, r, map[string]bool{"Id": true})

	// external references: element-level flow relative to the loop variables
	erW := loopVarOfType(wr, "ExternalReference")
	rdER := c.decl(R, "unserializers.(*CDX).unserializeExternalReferences")
	if erW != nil && rdER != nil {
		erR := loopVarOfType(rdER, "ExternalReference")
		if erR != nil {
			ww := converterFlow(wr, erW, map[string]bool{"ExternalReference": true})
			rr := readerFlow(rdER, erR, map[string]bool{"ExternalReference": true}, nil)
			roundTripPaths(c, R, "cdx-external-reference", []string{"Type", "Url", "Comment", "Hashes"}, ww, rr)
		} else {
			c.undecided(R, "cdx-external-reference#anchor", "-", "reader loop over external references not found")
		}
	} else {
		c.undecided(R, "cdx-external-reference#anchor", "-", "external-reference loops not found")
	}
	identifierSlots(c, wr, rd)
	subFieldAgreement(c)
	c.floor(R, 15, "11 component attributes and 4 external-reference fields")

	// document level (textual provenance inside Serialize / Unserialize)
	ser := c.decl(R, cdxSer)
	uns := c.decl(R, cdxUnser)
	if ser != nil && uns != nil {
		find := func(d *declInfo, owner, field string) string {
			for _, fi := range fieldInits(d.pkg, d.fd.Body) {
				if fi.field.Name() == field && (owner == "" || (fi.owner != nil && fi.owner.Obj().Name() == owner)) {
					return exprText(c.P.Fset, fi.value)
				}
			}
			return ""
		}
		type pair struct{ name, wOwner, wField, wWant, rOwner, rField, rWant string }
		for _, p := range []pair{
			{"serial-number", "BOM", "SerialNumber", "Id", "Metadata", "Id", "SerialNumber"},
			{"version", "BOM", "Version", "", "Metadata", "Version", "bom.Version"},
		} {
			ws, rs := find(ser, p.wOwner, p.wField), find(uns, p.rOwner, p.rField)
			okW := ws != "" && (p.wWant == "" || strings.Contains(ws, p.wWant))
			if p.name == "version" {
				// doc.Version = ver where ver comes from Atoi(metadata version)
				okW = ws != "" && (strings.Contains(ws, "ver") || strings.Contains(ws, "Version"))
				src := ""
				for _, cs := range callsIn(ser.pkg, ser.fd.Body) {
					if cs.callee.FullName() == "strconv.Atoi" && len(cs.call.Args) == 1 {
						src = exprText(c.P.Fset, cs.call.Args[0])
					}
				}
				okW = okW && strings.Contains(src, "Version")
			}
			okR := rs != "" && strings.Contains(rs, p.rWant)
			c.check(okW && okR, R, "cdx-document#"+p.name, c.P.Pos(ser.fd.Pos()), fmt.Sprintf("%s ← %s ; %s ← %s", p.wField, ws, p.rField, rs),
				fmt.Sprintf("document %s has no round-trip path (writer %s ← %q, reader %s ← %q)", p.name, p.wField, ws, p.rField, rs))
		}
		// lifecycles: Serialize ranges DocumentTypes and appends to Lifecycles; Unserialize ranges Lifecycles and appends DocumentTypes
		wl, rl := false, false
		// the loops may live in helpers: look in everything the drivers reach inside their package,
		// and recognise the ranged collection by its element type rather than by its spelling
		elemNamed := func(d *declInfo, e ast.Expr, name string) bool {
			t := d.pkg.TypesInfo.TypeOf(e)
			if t == nil {
				return false
			}
			if p, ok := t.Underlying().(*types.Pointer); ok {
				t = p.Elem()
			}
			var el types.Type
			switch u := t.Underlying().(type) {
			case *types.Slice:
				el = u.Elem()
			case *types.Array:
				el = u.Elem()
			default:
				return false
			}
			return typeIs(el, "", name)
		}
		for _, d := range pkgFilter(c.reachDecls(R, cdxSer), "serializers.") {
			ast.Inspect(d.fd.Body, func(n ast.Node) bool {
				if rs, ok := n.(*ast.RangeStmt); ok && elemNamed(d, rs.X, "DocumentType") && strings.Contains(exprText(c.P.Fset, rs.Body), "Lifecycle") {
					wl = true
				}
				return true
			})
		}
		for _, d := range pkgFilter(c.reachDecls(R, cdxUnser), "unserializers.") {
			ast.Inspect(d.fd.Body, func(n ast.Node) bool {
				if rs, ok := n.(*ast.RangeStmt); ok && elemNamed(d, rs.X, "Lifecycle") && strings.Contains(exprText(c.P.Fset, rs.Body), "DocumentType") {
					rl = true
				}
				return true
			})
		}
		c.check(wl && rl, R, "cdx-document#lifecycles", c.P.Pos(ser.fd.Pos()), "DocumentTypes ↔ Lifecycles loops on both sides", "document types are not carried into / out of CycloneDX lifecycles")
	}
}

// cdxTreeAssembly: C02-D4 (second half) — stale by-value copies of dictionary entries.
func cdxTreeAssembly(c *Ctx, prop string) {
	const R = "stale-value-copy"
	c.rule(R, "inside one loop, no by-value copy `*M[k]` of an element of a map of pointers is taken while the same loop still stores through elements of that map: the copy does not see later attachments (nesting built parent-first is lost)")
	n := 0
	for _, d := range pkgFilter(c.reachDecls(R, cdxSer), "serializers.") {
		ast.Inspect(d.fd.Body, func(x ast.Node) bool {
			var body *ast.BlockStmt
			switch l := x.(type) {
			case *ast.RangeStmt:
				body = l.Body
			case *ast.ForStmt:
				body = l.Body
			default:
				return true
			}
			// copies: *M[k] used as a value (argument of append / assigned)
			type cp struct {
				m   string
				pos ast.Node
			}
			var copies []cp
			stores := map[string]bool{}
			ast.Inspect(body, func(y ast.Node) bool {
				switch s := y.(type) {
				case *ast.StarExpr:
					if ix, ok := s.X.(*ast.IndexExpr); ok {
						if t := d.pkg.TypesInfo.TypeOf(ix.X); t != nil {
							if mp, ok := t.Underlying().(*types.Map); ok {
								if _, isPtr := mp.Elem().Underlying().(*types.Pointer); isPtr {
									// is this star expression an rvalue? (not the target of an assignment)
									copies = append(copies, cp{types.ExprString(ix.X), s})
								}
							}
						}
					}
				case *ast.AssignStmt:
					for _, l := range s.Lhs {
						// stores through M[k].F or *M[k].F
						e := l
						if st, ok := e.(*ast.StarExpr); ok {
							e = st.X
						}
						if sel, ok := e.(*ast.SelectorExpr); ok {
							if ix, ok := sel.X.(*ast.IndexExpr); ok {
								stores[types.ExprString(ix.X)] = true
							}
						}
					}
				}
				return true
			})
			for _, cpy := range copies {
				// exclude the lvalue uses `*M[k].F = …` (the StarExpr wraps a selector there, not an index)
				if !stores[cpy.m] {
					continue
				}
				n++
				c.bad(R, d.name+"#"+canonField(cpy.m[strings.LastIndex(cpy.m, ".")+1:]), c.P.Pos(cpy.pos.Pos()), fmt.Sprintf("the loop appends a by-value copy of an entry of %s while it also attaches children through entries of %s: a component copied into its parent before its own children are attached loses them (containment trees deeper than two levels are flattened unless edges come child-first)", cpy.m, cpy.m))
			}
			return true
		})
	}
	if n == 0 {
		c.ok(R, "cdx-serializer", "-", "no by-value copy of a dictionary entry in a loop that still mutates the dictionary")
	}
}

// identifierSlots: each software-identifier type CycloneDX can carry has its own component field:
// PURL ↔ PackageURL, CPE22/CPE23 ↔ CPE. The writer assigns the field inside the switch clause of
// that identifier type, the reader stores the field under that type's key.
func identifierSlots(c *Ctx, wr, rd *declInfo) {
	identifierSlotsRule(c, "round-trip-path", wr, rd)
}

func identifierSlotsRule(c *Ctx, R string, wr, rd *declInfo) {
	slots := []struct{ idConst, field string }{
		{"SoftwareIdentifierType_PURL", "PackageURL"},
		{"SoftwareIdentifierType_CPE23", "CPE"},
		{"SoftwareIdentifierType_CPE22", "CPE"},
	}
	for _, sl := range slots {
		construct := "cdx-component#Identifiers[" + strings.TrimPrefix(sl.idConst, "SoftwareIdentifierType_") + "]"
		// writer: inside a range over n.Identifiers, an assignment to c.<field> that runs only for the
		// key <const> (case clause of a switch on the key, `if key == const`, else-if chains, tagless
		// switches) and whose value is the map entry of that key: n.Identifiers[key], the range's value
		// variable, or a local bound to one of them
		wOK := false
		wdefs := singleDefs(wr.pkg, wr.fd.Body)
		ast.Inspect(wr.fd.Body, func(n ast.Node) bool {
			rs, ok := n.(*ast.RangeStmt)
			if !ok || !strings.HasSuffix(normText(types.ExprString(rs.X)), "Identifiers") {
				return true
			}
			keyObj := objOf(wr.pkg, rs.Key)
			var valObj types.Object
			if rs.Value != nil {
				valObj = objOf(wr.pkg, rs.Value)
			}
			ast.Inspect(rs.Body, func(m ast.Node) bool {
				as, ok := m.(*ast.AssignStmt)
				if !ok || len(as.Lhs) != 1 || len(as.Rhs) != 1 {
					return true
				}
				sel, ok := as.Lhs[0].(*ast.SelectorExpr)
				if !ok || sel.Sel.Name != sl.field {
					return true
				}
				_, names := keysOfWrite(wr, rs, keyObj, as)
				if !strings.Contains(names, sl.idConst) {
					return true
				}
				v := chase(wr.pkg, wdefs, as.Rhs[0])
				fromEntry := strings.Contains(normText(types.ExprString(v)), "Identifiers[")
				if id, isId := v.(*ast.Ident); isId && valObj != nil && objOf(wr.pkg, id) == valObj {
					fromEntry = true
				}
				if fromEntry {
					wOK = true
				}
				return true
			})
			return true
		})
		// reader: node.Identifiers[…<const>…] = c.<field> (the key may be a local set to the constant)
		rOK := false
		ast.Inspect(rd.fd.Body, func(n ast.Node) bool {
			as, ok := n.(*ast.AssignStmt)
			if !ok || len(as.Lhs) != 1 || len(as.Rhs) != 1 {
				return true
			}
			ix, ok := as.Lhs[0].(*ast.IndexExpr)
			if !ok || !strings.HasSuffix(types.ExprString(ix.X), "Identifiers") {
				return true
			}
			if !strings.HasSuffix(types.ExprString(as.Rhs[0]), "."+sl.field) {
				return true
			}
			key := types.ExprString(ix.Index)
			if strings.Contains(key, sl.idConst) {
				rOK = true
				return true
			}
			// key through a local: t := CPE22; if … { t = CPE23 }
			ast.Inspect(ix.Index, func(m ast.Node) bool {
				if id, ok := m.(*ast.Ident); ok {
					if o := objOf(rd.pkg, id); o != nil {
						ast.Inspect(rd.fd.Body, func(k ast.Node) bool {
							if a2, ok := k.(*ast.AssignStmt); ok {
								for i, l := range a2.Lhs {
									if objOf(rd.pkg, l) == o && i < len(a2.Rhs) && strings.Contains(types.ExprString(a2.Rhs[i]), sl.idConst) {
										rOK = true
									}
								}
							}
							return true
						})
					}
				}
				return true
			})
			return true
		})
		c.check(wOK && rOK, R, construct, c.P.Pos(wr.fd.Pos()), sl.idConst+" ↔ "+sl.field,
			fmt.Sprintf("identifier type %s has no round-trip path through component field %s (written under its case clause: %v, read back under its key: %v)", sl.idConst, sl.field, wOK, rOK))
	}
}


// attributeIndependence: what the reader stores into an attribute may depend only on native fields
// that the writer derives from that very attribute. A dependence on another native field (the
// nested components, a sibling attribute) makes the attribute's round trip depend on things the
// attribute does not determine: whether a node reads back as a file would depend on whether it has
// children.
func attributeIndependence(c *Ctx, label string, attrs []string, w, r flowRel, exclude map[string]bool) {
	const R = "reader-attribute-independence"
	c.rule(R, "for every listed attribute a (identifiers generated from several fields excepted) every native field the reader's value of a depends on — by data or by an enclosing condition — is one the writer fills from a")
	for _, a := range attrs {
		if exclude[a] {
			continue
		}
		var foreign []string
		for g := range r[a] {
			if !w[g][a] {
				foreign = append(foreign, g)
			}
		}
		sort.Strings(foreign)
		construct := label + "#" + a
		if len(r[a]) == 0 {
			continue // reported by round-trip-path
		}
		// a value that reaches the attribute through the object under construction (a helper that
		// is handed the node, a lookup in the node's own map) makes the relation name every native
		// field: that is an artefact of the relation, not a dependence of the attribute
		if len(foreign) > 0 && 2*len(foreign) > len(w) {
			c.info("%s: %s — relation too coarse to decide independence (%d of %d native fields named)", R, construct, len(foreign), len(w))
			c.ok(R, construct, "-", a+": flows through the object under construction; not decided here")
			continue
		}
		c.check(len(foreign) == 0, R, construct, "-", a+" ← "+relString(r, a),
			fmt.Sprintf("the reader's value of %s depends on the native field(s) %s, which the writer does not fill from %s: the attribute no longer round-trips on its own (its value after reading changes with those fields)", a, strings.Join(foreign, ", "), a))
	}
}


// identityAttributePaths: C03 — "reading the output back returns nodes with the same identity
// attributes: identifier, name, version, and the hashes and package identifiers both formats
// support". The same field-flow relations as the round-trip rules of C01/C02, restricted to the
// identity attributes.
func identityAttributePaths(c *Ctx) {
	const R = "identity-attribute-path"
	c.rule(R, "for identifier, name, version, hashes and software identifiers there is a native field g such that the writer stores the attribute into g and the reader fills the attribute from g, in both formats; each software-identifier type CycloneDX carries is written to and read from its own component field")
	identity := []string{"Id", "Name", "Version", "Hashes", "Identifiers"}
	if wr, rd := c.decl(R, "serializers.(*CDX).nodeToComponent"), c.decl(R, "unserializers.(*CDX).componentToNode"); wr != nil && rd != nil {
		n, comp := paramOfType(wr, "Node"), paramOfType(rd, "Component")
		if n == nil || comp == nil {
			c.undecided(R, "cdx-component#anchor", "-", "converter parameters not found")
		} else {
			w := converterFlow(wr, n, map[string]bool{"Component": true})
			r := readerFlow(rd, comp, map[string]bool{"Node": true}, nil)
			roundTripPaths(c, R, "cdx-component", identity, w, r)
			identifierSlotsRule(c, R, wr, rd)
		}
	}
	bp := c.decl(R, "serializers.(*SPDX23).buildPackages")
	bf := c.decl(R, "serializers.buildFiles")
	pn := c.decl(R, "unserializers.(*SPDX23).packageToNode")
	fn := c.decl(R, "unserializers.(*SPDX23).fileToNode")
	if bp == nil || bf == nil || pn == nil || fn == nil {
		return
	}
	pkgOwners := map[string]bool{"Package": true, "Supplier": true, "Originator": true, "PackageExternalReference": true, "Checksum": true}
	nodeOwners := map[string]bool{"Node": true, "Person": true, "ExternalReference": true}
	if node := loopVarOfType(bp, "Node"); node != nil {
		if p := paramOfType(pn, "Package"); p != nil {
			wr := flattenSub(converterFlow(bp, node, pkgOwners), map[string]string{"Supplier": "PackageSupplier", "SupplierType": "PackageSupplier", "Originator": "PackageOriginator", "OriginatorType": "PackageOriginator",
				"Category": "PackageExternalReferences", "RefType": "PackageExternalReferences", "Locator": "PackageExternalReferences", "ExternalRefComment": "PackageExternalReferences",
				"Algorithm": "PackageChecksums", "Value": "PackageChecksums"})
			rd := readerFlow(pn, p, nodeOwners, map[string]string{"Url": "ExternalReferences", "Type": "ExternalReferences", "Comment": "ExternalReferences", "IsOrg": "", "Email": ""})
			roundTripPaths(c, R, "spdx-package", identity, wr, rd)
		} else {
			c.undecided(R, "spdx-package#anchor", "-", "packageToNode parameter not found")
		}
	} else {
		c.undecided(R, "spdx-package#anchor", "-", "node loop of buildPackages not found")
	}
	if node := loopVarOfType(bf, "Node"); node != nil {
		if p := paramOfType(fn, "File"); p != nil {
			wr := flattenSub(converterFlow(bf, node, map[string]bool{"File": true, "Checksum": true}), map[string]string{"Algorithm": "Checksums", "Value": "Checksums"})
			rd := readerFlow(fn, p, nodeOwners, nil)
			roundTripPaths(c, R, "spdx-file", []string{"Id", "Name", "Hashes"}, wr, rd)
		}
	}
	c.floor(R, 16, "5 component, 3 identifier-slot, 5 package and 3 file attributes")
}

// subFieldAgreement: the nested native values an attribute is written into (a licence choice, a
// hash, an external reference) have fields of their own. Whatever field of such a value the writer
// fills from the node must be a field the reader looks at; content written into a field the reader
// never reads (license.name when the reader reads license.id and expression only) is lost on the
// way back although both sides look complete.
func subFieldAgreement(c *Ctx) {
	const R = "nested-fields-read-back"
	nested := map[string]bool{"License": true, "LicenseChoice": true, "Hash": true, "ExternalReference": true}
	c.rule(R, "for the nested CycloneDX value types License, LicenseChoice, Hash and ExternalReference: every field the serializer fills with a non-constant value is a field some function of the CycloneDX reader reads")
	isCDX := func(nt *types.Named) bool {
		return nt != nil && nt.Obj().Pkg() != nil && strings.Contains(nt.Obj().Pkg().Path(), "cyclonedx-go") && nested[nt.Obj().Name()]
	}
	// reader: every field of those types selected anywhere in the reader
	read := map[string]bool{}
	// (every function of the reader's package: helpers handed around as function values are not
	// on the static call paths)
	var readerDecls []*declInfo
	if rd0 := c.decl(R, cdxUnser); rd0 != nil {
		for _, file := range rd0.pkg.Syntax {
			for _, dd := range file.Decls {
				if fd, isFD := dd.(*ast.FuncDecl); isFD && fd.Body != nil {
					obj, _ := rd0.pkg.TypesInfo.Defs[fd.Name].(*types.Func)
					readerDecls = append(readerDecls, &declInfo{fd: fd, pkg: rd0.pkg, obj: obj, name: fd.Name.Name})
				}
			}
		}
	}
	for _, d := range readerDecls {
		ast.Inspect(d.fd.Body, func(n ast.Node) bool {
			sel, ok := n.(*ast.SelectorExpr)
			if !ok {
				return true
			}
			si := d.pkg.TypesInfo.Selections[sel]
			if si == nil || si.Kind() != types.FieldVal {
				return true
			}
			rt := si.Recv()
			if p, isP := rt.(*types.Pointer); isP {
				rt = p.Elem()
			}
			if nt, isN := rt.(*types.Named); isN && isCDX(nt) {
				read[nt.Obj().Name()+"."+sel.Sel.Name] = true
			}
			return true
		})
	}
	n := 0
	seen := map[string]bool{}
	for _, d := range pkgFilter(c.reachDecls(R, cdxSer), "serializers.") {
		for _, fi := range fieldInits(d.pkg, d.fd.Body) {
			if !isCDX(fi.owner) {
				continue
			}
			if _, isC := constOf(d.pkg, fi.value); isC {
				continue
			}
			key := fi.owner.Obj().Name() + "." + fi.field.Name()
			if seen[key] {
				continue
			}
			seen[key] = true
			n++
			c.check(read[key], R, "cdx#"+key, c.P.Pos(fi.pos), "written by the serializer, read by the reader",
				fmt.Sprintf("the serializer writes node content into %s (%s), a field no function of the CycloneDX reader reads: that content does not come back", key, exprText(c.P.Fset, fi.value)))
		}
	}
	c.floor(R, 4, "licence id, hash algorithm and value, external reference fields")
}
